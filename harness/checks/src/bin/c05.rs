//! C05 — the version graph resolves each version to the root plus the diffs on its path.
//!
//! Engine: bounded exhaustive exploration of *directories*. A state is one directory on disk:
//! (graph shape, mapping state of every node, version naming, root form, listing order). Every
//! state is generated from a node-labelled graph: each node carries a mapping state from a small
//! pool, the root file is the root's state printed as Tiny v2 and every edge file `parent#child.tinydiff`
//! is the *reference* diff between the two node states, so every root→v path yields the state of v.
//! The transitions are executions of the real `VersionGraph::{resolve, versions, get, apply_diffs}`
//! (compiled from /repo/src/version_graph.rs through the `fbrshim` crate) on that directory.
//!
//! The oracle is a small reference reading of the directory format written from the property
//! statement (`judge`): it parses the file names, classifies the directory (well-formed, no root,
//! two roots, cycle, unreachable version, inconsistent diff, outside the statement's domain) and, for
//! every version, computes the set of acceptable answers by folding the reference `apply` along
//! every root→version path, followed by the reference inner-class-name extension.
//!
//! Listing order is owned: directories live on tmpfs, whose listing order is a function of the
//! creation order (calibrated at run time); every directory is read back and the observed order is
//! compared with the intended one.
//!
//! A second engine (`c05/histories.rs`) explores the *edit histories*: trees of all sequences of edits
//! (state transformers over one universe, incl. nodes without a target name at every level) up to a
//! stated depth, one tree per directory, plus a few large shapes (chain, fan, ladder of diamonds).
//!
//! A third engine (`c05/texts.rs`) explores the *names and texts* the two others keep constant: every assignment of
//! target names from a small alphabet to a skeleton of classes nested four deep in three places (equal simple names
//! in different outer classes, at every pair of places), texts of every length with a multi-byte last character in
//! every text slot of the mappings and in the version names (accepting and refusing situations), comments made of
//! escapes, files of several read buffers, and the order of the entries inside the files.
//!
//! Clause table (statement / quantifier of C05 → where it is decided, over which space)
//!
//! | clause | decided in | space |
//! |---|---|---|
//! | mappings of a version = root + exactly the diffs on the root→version path, in order | `check_answer` against `judge` (fold of the reference `apply` along every path); `histories::judge_on_disk` against the edit functions | shapes engine: every rooted DAG ≤ 3 versions (quick; all 79 with 4 versions in the light form) / ≤ 4 (thorough; 5 in the light form) × every labelling with k pool states; histories engine: every history of the depth patterns 1,1 / 2 / 2,1 / 1,2 / 1,1,1 (quick; a pattern lists how many edits each edge folds into one diff) + 2,2 / 1,1,1,1 (three roots) / 2,1,1 / 1,2,1 / 1,1,2 (two roots) (thorough) over the edit alphabet from 4 root states; per root the web of all commuting pairs of single steps (versions with two parents); chain of 96/768 edges, fan of 600/6000 children (28 with names from the wild), ladder of 8/12 diamonds |
//! | … followed by inner-class-name extension | `extend_ref` applied to every expected state (all engines); root printed extended and contracted | pool states and history states with classes nested once and twice, outer renamed / inner renamed / nested added / nested nameless; texts engine: the skeleton A, A$B, A$B$C, A$B$C$E, D, D$B, D$B$C, P, P$B × every assignment of target names (2 per top-level class: equal simple names in two packages, a package-less class named like its key; 3 per nested class: `P`, `Q`, the last part of its key) = 5832 states, each the root, the child and the grandchild of a directory; a chain nested 16 deep with one simple name; odd but legal names (`$` in the package part, trailing / leading / doubled `$`); entries inside the files sorted / reversed (inner before outer) / rotated (also in the histories engine) |
//! | texts are characters, not bytes (names, comments, version names; also where an error quotes them) | texts engine `mtext` / `vtext`: answers against the model, refusals demanded, any panic is a violation | k letters + one character of 1/2/3/4 bytes for k ≤ 140 (thorough 300) and fifty multi-byte characters, in 9 slots (comment of class / field / method / parameter, target name of class / nested class / field / method / parameter): edited by a diff (answered) and mis-stated by a diff (refused); the same as version names (k ≤ 110, file names < 255 bytes): well-formed + derived unknown names, second root, loop, unreachable pair, diff that does not fit; 14 comments made of the escapes `\\ \n \r \t \0` next to multi-byte characters at every comment level; root and diff files of > 3 read buffers (8 KiB) of multi-byte comments shifted by 0..8 (thorough 64) bytes |
//! | edit histories: renames, additions, removals, comment edits at every level | `action_census` floors (pool) and `history:edit:<level>.<kind>` floors (histories: add, add with comment, add with members, name on an existing nameless node, rename, remove, comment add/edit/remove × class/field/method/parameter) | see above; composite steps put two edits (also of a node and its member) into one diff |
//! | the answer does not depend on directory listing order | `run_group`: digest of all answers equal over all orders of a group + every order compared with the oracle | all permutations (≤ 5 files) / rotations, reversal, each file first/last for one labelling per shape; sorted, reversed, rotated for all others; histories: three creation orders alternating |
//! | every plain version reachable under its name | `run_group` / `judge_on_disk`: `get(name)` gives that version with `Split::None`, `apply_diffs` the oracle's answer; `versions()` = node set | every naming subset (which versions are split) of every shape; a third of the history versions split; 28 names as in the wild (shortcut table, fixture) or with unusual characters (space, `+`, `$`, `%`, parentheses, non-ASCII, leading dot, `.tiny` inside) in the fan |
//! | every client~server version under either half | same, both halves, `Split::First` / `Split::Second`; the full name may be refused, if accepted it is that version | same |
//! | no root / two roots / cycle / unreachable version are errors | `mutations` + `run_group` (`malformed:<class>:answered`, `…:arbitrary-answer`; floors per class) | every single mutation of every shape: root removed, second root (existing / new version), every cycle-closing extra edge incl. loops and edges into the root, unreachable pair / parent of each version / cycle / renamed root |
//! | unknown version is an error | `run_group`: fixed names + names *derived from the directory* (`derived_unknown_names`: a key with a character more or less, padded, other case, `k~`, `~k`, halves swapped, halves of different versions joined, file names, `a#b`, the short names that the shortcut table `map_shortcut` maps to a version of the directory) must all be refused by `get` | every directory of the shapes engine (derived names: first listing order of each group); shortcut names: the chains through the wild list |
//! | (not in the statement: inconsistent diffs, key collisions, stray files, odd diff/root texts) | `Domain::BadDiff` (answer ∈ results of some path or refusal), `Domain::Outside` (no panic only) | each edge replaced by a refused diff; `outside_domain` |

use std::collections::{BTreeMap, BTreeSet};
use std::path::{Path, PathBuf};
use std::sync::atomic::{AtomicU64, Ordering};
use std::sync::OnceLock;
use fbrshim::vg::{self, SplitKind};
use mapmodel::{row, Act, MClass, MDiff, MField, MMethod, MParam, MSet};
use rayon::prelude::*;
use vcore::{json, Ctx, Stats, Value};

#[path = "c05/histories.rs"]
mod histories;
#[path = "c05/texts.rs"]
mod texts;

// ---------------------------------------------------------------------------------------------
// pool of mapping states (contracted form: a nested class carries its own simple name)

const NS: [&str; 2] = ["official", "named"];
const POOL_SIZE: usize = 6;

fn class(key: &str, named: &str, doc: Option<&str>) -> MClass {
	MClass { names: row(&[Some(key), Some(named)]), doc: doc.map(|s| s.to_owned()), ..Default::default() }
}
fn field(c: &mut MClass, name: &str, desc: &str, named: &str, doc: Option<&str>) {
	c.fields.insert((name.into(), desc.into()), MField { names: row(&[Some(name), Some(named)]), doc: doc.map(|s| s.to_owned()) });
}
fn method(c: &mut MClass, name: &str, desc: &str, named: &str, doc: Option<&str>, params: &[(usize, &str, Option<&str>)]) {
	let mut m = MMethod { names: row(&[Some(name), Some(named)]), doc: doc.map(|s| s.to_owned()), params: BTreeMap::new() };
	for (i, n, d) in params {
		m.params.insert(*i, MParam { names: row(&[None, Some(n)]), doc: d.map(|s| s.to_owned()) });
	}
	c.methods.insert((name.into(), desc.into()), m);
}

/// The pool. State 0 is the base (class A has two fields `f` and two methods `m` that differ in the descriptor only; the
/// other states rename, remove and comment one of the two); 1 = renames and comment edits at every level; 2 = additions at
/// every level; 3 = removals at every level; 4 = comment-only changes and an inner rename;
/// 5 = removal of whole subtrees plus changes below a nested class. Every ordered pair of states
/// occurs as an edge of some directory, so every edit kind occurs in both directions and in mixtures.
fn pool() -> Vec<MSet> {
	let base = || {
		let mut s = MSet::new(&NS);
		let mut a = class("A", "pkg/Alpha", Some("class A"));
		field(&mut a, "f", "I", "fieldF", Some("field f"));
		method(&mut a, "m", "(I)V", "methodM", Some("method m"), &[(0, "p0", Some("param 0"))]);
		// overloads: the same names with other descriptors are other members
		field(&mut a, "f", "J", "fieldFJ", None);
		method(&mut a, "m", "(J)V", "methodMJ", None, &[(0, "pj", None)]);
		s.classes.insert("A".into(), a);
		let mut b = class("A$B", "Beta", None);
		field(&mut b, "g", "LA$B;", "fieldG", None);
		s.classes.insert("A$B".into(), b);
		s.classes.insert("A$B$C".into(), class("A$B$C", "Gamma", None));
		s.classes.insert("D".into(), class("D", "pkg/Delta", None));
		s
	};
	let s0 = base();

	let mut s1 = MSet::new(&NS);
	{
		let mut a = class("A", "pkg2/Alpha2", Some("class A, edited"));
		field(&mut a, "f", "I", "fieldF2", Some("field f, edited"));
		method(&mut a, "m", "(I)V", "methodM2", Some("method m, edited"), &[(0, "p0x", Some("param 0, edited"))]);
		s1.classes.insert("A".into(), a);
		let mut b = class("A$B", "Beta2", None);
		field(&mut b, "g", "LA$B;", "fieldG", None);
		s1.classes.insert("A$B".into(), b);
		s1.classes.insert("A$B$C".into(), class("A$B$C", "Gamma", None));
		s1.classes.insert("D".into(), class("D", "pkg/Delta", None));
	}

	let mut s2 = base();
	{
		s2.classes.insert("E".into(), class("E", "pkg/Eps", Some("class E")));
		s2.classes.insert("D$I".into(), class("D$I", "Iota", None));
		let b = s2.classes.get_mut("A$B").unwrap_or_else(|| fail("pool"));
		field(b, "h", "J", "fieldH", Some("field h"));
		let d = s2.classes.get_mut("D").unwrap_or_else(|| fail("pool"));
		method(d, "n", "()V", "methodN", Some("method n"), &[(1, "q1", Some("param 1"))]);
		let a = s2.classes.get_mut("A").unwrap_or_else(|| fail("pool"));
		a.methods.get_mut(&("m".to_owned(), "(I)V".to_owned())).unwrap_or_else(|| fail("pool")).params.insert(1, MParam { names: row(&[None, Some("p1")]), doc: None });
		// of two overloads one renamed
		a.methods.get_mut(&("m".to_owned(), "(J)V".to_owned())).unwrap_or_else(|| fail("pool")).names[1] = Some("methodMJ2".into());
		a.fields.get_mut(&("f".to_owned(), "J".to_owned())).unwrap_or_else(|| fail("pool")).names[1] = Some("fieldFJ2".into());
		s2.classes.get_mut("A$B$C").unwrap_or_else(|| fail("pool")).doc = Some("class C\nsecond line".into());
	}

	let mut s3 = base();
	{
		s3.classes.remove("A$B$C");
		let a = s3.classes.get_mut("A").unwrap_or_else(|| fail("pool"));
		a.doc = None;
		a.fields.get_mut(&("f".to_owned(), "I".to_owned())).unwrap_or_else(|| fail("pool")).doc = None;
		let m = a.methods.get_mut(&("m".to_owned(), "(I)V".to_owned())).unwrap_or_else(|| fail("pool"));
		m.doc = None;
		m.params.get_mut(&0).unwrap_or_else(|| fail("pool")).doc = None;
		// one of two overloads removed
		a.fields.remove(&("f".to_owned(), "J".to_owned()));
		a.methods.remove(&("m".to_owned(), "(J)V".to_owned()));
	}

	let mut s4 = base();
	{
		let a = s4.classes.get_mut("A").unwrap_or_else(|| fail("pool"));
		a.doc = Some("class A\nwith a second line".into());
		a.fields.clear();
		let m = a.methods.get_mut(&("m".to_owned(), "(I)V".to_owned())).unwrap_or_else(|| fail("pool"));
		m.doc = Some("method m, other words".into());
		m.params.clear();
		// the other overload gets the comment the first one had
		a.methods.get_mut(&("m".to_owned(), "(J)V".to_owned())).unwrap_or_else(|| fail("pool")).doc = Some("method m".into());
		s4.classes.get_mut("A$B$C").unwrap_or_else(|| fail("pool")).names[1] = Some("Gamma2".into());
		s4.classes.get_mut("D").unwrap_or_else(|| fail("pool")).doc = Some("class D".into());
	}

	let mut s5 = base();
	{
		s5.classes.remove("D");
		let a = s5.classes.get_mut("A").unwrap_or_else(|| fail("pool"));
		a.methods.clear();
		let b = s5.classes.get_mut("A$B").unwrap_or_else(|| fail("pool"));
		b.fields.get_mut(&("g".to_owned(), "LA$B;".to_owned())).unwrap_or_else(|| fail("pool")).names[1] = Some("fieldG2".into());
		b.doc = Some("class B".into());
		let mut c = class("A$B$C", "Gamma", Some("class C"));
		method(&mut c, "<init>", "(LA$B;)V", "<init>", None, &[(1, "outer", None)]);
		s5.classes.insert("A$B$C".into(), c);
	}
	vec![s0, s1, s2, s3, s4, s5]
}

// ---------------------------------------------------------------------------------------------
// reference inner-class-name extension (from the C11 statement)

/// `Outer$Inner` → (`Outer`, `Inner`): the last `$` of the last `/`-separated section, both sides non-empty
fn split_nested(key: &str) -> Option<(&str, &str)> {
	let (outer, inner) = key.rsplit_once('$')?;
	if outer.is_empty() || inner.is_empty() || outer.ends_with('/') || inner.contains('/') {
		return None;
	}
	Some((outer, inner))
}

fn extended_name(s: &MSet, key: &str) -> Result<Option<String>, String> {
	let c = s.classes.get(key).ok_or_else(|| format!("outer class {key:?} is not in the set"))?;
	let Some(own) = c.names[1].clone() else { return Ok(None) };
	match split_nested(key) {
		None => Ok(Some(own)),
		Some((outer, _)) => {
			let o = extended_name(s, outer)?.ok_or_else(|| format!("outer class {outer:?} has no name"))?;
			Ok(Some(format!("{o}${own}")))
		},
	}
}

/// a nested class's target name becomes extended-name-of-outer + `$` + its own simple name; all else untouched
fn extend_ref(s: &MSet) -> Result<MSet, String> {
	let mut out = s.clone();
	for (k, c) in out.classes.iter_mut() {
		c.names[1] = extended_name(s, k)?;
	}
	Ok(out)
}

// ---------------------------------------------------------------------------------------------
// texts of the pool

struct Texts {
	states: Vec<MSet>,
	ext: Vec<MSet>,
	root_ext: Vec<String>,
	root_con: Vec<String>,
	mdiff: Vec<Vec<MDiff>>,
	diff: Vec<Vec<String>>,
}

fn texts() -> Texts {
	let states = pool();
	if states.len() != POOL_SIZE {
		fail("pool size");
	}
	let mut ext = Vec::new();
	for (i, s) in states.iter().enumerate() {
		s.check().unwrap_or_else(|e| fail(&format!("pool state {i}: {e}")));
		let e = extend_ref(s).unwrap_or_else(|e| fail(&format!("pool state {i} cannot be extended: {e}")));
		if &e == s {
			fail(&format!("pool state {i}: extension is not observable"));
		}
		// the reference Tiny reader agrees with the reference printer on both forms
		for form in [s, &e] {
			let back = mapmodel::tiny::parse(&mapmodel::tiny::print(form)).unwrap_or_else(|e| fail(&format!("pool state {i}: {e:?}")));
			if &back != form {
				fail(&format!("pool state {i}: reference print/parse disagree"));
			}
		}
		ext.push(e);
	}
	let mut mdiff = Vec::new();
	let mut diff = Vec::new();
	for (i, a) in states.iter().enumerate() {
		let mut mrow = Vec::new();
		let mut trow = Vec::new();
		for (j, b) in states.iter().enumerate() {
			let d = prune(mapmodel::diff::diff(a, b).unwrap_or_else(|| fail(&format!("pool: no diff {i}->{j}"))));
			if !mapmodel::diff::printable(&d) {
				fail(&format!("pool: diff {i}->{j} is not printable"));
			}
			let e = mapmodel::diff::apply(&d, a, 1);
			if e.result.as_ref() != Some(b) || e.may_refuse {
				fail(&format!("pool: reference apply(diff({i},{j}), {i}) != {j}"));
			}
			if i != j && states[i] == states[j] {
				fail("pool states are not distinct");
			}
			trow.push(mapmodel::diff::print(&d));
			mrow.push(d);
		}
		mdiff.push(mrow);
		diff.push(trow);
	}
	Texts {
		root_ext: ext.iter().map(mapmodel::tiny::print).collect(),
		root_con: states.iter().map(mapmodel::tiny::print).collect(),
		states,
		ext,
		mdiff,
		diff,
	}
}

/// `mapmodel::diff::diff` states an unchanged comment as `Edit(x, x)`; a diff file leaves unchanged things out
fn prune(mut d: MDiff) -> MDiff {
	fn fix(a: &mut Act) {
		if let Act::Edit(x, y) = a {
			if x == y {
				*a = Act::None;
			}
		}
	}
	fix(&mut d.doc);
	for c in d.classes.values_mut() {
		fix(&mut c.doc);
		for f in c.fields.values_mut() {
			fix(&mut f.doc);
		}
		c.fields.retain(|_, f| !f.info.is_none() || !f.doc.is_none());
		for m in c.methods.values_mut() {
			fix(&mut m.doc);
			for p in m.params.values_mut() {
				fix(&mut p.doc);
			}
			m.params.retain(|_, p| !p.info.is_none() || !p.doc.is_none());
		}
		c.methods.retain(|_, m| !m.info.is_none() || !m.doc.is_none() || !m.params.is_empty());
	}
	d.classes.retain(|_, c| !c.info.is_none() || !c.doc.is_none() || !c.fields.is_empty() || !c.methods.is_empty());
	d
}

/// counts the action kinds per level over the diffs between the first `k` pool states
fn action_census(t: &Texts, k: usize) -> BTreeMap<String, u64> {
	let mut m: BTreeMap<String, u64> = BTreeMap::new();
	let mut add = |level: &str, a: &Act| {
		if !a.is_none() {
			*m.entry(format!("{level}:{}", a.kind())).or_insert(0) += 1;
		}
	};
	for i in 0..k {
		for j in 0..k {
			for c in t.mdiff[i][j].classes.values() {
				add("class.name", &c.info);
				add("class.comment", &c.doc);
				for f in c.fields.values() {
					add("field.name", &f.info);
					add("field.comment", &f.doc);
				}
				for me in c.methods.values() {
					add("method.name", &me.info);
					add("method.comment", &me.doc);
					for p in me.params.values() {
						add("parameter.name", &p.info);
						add("parameter.comment", &p.doc);
					}
				}
			}
		}
	}
	m
}

// ---------------------------------------------------------------------------------------------
// directories

#[derive(Clone, Debug, PartialEq, Eq, Hash, PartialOrd, Ord)]
enum Content {
	/// the root mappings: pool state, printed extended (true) or contracted (false)
	Root { state: usize, extended: bool },
	/// the reference diff between two pool states
	Diff { from: usize, to: usize },
	/// arbitrary bytes
	Raw(Vec<u8>),
	/// a sub-directory with this name
	Dir,
}

#[derive(Clone, Debug, PartialEq, Eq, Hash, PartialOrd, Ord)]
struct FileSpec {
	name: String,
	content: Content,
}

impl FileSpec {
	fn bytes<'a>(&'a self, t: &'a Texts) -> &'a [u8] {
		match &self.content {
			Content::Root { state, extended: true } => t.root_ext[*state].as_bytes(),
			Content::Root { state, extended: false } => t.root_con[*state].as_bytes(),
			Content::Diff { from, to } => t.diff[*from][*to].as_bytes(),
			Content::Raw(b) => b,
			Content::Dir => b"",
		}
	}
	fn replay_line(&self) -> String {
		match &self.content {
			Content::Root { state, extended } => format!("F\t{}\troot\t{}\t{}", self.name, state, if *extended { "ext" } else { "con" }),
			Content::Diff { from, to } => format!("F\t{}\tdiff\t{}\t{}", self.name, from, to),
			Content::Raw(b) => format!("F\t{}\traw\t{}", self.name, vcore::hex(b)),
			Content::Dir => format!("F\t{}\tdir", self.name),
		}
	}
}

#[derive(Clone, Copy, Debug, PartialEq, Eq, Hash, PartialOrd, Ord)]
enum Domain {
	WellFormed,
	NoRoot,
	TwoRoots,
	Cycle,
	Unreachable,
	BadDiff,
	/// every path is consistent in itself, but two root→version paths give different mappings
	Ambiguous,
	Outside,
}

impl Domain {
	fn name(self) -> &'static str {
		match self {
			Domain::WellFormed => "well-formed",
			Domain::NoRoot => "no-root",
			Domain::TwoRoots => "two-roots",
			Domain::Cycle => "cycle",
			Domain::Unreachable => "unreachable",
			Domain::BadDiff => "bad-diff",
			Domain::Ambiguous => "ambiguous-paths",
			Domain::Outside => "outside-domain",
		}
	}
}

#[derive(Clone, Debug)]
struct NodeExp {
	/// acceptable successful answers (extended form); empty: the version must be refused
	ok: Vec<MSet>,
	/// may the version be refused?
	err_ok: bool,
	keys: Vec<(String, SplitKind)>,
}

/// What the statement says about one directory.
#[derive(Clone, Debug)]
struct Sem {
	domain: Domain,
	nodes: BTreeMap<String, NodeExp>,
	root: Option<(String, usize)>,
	cycle_through_root: bool,
	/// two roots: do two of the root files name versions that share a lookup key (`a~b.tiny` next to `a.tiny`)?
	colliding_roots: bool,
}

fn valid_version(name: &str) -> bool {
	if name.is_empty() || name.contains('#') || name.contains('/') {
		return false;
	}
	match name.split_once('~') {
		None => true,
		Some((a, b)) => !a.is_empty() && !b.is_empty() && !b.contains('~'),
	}
}

fn keys_of(name: &str) -> Vec<(String, SplitKind)> {
	match name.split_once('~') {
		None => vec![(name.to_owned(), SplitKind::None)],
		Some((a, b)) => vec![(a.to_owned(), SplitKind::First), (b.to_owned(), SplitKind::Second)],
	}
}

/// one application of the edge diff `from → to` to the current state, by the reference semantics
fn ref_step(t: &Texts, cur: &MSet, from: usize, to: usize) -> Option<(MSet, bool)> {
	if cur == &t.states[from] {
		return Some((t.states[to].clone(), false));
	}
	let e = mapmodel::diff::apply(&t.mdiff[from][to], cur, 1);
	e.result.map(|r| (r, e.may_refuse))
}

/// The reference reading of a directory: file names per the statement (`<version>.tiny` is the
/// root, `<parent>#<child>.tinydiff` an edge, `client~server` versions answer to either half).
fn judge(t: &Texts, files: &[FileSpec]) -> Sem {
	let mut roots: Vec<(String, usize)> = Vec::new();
	let mut edges: Vec<(String, String, usize, usize)> = Vec::new();
	let mut outside = false;
	for f in files {
		if let Some(v) = f.name.strip_suffix(".tiny") {
			match &f.content {
				Content::Root { state, .. } => roots.push((v.to_owned(), *state)),
				_ => outside = true,
			}
		} else if let Some(pc) = f.name.strip_suffix(".tinydiff") {
			let parts: Vec<&str> = pc.split('#').collect();
			match (&parts[..], &f.content) {
				([p, c], Content::Diff { from, to }) => edges.push((p.to_string(), c.to_string(), *from, *to)),
				_ => outside = true,
			}
		} else {
			outside = true;
		}
	}
	let mut names: BTreeSet<String> = BTreeSet::new();
	for (v, _) in &roots {
		names.insert(v.clone());
	}
	for (p, c, _, _) in &edges {
		names.insert(p.clone());
		names.insert(c.clone());
	}
	let mut key_owner: BTreeMap<String, String> = BTreeMap::new();
	// two distinct versions share a lookup key
	let mut collision = false;
	for n in &names {
		if !valid_version(n) {
			outside = true;
			continue;
		}
		for (k, _) in keys_of(n) {
			if let Some(o) = key_owner.insert(k, n.clone()) {
				if &o != n {
					collision = true;
				}
			}
		}
	}
	let mut sem = Sem { domain: Domain::Outside, nodes: BTreeMap::new(), root: None, cycle_through_root: false, colliding_roots: false };
	for n in &names {
		sem.nodes.insert(n.clone(), NodeExp { ok: vec![], err_ok: true, keys: if valid_version(n) { keys_of(n) } else { vec![] } });
	}
	if outside {
		return sem;
	}
	if roots.len() > 1 {
		// Two root files are two roots whatever their names are: also when the names share a lookup key
		// (`a~b.tiny` next to `a.tiny`, `b.tiny`, `a~c.tiny`, `c~b.tiny`, `b~a.tiny`) no reading of the
		// directory makes one of the two files *the* root.
		sem.domain = Domain::TwoRoots;
		sem.colliding_roots = roots.iter().enumerate().any(|(i, (a, _))| roots.iter().skip(i + 1).any(|(b, _)| keys_of(a).iter().any(|(k, _)| keys_of(b).iter().any(|(l, _)| k == l))));
		return sem;
	}
	if collision {
		// "reachable under its name / either half" cannot hold for both versions: outside the statement
		return sem;
	}
	if roots.is_empty() {
		sem.domain = Domain::NoRoot;
		return sem;
	}
	let (root, root_state) = roots[0].clone();
	sem.root = Some((root.clone(), root_state));
	let mut adj: BTreeMap<&str, Vec<(&str, usize, usize)>> = BTreeMap::new();
	for (p, c, from, to) in &edges {
		adj.entry(p.as_str()).or_default().push((c.as_str(), *from, *to));
	}
	// nodes reachable from `start`; with `proper`, through at least one edge
	let reach_from = |start: &str, proper: bool| -> BTreeSet<String> {
		let mut seen: BTreeSet<String> = BTreeSet::new();
		if !proper {
			seen.insert(start.to_owned());
		}
		let mut stack: Vec<&str> = vec![start];
		while let Some(x) = stack.pop() {
			for (c, _, _) in adj.get(x).map(|v| v.as_slice()).unwrap_or(&[]) {
				if seen.insert((*c).to_owned()) {
					stack.push(c);
				}
			}
		}
		seen
	};
	let reach = reach_from(&root, false);
	// nodes on a cycle (reach themselves through at least one edge) and everything downstream of them
	let mut cyc: BTreeSet<String> = BTreeSet::new();
	for v in &reach {
		if reach_from(v, true).contains(v) {
			cyc.insert(v.clone());
			cyc.extend(reach_from(v, false));
		}
	}
	sem.cycle_through_root = cyc.contains(&root);
	let unreachable: Vec<&String> = names.iter().filter(|n| !reach.contains(*n)).collect();

	// fold along every simple root→v path that stays outside the cyclic part
	let mut all_plain = true;
	let mut any_refusal = false;
	for v in &names {
		if !reach.contains(v) || cyc.contains(v) {
			continue;
		}
		let mut outcomes: Vec<Option<(MSet, bool)>> = Vec::new();
		fn walk<'a>(t: &Texts, adj: &BTreeMap<&'a str, Vec<(&'a str, usize, usize)>>, cyc: &BTreeSet<String>, at: &'a str, target: &str, cur: Option<(MSet, bool)>, path: &mut Vec<&'a str>, out: &mut Vec<Option<(MSet, bool)>>) {
			if at == target {
				out.push(cur);
				return;
			}
			for (c, from, to) in adj.get(at).map(|v| v.as_slice()).unwrap_or(&[]) {
				if path.contains(c) || cyc.contains(*c) {
					continue;
				}
				let next = cur.as_ref().and_then(|(m, soft)| ref_step(t, m, *from, *to).map(|(r, s)| (r, s || *soft)));
				path.push(c);
				walk(t, adj, cyc, c, target, next, path, out);
				path.pop();
			}
		}
		let mut path = vec![root.as_str()];
		walk(t, &adj, &cyc, root.as_str(), v.as_str(), Some((t.states[root_state].clone(), false)), &mut path, &mut outcomes);
		let e = sem.nodes.get_mut(v).unwrap_or_else(|| fail("judge"));
		let mut refusals = 0;
		for o in outcomes {
			match o.and_then(|(m, soft)| extend_ref(&m).ok().map(|x| (x, soft))) {
				Some((x, soft)) => {
					if soft {
						refusals += 1;
					}
					if !e.ok.contains(&x) {
						e.ok.push(x);
					}
				},
				None => refusals += 1,
			}
		}
		if refusals > 0 || e.ok.len() != 1 {
			all_plain = false;
		}
		if refusals > 0 || e.ok.is_empty() {
			any_refusal = true;
		}
	}
	sem.domain = if !cyc.is_empty() {
		Domain::Cycle
	} else if !unreachable.is_empty() {
		Domain::Unreachable
	} else if !all_plain && !any_refusal {
		Domain::Ambiguous
	} else if !all_plain {
		Domain::BadDiff
	} else {
		Domain::WellFormed
	};
	if sem.domain == Domain::WellFormed {
		for e in sem.nodes.values_mut() {
			e.err_ok = false;
		}
	}
	sem
}

// ---------------------------------------------------------------------------------------------
// scratch space and listing order

#[derive(Clone, Copy, Debug, PartialEq, Eq)]
enum ListMode {
	/// the directory lists in creation order
	Forward,
	/// the directory lists in reverse creation order
	Reverse,
	/// no dependable relation
	Uncontrolled,
}

static SCRATCH: OnceLock<PathBuf> = OnceLock::new();

extern "C" fn cleanup_at_exit() {
	if let Some(p) = SCRATCH.get() {
		let _ = std::fs::remove_dir_all(p);
	}
}

fn fail(msg: &str) -> ! {
	// `machinery_fail` exits; the atexit handler removes the scratch space
	vcore::machinery_fail(msg)
}

fn listing(dir: &Path) -> Vec<String> {
	let mut out = Vec::new();
	let rd = std::fs::read_dir(dir).unwrap_or_else(|e| fail(&format!("cannot list {dir:?}: {e}")));
	for e in rd {
		let e = e.unwrap_or_else(|e| fail(&format!("cannot list {dir:?}: {e}")));
		out.push(e.file_name().to_string_lossy().into_owned());
	}
	out
}

fn calibrate(base: &Path) -> ListMode {
	let mut verdicts = BTreeSet::new();
	for round in 0..3 {
		let d = base.join(format!("calibrate-{round}"));
		std::fs::create_dir(&d).unwrap_or_else(|e| fail(&format!("cannot create {d:?}: {e}")));
		let names: Vec<String> = ["m", "a", "z", "c#d", "b", "y~x", "k"].iter().map(|s| format!("{s}.{round}")).collect();
		for n in &names {
			std::fs::write(d.join(n), b"x").unwrap_or_else(|e| fail(&format!("cannot write in {d:?}: {e}")));
		}
		let seen = listing(&d);
		let rev: Vec<String> = names.iter().rev().cloned().collect();
		verdicts.insert(if seen == names { 0 } else if seen == rev { 1 } else { 2 });
		let _ = std::fs::remove_dir_all(&d);
	}
	match verdicts.into_iter().collect::<Vec<_>>()[..] {
		[0] => ListMode::Forward,
		[1] => ListMode::Reverse,
		_ => ListMode::Uncontrolled,
	}
}

/// removes scratch roots left behind by checker processes that no longer exist
fn sweep_stale(parent: &Path) {
	let Ok(rd) = std::fs::read_dir(parent) else { return };
	for e in rd.flatten() {
		let name = e.file_name().to_string_lossy().into_owned();
		if let Some(pid) = name.strip_prefix("verif-c05-") {
			if pid.parse::<u32>().is_ok() && !Path::new(&format!("/proc/{pid}")).exists() {
				let _ = std::fs::remove_dir_all(e.path());
			}
		}
	}
}

fn scratch() -> (PathBuf, ListMode, bool) {
	let pid = std::process::id();
	for (parent, tmpfs) in [(PathBuf::from("/dev/shm"), true), (vcore::verif_root().join("harness/target/tmp"), false)] {
		if !tmpfs {
			let _ = std::fs::create_dir_all(&parent);
		}
		sweep_stale(&parent);
		let root = parent.join(format!("verif-c05-{pid}"));
		let _ = std::fs::remove_dir_all(&root);
		if std::fs::create_dir(&root).is_err() {
			continue;
		}
		let _ = SCRATCH.set(root.clone());
		// SAFETY: registering a plain `extern "C"` function without captured state
		unsafe {
			libc::atexit(cleanup_at_exit);
		}
		let mode = calibrate(&root);
		if tmpfs && mode == ListMode::Uncontrolled {
			// tmpfs that does not list by creation order: keep it, but report honestly
			return (root, mode, true);
		}
		return (root, mode, tmpfs);
	}
	fail("no writable scratch space");
}

fn materialize(t: &Texts, dir: &Path, files: &[FileSpec], order: &[usize], mode: ListMode) {
	std::fs::create_dir(dir).unwrap_or_else(|e| fail(&format!("cannot create {dir:?}: {e}")));
	let seq: Vec<usize> = match mode {
		ListMode::Reverse => order.iter().rev().copied().collect(),
		_ => order.to_vec(),
	};
	for i in seq {
		let f = &files[i];
		let p = dir.join(&f.name);
		match f.content {
			Content::Dir => std::fs::create_dir(&p),
			_ => std::fs::write(&p, f.bytes(t)),
		}.unwrap_or_else(|e| fail(&format!("cannot create {p:?}: {e}")));
	}
}

fn dematerialize(dir: &Path, files: &[FileSpec]) {
	for f in files {
		let p = dir.join(&f.name);
		let _ = match f.content {
			Content::Dir => std::fs::remove_dir(&p),
			_ => std::fs::remove_file(&p),
		};
	}
	if std::fs::remove_dir(dir).is_err() {
		let _ = std::fs::remove_dir_all(dir);
	}
}

// ---------------------------------------------------------------------------------------------
// observation of the real code

type Answer = Result<Result<MSet, String>, String>;

#[derive(Clone, Debug, Default)]
struct Obs {
	listing: Vec<String>,
	resolve_err: Option<String>,
	versions: Vec<String>,
	gets: BTreeMap<String, Result<(SplitKind, String), String>>,
	/// `get` of names derived from the directory that no file names (not part of the digest)
	unknown_gets: BTreeMap<String, Option<String>>,
	applies: BTreeMap<String, Answer>,
	nth: Vec<(String, Answer)>,
	panics: Vec<(String, vcore::Panic)>,
	calls: u64,
}

fn project(r: anyhow::Result<vg::VersionMappings>) -> Answer {
	match r {
		Ok(m) => Ok(mapmodel::from_quill(&m).map_err(|k| k.0)),
		Err(e) => Err(format!("{e:#}")),
	}
}

fn observe(dir: &Path, queries: &[String], unknown: &[String]) -> Obs {
	let mut o = Obs { listing: listing(dir), ..Default::default() };
	o.calls += 1;
	let g = match vcore::guard(|| vg::resolve(dir)) {
		Ok(Ok(g)) => g,
		Ok(Err(e)) => {
			o.resolve_err = Some(format!("{e:#}"));
			return o;
		},
		Err(p) => {
			o.panics.push(("resolve".into(), p));
			o.resolve_err = Some("panic".into());
			return o;
		},
	};
	o.calls += 1;
	match vcore::guard(|| g.versions()) {
		Ok(v) => o.versions = v.into_iter().map(|(n, _)| n).collect(),
		Err(p) => o.panics.push(("versions".into(), p)),
	}
	for q in queries {
		o.calls += 1;
		match vcore::guard(|| g.get(q)) {
			Ok(r) => {
				let ok = r.is_ok();
				o.gets.insert(q.clone(), r.map_err(|e| format!("{e:#}")));
				if ok {
					o.calls += 1;
					match vcore::guard(|| project(g.apply_diffs(q))) {
						Ok(a) => {
							o.applies.insert(q.clone(), a);
						},
						Err(p) => o.panics.push((format!("apply_diffs({q:?})"), p)),
					}
				}
			},
			Err(p) => o.panics.push((format!("get({q:?})"), p)),
		}
	}
	for u in unknown {
		o.calls += 1;
		match vcore::guard(|| g.get(u)) {
			Ok(r) => {
				o.unknown_gets.insert(u.clone(), r.ok().map(|(_, n)| n));
			},
			Err(p) => o.panics.push((format!("get({u:?})"), p)),
		}
	}
	for (i, name) in o.versions.clone().into_iter().enumerate() {
		o.calls += 1;
		match vcore::guard(|| g.apply_diffs_nth(i).map(project)) {
			Ok(Some(a)) => o.nth.push((name, a)),
			Ok(None) => {},
			Err(p) => o.panics.push((format!("apply_diffs(versions()[{i}])"), p)),
		}
	}
	o
}

impl Obs {
	/// what was answered, without error texts (they name the scratch directory) and without iteration order
	fn digest(&self) -> u64 {
		let mut versions = self.versions.clone();
		versions.sort();
		let gets: Vec<(&String, Option<&(SplitKind, String)>)> = self.gets.iter().map(|(k, v)| (k, v.as_ref().ok())).collect();
		let applies: Vec<(&String, Option<&Result<MSet, String>>)> = self.applies.iter().map(|(k, v)| (k, v.as_ref().ok())).collect();
		let mut nth: Vec<(&String, Option<&Result<MSet, String>>)> = self.nth.iter().map(|(k, v)| (k, v.as_ref().ok())).collect();
		nth.sort();
		vcore::hash64(&(self.resolve_err.is_none(), versions, gets, applies, nth, self.panics.len()))
	}
}

// ---------------------------------------------------------------------------------------------
// groups of cases: one file set, several listing orders

#[derive(Clone, Debug)]
struct Group {
	label: String,
	/// the class the generator meant to produce (cross-checked against the reference reading)
	intended: Domain,
	/// sorted by name
	files: Vec<FileSpec>,
	/// intended listing orders: permutations of indices into `files`
	orders: Vec<Vec<usize>>,
	diamond: bool,
}

const UNKNOWN_NAMES: [&str; 4] = ["9.9", "", "1.3x", "s0.3~1.3"];

fn queries_of(sem: &Sem) -> Vec<String> {
	let mut q: BTreeSet<String> = BTreeSet::new();
	for (n, e) in &sem.nodes {
		q.insert(n.clone());
		for (k, _) in &e.keys {
			q.insert(k.clone());
		}
	}
	for u in UNKNOWN_NAMES {
		q.insert(u.to_owned());
	}
	q.into_iter().collect()
}

/// Pairs (short, long) of the shortcut table of version_graph.rs (`map_shortcut`, which callers apply before `get`)
/// whose long form is one of the names of the wild list. In a directory that has the long version and not the short
/// one, the short name is the name of no version. Checked against the real table at start (`check_shortcuts`).
const SHORTCUTS: [(&str, &str); 12] = [
	("a1.0.15", "a1.0.15~server-a0.1.0"), ("server-a0.1.1", "a1.0.16~server-a0.1.1-1707"), ("b1.8-pre1-client", "b1.8-pre1-201109081459"),
	("b1.3-client", "b1.3-1750-client"), ("12w05a", "12w05a-1442"), ("1.0", "1.0.0"), ("1.3", "1.3-pre-07261249"), ("2point0_red", "af-2013-red"),
	("13w16a", "13w16a-04192037"), ("1.12-pre3", "1.12-pre3-1409"), ("1.4", "1.4-pre"), ("15w14a", "af-2015"),
];

fn check_shortcuts() {
	for (short, long) in SHORTCUTS {
		if vg::map_shortcut(short) != long {
			fail(&format!("the shortcut table no longer maps {short:?} to {long:?}: update SHORTCUTS"));
		}
	}
}

/// Names that no file of the directory defines, derived from the names it does define: what a lookup that
/// is not exact (prefix, trimmed, case-folded, cut at `~`, by file name, …) would wrongly accept.
fn derived_unknown_names(sem: &Sem) -> Vec<String> {
	let mut q: BTreeSet<String> = BTreeSet::new();
	let names: Vec<&String> = sem.nodes.keys().collect();
	for (n, e) in &sem.nodes {
		for (k, _) in &e.keys {
			q.insert(format!("{k}x"));
			q.insert(format!(" {k}"));
			q.insert(format!("{k} "));
			q.insert(format!("{k}\n"));
			q.insert(format!("{k}~"));
			q.insert(format!("~{k}"));
			q.insert(format!("{k}~{k}"));
			q.insert(format!("{k}.tiny"));
			q.insert(format!("{k}.tinydiff"));
			q.insert(k.to_uppercase());
			q.insert(k.to_lowercase());
			let mut shorter: Vec<char> = k.chars().collect();
			shorter.pop();
			q.insert(shorter.iter().collect());
			q.insert(k.chars().skip(1).collect());
		}
		if let Some((a, b)) = n.split_once('~') {
			q.insert(format!("{b}~{a}"));
			q.insert(format!("{a}~zz"));
			q.insert(format!("zz~{b}"));
			q.insert(format!("{a}-{b}"));
			q.insert(format!("{a}{b}"));
			q.insert(format!("{n}~{b}"));
		}
		q.insert(format!("{n}.tiny"));
	}
	for a in &names {
		for b in &names {
			if a != b {
				q.insert(format!("{a}#{b}"));
				q.insert(format!("{a}#{b}.tinydiff"));
				let ca = a.split_once('~').map_or(a.as_str(), |x| x.0);
				let sb = b.split_once('~').map_or(b.as_str(), |x| x.1);
				q.insert(format!("{ca}~{sb}"));
			}
		}
	}
	for (short, long) in SHORTCUTS {
		if sem.nodes.contains_key(long) {
			q.insert(short.to_owned());
		}
	}
	q.retain(|u| !sem.nodes.contains_key(u) && !sem.nodes.values().any(|e| e.keys.iter().any(|(k, _)| k == u)));
	q.into_iter().collect()
}

fn replay_text(t: &Texts, g: &Group, order: &[usize], sem: &Sem, obs: Option<&Obs>) -> String {
	let mut s = format!("group={}\nclass={}\npool_size={}\nintended listing order (first listed first):\n", g.label, sem.domain.name(), POOL_SIZE);
	for &i in order {
		s.push_str(&g.files[i].replay_line());
		s.push('\n');
	}
	if let Some(o) = obs {
		s.push_str(&format!("observed listing: {:?}\nresolve: {}\nversions(): {:?}\n", o.listing, o.resolve_err.as_deref().unwrap_or("Ok"), o.versions));
		for (k, r) in &o.gets {
			s.push_str(&format!("get({k:?}) = {}\n", match r {
				Ok((split, n)) => format!("Ok(({split:?}, {n:?}))"),
				Err(e) => format!("Err({e})"),
			}));
		}
		for (k, r) in &o.unknown_gets {
			if let Some(n) = r {
				s.push_str(&format!("get({k:?}) (no file names this version) = Ok({n:?})\n"));
			}
		}
		for (k, r) in &o.applies {
			s.push_str(&format!("apply_diffs(get({k:?})) = {}\n", match r {
				Ok(Ok(m)) => format!("Ok:\n{}", mapmodel::tiny::print(m)),
				Ok(Err(k)) => format!("Ok with broken key invariant: {k}"),
				Err(e) => format!("Err({e})"),
			}));
		}
	}
	s.push_str("expected per version:\n");
	for (n, e) in &sem.nodes {
		s.push_str(&format!("  {n:?}: keys {:?}, {}{}\n", e.keys, if e.ok.is_empty() { "must be refused".to_owned() } else { format!("{} acceptable answer(s)", e.ok.len()) }, if e.err_ok && !e.ok.is_empty() { ", may be refused" } else { "" }));
		for m in &e.ok {
			s.push_str(&mapmodel::tiny::print(m));
		}
	}
	s.push_str("file contents:\n");
	for f in &g.files {
		s.push_str(&format!("--- {}\n{}", f.name, String::from_utf8_lossy(f.bytes(t))));
	}
	s
}

struct Run<'a> {
	ctx: &'a Ctx,
	t: &'a Texts,
	root: &'a Path,
	mode: ListMode,
	counter: &'a AtomicU64,
}

/// compares one answer with the expectation of its version; returns true if the version was refused
fn check_answer(run: &Run, st: &mut Stats, sem: &Sem, node: &str, how: &str, a: &Answer, rp: &dyn Fn() -> String) -> bool {
	let Some(e) = sem.nodes.get(node) else { return false };
	let class = sem.domain.name();
	match a {
		Err(_) => {
			if !e.err_ok {
				run.ctx.diff("wellformed:apply-refused", &format!("apply_diffs refused version {node:?} (reached by {how}) of a well-formed directory: {}", a.as_ref().err().map(|s| s.as_str()).unwrap_or("")), rp);
			}
			true
		},
		Ok(Err(k)) => {
			run.ctx.diff("resolve:key-invariant", &format!("mappings reported for {node:?} break the key invariant: {k}"), rp);
			false
		},
		Ok(Ok(m)) => {
			if e.ok.contains(m) {
				st.outcome("answers-equal-to-oracle");
				if sem.domain == Domain::Ambiguous && e.ok.len() > 1 {
					st.outcome(&format!("ambiguous:answered-with-the-fold-of-one-path:{}", e.ok.iter().position(|x| x == m).unwrap_or(0)));
					st.outcome("ambiguous:answered-with-the-fold-of-one-path");
				}
				if let Some((_, rs)) = &sem.root {
					if sem.domain == Domain::WellFormed && &run.t.ext[*rs] != m {
						st.outcome("answers-different-from-root");
					}
				}
				return false;
			}
			if e.ok.is_empty() {
				run.ctx.diff(&format!("malformed:{class}:answered"), &format!("a mapping set was reported for version {node:?} ({how}) which the {class} directory cannot define"), rp);
			} else if sem.domain == Domain::WellFormed {
				let (k, what) = mapmodel::first_difference(&e.ok[0], m).unwrap_or(("other".into(), "differ".into()));
				run.ctx.diff(&format!("resolve:{k}"), &format!("mappings of version {node:?} ({how}) are not root + diffs on its path + inner-class extension: {what}"), rp);
			} else {
				run.ctx.diff(&format!("malformed:{class}:arbitrary-answer"), &format!("version {node:?} ({how}) of a {class} directory was answered with mappings no root→version path produces"), rp);
			}
			false
		},
	}
}

fn run_group(run: &Run, g: &Group, perms: &mut BTreeSet<(usize, Vec<usize>)>, name_orders: &mut BTreeSet<u64>) -> Stats {
	let mut st = Stats::new();
	let t = run.t;
	let sem = judge(t, &g.files);
	if sem.domain != g.intended {
		fail(&format!("generator meant {:?} but the reference reading says {:?} for {}", g.intended, sem.domain, g.label));
	}
	let queries = queries_of(&sem);
	let derived = if sem.domain == Domain::Outside { vec![] } else { derived_unknown_names(&sem) };
	let mut first_digest: Option<(u64, Vec<usize>)> = None;
	let mut observed_orders: BTreeSet<Vec<String>> = BTreeSet::new();
	let mut intended_orders: BTreeSet<Vec<String>> = BTreeSet::new();
	for order in &g.orders {
		let id = run.counter.fetch_add(1, Ordering::Relaxed);
		let dir = run.root.join(format!("d{id}"));
		materialize(t, &dir, &g.files, order, run.mode);
		// the derived names are asked in the first listing order of the group
		let obs = observe(&dir, &queries, if first_digest.is_none() { &derived } else { &[] });
		dematerialize(&dir, &g.files);

		st.eval();
		st.outcome_n("real-code-calls", obs.calls);
		st.outcome(&format!("directories:{}", sem.domain.name()));
		if g.label.contains("/pair:") {
			st.outcome(&format!("pairs:directories:{}", sem.domain.name()));
		}
		let intended: Vec<String> = order.iter().map(|&i| g.files[i].name.clone()).collect();
		if obs.listing != intended {
			st.outcome("listing-order-not-as-intended");
		}
		st.distinct.add(&(&g.files, &obs.listing));
		observed_orders.insert(obs.listing.clone());
		intended_orders.insert(intended);
		let rp = || replay_text(t, g, order, &sem, Some(&obs));

		for (what, p) in &obs.panics {
			run.ctx.diff(&format!("panic@{}", p.file()), &format!("{what} panicked at {}: {} ({} directory)", p.site, p.msg, sem.domain.name()), rp);
		}
		if sem.domain == Domain::Outside {
			st.outcome(if obs.resolve_err.is_some() { "outside:refused" } else { "outside:accepted" });
			continue;
		}

		// order independence of the answer
		let d = obs.digest();
		match &first_digest {
			None => first_digest = Some((d, order.clone())),
			Some((fd, forder)) => {
				if *fd != d && sem.domain == Domain::WellFormed {
					run.ctx.diff("order:answer-depends-on-listing-order", "two listing orders of the same well-formed directory are answered differently", || format!("{}\nother listing order: {:?}", rp(), forder.iter().map(|&i| g.files[i].name.clone()).collect::<Vec<_>>()));
				}
				if *fd != d && sem.domain == Domain::Ambiguous {
					// the statement speaks of *the* path; where two paths disagree it does not say which one counts
					st.outcome("ambiguous:answer-differs-from-first-listing-order");
				}
			},
		}

		if let Some(e) = &obs.resolve_err {
			if sem.domain == Domain::WellFormed {
				if e != "panic" {
					run.ctx.diff("wellformed:resolve-refused", &format!("resolve refused a well-formed directory: {e}"), rp);
				}
			} else {
				st.outcome(&format!("refused-at-resolve:{}", sem.domain.name()));
				if sem.cycle_through_root {
					st.outcome("refused:cycle-through-root");
				}
				st.outcome(&format!("refused:{}", sem.domain.name()));
				if sem.colliding_roots {
					st.outcome("refused:two-roots-with-colliding-names");
				}
				if let Some(kind) = big_kind(&g.label) {
					st.outcome(&format!("refused:large:{kind}"));
				}
				if g.label.contains("/pair:") {
					st.outcome("pairs:refused");
				}
				if g.label.starts_with("wild-names-two-roots/") {
					st.outcome("wild-names:second-root-refused");
				}
			}
			continue;
		}

		// resolve succeeded
		if sem.domain == Domain::WellFormed {
			let mut seen = obs.versions.clone();
			seen.sort();
			let want: Vec<String> = sem.nodes.keys().cloned().collect();
			if seen != want {
				run.ctx.diff("versions:node-set", &format!("versions() lists {seen:?}, the directory defines {want:?}"), rp);
			}
		}
		let mut refused_nodes: BTreeSet<&str> = BTreeSet::new();
		let mut answered_nodes: BTreeSet<&str> = BTreeSet::new();
		for (node, e) in &sem.nodes {
			for (key, kind) in &e.keys {
				match obs.gets.get(key) {
					Some(Ok((split, name))) => {
						if name != node {
							run.ctx.diff("get:wrong-node", &format!("get({key:?}) answers with version {name:?} instead of {node:?}"), rp);
							continue;
						}
						if split != kind {
							run.ctx.diff("get:split-kind", &format!("get({key:?}) reports {split:?} for version {node:?}, expected {kind:?}"), rp);
						}
						if sem.domain == Domain::WellFormed {
							st.outcome(match kind {
								SplitKind::None => "get:plain-name",
								SplitKind::First => "get:client-half",
								SplitKind::Second => "get:server-half",
							});
						}
						match obs.applies.get(key) {
							Some(a) => {
								if check_answer(run, &mut st, &sem, node, &format!("get({key:?})"), a, &rp) {
									refused_nodes.insert(node);
								} else {
									answered_nodes.insert(node);
								}
							},
							None => {}, // panicked: reported above
						}
					},
					Some(Err(e)) => {
						refused_nodes.insert(node);
						if sem.domain == Domain::WellFormed {
							run.ctx.diff("get:version-not-found", &format!("version {node:?} cannot be looked up as {key:?}: {e}"), rp);
						}
					},
					None => {},
				}
			}
			// the full name of a split version: the statement promises the halves only; if it is
			// accepted it has to be this version
			if e.keys.len() == 2 {
				if let Some(Ok((_, name))) = obs.gets.get(node) {
					if name != node {
						run.ctx.diff("get:wrong-node", &format!("get({node:?}) answers with version {name:?}"), rp);
					} else if let Some(a) = obs.applies.get(node) {
						check_answer(run, &mut st, &sem, node, &format!("get({node:?})"), a, &rp);
					}
				}
			}
		}
		for (name, a) in &obs.nth {
			if sem.nodes.contains_key(name) {
				if check_answer(run, &mut st, &sem, name, "versions()", a, &rp) {
					refused_nodes.insert(name);
				} else {
					answered_nodes.insert(name);
				}
			} else {
				run.ctx.diff("versions:node-set", &format!("versions() lists {name:?}, which no file names"), rp);
			}
		}
		// unknown names
		for u in UNKNOWN_NAMES {
			if sem.nodes.values().any(|e| e.keys.iter().any(|(k, _)| k == u)) || sem.nodes.contains_key(u) {
				continue;
			}
			match obs.gets.get(u) {
				Some(Ok((_, name))) => run.ctx.diff("get:unknown-accepted", &format!("get({u:?}) of a version no file names answers with {name:?}"), rp),
				Some(Err(_)) => st.outcome("refused:unknown-version"),
				None => {},
			}
		}
		for (u, r) in &obs.unknown_gets {
			match r {
				Some(name) => run.ctx.diff("get:unknown-accepted", &format!("get({u:?}) of a version no file names answers with {name:?}"), rp),
				None => {
					st.outcome("refused:unknown-version-derived");
					if SHORTCUTS.iter().any(|(short, _)| short == u) {
						st.outcome("refused:unknown-version-shortcut");
					}
				},
			}
		}
		if sem.domain != Domain::WellFormed {
			let must: Vec<&str> = sem.nodes.iter().filter(|(_, e)| e.ok.is_empty()).map(|(n, _)| n.as_str()).collect();
			if !must.is_empty() && must.iter().all(|n| refused_nodes.contains(n) && !answered_nodes.contains(n)) {
				st.outcome(&format!("refused:{}", sem.domain.name()));
				st.outcome(&format!("refused-at-query:{}", sem.domain.name()));
				if sem.colliding_roots {
					st.outcome("refused:two-roots-with-colliding-names");
				}
				if let Some(kind) = big_kind(&g.label) {
					st.outcome(&format!("refused:large:{kind}"));
				}
				if g.label.contains("/pair:") {
					st.outcome("pairs:refused");
				}
				if sem.cycle_through_root {
					st.outcome("refused:cycle-through-root");
				}
			}
		} else {
			st.outcome_n("nodes-resolved", sem.nodes.len() as u64);
			if let Some(kind) = big_kind(&g.label) {
				st.outcome(&format!("resolved:large:{kind}"));
			}
			if g.label.starts_with("wild-names/") {
				st.outcome("wild-names:chains-resolved");
				if sem.root.as_ref().is_some_and(|(r, _)| !r.chars().all(|c| c.is_ascii_alphanumeric() || c == '.')) {
					st.outcome("wild-names:chains-with-an-unusual-root-name-resolved");
				}
			}
			if g.diamond {
				st.outcome("diamond-directories");
			}
		}
		let tag = format!("{}{}", sem.domain.name(), if g.diamond { "-diamond" } else { "" });
		st.sample(&tag, || json!({
			"kind": "directory",
			"group": g.label,
			"class": sem.domain.name(),
			"files_in_creation_order": match run.mode { ListMode::Reverse => order.iter().rev().map(|&i| g.files[i].name.clone()).collect::<Vec<_>>(), _ => order.iter().map(|&i| g.files[i].name.clone()).collect() },
			"listing_observed": obs.listing,
			"versions": obs.versions,
			"gets": obs.gets.iter().map(|(k, r)| (k.clone(), match r { Ok((s, n)) => format!("{s:?} {n}"), Err(_) => "Err".into() })).collect::<BTreeMap<_, _>>(),
		}));
	}
	if run.mode != ListMode::Uncontrolled && observed_orders != intended_orders {
		st.outcome("groups-with-lost-listing-orders");
	}
	st.outcome_n("listing-orders-intended", intended_orders.len() as u64);
	st.outcome_n("listing-orders-observed", observed_orders.len() as u64);
	for o in observed_orders {
		// the observed order as a permutation of the sorted file list
		let perm: Vec<usize> = o.iter().filter_map(|n| g.files.iter().position(|f| &f.name == n)).collect();
		perms.insert((g.files.len(), perm));
		name_orders.insert(vcore::hash64(&o));
	}
	st
}

// ---------------------------------------------------------------------------------------------
// generation

type Shape = Vec<(usize, usize)>;

/// every DAG on nodes 0..n in which every node is reachable from node 0 (the root, which has no parent)
fn shapes(n: usize) -> Vec<Shape> {
	let pairs: Vec<(usize, usize)> = (0..n).flat_map(|i| (1..n).filter(move |j| *j != i).map(move |j| (i, j))).collect();
	let mut out = Vec::new();
	for mask in 0u32..(1 << pairs.len()) {
		let edges: Shape = pairs.iter().enumerate().filter(|(b, _)| mask & (1 << b) != 0).map(|(_, e)| *e).collect();
		let reach = |from: usize| -> Vec<bool> {
			let mut seen = vec![false; n];
			let mut stack = vec![from];
			while let Some(x) = stack.pop() {
				for (a, b) in &edges {
					if *a == x && !seen[*b] {
						seen[*b] = true;
						stack.push(*b);
					}
				}
			}
			seen
		};
		let from_root = reach(0);
		if !(1..n).all(|v| from_root[v]) {
			continue;
		}
		if (0..n).any(|v| reach(v)[v]) {
			continue;
		}
		out.push(edges);
	}
	out.sort_by_key(|e| (e.len(), e.clone()));
	out
}

/// number of shortest root→v paths, per node
fn shortest_path_counts(n: usize, shape: &Shape) -> Vec<u64> {
	let mut dist = vec![usize::MAX; n];
	let mut cnt = vec![0u64; n];
	dist[0] = 0;
	cnt[0] = 1;
	let mut frontier = vec![0usize];
	while !frontier.is_empty() {
		let mut next = Vec::new();
		for &u in &frontier {
			for (a, b) in shape {
				if *a == u {
					if dist[*b] == usize::MAX {
						dist[*b] = dist[u] + 1;
						next.push(*b);
					}
					if dist[*b] == dist[u] + 1 {
						cnt[*b] += cnt[u];
					}
				}
			}
		}
		frontier = next;
	}
	cnt
}

fn has_two_parents(n: usize, shape: &Shape) -> bool {
	(0..n).any(|v| shape.iter().filter(|(_, b)| *b == v).count() >= 2)
}

const CLIENT: [&str; 5] = ["1.3", "1.1", "1.4", "1.2", "1.0"];
const SERVER: [&str; 5] = ["s0.3", "s0.1", "s0.4", "s0.2", "s0.0"];

fn vname(i: usize, split_mask: u32) -> String {
	if split_mask & (1 << i) != 0 {
		format!("{}~{}", CLIENT[i], SERVER[i])
	} else {
		CLIENT[i].to_owned()
	}
}

fn well_formed_files(shape: &Shape, lab: &[usize], split_mask: u32, extended: bool) -> Vec<FileSpec> {
	let mut files = vec![FileSpec { name: format!("{}.tiny", vname(0, split_mask)), content: Content::Root { state: lab[0], extended } }];
	for (a, b) in shape {
		files.push(FileSpec { name: format!("{}#{}.tinydiff", vname(*a, split_mask), vname(*b, split_mask)), content: Content::Diff { from: lab[*a], to: lab[*b] } });
	}
	files.sort();
	files
}

fn dedup_orders(v: Vec<Vec<usize>>) -> Vec<Vec<usize>> {
	let mut seen = BTreeSet::new();
	v.into_iter().filter(|o| seen.insert(o.clone())).collect()
}

/// sorted, reversed, rotated
fn basic_orders(m: usize) -> Vec<Vec<usize>> {
	let sorted: Vec<usize> = (0..m).collect();
	let mut rev = sorted.clone();
	rev.reverse();
	let mut rot = sorted.clone();
	if m > 0 {
		rot.rotate_left(1);
	}
	dedup_orders(vec![sorted, rev, rot])
}

/// ≤5 files: every permutation; more: every rotation, the reversal, every "file f first" and "file f last"
fn rich_orders(m: usize) -> Vec<Vec<usize>> {
	if m <= 5 {
		return vcore::enumerate::permutations(m);
	}
	let sorted: Vec<usize> = (0..m).collect();
	let mut v = Vec::new();
	for r in 0..m {
		let mut o = sorted.clone();
		o.rotate_left(r);
		v.push(o);
	}
	let mut rev = sorted.clone();
	rev.reverse();
	v.push(rev);
	for f in 0..m {
		let rest: Vec<usize> = sorted.iter().copied().filter(|x| *x != f).collect();
		let mut first = vec![f];
		first.extend(&rest);
		v.push(first);
		let mut last = rest;
		last.push(f);
		v.push(last);
	}
	dedup_orders(v)
}

#[derive(Clone, Copy, PartialEq, Eq)]
enum Orders {
	Basic,
	SortedOnly,
	Rich,
}

fn orders(kind: Orders, m: usize) -> Vec<Vec<usize>> {
	match kind {
		Orders::Basic => basic_orders(m),
		Orders::SortedOnly => vec![(0..m).collect()],
		Orders::Rich => rich_orders(m),
	}
}

fn group(label: String, intended: Domain, mut files: Vec<FileSpec>, kind: Orders, diamond: bool) -> Group {
	files.sort();
	let m = files.len();
	Group { label, intended, files, orders: orders(kind, m), diamond }
}

/// every single mutation of a well-formed directory into a malformed one
fn mutations(t: &Texts, k: usize, n: usize, shape: &Shape, lab: &[usize], split_mask: u32, all_bad_states: bool, all_aliases: bool) -> Vec<(String, Domain, Vec<FileSpec>)> {
	let base = well_formed_files(shape, lab, split_mask, true);
	let name = |i: usize| vname(i, split_mask);
	let fresh = |i: usize| if split_mask & 1 != 0 { format!("2.{i}~s2.{i}") } else { format!("2.{i}") };
	let mut out: Vec<(String, Domain, Vec<FileSpec>)> = Vec::new();
	let with = |extra: Vec<FileSpec>| -> Vec<FileSpec> {
		let mut f = base.clone();
		f.extend(extra);
		f
	};
	let reaches = |from: usize, to: usize| -> bool {
		let mut seen = vec![false; n];
		let mut stack = vec![from];
		seen[from] = true;
		while let Some(x) = stack.pop() {
			for (a, b) in shape {
				if *a == x && !seen[*b] {
					seen[*b] = true;
					stack.push(*b);
				}
			}
		}
		seen[to]
	};
	// no root
	out.push(("no-root".into(), Domain::NoRoot, base.iter().filter(|f| !f.name.ends_with(".tiny")).cloned().collect()));
	// two roots: a second root file for an existing version, or for a new one
	for v in 1..n {
		out.push((format!("second-root-for-{v}"), Domain::TwoRoots, with(vec![FileSpec { name: format!("{}.tiny", name(v)), content: Content::Root { state: lab[v], extended: true } }])));
	}
	out.push(("second-root-new".into(), Domain::TwoRoots, with(vec![FileSpec { name: format!("{}.tiny", fresh(0)), content: Content::Root { state: lab[0], extended: true } }])));
	// two roots whose names share a lookup key: a second (third) root file that names the root version, or
	// another version, by a half of its name or by a split name one half of which is the other's name.
	// (A scan that keeps "the root" per version instead of per file sees one root here; which file it then
	// reads depends on the listing order.) Same content as the root file and different content.
	{
		let root_file = |n: String, state: usize| FileSpec { name: format!("{n}.tiny"), content: Content::Root { state, extended: true } };
		let other = (lab[0] + 1) % k;
		for v in 0..n.min(2) {
			let vn = name(v);
			let who = if v == 0 { "root".to_owned() } else { format!("version-{v}") };
			let aliases: Vec<(&str, String)> = match vn.split_once('~') {
				Some((c, s)) => vec![("client-half", c.to_owned()), ("server-half", s.to_owned()), ("same-client", format!("{c}~zz")), ("same-server", format!("zz~{s}")), ("halves-swapped", format!("{s}~{c}")), ("client-as-server", format!("zz~{c}")), ("server-as-client", format!("{s}~zz"))],
				None => vec![("as-client-half", format!("{vn}~zz")), ("as-server-half", format!("zz~{vn}"))],
			};
			for (i, (what, alias)) in aliases.iter().enumerate() {
				// the content of the files plays no part in the refusal: all aliases for the labelling with pairwise
				// different states (which also gets the rich listing orders), the two halves for the others
				if !all_aliases && (i >= 2 || v > 0) {
					continue;
				}
				// the first alias also with the very content of the root file
				let states: Vec<usize> = if i == 0 && v == 0 { vec![other, lab[0]] } else { vec![other] };
				for st in states {
					out.push((format!("second-root-colliding-name-{who}-{what}-state-{st}"), Domain::TwoRoots, with(vec![root_file(alias.clone(), st)])));
				}
			}
			if !all_aliases {
				continue;
			}
			if let Some((c, s)) = vn.split_once('~') {
				out.push((format!("three-roots-colliding-names-{who}-both-halves"), Domain::TwoRoots, with(vec![root_file(c.to_owned(), other), root_file(s.to_owned(), (other + 1) % k)])));
			} else {
				out.push((format!("three-roots-colliding-names-{who}-both-sides"), Domain::TwoRoots, with(vec![root_file(format!("{vn}~zz"), other), root_file(format!("yy~{vn}"), (other + 1) % k)])));
			}
		}
	}
	// a cycle reachable from the root: one more edge a→b where b already reaches a (b = a: a loop)
	for a in 0..n {
		for b in 0..n {
			if reaches(b, a) && !shape.contains(&(a, b)) {
				out.push((format!("cycle-edge-{a}-{b}"), Domain::Cycle, with(vec![FileSpec { name: format!("{}#{}.tinydiff", name(a), name(b)), content: Content::Diff { from: lab[a], to: lab[b] } }])));
			}
		}
	}
	// unreachable versions
	out.push(("unreachable-pair".into(), Domain::Unreachable, with(vec![FileSpec { name: format!("{}#{}.tinydiff", fresh(0), fresh(1)), content: Content::Diff { from: 0, to: 1 % k } }])));
	for v in 0..n {
		out.push((format!("unreachable-parent-of-{v}"), Domain::Unreachable, with(vec![FileSpec { name: format!("{}#{}.tinydiff", fresh(0), name(v)), content: Content::Diff { from: (lab[v] + 1) % k, to: lab[v] } }])));
	}
	out.push(("unreachable-cycle".into(), Domain::Unreachable, with(vec![
		FileSpec { name: format!("{}#{}.tinydiff", fresh(0), fresh(1)), content: Content::Diff { from: 0, to: 1 % k } },
		FileSpec { name: format!("{}#{}.tinydiff", fresh(1), fresh(0)), content: Content::Diff { from: 1 % k, to: 0 } },
	])));
	if n > 1 {
		// the root file names a version no edge mentions: every other version is unreachable
		let mut f: Vec<FileSpec> = base.iter().filter(|f| !f.name.ends_with(".tiny")).cloned().collect();
		f.push(FileSpec { name: format!("{}.tiny", fresh(0)), content: Content::Root { state: lab[0], extended: true } });
		out.push(("root-disconnected".into(), Domain::Unreachable, f));
	}
	// two ways to a version that disagree: a version without children that has two parents, one of its edge
	// files leads to another state than the other one (every single way is consistent)
	if k >= 2 {
		for v in 1..n {
			let parents: Vec<usize> = shape.iter().filter(|(_, b)| *b == v).map(|(a, _)| *a).collect();
			if parents.len() < 2 || shape.iter().any(|(a, _)| *a == v) {
				continue;
			}
			for &p in &parents {
				let x = (lab[v] + 1) % k;
				let mut f = base.clone();
				let fname = format!("{}#{}.tinydiff", name(p), name(v));
				for e in f.iter_mut() {
					if e.name == fname {
						e.content = Content::Diff { from: lab[p], to: x };
					}
				}
				out.push((format!("ways-disagree-at-{v}-through-{p}"), Domain::Ambiguous, f));
			}
		}
	}
	// a diff whose stated old values do not match the parent's state
	for (a, b) in shape {
		for w in 0..k {
			if w == lab[*a] || mapmodel::diff::apply(&t.mdiff[w][lab[*b]], &t.states[lab[*a]], 1).result.is_some() {
				continue;
			}
			let mut f = base.clone();
			let fname = format!("{}#{}.tinydiff", name(*a), name(*b));
			for x in f.iter_mut() {
				if x.name == fname {
					x.content = Content::Diff { from: w, to: lab[*b] };
				}
			}
			out.push((format!("bad-diff-{a}-{b}-from-{w}"), Domain::BadDiff, f));
			if !all_bad_states {
				break;
			}
		}
	}
	out
}

/// Two single mutations of different classes in one directory (second-order combinations: a loop beside an
/// unreachable pair, a second root in a directory with a loop, no root and a diff that does not fit, …). Per class
/// the first, the middle and the last of its single mutations. The class of the pair is the reference reading's.
fn mutation_pairs(t: &Texts, k: usize, n: usize, shape: &Shape, lab: &[usize], split_mask: u32) -> Vec<(String, Domain, Vec<FileSpec>)> {
	let base = well_formed_files(shape, lab, split_mask, true);
	let singles = mutations(t, k, n, shape, lab, split_mask, false, true);
	let mut picked: Vec<&(String, Domain, Vec<FileSpec>)> = Vec::new();
	for dom in [Domain::NoRoot, Domain::TwoRoots, Domain::Cycle, Domain::Unreachable, Domain::Ambiguous, Domain::BadDiff] {
		let of: Vec<&(String, Domain, Vec<FileSpec>)> = singles.iter().filter(|m| m.1 == dom).collect();
		let mut idx: Vec<usize> = if of.is_empty() { vec![] } else { vec![0, of.len() / 2, of.len() - 1] };
		idx.dedup();
		picked.extend(idx.into_iter().map(|i| of[i]));
	}
	let mut out = Vec::new();
	for (i, a) in picked.iter().enumerate() {
		for b in picked.iter().skip(i + 1) {
			if a.1 == b.1 {
				continue;
			}
			// a's files, then what b changed against the unchanged directory (b never removes a file: the
			// only mutation that does, the removed root, is the first of the list)
			let mut files = a.2.clone();
			for f in &b.2 {
				if base.contains(f) {
					continue;
				}
				match files.iter_mut().find(|x| x.name == f.name) {
					Some(x) => x.content = f.content.clone(),
					None => files.push(f.clone()),
				}
			}
			files.sort();
			let dom = judge(t, &files).domain;
			out.push((format!("pair:{}+{}", a.0, b.0), dom, files));
		}
	}
	out
}

/// directories the statement does not speak about: explored for "no panic" only
fn outside_domain(shape: &Shape, lab: &[usize], split_mask: u32) -> Vec<(String, Vec<FileSpec>)> {
	let base = well_formed_files(shape, lab, split_mask, true);
	let root_version = vname(0, split_mask);
	let with = |extra: Vec<FileSpec>| -> Vec<FileSpec> {
		let mut f = base.clone();
		f.extend(extra);
		f
	};
	let d = |name: String, from: usize, to: usize| FileSpec { name, content: Content::Diff { from, to } };
	let raw = |name: String, text: &str| FileSpec { name, content: Content::Raw(text.as_bytes().to_vec()) };
	let mut out = vec![
		// two distinct versions share a lookup key
		("key-collision-plain-and-split".to_owned(), with(vec![d(format!("{root_version}#1.9~s9.tinydiff"), lab[0], 0), d(format!("{root_version}#1.9.tinydiff"), lab[0], 0)])),
		("key-collision-same-client".to_owned(), with(vec![d(format!("{root_version}#1.9~s9.tinydiff"), lab[0], 0), d(format!("{root_version}#1.9~s8.tinydiff"), lab[0], 0)])),
		("key-collision-same-server".to_owned(), with(vec![d(format!("{root_version}#1.9~s9.tinydiff"), lab[0], 0), d(format!("{root_version}#1.8~s9.tinydiff"), lab[0], 0)])),
		("key-collision-client-is-other-server".to_owned(), with(vec![d(format!("{root_version}#1.9~s9.tinydiff"), lab[0], 0), d(format!("{root_version}#s9~1.7.tinydiff"), lab[0], 0)])),
		("key-collision-with-root".to_owned(), with(vec![d(format!("{root_version}#{}~zz.tinydiff", CLIENT[0]), lab[0], 0), d(format!("{root_version}#yy~{}.tinydiff", CLIENT[0]), lab[0], 0)])),
		// names the statement does not define
		("diff-without-hash".to_owned(), with(vec![d("1.9.tinydiff".into(), 0, 0)])),
		("diff-with-two-hashes".to_owned(), with(vec![d(format!("{root_version}#1.8#1.9.tinydiff"), lab[0], 0)])),
		("two-tildes".to_owned(), with(vec![d(format!("{root_version}#a~b~c.tinydiff"), lab[0], 0)])),
		("empty-halves".to_owned(), with(vec![d(format!("{root_version}#~.tinydiff"), lab[0], 0), d(format!("{root_version}#x~.tinydiff"), lab[0], 0), d(format!("{root_version}#~y.tinydiff"), lab[0], 0)])),
		("empty-version-names".to_owned(), with(vec![d("#.tinydiff".into(), 0, 0), d(format!("{root_version}#.tinydiff"), lab[0], 0)])),
		("empty-root-name".to_owned(), vec![FileSpec { name: ".tiny".into(), content: Content::Root { state: 0, extended: true } }, d("#1.9.tinydiff".into(), 0, 1)]),
		// files of other kinds
		("stray-file".to_owned(), with(vec![FileSpec { name: "README.md".into(), content: Content::Raw(b"hello\n".to_vec()) }, FileSpec { name: "tiny".into(), content: Content::Raw(vec![]) }, FileSpec { name: "x.tinydif".into(), content: Content::Raw(vec![]) }])),
		("sub-directory".to_owned(), with(vec![FileSpec { name: "old".into(), content: Content::Dir }])),
		("diff-is-a-directory".to_owned(), with(vec![FileSpec { name: format!("{root_version}#1.9.tinydiff"), content: Content::Dir }])),
		("second-root-is-a-directory".to_owned(), with(vec![FileSpec { name: "1.9.tiny".into(), content: Content::Dir }])),
		("garbage-diff".to_owned(), with(vec![FileSpec { name: format!("{root_version}#1.9.tinydiff"), content: Content::Raw(b"tiny\t2\t0\nc\n\tx\n\xff\xfe".to_vec()) }])),
		("empty-diff-file".to_owned(), with(vec![FileSpec { name: format!("{root_version}#1.9.tinydiff"), content: Content::Raw(vec![]) }])),
		// diff texts with lines the format description does not define at their place (read when the version is asked for)
		("diff-with-unknown-sections".to_owned(), with(vec![raw(format!("{root_version}#1.9.tinydiff"), "tiny\t2\t0\nx\tfoo\nc\tA\n\tx\tbar\n\tf\tI\tf\n\t\tx\n\tm\t(I)V\tm\n\t\tx\ty\n\t\tp\t0\t\n\t\t\tx\n")])),
		("diff-parameter-with-source-name".to_owned(), with(vec![raw(format!("{root_version}#1.9.tinydiff"), "tiny\t2\t0\nc\tA\n\tm\t(I)V\tm\n\t\tp\t0\tsrc\t\tq\n")])),
		("diff-with-two-comment-lines".to_owned(), with(vec![raw(format!("{root_version}#1.9.tinydiff"), "tiny\t2\t0\nc\tA\n\tc\t\tone\n\tc\t\ttwo\n")])),
		("diff-comment-line-without-change".to_owned(), with(vec![raw(format!("{root_version}#1.9.tinydiff"), "tiny\t2\t0\nc\tA\n\tc\n\tf\tI\tf\n\t\tc\tsame\tsame\n")])),
		("diff-indented-too-deep".to_owned(), with(vec![raw(format!("{root_version}#1.9.tinydiff"), "tiny\t2\t0\nc\tA\n\t\t\tc\t\tdeep\n")])),
		("diff-header-with-namespaces".to_owned(), with(vec![raw(format!("{root_version}#1.9.tinydiff"), "tiny\t2\t0\tofficial\tnamed\nc\tA\n")])),
		("diff-with-too-many-cells".to_owned(), with(vec![raw(format!("{root_version}#1.9.tinydiff"), "tiny\t2\t0\nc\tA\tx\ty\tz\n")])),
		("diff-with-same-class-twice".to_owned(), with(vec![raw(format!("{root_version}#1.9.tinydiff"), "tiny\t2\t0\nc\tE\t\tpkg/Eps\nc\tE\t\tpkg/Eps\n")])),
		("diff-without-final-newline-and-crlf".to_owned(), with(vec![raw(format!("{root_version}#1.9.tinydiff"), "tiny\t2\t0\r\nc\tE\t\tpkg/Eps")])),
	];
	// root texts of the same kind
	for (oname, text) in [
		("root-with-unknown-sections", "tiny\t2\t0\tofficial\tnamed\nx\tfoo\nc\tA\tpkg/Alpha\n\tx\n\tf\tI\tf\tfieldF\n\t\tx\n\tm\t(I)V\tm\tmethodM\n\t\tx\n\t\tp\t0\t\tp0\n\t\t\tx\n"),
		("root-with-two-comment-lines", "tiny\t2\t0\tofficial\tnamed\nc\tA\tpkg/Alpha\n\tc\tone\n\tc\ttwo\n"),
		("root-with-three-namespaces", "tiny\t2\t0\tofficial\tintermediary\tnamed\nc\tA\tB\tpkg/Alpha\n"),
		("root-with-other-namespace-names", "tiny\t2\t0\ta\tb\nc\tA\tpkg/Alpha\n"),
		("root-with-same-class-twice", "tiny\t2\t0\tofficial\tnamed\nc\tA\tpkg/Alpha\nc\tA\tpkg/Alpha\n"),
		("root-nested-class-without-outer", "tiny\t2\t0\tofficial\tnamed\nc\tA$B\tpkg/Alpha$Beta\n"),
		("root-nested-class-with-nameless-outer", "tiny\t2\t0\tofficial\tnamed\nc\tA\t\nc\tA$B\tBeta\n"),
		("root-empty-file", ""),
	] {
		let mut f: Vec<FileSpec> = base.iter().filter(|f| !f.name.ends_with(".tiny")).cloned().collect();
		f.push(raw(format!("{root_version}.tiny"), text));
		out.push((oname.to_owned(), f));
	}
	let mut no_root: Vec<FileSpec> = base.iter().filter(|f| !f.name.ends_with(".tiny")).cloned().collect();
	no_root.push(FileSpec { name: format!("{root_version}.tiny"), content: Content::Raw(b"not tiny at all\n".to_vec()) });
	out.push(("garbage-root".to_owned(), no_root.clone()));
	no_root.pop();
	no_root.push(FileSpec { name: format!("{root_version}.tiny"), content: Content::Dir });
	out.push(("root-is-a-directory".to_owned(), no_root));
	out
}

/// the kind of a large malformed directory, from the label of its group
fn big_kind(label: &str) -> Option<&str> {
	label.strip_prefix("large/")
}

/// the pool state of the `i`-th version of a large shape
fn big_state(i: usize, k: usize) -> usize {
	i % k
}

/// Large malformed (and two well-formed control) directories: the bounded shape enumeration stops at five versions,
/// a check that is right on small graphs only (a step budget, a depth limit, a walk that gives up) needs long ones.
/// Chains of `len` edges, a fan of `len` children, a ladder of `rungs` diamonds; version `i` carries pool state i mod k.
fn big_groups(k: usize, len: usize, fan_len: usize, rungs: usize) -> Vec<Group> {
	let d = |a: &str, b: &str, ia: usize, ib: usize| FileSpec { name: format!("{a}#{b}.tinydiff"), content: Content::Diff { from: big_state(ia, k), to: big_state(ib, k) } };
	let r = |a: &str, i: usize| FileSpec { name: format!("{a}.tiny"), content: Content::Root { state: big_state(i, k), extended: true } };
	// every third version of the chain is split
	let cn = |i: usize| if i % 3 == 1 { format!("c{i}~sc{i}") } else { format!("c{i}") };
	let chain = |from: usize, to: usize| -> Vec<FileSpec> { (from..to).map(|i| d(&cn(i), &cn(i + 1), i, i + 1)).collect() };
	let mut out: Vec<(String, Domain, Vec<FileSpec>, bool)> = Vec::new();
	let mid = len / 2;
	let with_chain = |extra: Vec<FileSpec>, root: bool| -> Vec<FileSpec> {
		let mut f = chain(0, len);
		if root {
			f.push(r(&cn(0), 0));
		}
		f.extend(extra);
		f
	};
	out.push(("chain:control".into(), Domain::WellFormed, with_chain(vec![], true), false));
	out.push(("chain:no-root".into(), Domain::NoRoot, with_chain(vec![], false), false));
	out.push(("chain:second-root-at-the-end".into(), Domain::TwoRoots, with_chain(vec![r(&cn(len), len)], true), false));
	out.push(("chain:second-root-in-the-middle".into(), Domain::TwoRoots, with_chain(vec![r(&cn(mid), mid)], true), false));
	out.push(("chain:cycle-end-to-root".into(), Domain::Cycle, with_chain(vec![d(&cn(len), &cn(0), len, 0)], true), false));
	out.push(("chain:cycle-end-to-middle".into(), Domain::Cycle, with_chain(vec![d(&cn(len), &cn(mid), len, mid)], true), false));
	out.push(("chain:cycle-end-to-its-parent".into(), Domain::Cycle, with_chain(vec![d(&cn(len), &cn(len - 1), len, len - 1)], true), false));
	out.push(("chain:loop-at-the-end".into(), Domain::Cycle, with_chain(vec![d(&cn(len), &cn(len), len, len)], true), false));
	out.push(("chain:loop-in-the-middle".into(), Domain::Cycle, with_chain(vec![d(&cn(mid), &cn(mid), mid, mid)], true), false));
	{
		// the chain is cut in the middle: the second half has no way from the root
		let mut f = chain(0, mid);
		f.extend(chain(mid + 1, len));
		f.push(r(&cn(0), 0));
		out.push(("chain:unreachable-second-half".into(), Domain::Unreachable, f, false));
	}
	out.push(("chain:unreachable-parent-of-the-end".into(), Domain::Unreachable, with_chain(vec![d("u0", &cn(len), len + 1, len)], true), false));
	out.push(("chain:unreachable-cycle-beside".into(), Domain::Unreachable, with_chain(vec![d("u0", "u1", 0, 1), d("u1", "u2~su2", 1, 2), d("u2~su2", "u0", 2, 0)], true), false));
	{
		// the root is the last version of the chain: nothing is below it
		let mut f = chain(0, len);
		f.push(r(&cn(len), len));
		out.push(("chain:root-at-the-end".into(), Domain::Unreachable, f, false));
	}
	// a fan whose children point at each other in a ring: every version of the ring is reached first from the root
	let fname = |i: usize| if i % 3 == 2 { format!("f{i}~sf{i}") } else { format!("f{i}") };
	let fan = || -> Vec<FileSpec> {
		let mut f: Vec<FileSpec> = (1..=fan_len).map(|i| d("f0", &fname(i), 0, i)).collect();
		f.push(r("f0", 0));
		f
	};
	{
		let mut f = fan();
		f.extend((1..=fan_len).map(|i| d(&fname(i), &fname(i % fan_len + 1), i, i % fan_len + 1)));
		out.push(("fan:ring-through-all-children".into(), Domain::Cycle, f, true));
		let mut f = fan();
		f.push(d(&fname(fan_len), &fname(fan_len - 1), fan_len, fan_len - 1));
		f.push(d(&fname(fan_len - 1), &fname(fan_len), fan_len - 1, fan_len));
		out.push(("fan:two-children-point-at-each-other".into(), Domain::Cycle, f, true));
		let mut f = fan();
		f.extend((1..fan_len).map(|i| d(&fname(i), &fname(i + 1), i, i + 1)));
		out.push(("fan:control-with-skip-edges".into(), Domain::WellFormed, f, true));
	}
	// a ladder of diamonds with an edge from the top back to the bottom / into a side
	{
		// L(i) carries state 3i, its two children a(i) and b(i) the states 3i+1 and 3i+2
		let l = |i: usize| format!("L{i}");
		let ladder = || -> Vec<FileSpec> {
			let mut f = vec![r("L0", 0)];
			for i in 0..rungs {
				let (a, b) = (format!("a{i}~sa{i}"), format!("b{i}"));
				f.extend([d(&l(i), &a, 3 * i, 3 * i + 1), d(&l(i), &b, 3 * i, 3 * i + 2), d(&a, &l(i + 1), 3 * i + 1, 3 * i + 3), d(&b, &l(i + 1), 3 * i + 2, 3 * i + 3)]);
			}
			f
		};
		out.push(("ladder:control".into(), Domain::WellFormed, ladder(), true));
		let mut f = ladder();
		f.push(d(&l(rungs), "L0", 3 * rungs, 0));
		out.push(("ladder:cycle-top-to-bottom".into(), Domain::Cycle, f, true));
		let mut f = ladder();
		f.push(d(&l(rungs), &format!("b{}", rungs - 1), 3 * rungs, 3 * (rungs - 1) + 2));
		out.push(("ladder:cycle-top-to-its-parent".into(), Domain::Cycle, f, true));
		let mut f = ladder();
		f.push(r(&l(rungs), 3 * rungs));
		out.push(("ladder:second-root-at-the-top".into(), Domain::TwoRoots, f, true));
	}
	out.into_iter().map(|(name, dom, files, diamond)| group(format!("large/{name}"), dom, files, Orders::Basic, diamond)).collect()
}

/// A chain through all the names of the wild list (as they occur in the shortcut table and the fixture, and with
/// characters a pattern written for `1.2.3` does not expect), starting at the `rot`-th: every name is the root once,
/// and a parent and a child in every directory. Plus the same with a second root file for the middle of the chain.
fn wild_groups(k: usize, rot: usize) -> Vec<Group> {
	let names: Vec<&str> = (0..histories::WILD_NAMES.len()).map(|i| histories::WILD_NAMES[(i + rot) % histories::WILD_NAMES.len()]).collect();
	let mut files = vec![FileSpec { name: format!("{}.tiny", names[0]), content: Content::Root { state: big_state(rot, k), extended: rot % 2 == 0 } }];
	for i in 0..names.len() - 1 {
		files.push(FileSpec { name: format!("{}#{}.tinydiff", names[i], names[i + 1]), content: Content::Diff { from: big_state(rot + i, k), to: big_state(rot + i + 1, k) } });
	}
	let mut two = files.clone();
	let mid = names.len() / 2;
	two.push(FileSpec { name: format!("{}.tiny", names[mid]), content: Content::Root { state: big_state(rot + mid, k), extended: true } });
	vec![
		group(format!("wild-names/root={:?}", names[0]), Domain::WellFormed, files, Orders::Basic, false),
		group(format!("wild-names-two-roots/root={:?}/second={:?}", names[0], names[mid]), Domain::TwoRoots, two, Orders::Basic, false),
	]
}

/// One unit of work: expands to a handful of groups (kept lazy, the thorough tier has millions of directories).
#[derive(Clone, Debug)]
enum Item {
	/// every naming × both root forms of one labelling of one shape
	WellFormed { n: usize, si: usize, li: u64 },
	/// one labelling with pairwise different states, one naming, the rich set of orders
	Rich { n: usize, si: usize, mask: u32 },
	/// every single mutation of one labelling and naming of one shape
	Malformed { n: usize, si: usize, lab: Vec<usize>, mask: u32 },
	/// directories outside the statement's domain
	Outside { n: usize, si: usize, mask: u32 },
	/// the light form for the shapes beyond the bound of the full treatment: the rotation labellings with a few
	/// namings (well-formed) and every single mutation of the pairwise-different labelling under two namings
	Light { n: usize, si: usize },
	/// pairs of single mutations of different classes, the labelling with pairwise different states
	Pairs { n: usize, si: usize, mask: u32 },
	/// large malformed directories (long chain, wide fan, ladder of diamonds) and their well-formed controls
	Large,
	/// the chain through the names of the wild list that starts at the `rot`-th
	Wild { rot: usize },
}

struct ShapeInfo {
	n: usize,
	si: usize,
	shape: Shape,
	diamond: bool,
	tie: bool,
	/// all namings
	masks: Vec<u32>,
	few_masks: Vec<u32>,
}

struct Plan {
	n_max: usize,
	k: usize,
	quick: bool,
	shapes: Vec<ShapeInfo>,
	items: Vec<Item>,
	bounds: Value,
	/// edges of the long chain, children of the wide fan, diamonds of the ladder
	large: (usize, usize, usize),
}

fn dedup_u32(v: Vec<u32>) -> Vec<u32> {
	let mut seen = BTreeSet::new();
	v.into_iter().filter(|x| seen.insert(*x)).collect()
}

fn distinct_lab(n: usize, k: usize) -> Vec<usize> {
	(0..n).map(|i| i % k).collect()
}

/// the k rotations of the labelling with pairwise different states, and the constant one
fn rotation_labs(n: usize, k: usize) -> Vec<Vec<usize>> {
	let mut v: Vec<Vec<usize>> = (0..k).map(|r| (0..n).map(|i| (i + r) % k).collect()).collect();
	v.push(vec![0; n]);
	v.sort();
	v.dedup();
	v
}

fn plan(tier: vcore::Tier) -> Plan {
	let quick = tier == vcore::Tier::Quick;
	let k = tier.pick(4, POOL_SIZE);
	let n_max = tier.pick(3, 4);
	let mut infos = Vec::new();
	let mut items = Vec::new();
	let mut per_n = Vec::new();
	let n_light = tier.pick(4, 5);
	for n in 1..=n_light {
		let all = shapes(n);
		let mut used = 0;
		let mut used_light = 0;
		for (si, shape) in all.iter().enumerate() {
			let tie = shortest_path_counts(n, shape).iter().any(|c| *c >= 2);
			let diamond = has_two_parents(n, shape);
			// the quick tier gives the full treatment to the four-version shapes in which two shortest paths tie
			let full = n <= n_max || (n == 4 && tie);
			let all_bits = (1u32 << n) - 1;
			let few_masks = dedup_u32(vec![0, all_bits, 0b10101 & all_bits, 0b01010 & all_bits]);
			let masks: Vec<u32> = (0..=all_bits).collect();
			infos.push(ShapeInfo { n, si, shape: shape.clone(), diamond, tie, masks, few_masks: few_masks.clone() });
			if !full {
				used_light += 1;
				items.push(Item::Light { n, si });
				continue;
			}
			used += 1;
			let labellings = vcore::enumerate::Product::size(&vec![k; n]);
			for li in 0..labellings {
				items.push(Item::WellFormed { n, si, li });
			}
			for mask in 0..=all_bits {
				items.push(Item::Rich { n, si, mask });
			}
			let mal_labs: Vec<Vec<usize>> = if n <= 3 && !quick { (0..labellings).map(|li| vcore::enumerate::product_nth(&vec![k; n], li)).collect() } else { rotation_labs(n, k) };
			for lab in mal_labs {
				for &mask in &few_masks {
					items.push(Item::Malformed { n, si, lab: lab.clone(), mask });
				}
			}
			for &mask in &few_masks {
				items.push(Item::Outside { n, si, mask });
			}
			if n <= n_max {
				for mask in dedup_u32(vec![0, all_bits]) {
					items.push(Item::Pairs { n, si, mask });
				}
			}
		}
		per_n.push(json!({"versions": n, "shapes_existing": all.len(), "shapes_explored": used, "shapes_explored_in_the_light_form": used_light}));
	}
	let large = tier.pick((64, 48, 6), (256, 96, 8));
	items.push(Item::Large);
	items.extend((0..histories::WILD_NAMES.len()).map(|rot| Item::Wild { rot }));
	let bounds = json!({
		"large_malformed_shapes": {"chain_edges": large.0, "fan_children": large.1, "ladder_diamonds": large.2, "states": "version i carries pool state i mod k", "directories": "chain: well-formed control, no root, second root (end, middle), cycle (end to root / middle / its parent, loop at the end / in the middle), unreachable (second half cut off, extra parent of the end, cycle beside, root at the end); fan: ring through all children, two children pointing at each other, control with skip edges; ladder: control, cycle from the top to the bottom / to its parent, second root at the top; three listing orders each"},
		"wild_name_chains": {"names": histories::WILD_NAMES.len(), "directories": "per rotation of the list one chain through all names (every name is the root once, a parent and a child in every directory; root printed extended / contracted alternating) and the same with a second root file for the version in the middle; three listing orders each"},
		"malformed_pairs": "every shape up to versions_max_all_shapes, the labelling with pairwise different states, no version / every version split: every two single mutations of different classes, per class the first, the middle and the last of its list; three listing orders; the class of the pair is the reference reading's (no root > two roots > cycle > unreachable > ways disagree / diff does not fit)",
		"versions_max_all_shapes": n_max,
		"versions_max_tie_diamond_shapes": 4,
		"versions_max_light_form": n_light,
		"light_form": "every shape beyond the full bound: the rotation labellings (k + 1) x four namings x three listing orders with the extended root, and every single mutation of the pairwise-different labelling under two namings (none split, all split) x three listing orders",
		"shapes": per_n,
		"pool_states": k,
		"namespaces": NS,
		"labellings": "every assignment of a pool state to every version (well-formed); malformed: all assignments up to three versions in the thorough tier, else the k rotations of the pairwise-different assignment and the constant one",
		"namings": "every subset of versions named client~server; with four versions only for the rotation labellings, the other labellings and all malformed directories use four namings (none, all, two alternating patterns)",
		"root_forms": ["extended (three listing orders)", "contracted (sorted order; four namings)", "both with the rich orders for the pairwise-different labelling"],
		"listing_orders": {"basic": "sorted, reversed, rotated", "rich": "<=5 files: all permutations; more: all rotations, reversal, every file first, every file last", "rich_used_for": "the pairwise-different labelling of every shape, well-formed and every mutation"},
		"malformed_mutations": ["root file removed", "second root for an existing / a new version", "every extra edge closing a cycle (incl. loops and edges into the root)", "unreachable pair / parent of each version / cycle / root renamed away", "each edge replaced by a diff from a different state that the reference apply refuses (quick: first such state, thorough: all)"],
		"unknown_names_asked": UNKNOWN_NAMES,
	});
	Plan { n_max, k, quick, shapes: infos, items, bounds, large }
}

fn expand(t: &Texts, plan: &Plan, item: &Item) -> Vec<Group> {
	let (n, si) = match item {
		Item::WellFormed { n, si, .. } | Item::Rich { n, si, .. } | Item::Malformed { n, si, .. } | Item::Outside { n, si, .. } | Item::Light { n, si } | Item::Pairs { n, si, .. } => (*n, *si),
		Item::Large => return big_groups(plan.k, plan.large.0, plan.large.1, plan.large.2),
		Item::Wild { rot } => return wild_groups(plan.k, *rot),
	};
	let info = plan.shapes.iter().find(|s| s.n == n && s.si == si).unwrap_or_else(|| fail("plan"));
	let shape = &info.shape;
	let k = plan.k;
	let label = |rest: &str| format!("n={n}/shape={si}:{shape:?}/{rest}");
	let mut groups = Vec::new();
	match item {
		Item::WellFormed { li, .. } => {
			let lab = vcore::enumerate::product_nth(&vec![k; n], *li);
			// four versions: every naming for the rotation labellings, a few namings for the others
			let masks = if n <= 3 || rotation_labs(n, k).contains(&lab) { &info.masks } else { &info.few_masks };
			for &mask in masks {
				groups.push(group(label(&format!("lab={lab:?}/split={mask:04b}/root=extended")), Domain::WellFormed, well_formed_files(shape, &lab, mask, true), Orders::Basic, info.diamond));
				if info.few_masks.contains(&mask) {
					groups.push(group(label(&format!("lab={lab:?}/split={mask:04b}/root=contracted")), Domain::WellFormed, well_formed_files(shape, &lab, mask, false), Orders::SortedOnly, info.diamond));
				}
			}
		},
		Item::Rich { mask, .. } => {
			let lab = distinct_lab(n, k);
			groups.push(group(label(&format!("lab={lab:?}/split={mask:04b}/root=extended/rich-orders")), Domain::WellFormed, well_formed_files(shape, &lab, *mask, true), Orders::Rich, info.diamond));
			groups.push(group(label(&format!("lab={lab:?}/split={mask:04b}/root=contracted/rich-orders")), Domain::WellFormed, well_formed_files(shape, &lab, *mask, false), Orders::Rich, info.diamond));
		},
		Item::Malformed { lab, mask, .. } => {
			let kind = if lab == &distinct_lab(n, k) { Orders::Rich } else { Orders::Basic };
			for (mname, dom, files) in mutations(t, k, n, shape, lab, *mask, !plan.quick, lab == &distinct_lab(n, k)) {
				groups.push(group(label(&format!("lab={lab:?}/split={mask:04b}/{mname}")), dom, files, kind, info.diamond));
			}
		},
		Item::Light { .. } => {
			for lab in rotation_labs(n, k) {
				for &mask in &info.few_masks {
					groups.push(group(label(&format!("lab={lab:?}/split={mask:05b}/root=extended/light")), Domain::WellFormed, well_formed_files(shape, &lab, mask, true), Orders::Basic, info.diamond));
				}
			}
			let lab = distinct_lab(n, k);
			let all_bits = (1u32 << n) - 1;
			for mask in [0, all_bits] {
				for (mname, dom, files) in mutations(t, k, n, shape, &lab, mask, false, true) {
					groups.push(group(label(&format!("lab={lab:?}/split={mask:05b}/{mname}/light")), dom, files, Orders::Basic, info.diamond));
				}
			}
		},
		Item::Large | Item::Wild { .. } => {},
		Item::Pairs { mask, .. } => {
			let lab = distinct_lab(n, k);
			for (mname, dom, files) in mutation_pairs(t, k, n, shape, &lab, *mask) {
				groups.push(group(label(&format!("lab={lab:?}/split={mask:04b}/{mname}")), dom, files, Orders::Basic, info.diamond));
			}
		},
		Item::Outside { mask, .. } => {
			let lab = distinct_lab(n, k);
			for (oname, files) in outside_domain(shape, &lab, *mask) {
				groups.push(group(label(&format!("lab={lab:?}/split={mask:04b}/outside:{oname}")), Domain::Outside, files, Orders::Basic, info.diamond));
			}
		},
	}
	groups
}

// ---------------------------------------------------------------------------------------------

#[derive(Default)]
struct Acc {
	st: Stats,
	perms: BTreeSet<(usize, Vec<usize>)>,
	name_orders: BTreeSet<u64>,
	groups: u64,
}

impl Acc {
	fn merge(mut self, o: Acc) -> Acc {
		self.st = self.st.merge(o.st);
		self.perms.extend(o.perms);
		self.name_orders.extend(o.name_orders);
		self.groups += o.groups;
		self
	}
}

fn main() {
	// anyhow captures a backtrace for every error (also the ones the readers create and drop on their
	// normal path) when RUST_BACKTRACE is set, under a process-wide lock: that serialises the sweep
	std::env::set_var("RUST_LIB_BACKTRACE", "0");
	let ctx: &'static Ctx = Box::leak(Box::new(Ctx::new("C05", "model_checking")));
	let t = texts();
	check_shortcuts();
	let (root, mode, tmpfs) = scratch();
	let counter = AtomicU64::new(0);
	let run = Run { ctx, t: &t, root: &root, mode, counter: &counter };
	if let Some(path) = ctx.replay.clone() {
		replay(ctx, &run, &path);
	}
	let plan = plan(ctx.tier);
	let census = action_census(&t, plan.k);

	// heavy items (rich order sets) first, so that the tail of the sweep is made of small ones
	let mut items: Vec<&Item> = plan.items.iter().collect();
	items.sort_by_key(|i| match i {
		Item::Malformed { n, lab, .. } if lab == &distinct_lab(*n, plan.k) => 0,
		Item::Rich { .. } => 1,
		Item::Malformed { .. } => 2,
		Item::Outside { .. } => 3,
		Item::Light { .. } => 3,
		Item::Large => 0,
		Item::Pairs { .. } => 2,
		Item::Wild { .. } => 3,
		Item::WellFormed { .. } => 4,
	});
	let mut acc = items.par_iter().with_max_len(2).fold(Acc::default, |mut acc, item| {
		for g in expand(&t, &plan, item) {
			let s = vcore::watched(|| format!("group {} ({} files, {} orders)", g.label, g.files.len(), g.orders.len()), || run_group(&run, &g, &mut acc.perms, &mut acc.name_orders));
			acc.st = std::mem::take(&mut acc.st).merge(s);
			acc.groups += 1;
		}
		acc
	}).reduce(Acc::default, Acc::merge);
	let shapes_dirs = acc.st.evaluations;
	let shapes_wall = ctx.elapsed_s();
	// second engine: edit histories
	let hist = histories::run(&run, plan.quick);
	let hist_wall = ctx.elapsed_s() - shapes_wall;
	let hist_dirs = hist.st.get("history:directories");
	// third engine: names and texts
	let txt = texts::run(&run, plan.quick);
	let txt_wall = ctx.elapsed_s() - shapes_wall - hist_wall;
	let st = std::mem::take(&mut acc.st).merge(hist.st).merge(txt.st);
	let leftovers = listing(&root).len();
	let _ = std::fs::remove_dir_all(&root);
	if leftovers != 0 {
		fail(&format!("{leftovers} scratch directories survived their case"));
	}

	let controlled = mode != ListMode::Uncontrolled;
	let lost = st.get("groups-with-lost-listing-orders") + st.get("listing-order-not-as-intended");
	if controlled && lost != 0 {
		fail(&format!("listing order was not the intended one in {lost} directories/groups: coverage of listing orders would be lost"));
	}
	if st.get("listing-orders-intended") != st.get("listing-orders-observed") && controlled {
		fail("the set of observed listing orders is not the intended set");
	}
	let exhaustive = controlled && tmpfs;
	let n_dirs = st.evaluations;
	let diamond_shapes = plan.shapes.iter().filter(|s| s.diamond).count() as u64;
	let tie_shapes = plan.shapes.iter().filter(|s| s.tie).count() as u64;
	let perms_by_size: BTreeMap<String, u64> = acc.perms.iter().fold(BTreeMap::new(), |mut m, (sz, _)| {
		*m.entry(format!("{sz} files")).or_insert(0) += 1;
		m
	});
	ctx.floor("shapes in which a version has two parents (diamonds, skip edges)", 1, diamond_shapes);
	ctx.floor("shapes in which two shortest root→version paths tie (true diamonds)", 1, tie_shapes);
	ctx.floor("well-formed diamond directories resolved", 1, st.get("diamond-directories"));
	ctx.floor("split names resolved by the client half", 100, st.get("get:client-half"));
	ctx.floor("split names resolved by the server half", 100, st.get("get:server-half"));
	ctx.floor("plain names resolved", 100, st.get("get:plain-name"));
	ctx.floor("distinct listing orders observed (as permutations of the sorted file list)", if controlled { 150 } else { 1 }, acc.perms.len() as u64);
	ctx.floor("distinct listing orders observed (as name sequences)", if controlled { 500 } else { 1 }, acc.name_orders.len() as u64);
	for class in ["no-root", "two-roots", "cycle", "cycle-through-root", "unreachable", "unknown-version", "bad-diff"] {
		ctx.floor(&format!("malformed class refused: {class}"), 1, st.get(&format!("refused:{class}")));
	}
	ctx.floor("resolved versions whose mappings differ from the root's", 1000, st.get("answers-different-from-root"));
	ctx.floor("answers equal to the oracle", 1000, st.get("answers-equal-to-oracle"));
	for level in ["class.name", "class.comment", "field.name", "field.comment", "method.name", "method.comment", "parameter.name", "parameter.comment"] {
		for kind in ["add", "remove", "edit"] {
			ctx.floor(&format!("edge diffs with {level}:{kind}"), 1, census.get(&format!("{level}:{kind}")).copied().unwrap_or(0));
		}
	}
	ctx.floor("directories outside the statement's domain explored for panics", 10, st.get("directories:outside-domain"));
	ctx.floor("names derived from the directory that no file defines, refused", 1000, st.get("refused:unknown-version-derived"));
	ctx.floor("shapes explored in the light form", 1, plan.items.iter().filter(|i| matches!(i, Item::Light { .. })).count() as u64);
	ctx.floor("two-roots directories whose root files name one version twice (names sharing a lookup key), refused", 100, st.get("refused:two-roots-with-colliding-names"));
	for g in big_groups(plan.k, plan.large.0, plan.large.1, plan.large.2) {
		let kind = big_kind(&g.label).unwrap_or("?").to_owned();
		if g.intended == Domain::WellFormed {
			ctx.floor(&format!("large well-formed control resolved: {kind}"), 1, st.get(&format!("resolved:large:{kind}")));
		} else {
			ctx.floor(&format!("large malformed directory refused: {kind}"), 1, st.get(&format!("refused:large:{kind}")));
		}
	}
	ctx.floor("chains through the names of the wild list resolved (every name the root once)", histories::WILD_NAMES.len() as u64, st.get("wild-names:chains-resolved"));
	ctx.floor("chains through the wild list whose root has a name with unusual characters resolved", 10, st.get("wild-names:chains-with-an-unusual-root-name-resolved"));
	ctx.floor("chains through the wild list with a second root file refused", histories::WILD_NAMES.len() as u64, st.get("wild-names:second-root-refused"));
	ctx.floor("versions with two disagreeing ways answered with the fold of one of them", 1, st.get("ambiguous:answered-with-the-fold-of-one-path"));
	for class in ["no-root", "two-roots", "cycle", "unreachable"] {
		ctx.floor(&format!("directories with two mutations of different classes, read as {class}"), 1, st.get(&format!("pairs:directories:{class}")));
	}
	ctx.floor("directories with two mutations of different classes refused", 100, st.get("pairs:refused"));
	for (name, required, measured) in hist.floors.iter().chain(&txt.floors) {
		ctx.floor(name, *required, *measured);
	}
	ctx.floor("names that the shortcut table maps to a version of the directory, refused as unknown", 20, st.get("refused:unknown-version-shortcut"));
	if !controlled {
		ctx.note("listing order could not be controlled on the scratch file system: order coverage is whatever the file system produced");
	}

	let calls = st.get("real-code-calls");
	// the bounds of the shapes engine stay where they were, the histories engine adds its own below them
	let mut bounds = plan.bounds.clone();
	if let Some(o) = bounds.as_object_mut() {
		o.insert("histories_engine".into(), hist.bounds.clone());
		o.insert("texts_engine".into(), txt.bounds.clone());
	}
	let coverage = json!({
		"states": st.distinct.len(),
		"transitions": calls,
		"traces_validated_against_impl": n_dirs,
		"evaluations": calls,
		"distinct_nontrivial": st.distinct.len(),
		"rule": "a state is one directory: (file names, file contents, observed listing order); distinct_nontrivial/states = distinct such directories, every one created on disk and read by the real VersionGraph::resolve; transitions = executions of resolve / versions / get / apply_diffs of /repo/src/version_graph.rs; every directory's observations are compared with the reference reading of the directory (traces_validated_against_impl = directories)",
		"exhaustive": exhaustive,
		"samples": st.samples,
		"bounds": bounds,
		"engines": {"shapes": {"directories": shapes_dirs, "wall_s": (shapes_wall * 10.0).round() / 10.0}, "histories": {"directories": hist_dirs, "work_items": hist.items, "versions": st.get("history:versions"), "wall_s": (hist_wall * 10.0).round() / 10.0}, "texts": {"directories": st.get("texts:directories"), "work_items": txt.items, "wall_s": (txt_wall * 10.0).round() / 10.0}},
		"outcomes": st.outcomes,
		"directories": n_dirs,
		"groups": acc.groups,
		"shapes": plan.shapes.len(),
		"listing_orders_observed": acc.name_orders.len(),
		"listing_permutations_observed": acc.perms.len(),
		"listing_permutations_observed_by_file_count": perms_by_size,
		"listing_order_control": {"scratch": root.display().to_string().replace(&std::process::id().to_string(), "<pid>"), "tmpfs": tmpfs, "mode": format!("{mode:?}"), "directories_listed_as_intended": n_dirs - st.get("listing-order-not-as-intended")},
		"edge_diff_action_census": census,
		"max_versions": plan.shapes.iter().map(|s| s.n).max().unwrap_or(0),
		"max_versions_full_treatment": plan.n_max,
	});
	ctx.finish(coverage, &[
		"every edge file is the reference diff between the states of its two versions, so all root→version paths agree; which of several paths the implementation takes is therefore not observable and not judged",
		"two distinct versions sharing a lookup key, version names with several `~` or `#`, stray files and sub-directories are outside the statement and explored for panics only",
		"the full name `client~server` of a split version may or may not be accepted by get; if accepted it must be that version",
		"an inconsistent diff (old values not matching) is judged through the reference apply of mapmodel: versions all of whose paths are refused by it must be refused, other answers must be the result of some path",
		"tmpfs lists a directory in a fixed function of creation order (calibrated at start, every directory read back and compared)",
		"mapping states come from a pool of hand-written states over one universe (classes A, A$B, A$B$C, D, D$I, E) and, in the histories engine, from edits of four root states over the universe A, A$B, A$B$C, D, E; the texts engine varies the target names over a skeleton of nine classes and one text slot at a time; other names are not explored",
		"texts engine: target names of top-level classes have no `$` in their last `/`-separated part and simple names of nested classes have no `$` and no `/` (what contraction on load does to other names is not stated); a nested class is one whose key has a `$` in its last `/`-separated part with something on both sides (duke's documented rule)",
		"the order of the entries inside a `.tiny` / `.tinydiff` file is not prescribed by the format: files are laid out sorted, reversed and rotated",
		"a short name of the shortcut table (`map_shortcut`, applied by the callers before `get`) is the name of no version unless a file names it: `get` has to refuse it",
		"histories engine: every directory is a tree (or chain / fan / ladder with commuting sides), so the path to a version is unique or all paths agree; a step after which a named nested class would have an absent or nameless outer class is left out (the statement's extension is not defined there)",
		"an entry without a target name cannot be added or removed by a diff (the diff language states names), so nameless entries come from the root file only",
	]);
}

fn replay(ctx: &'static Ctx, run: &Run, path: &Path) -> ! {
	let body = vcore::replay_body(path);
	let engines = |body: &str| histories::replay(run, body).or_else(|| texts::replay(run, body));
	if let Some(a) = engines(&body) {
		let before = ctx.violation_count();
		let b = engines(&body).unwrap_or_else(|| fail("replay"));
		if a.outcomes != b.outcomes || ctx.violation_count() != before * 2 {
			fail("replay is not deterministic");
		}
		for (k, v) in &a.outcomes {
			println!("{k}: {v}");
		}
		let _ = std::fs::remove_dir_all(run.root);
		ctx.finish(json!({"states": 1, "transitions": a.get("real-code-calls"), "traces_validated_against_impl": 1, "samples": ["replay"]}), &[]);
	}
	let mut files = Vec::new();
	let mut label = String::from("replay");
	for line in body.lines() {
		if let Some(l) = line.strip_prefix("group=") {
			label = l.to_owned();
		}
		let Some(rest) = line.strip_prefix("F\t") else { continue };
		let cells: Vec<&str> = rest.split('\t').collect();
		let num = |s: &str| -> usize { s.parse::<usize>().ok().filter(|x| *x < POOL_SIZE).unwrap_or_else(|| fail("bad state index in replay")) };
		let content = match &cells[1..] {
			["root", s, form] => Content::Root { state: num(s), extended: *form == "ext" },
			["diff", a, b] => Content::Diff { from: num(a), to: num(b) },
			["raw", h] => Content::Raw(vcore::unhex(h).unwrap_or_else(|| fail("bad hex in replay"))),
			["raw"] => Content::Raw(vec![]),
			["dir"] => Content::Dir,
			_ => fail(&format!("bad replay line {line:?}")),
		};
		files.push(FileSpec { name: cells[0].to_owned(), content });
	}
	if files.is_empty() && !body.contains("intended listing order") {
		fail("no files in replay");
	}
	// the order of the F lines is the intended listing order
	let mut sorted = files.clone();
	sorted.sort();
	let order: Vec<usize> = files.iter().map(|f| sorted.iter().position(|s| s == f).unwrap_or_else(|| fail("replay"))).collect();
	let sem = judge(run.t, &sorted);
	let plain: Vec<usize> = (0..sorted.len()).collect();
	let mut orders = vec![];
	if plain != order {
		// the sorted order first, so that the order-independence oracle has its reference
		orders.push(plain);
	}
	orders.push(order);
	let g = Group { label, intended: sem.domain, files: sorted, orders, diamond: false };
	println!("class: {}", sem.domain.name());
	let (mut p, mut o) = (BTreeSet::new(), BTreeSet::new());
	let a = run_group(run, &g, &mut p, &mut o);
	let before = ctx.violation_count();
	let b = run_group(run, &g, &mut p, &mut o);
	if a.outcomes != b.outcomes || ctx.violation_count() != before * 2 {
		fail("replay is not deterministic");
	}
	for (k, v) in &a.outcomes {
		println!("{k}: {v}");
	}
	let _ = std::fs::remove_dir_all(run.root);
	ctx.finish(json!({"states": 1, "transitions": a.get("real-code-calls"), "traces_validated_against_impl": 1, "samples": ["replay"]}), &[]);
}
