//! C05, second engine: *edit histories along the edges*.
//!
//! The first engine (c05.rs) labels the versions of every small graph shape with states from a pool of
//! hand-written mapping sets. This engine explores the other axis of the quantifier: the histories. A history
//! is a sequence of *edits* (state transformers over one small universe, see [`alphabet`]) applied to a root
//! state; every prefix of a history is a version, every step an edge file. All histories up to a stated
//! depth are laid out as one **tree directory** per work item (root → every first step → every second step …),
//! so one directory on disk carries hundreds to thousands of versions and every one of them is resolved by the
//! real `VersionGraph::{resolve, versions, get, apply_diffs}`.
//!
//! Two independent references meet in the oracle: the expected state of a version is computed by the edit
//! functions (plain manipulation of the model), the edge file is the printed reference diff between the two
//! states, and the reference `apply` of that diff must reproduce the child state (machinery self-check, exit 2).
//! The answer demanded from the real code is `extend(state)` — nothing else is acceptable, a refusal is a
//! violation: every directory of this engine is well-formed.
//!
//! What the alphabet adds over the pool of c05.rs: nodes that are present **without a name** in the target
//! namespace at every level (class, nested class, field, method, parameter; with and without a comment), the
//! diff that names such a node (an addition on a key that exists), that addition combined with changes of the
//! node's members in the same diff, additions of whole subtrees, comments with line breaks and backslashes
//! added / edited / removed at every level, removal and re-addition, and all of these after one another
//! (depth ≥ 2) and inside one diff (composite steps).
//!
//! Besides the trees the engine lays out a few *large* well-formed shapes (long chain, wide fan, ladder of
//! diamonds whose two sides commute) that the bounded shape enumeration of c05.rs (≤ 4 versions) cannot reach.

use std::collections::{BTreeMap, BTreeSet};
use std::path::Path;
use fbrshim::vg::{self, SplitKind};
use mapmodel::{MClass, MField, MMethod, MParam, MSet};
use rayon::prelude::*;
use vcore::{json, Stats, Value};
use super::{extend_ref, fail, keys_of, project, prune, Run, NS};

// ---------------------------------------------------------------------------------------------
// universe

struct MemberU {
	name: &'static str,
	desc: &'static str,
	params: &'static [usize],
}

struct ClassU {
	key: &'static str,
	named: [&'static str; 3],
	fields: &'static [MemberU],
	methods: &'static [MemberU],
	in_roots: bool,
}

const UNIVERSE: [ClassU; 5] = [
	ClassU { key: "A", named: ["pkg/Alpha", "pkg2/Alpha2", "Alpha3"], fields: &[MemberU { name: "f", desc: "I", params: &[] }], methods: &[MemberU { name: "m", desc: "(I)V", params: &[0, 1] }], in_roots: true },
	ClassU { key: "A$B", named: ["Beta", "Beta2", "Beta3"], fields: &[MemberU { name: "g", desc: "LA$B;", params: &[] }], methods: &[], in_roots: true },
	ClassU { key: "A$B$C", named: ["Gamma", "Gamma2", "Gamma3"], fields: &[], methods: &[], in_roots: true },
	ClassU { key: "D", named: ["pkg/Delta", "pkg/Delta2", "Delta3"], fields: &[MemberU { name: "h", desc: "J", params: &[] }], methods: &[MemberU { name: "n", desc: "(J)V", params: &[1] }], in_roots: true },
	ClassU { key: "E", named: ["pkg/Eps", "pkg/Eps2", "Eps3"], fields: &[], methods: &[], in_roots: false },
];

#[derive(Clone, Copy, Debug, PartialEq, Eq, PartialOrd, Ord, Hash)]
pub enum Node {
	Class(usize),
	Field(usize, usize),
	Method(usize, usize),
	/// class, method, position in the method's parameter list of the universe
	Param(usize, usize, usize),
}

impl Node {
	fn level(self) -> &'static str {
		match self {
			Node::Class(_) => "class",
			Node::Field(..) => "field",
			Node::Method(..) => "method",
			Node::Param(..) => "parameter",
		}
	}
	fn label(self) -> String {
		match self {
			Node::Class(c) => UNIVERSE[c].key.to_owned(),
			Node::Field(c, f) => format!("{}.{}:{}", UNIVERSE[c].key, UNIVERSE[c].fields[f].name, UNIVERSE[c].fields[f].desc),
			Node::Method(c, m) => format!("{}.{}{}", UNIVERSE[c].key, UNIVERSE[c].methods[m].name, UNIVERSE[c].methods[m].desc),
			Node::Param(c, m, p) => format!("{}.{}{}#{}", UNIVERSE[c].key, UNIVERSE[c].methods[m].name, UNIVERSE[c].methods[m].desc, UNIVERSE[c].methods[m].params[p]),
		}
	}
	/// the nodes below this one, parents before children
	fn subs(self) -> Vec<Node> {
		match self {
			Node::Class(c) => {
				let mut v: Vec<Node> = (0..UNIVERSE[c].fields.len()).map(|f| Node::Field(c, f)).collect();
				for m in 0..UNIVERSE[c].methods.len() {
					v.push(Node::Method(c, m));
					v.extend((0..UNIVERSE[c].methods[m].params.len()).map(|p| Node::Param(c, m, p)));
				}
				v
			},
			Node::Method(c, m) => (0..UNIVERSE[c].methods[m].params.len()).map(|p| Node::Param(c, m, p)).collect(),
			_ => vec![],
		}
	}
}

fn all_nodes() -> Vec<Node> {
	let mut v = Vec::new();
	for c in 0..UNIVERSE.len() {
		v.push(Node::Class(c));
		v.extend(Node::Class(c).subs());
	}
	v
}

fn upper_first(s: &str) -> String {
	let mut c = s.chars();
	match c.next() {
		Some(f) => f.to_uppercase().collect::<String>() + c.as_str(),
		None => String::new(),
	}
}

/// the `v`-th target name of a node (three per node, pairwise different)
fn name_of(n: Node, v: usize) -> String {
	let suffix = ["", "2", "3"][v % 3];
	match n {
		Node::Class(c) => UNIVERSE[c].named[v % 3].to_owned(),
		Node::Field(c, f) => format!("field{}{suffix}", upper_first(UNIVERSE[c].fields[f].name)),
		Node::Method(c, m) => format!("method{}{suffix}", upper_first(UNIVERSE[c].methods[m].name)),
		Node::Param(c, m, p) => format!("p{}{}", UNIVERSE[c].methods[m].params[p], ["", "x", "y"][v % 3]),
	}
}

/// the `v`-th comment of a node: plain, with a line break, with backslashes (one of them in front of an `n`)
fn doc_of(n: Node, v: usize) -> String {
	let base = format!("{} {}", n.level(), n.label());
	match v % 3 {
		0 => format!("{base} doc"),
		1 => format!("{base} doc\nsecond line"),
		_ => format!("{base} doc with \\ and \\n kept"),
	}
}

fn fkey(c: usize, f: usize) -> (String, String) {
	(UNIVERSE[c].fields[f].name.to_owned(), UNIVERSE[c].fields[f].desc.to_owned())
}
fn mkey(c: usize, m: usize) -> (String, String) {
	(UNIVERSE[c].methods[m].name.to_owned(), UNIVERSE[c].methods[m].desc.to_owned())
}

/// the name row and the comment of a node, if it is present
fn entry(s: &mut MSet, n: Node) -> Option<(&mut Vec<Option<String>>, &mut Option<String>)> {
	match n {
		Node::Class(c) => s.classes.get_mut(UNIVERSE[c].key).map(|x| (&mut x.names, &mut x.doc)),
		Node::Field(c, f) => s.classes.get_mut(UNIVERSE[c].key)?.fields.get_mut(&fkey(c, f)).map(|x| (&mut x.names, &mut x.doc)),
		Node::Method(c, m) => s.classes.get_mut(UNIVERSE[c].key)?.methods.get_mut(&mkey(c, m)).map(|x| (&mut x.names, &mut x.doc)),
		Node::Param(c, m, p) => s.classes.get_mut(UNIVERSE[c].key)?.methods.get_mut(&mkey(c, m))?.params.get_mut(&UNIVERSE[c].methods[m].params[p]).map(|x| (&mut x.names, &mut x.doc)),
	}
}

fn present(s: &MSet, n: Node) -> bool {
	match n {
		Node::Class(c) => s.classes.contains_key(UNIVERSE[c].key),
		Node::Field(c, f) => s.classes.get(UNIVERSE[c].key).is_some_and(|x| x.fields.contains_key(&fkey(c, f))),
		Node::Method(c, m) => s.classes.get(UNIVERSE[c].key).is_some_and(|x| x.methods.contains_key(&mkey(c, m))),
		Node::Param(c, m, p) => s.classes.get(UNIVERSE[c].key).and_then(|x| x.methods.get(&mkey(c, m))).is_some_and(|x| x.params.contains_key(&UNIVERSE[c].methods[m].params[p])),
	}
}

fn parent_present(s: &MSet, n: Node) -> bool {
	match n {
		Node::Class(_) => true,
		Node::Field(c, _) | Node::Method(c, _) => present(s, Node::Class(c)),
		Node::Param(c, m, _) => present(s, Node::Method(c, m)),
	}
}

/// creates the node (its parent must be present)
fn insert(s: &mut MSet, n: Node, named: Option<String>, doc: Option<String>) {
	match n {
		Node::Class(c) => {
			let key = UNIVERSE[c].key;
			s.classes.insert(key.to_owned(), MClass { names: vec![Some(key.to_owned()), named], doc, ..Default::default() });
		},
		Node::Field(c, f) => {
			let k = fkey(c, f);
			let cl = s.classes.get_mut(UNIVERSE[c].key).unwrap_or_else(|| fail("histories: insert below an absent class"));
			cl.fields.insert(k.clone(), MField { names: vec![Some(k.0), named], doc });
		},
		Node::Method(c, m) => {
			let k = mkey(c, m);
			let cl = s.classes.get_mut(UNIVERSE[c].key).unwrap_or_else(|| fail("histories: insert below an absent class"));
			cl.methods.insert(k.clone(), MMethod { names: vec![Some(k.0), named], doc, params: BTreeMap::new() });
		},
		Node::Param(c, m, p) => {
			let me = s.classes.get_mut(UNIVERSE[c].key).and_then(|x| x.methods.get_mut(&mkey(c, m))).unwrap_or_else(|| fail("histories: insert below an absent method"));
			// parameters carry no source name (a diff cannot state one)
			me.params.insert(UNIVERSE[c].methods[m].params[p], MParam { names: vec![None, named], doc });
		},
	}
}

fn remove(s: &mut MSet, n: Node) {
	match n {
		Node::Class(c) => {
			s.classes.remove(UNIVERSE[c].key);
		},
		Node::Field(c, f) => {
			if let Some(x) = s.classes.get_mut(UNIVERSE[c].key) {
				x.fields.remove(&fkey(c, f));
			}
		},
		Node::Method(c, m) => {
			if let Some(x) = s.classes.get_mut(UNIVERSE[c].key) {
				x.methods.remove(&mkey(c, m));
			}
		},
		Node::Param(c, m, p) => {
			if let Some(x) = s.classes.get_mut(UNIVERSE[c].key).and_then(|x| x.methods.get_mut(&mkey(c, m))) {
				x.params.remove(&UNIVERSE[c].methods[m].params[p]);
			}
		},
	}
}

// ---------------------------------------------------------------------------------------------
// edits

#[derive(Clone, Copy, Debug, PartialEq, Eq, PartialOrd, Ord, Hash)]
pub enum Kind {
	/// the node appears (it was absent), with a name
	Add,
	/// … with a name and a comment
	AddDoc,
	/// … with a name, a comment and everything below it
	AddFull,
	/// the node is present without a name and gets one (an addition on a key that exists)
	NameExisting,
	Rename,
	/// the node disappears with everything below it
	Remove,
	DocAdd,
	DocEdit,
	DocRemove,
}

impl Kind {
	const ALL: [Kind; 9] = [Kind::Add, Kind::AddDoc, Kind::AddFull, Kind::NameExisting, Kind::Rename, Kind::Remove, Kind::DocAdd, Kind::DocEdit, Kind::DocRemove];
	fn name(self) -> &'static str {
		match self {
			Kind::Add => "add",
			Kind::AddDoc => "add-with-comment",
			Kind::AddFull => "add-with-members",
			Kind::NameExisting => "name-on-existing",
			Kind::Rename => "rename",
			Kind::Remove => "remove",
			Kind::DocAdd => "comment-add",
			Kind::DocEdit => "comment-edit",
			Kind::DocRemove => "comment-remove",
		}
	}
}

#[derive(Clone, Copy, Debug, PartialEq, Eq, PartialOrd, Ord, Hash)]
pub struct Edit {
	node: Node,
	kind: Kind,
}

impl Edit {
	fn label(self) -> String {
		format!("{}:{}:{}", self.node.level(), self.node.label(), self.kind.name())
	}
	fn census_key(self) -> String {
		format!("{}.{}", self.node.level(), self.kind.name())
	}
}

/// every (node, kind) that makes sense
pub fn alphabet() -> Vec<Edit> {
	let mut v = Vec::new();
	for node in all_nodes() {
		for kind in Kind::ALL {
			match (kind, node) {
				// a subtree needs something below the node
				(Kind::AddFull, n) if n.subs().is_empty() => continue,
				// leaves are added with a comment, inner nodes with their subtree
				(Kind::AddDoc, n) if !n.subs().is_empty() => continue,
				_ => {},
			}
			v.push(Edit { node, kind });
		}
	}
	v
}

fn version_of(cur: &str, f: impl Fn(usize) -> String) -> usize {
	(0..3).find(|v| f(*v) == cur).unwrap_or(0)
}

/// the state after the edit, `None` if the edit does not apply to this state
fn apply_edit(e: Edit, s: &MSet) -> Option<MSet> {
	let mut o = s.clone();
	let n = e.node;
	match e.kind {
		Kind::Add | Kind::AddDoc | Kind::AddFull => {
			if present(&o, n) || !parent_present(&o, n) {
				return None;
			}
			let doc = match e.kind {
				Kind::AddDoc => Some(doc_of(n, 1)),
				Kind::AddFull => Some(doc_of(n, 2)),
				_ => None,
			};
			insert(&mut o, n, Some(name_of(n, 0)), doc);
			if e.kind == Kind::AddFull {
				for sub in n.subs() {
					insert(&mut o, sub, Some(name_of(sub, 0)), Some(doc_of(sub, 0)));
				}
			}
		},
		Kind::NameExisting => {
			let (names, _) = entry(&mut o, n)?;
			if names[1].is_some() {
				return None;
			}
			names[1] = Some(name_of(n, 0));
		},
		Kind::Rename => {
			let (names, _) = entry(&mut o, n)?;
			let cur = names[1].clone()?;
			names[1] = Some(name_of(n, version_of(&cur, |v| name_of(n, v)) + 1));
		},
		Kind::Remove => {
			let (names, _) = entry(&mut o, n)?;
			// a diff removes an entry by stating its name
			names[1].as_ref()?;
			remove(&mut o, n);
		},
		Kind::DocAdd => {
			let (_, doc) = entry(&mut o, n)?;
			if doc.is_some() {
				return None;
			}
			*doc = Some(doc_of(n, 1));
		},
		Kind::DocEdit => {
			let (_, doc) = entry(&mut o, n)?;
			let cur = doc.clone()?;
			*doc = Some(doc_of(n, version_of(&cur, |v| doc_of(n, v)) + 1));
		},
		Kind::DocRemove => {
			let (_, doc) = entry(&mut o, n)?;
			doc.as_ref()?;
			*doc = None;
		},
	}
	Some(o)
}

// ---------------------------------------------------------------------------------------------
// root states

const ROOT_NAMES: [&str; 4] = ["full", "bare", "mixed", "empty"];

/// 0 = everything present and named; 1 = everything present, nothing named; 2 = named classes with nameless
/// members and nameless classes with named members; 3 = no class at all
pub fn roots() -> Vec<MSet> {
	let nodes: Vec<Node> = all_nodes().into_iter().filter(|n| match n {
		Node::Class(c) | Node::Field(c, _) | Node::Method(c, _) | Node::Param(c, _, _) => UNIVERSE[*c].in_roots,
	}).collect();
	let build = |named: &dyn Fn(Node) -> bool, doc: &dyn Fn(Node) -> Option<usize>| -> MSet {
		let mut s = MSet::new(&NS);
		for &n in &nodes {
			insert(&mut s, n, if named(n) { Some(name_of(n, 0)) } else { None }, doc(n).map(|v| doc_of(n, v)));
		}
		s
	};
	let a = 0usize;
	let d = 3usize;
	let full = build(&|_| true, &|n| match n {
		Node::Class(c) if c == a => Some(0),
		Node::Field(c, _) if c == a => Some(2),
		Node::Method(c, _) if c == a => Some(0),
		Node::Param(c, _, 0) if c == a => Some(1),
		Node::Field(1, _) => Some(0),
		Node::Class(2) => Some(2),
		Node::Method(c, _) if c == d => Some(1),
		_ => None,
	});
	let bare = build(&|_| false, &|n| match n {
		Node::Param(c, _, 1) if c == a => Some(0),
		Node::Class(c) if c == d => Some(0),
		Node::Field(c, _) if c == a => Some(1),
		Node::Method(c, _) if c == d => Some(2),
		_ => None,
	});
	let mixed = build(&|n| match n {
		Node::Class(c) => c == a || c == 1,
		Node::Field(c, _) => c == d,
		Node::Method(..) => true,
		Node::Param(c, _, p) => c == d || p == 1,
	}, &|n| match n {
		Node::Field(c, _) if c == a => Some(0),
		Node::Param(c, _, 0) if c == a => Some(2),
		Node::Class(2) => Some(1),
		Node::Param(c, _, _) if c == d => Some(0),
		_ => None,
	});
	let empty = MSet::new(&NS);
	vec![full, bare, mixed, empty]
}

// ---------------------------------------------------------------------------------------------
// steps

/// one edge of a history: the edits folded into it, the state after it, the text of the edge file
#[derive(Clone)]
struct Step {
	edits: Vec<Edit>,
	state: MSet,
	text: String,
}

#[derive(Default)]
struct Skipped {
	extension_undefined: u64,
	inexpressible: u64,
}

/// The reference diff `parent → child` as text, `None` if the diff language cannot say it. The reference
/// `apply` of that diff on `parent` has to give `child` (self-check of the two references).
fn edge_text(parent: &MSet, child: &MSet) -> Option<String> {
	let d = prune(mapmodel::diff::diff(parent, child)?);
	let e = mapmodel::diff::apply(&d, parent, 1);
	if e.result.as_ref() != Some(child) || e.may_refuse {
		fail(&format!("histories: reference apply(diff(parent, child), parent) is not child ({})\nparent:\n{}child:\n{}", e.reason, mapmodel::tiny::print(parent), mapmodel::tiny::print(child)));
	}
	for doc in docs_of_diff(&d) {
		if doc.is_empty() || doc.contains('\t') || doc.contains('\r') {
			fail("histories: a comment that the diff text cannot carry");
		}
	}
	Some(mapmodel::diff::print(&d))
}

fn docs_of_diff(d: &mapmodel::MDiff) -> Vec<String> {
	let mut v = Vec::new();
	let mut add = |a: &mapmodel::Act| {
		let (x, y) = a.to_tuple();
		v.extend(x);
		v.extend(y);
	};
	for c in d.classes.values() {
		add(&c.doc);
		for f in c.fields.values() {
			add(&f.doc);
		}
		for m in c.methods.values() {
			add(&m.doc);
			for p in m.params.values() {
				add(&p.doc);
			}
		}
	}
	v
}

/// All distinct states reachable from `s` by exactly `arity` applicable edits (1 or 2) folded into one diff,
/// in alphabet order; states for which the inner-class-name extension is not defined (a named nested class
/// whose outer class is absent or nameless) and steps the diff language cannot express are left out and counted.
fn steps_from(s: &MSet, arity: usize, alpha: &[Edit], skipped: &mut Skipped) -> Vec<Step> {
	let mut seen: BTreeSet<MSet> = BTreeSet::new();
	seen.insert(s.clone());
	let mut out = Vec::new();
	let mut push = |edits: Vec<Edit>, x: MSet, skipped: &mut Skipped| {
		if seen.contains(&x) {
			return;
		}
		if extend_ref(&x).is_err() {
			skipped.extension_undefined += 1;
			return;
		}
		match edge_text(s, &x) {
			Some(text) => {
				seen.insert(x.clone());
				out.push(Step { edits, state: x, text });
			},
			None => skipped.inexpressible += 1,
		}
	};
	for e1 in alpha {
		let Some(s1) = apply_edit(*e1, s) else { continue };
		if arity == 1 {
			push(vec![*e1], s1, skipped);
		} else {
			for e2 in alpha {
				if let Some(s2) = apply_edit(*e2, &s1) {
					push(vec![*e1, *e2], s2, skipped);
				}
			}
		}
	}
	out
}

// ---------------------------------------------------------------------------------------------
// directories

#[derive(Clone)]
struct VNode {
	name: String,
	/// the state the statement demands (contracted form)
	state: MSet,
	/// how the version was reached, for messages: one entry per edge, the edits folded into it
	history: Vec<String>,
	depth: usize,
	/// the edits of the last edge on the way to this version
	last: Vec<Edit>,
}

struct Dir {
	label: String,
	root_index: usize,
	extended_root: bool,
	order: usize,
	nodes: Vec<VNode>,
	/// (parent, child, text)
	edges: Vec<(usize, usize, String)>,
}

fn vname(prefix: &str, path: &[usize]) -> String {
	let tail: Vec<String> = path.iter().map(|i| i.to_string()).collect();
	let tail = tail.join(".");
	if path.iter().sum::<usize>() % 3 == 1 {
		format!("{prefix}{tail}~s{prefix}{tail}")
	} else {
		format!("{prefix}{tail}")
	}
}

#[derive(Clone, Debug, PartialEq, Eq)]
pub enum Item {
	/// the tree of all histories whose edges fold `arities[i]` edits at depth i, below the first-level steps `from..to`
	Tree { root: usize, arities: Vec<usize>, from: usize, to: usize },
	Chain { n: usize },
	Fan { n: usize },
	Ladder { n: usize },
	/// every single step below the root and, for every two of them that commute, the version that both lead to
	Web { root: usize },
}

impl Item {
	fn label(&self) -> String {
		match self {
			Item::Tree { root, arities, from, to } => format!("tree;root={root};arities={};first={from}-{to}", arities.iter().map(|a| a.to_string()).collect::<Vec<_>>().join(",")),
			Item::Chain { n } => format!("chain;n={n}"),
			Item::Fan { n } => format!("fan;n={n}"),
			Item::Ladder { n } => format!("ladder;n={n}"),
			Item::Web { root } => format!("web;root={root}"),
		}
	}
	fn parse(s: &str) -> Option<Item> {
		let parts: Vec<&str> = s.trim().split(';').collect();
		let kv = |k: &str| parts.iter().find_map(|p| p.strip_prefix(k).and_then(|r| r.strip_prefix('=')));
		let num = |k: &str| kv(k).and_then(|v| v.parse::<usize>().ok());
		match *parts.first()? {
			"tree" => {
				let (from, to) = kv("first")?.split_once('-')?;
				Some(Item::Tree { root: num("root")?, arities: kv("arities")?.split(',').map(|a| a.parse::<usize>().ok()).collect::<Option<Vec<_>>>()?, from: from.parse().ok()?, to: to.parse().ok()? })
			},
			"chain" => Some(Item::Chain { n: num("n")? }),
			"fan" => Some(Item::Fan { n: num("n")? }),
			"ladder" => Some(Item::Ladder { n: num("n")? }),
			"web" => Some(Item::Web { root: num("root")? }),
			_ => None,
		}
	}
}

fn build_tree(roots: &[MSet], alpha: &[Edit], root: usize, arities: &[usize], from: usize, to: usize, chunk: usize, skipped: &mut Skipped) -> Dir {
	let root_name = if chunk % 2 == 1 { "r0~rs0".to_owned() } else { "r0".to_owned() };
	let mut dir = Dir {
		label: String::new(),
		root_index: root,
		extended_root: chunk % 2 == 0,
		order: chunk % 3,
		nodes: vec![VNode { name: root_name, state: roots[root].clone(), history: vec![], depth: 0, last: vec![] }],
		edges: vec![],
	};
	fn grow(dir: &mut Dir, alpha: &[Edit], at: usize, path: &mut Vec<usize>, arities: &[usize], range: Option<(usize, usize)>, skipped: &mut Skipped) {
		let Some((&arity, rest)) = arities.split_first() else { return };
		let state = dir.nodes[at].state.clone();
		let steps = steps_from(&state, arity, alpha, skipped);
		for (i, st) in steps.into_iter().enumerate() {
			if let Some((from, to)) = range {
				if i < from || i >= to {
					continue;
				}
			}
			path.push(i);
			let mut history = dir.nodes[at].history.clone();
			history.push(st.edits.iter().map(|e| e.label()).collect::<Vec<_>>().join(" + "));
			let depth = dir.nodes[at].depth + 1;
			dir.nodes.push(VNode { name: vname("h", path), state: st.state, history, depth, last: st.edits });
			let child = dir.nodes.len() - 1;
			dir.edges.push((at, child, st.text));
			grow(dir, alpha, child, path, rest, None, skipped);
			path.pop();
		}
	}
	grow(&mut dir, alpha, 0, &mut Vec::new(), arities, Some((from, to)), skipped);
	dir
}

/// the edits of the full root that rename or re-comment something and can be repeated for ever
fn perpetual(alpha: &[Edit], s: &MSet) -> Vec<Edit> {
	alpha.iter().copied().filter(|e| matches!(e.kind, Kind::Rename | Kind::DocEdit) && apply_edit(*e, s).is_some()).collect()
}

fn step_to(parent: &MSet, e: Edit) -> (MSet, String) {
	let child = apply_edit(e, parent).unwrap_or_else(|| fail("histories: a perpetual edit does not apply"));
	let text = edge_text(parent, &child).unwrap_or_else(|| fail("histories: a perpetual edit cannot be expressed"));
	(child, text)
}

/// a chain of `n` edges: the perpetual edits round-robin
fn build_chain(roots: &[MSet], alpha: &[Edit], n: usize) -> Dir {
	let edits = perpetual(alpha, &roots[0]);
	let mut dir = Dir { label: String::new(), root_index: 0, extended_root: true, order: 1, nodes: vec![VNode { name: "c0".into(), state: roots[0].clone(), history: vec![], depth: 0, last: vec![] }], edges: vec![] };
	for i in 0..n {
		let e = edits[i % edits.len()];
		let (child, text) = step_to(&dir.nodes[i].state, e);
		let mut history = dir.nodes[i].history.clone();
		history.push(e.label());
		dir.nodes.push(VNode { name: vname("c", &[i + 1]), state: child, history, depth: i + 1, last: vec![e] });
		dir.edges.push((i, i + 1, text));
	}
	dir
}

/// Version names as they occur in the wild (the shortcut table of version_graph.rs, the repository's fixture)
/// and names with characters a pattern written for `1.2.3` would not expect. Only `#`, `~` and `/` have a
/// meaning in a file name; everything else is part of the version's name.
pub const WILD_NAMES: [&str; 28] = [
	"a1.0.15~server-a0.1.0", "a1.0.16~server-a0.1.1-1707", "b1.8-pre1-201109081459", "b1.3-1750-client", "12w05a-1442", "1.0.0",
	"1.3-pre-07261249", "1.RV-Pre1", "af-2013-red", "2point0_blue", "13w16a-04192037", "1.12-pre3-1409", "1.4~server-0.4",
	"UPPER", "upper~Upper2", "with space", " padded ", "plus+sign", "(paren)", "dollar$sign", "percent%20", "ünïcode", "日本",
	".hidden", "ends.tiny", "ends.tinydiff", "two..dots.", "-dash",
];

/// `n` children of the root, each one perpetual edit away (states repeat, versions do not)
fn build_fan(roots: &[MSet], alpha: &[Edit], n: usize) -> Dir {
	let edits = perpetual(alpha, &roots[0]);
	let mut dir = Dir { label: String::new(), root_index: 0, extended_root: false, order: 2, nodes: vec![VNode { name: "w~ws".into(), state: roots[0].clone(), history: vec![], depth: 0, last: vec![] }], edges: vec![] };
	for i in 0..n {
		let e = edits[i % edits.len()];
		let (child, text) = step_to(&roots[0], e);
		let name = WILD_NAMES.get(i).map(|s| s.to_string()).unwrap_or_else(|| vname("w", &[i]));
		dir.nodes.push(VNode { name, state: child, history: vec![e.label()], depth: 1, last: vec![e] });
		dir.edges.push((0, i + 1, text));
	}
	dir
}

/// `n` diamonds on top of each other: L(i) → a(i) by x, L(i) → b(i) by y, a(i) → L(i+1) by y, b(i) → L(i+1) by x,
/// where x renames class A and y renames class D (they commute, so every path to a version yields the same state)
fn build_ladder(roots: &[MSet], n: usize) -> Dir {
	let x = Edit { node: Node::Class(0), kind: Kind::Rename };
	let y = Edit { node: Node::Class(3), kind: Kind::Rename };
	let mut dir = Dir { label: String::new(), root_index: 0, extended_root: true, order: 0, nodes: vec![VNode { name: "L0".into(), state: roots[0].clone(), history: vec![], depth: 0, last: vec![] }], edges: vec![] };
	let mut top = 0usize;
	for i in 0..n {
		let s = dir.nodes[top].state.clone();
		let (sa, ta) = step_to(&s, x);
		let (sb, tb) = step_to(&s, y);
		let (sab, tab) = step_to(&sa, y);
		let (sba, tba) = step_to(&sb, x);
		if sab != sba {
			fail("histories: the two sides of a ladder step do not commute");
		}
		let h = dir.nodes[top].history.clone();
		let with = |h: &Vec<String>, e: &[Edit]| -> Vec<String> {
			let mut h = h.clone();
			h.extend(e.iter().map(|e| e.label()));
			h
		};
		dir.nodes.push(VNode { name: vname("a", &[i]), state: sa, history: with(&h, &[x]), depth: 2 * i + 1, last: vec![x] });
		let a = dir.nodes.len() - 1;
		dir.nodes.push(VNode { name: vname("b", &[i]), state: sb, history: with(&h, &[y]), depth: 2 * i + 1, last: vec![y] });
		let b = dir.nodes.len() - 1;
		dir.nodes.push(VNode { name: format!("L{}", i + 1), state: sab, history: with(&h, &[x, y]), depth: 2 * i + 2, last: vec![y] });
		let l = dir.nodes.len() - 1;
		dir.edges.push((top, a, ta));
		dir.edges.push((top, b, tb));
		dir.edges.push((a, l, tab));
		dir.edges.push((b, l, tba));
		top = l;
	}
	dir
}

/// A web of diamonds: the root, one version per single step, and for every two steps e1, e2 that commute
/// (e2 after e1 gives the state e1 after e2 gives) one version with two parents, reached by e2 from the first
/// and by e1 from the second. Both ways to such a version are equally long and yield the same state.
fn build_web(roots: &[MSet], alpha: &[Edit], root: usize, chunk: usize, skipped: &mut Skipped) -> Dir {
	let mut dir = Dir {
		label: String::new(),
		root_index: root,
		extended_root: chunk % 2 == 0,
		order: chunk % 3,
		nodes: vec![VNode { name: "r0".into(), state: roots[root].clone(), history: vec![], depth: 0, last: vec![] }],
		edges: vec![],
	};
	let firsts = steps_from(&roots[root], 1, alpha, skipped);
	for (i, st) in firsts.iter().enumerate() {
		dir.nodes.push(VNode { name: vname("h", &[i]), state: st.state.clone(), history: vec![st.edits[0].label()], depth: 1, last: st.edits.clone() });
		dir.edges.push((0, i + 1, st.text.clone()));
	}
	for i in 0..firsts.len() {
		for j in i + 1..firsts.len() {
			let (e1, e2) = (firsts[i].edits[0], firsts[j].edits[0]);
			let (Some(a), Some(b)) = (apply_edit(e2, &firsts[i].state), apply_edit(e1, &firsts[j].state)) else { continue };
			if a != b || a == firsts[i].state || a == firsts[j].state || a == roots[root] {
				continue;
			}
			if extend_ref(&a).is_err() {
				skipped.extension_undefined += 1;
				continue;
			}
			let (Some(ta), Some(tb)) = (edge_text(&firsts[i].state, &a), edge_text(&firsts[j].state, &a)) else {
				skipped.inexpressible += 1;
				continue;
			};
			dir.nodes.push(VNode { name: vname("m", &[i, j]), state: a, history: vec![format!("{} | {}", e1.label(), e2.label()), format!("{} | {}", e2.label(), e1.label())], depth: 2, last: vec![e2] });
			let c = dir.nodes.len() - 1;
			dir.edges.push((i + 1, c, ta));
			dir.edges.push((j + 1, c, tb));
		}
	}
	dir
}

/// Cuts a tree (nodes in preorder) into directories of about `target` versions: every part is the way from the
/// root to some version plus complete subtrees below that version. (The real lookup of a path visits the whole
/// directory, so small directories keep the sweep linear in the number of versions.)
fn split_tree(dir: Dir, target: usize) -> Vec<Dir> {
	let n = dir.nodes.len();
	if n <= target + 1 {
		return vec![dir];
	}
	let mut parent = vec![usize::MAX; n];
	let mut text: Vec<Option<&String>> = vec![None; n];
	for (p, c, t) in &dir.edges {
		if parent[*c] != usize::MAX || *p >= *c {
			fail("histories: split_tree needs a tree in preorder");
		}
		parent[*c] = *p;
		text[*c] = Some(t);
	}
	let mut size = vec![1usize; n];
	for i in (1..n).rev() {
		size[parent[i]] += size[i];
	}
	let mut children: Vec<Vec<usize>> = vec![vec![]; n];
	for i in 1..n {
		children[parent[i]].push(i);
	}
	// (the way from the root to x, the roots of the subtrees below x that go into this part)
	let mut parts: Vec<(Vec<usize>, Vec<usize>)> = Vec::new();
	fn rec(x: usize, way: &mut Vec<usize>, children: &[Vec<usize>], size: &[usize], target: usize, parts: &mut Vec<(Vec<usize>, Vec<usize>)>) {
		way.push(x);
		let mut group: Vec<usize> = Vec::new();
		let mut total = 0usize;
		for &c in &children[x] {
			if size[c] > target {
				rec(c, way, children, size, target, parts);
				continue;
			}
			if total + size[c] > target && !group.is_empty() {
				parts.push((way.clone(), std::mem::take(&mut group)));
				total = 0;
			}
			group.push(c);
			total += size[c];
		}
		if !group.is_empty() {
			parts.push((way.clone(), group));
		}
		way.pop();
	}
	rec(0, &mut Vec::new(), &children, &size, target, &mut parts);
	let mut out = Vec::new();
	for (k, (way, subtrees)) in parts.iter().enumerate() {
		let mut index: Vec<usize> = way.clone();
		for &r in subtrees {
			index.extend(r..r + size[r]);
		}
		let mut new_of = vec![usize::MAX; n];
		for (new, &old) in index.iter().enumerate() {
			new_of[old] = new;
		}
		let nodes: Vec<VNode> = index.iter().map(|&i| dir.nodes[i].clone()).collect();
		let edges: Vec<(usize, usize, String)> = index.iter().filter(|&&i| i != 0).map(|&i| (new_of[parent[i]], new_of[i], text[i].cloned().unwrap_or_default())).collect();
		if edges.iter().any(|(p, _, _)| *p == usize::MAX) {
			fail("histories: split_tree lost a parent");
		}
		out.push(Dir { label: format!("{};part={k}", dir.label), root_index: dir.root_index, extended_root: (dir.extended_root as usize + k) % 2 == 0, order: (dir.order + k) % 3, nodes, edges });
	}
	out
}

fn build(roots: &[MSet], alpha: &[Edit], item: &Item, chunk: usize, skipped: &mut Skipped) -> Dir {
	let mut d = match item {
		Item::Tree { root, arities, from, to } => build_tree(roots, alpha, *root, arities, *from, *to, chunk, skipped),
		Item::Chain { n } => build_chain(roots, alpha, *n),
		Item::Fan { n } => build_fan(roots, alpha, *n),
		Item::Ladder { n } => build_ladder(roots, *n),
		Item::Web { root } => build_web(roots, alpha, *root, chunk, skipped),
	};
	d.label = item.label();
	d
}

// ---------------------------------------------------------------------------------------------
// judging one directory

const UNKNOWN: [&str; 5] = ["zz", "h", "r0~", "~rs0", "h0 "];

fn replay_text(dir: &Dir, files: &[(String, String)], v: Option<usize>, actual: Option<&str>) -> String {
	let mut s = format!("engine=histories\nitem={}\nroot state: {} ({}), root file printed {}\n", dir.label, dir.root_index, ROOT_NAMES.get(dir.root_index).copied().unwrap_or("?"), if dir.extended_root { "extended" } else { "contracted" });
	if let Some(v) = v {
		let n = &dir.nodes[v];
		s.push_str(&format!("version: {:?} (depth {})\nhistory (one line per edge on the way from the root):\n", n.name, n.depth));
		for h in &n.history {
			s.push_str(&format!("  {h}\n"));
		}
		// the files on the way
		let mut way = vec![v];
		let mut at = v;
		while let Some((p, _, _)) = dir.edges.iter().find(|(_, c, _)| *c == at) {
			way.push(*p);
			at = *p;
		}
		way.reverse();
		s.push_str(&format!("--- {}\n{}", files[0].0, files[0].1));
		for w in way.windows(2) {
			let name = format!("{}#{}.tinydiff", dir.nodes[w[0]].name, dir.nodes[w[1]].name);
			if let Some((_, text)) = files.iter().find(|(n, _)| *n == name) {
				s.push_str(&format!("--- {name}\n{text}"));
			}
		}
		s.push_str(&format!("expected:\n{}", match extend_ref(&n.state) {
			Ok(x) => mapmodel::tiny::print(&x),
			Err(e) => e,
		}));
	}
	if let Some(a) = actual {
		s.push_str(&format!("actual:\n{a}\n"));
	}
	s.push_str(&format!("({} versions, {} files in the directory)\n", dir.nodes.len(), files.len()));
	s
}

fn judge_dir(run: &Run, roots_ext: &[String], roots_con: &[String], dir: &Dir) -> Stats {
	let mut st = Stats::new();
	let id = run.counter.fetch_add(1, std::sync::atomic::Ordering::Relaxed);
	let path = run.root.join(format!("d{id}"));
	let root_text = if dir.extended_root { &roots_ext[dir.root_index] } else { &roots_con[dir.root_index] };
	// the order of the entries inside the files (the format prescribes none): as printed / reversed (a nested class
	// before its outer class, the last member first) / rotated, a function of the directory's label
	let file_order = (vcore::hash64(&dir.label) % 3) as usize;
	st.outcome(&format!("history:file-order-{}", ["sorted", "reversed", "rotated"][file_order]));
	let mut files: Vec<(String, String)> = vec![(format!("{}.tiny", dir.nodes[0].name), super::texts::reorder(root_text, file_order))];
	for (p, c, text) in &dir.edges {
		files.push((format!("{}#{}.tinydiff", dir.nodes[*p].name, dir.nodes[*c].name), super::texts::reorder(text, file_order)));
	}
	{
		let mut names: BTreeSet<&str> = BTreeSet::new();
		let mut keys: BTreeSet<String> = BTreeSet::new();
		for n in &dir.nodes {
			if !names.insert(&n.name) {
				fail("histories: two versions with one name");
			}
			for (k, _) in keys_of(&n.name) {
				if !keys.insert(k) {
					fail("histories: two versions share a lookup key");
				}
			}
		}
	}
	let mut order: Vec<usize> = (0..files.len()).collect();
	match dir.order {
		1 => order.reverse(),
		2 => order.rotate_left(files.len() / 3),
		_ => {},
	}
	std::fs::create_dir(&path).unwrap_or_else(|e| fail(&format!("cannot create {path:?}: {e}")));
	for &i in &order {
		std::fs::write(path.join(&files[i].0), files[i].1.as_bytes()).unwrap_or_else(|e| fail(&format!("cannot write in {path:?}: {e}")));
	}
	judge_on_disk(run, &mut st, dir, &files, &path);
	for (name, _) in &files {
		let _ = std::fs::remove_file(path.join(name));
	}
	if std::fs::remove_dir(&path).is_err() {
		let _ = std::fs::remove_dir_all(&path);
	}
	st
}

fn judge_on_disk(run: &Run, st: &mut Stats, dir: &Dir, files: &[(String, String)], path: &Path) {
	let ctx = run.ctx;
	st.eval();
	st.outcome("history:directories");
	st.outcome("directories:well-formed");
	st.outcome_n("history:versions", dir.nodes.len() as u64);
	st.outcome_n("history:edge-files", dir.edges.len() as u64);
	st.distinct.add(&(&dir.label, files));
	let mut calls = 1u64;
	let g = match vcore::guard(|| vg::resolve(path)) {
		Ok(Ok(g)) => g,
		Ok(Err(e)) => {
			ctx.diff("wellformed:resolve-refused", &format!("resolve refused a well-formed directory of histories: {}", format!("{e:#}").replace(&path.display().to_string(), "<dir>")), || replay_text(dir, files, None, None));
			st.outcome_n("real-code-calls", calls);
			return;
		},
		Err(p) => {
			ctx.diff(&format!("panic@{}", p.file()), &format!("resolve panicked at {}: {} (directory of histories)", p.site, p.msg), || replay_text(dir, files, None, None));
			st.outcome_n("real-code-calls", calls);
			return;
		},
	};
	calls += 1;
	match vcore::guard(|| g.versions()) {
		Ok(v) => {
			let mut seen: Vec<String> = v.into_iter().map(|(n, _)| n).collect();
			seen.sort();
			let mut want: Vec<String> = dir.nodes.iter().map(|n| n.name.clone()).collect();
			want.sort();
			if seen != want {
				ctx.diff("versions:node-set", &format!("versions() lists {} versions, the directory defines {}", seen.len(), want.len()), || replay_text(dir, files, None, None));
			}
		},
		Err(p) => ctx.diff(&format!("panic@{}", p.file()), &format!("versions() panicked at {}: {}", p.site, p.msg), || replay_text(dir, files, None, None)),
	}
	let mut parents = vec![0u32; dir.nodes.len()];
	for (_, c, _) in &dir.edges {
		parents[*c] += 1;
	}
	let root_answer = extend_ref(&dir.nodes[0].state).unwrap_or_default();
	for (vi, n) in dir.nodes.iter().enumerate() {
		let keys = keys_of(&n.name);
		let mut usable: Vec<&str> = Vec::new();
		for (key, kind) in &keys {
			calls += 1;
			match vcore::guard(|| g.get(key)) {
				Ok(Ok((split, name))) => {
					if name != n.name {
						ctx.diff("get:wrong-node", &format!("get({key:?}) answers with version {name:?} instead of {:?}", n.name), || replay_text(dir, files, Some(vi), None));
						continue;
					}
					if split != *kind {
						ctx.diff("get:split-kind", &format!("get({key:?}) reports {split:?} for version {:?}, expected {kind:?}", n.name), || replay_text(dir, files, Some(vi), None));
					}
					st.outcome(match kind {
						SplitKind::None => "get:plain-name",
						SplitKind::First => "get:client-half",
						SplitKind::Second => "get:server-half",
					});
					usable.push(key);
				},
				Ok(Err(e)) => ctx.diff("get:version-not-found", &format!("version {:?} cannot be looked up as {key:?}: {e:#}", n.name), || replay_text(dir, files, Some(vi), None)),
				Err(p) => ctx.diff(&format!("panic@{}", p.file()), &format!("get({key:?}) panicked at {}: {}", p.site, p.msg), || replay_text(dir, files, Some(vi), None)),
			}
		}
		// the mappings, asked for through one of the names (the halves take turns)
		let Some(key) = usable.get(vi % usable.len().max(1)).copied() else { continue };
		calls += 1;
		let expected = extend_ref(&n.state).unwrap_or_else(|e| fail(&format!("histories: a version whose extension is not defined was laid out: {e}")));
		match vcore::guard(|| project(g.apply_diffs(key))) {
			Err(p) => ctx.diff(&format!("panic@{}", p.file()), &format!("apply_diffs(get({key:?})) panicked at {}: {}", p.site, p.msg), || replay_text(dir, files, Some(vi), None)),
			Ok(Err(e)) => ctx.diff("wellformed:apply-refused", &format!("apply_diffs refused version {:?} (depth {}) of a well-formed directory of histories: {}", n.name, n.depth, e.replace(&path.display().to_string(), "<dir>")), || replay_text(dir, files, Some(vi), Some(&e))),
			Ok(Ok(Err(k))) => ctx.diff("resolve:key-invariant", &format!("mappings reported for {:?} break the key invariant: {k}", n.name), || replay_text(dir, files, Some(vi), None)),
			Ok(Ok(Ok(m))) => {
				if m == expected {
					st.outcome("answers-equal-to-oracle");
					st.outcome("history:answers-equal-to-oracle");
					st.outcome(&format!("history:depth-{}", n.depth.min(9)));
					if n.depth > 0 && m != root_answer {
						st.outcome("answers-different-from-root");
					}
					if n.last.len() > 1 {
						st.outcome("history:composite-edges-answered");
					}
					if WILD_NAMES.contains(&n.name.as_str()) {
						st.outcome("history:wild-names-answered");
					}
					if parents[vi] >= 2 {
						st.outcome("history:two-parent-versions-answered");
					}
					for e in &n.last {
						st.outcome(&format!("history:edit:{}", e.census_key()));
					}
					if n.last.len() == 2 && n.last[0].kind == Kind::NameExisting && n.last.iter().skip(1).any(|e| n.last[0].node.subs().contains(&e.node)) {
						st.outcome("history:name-on-existing-with-member-change-in-one-diff");
					}
				} else {
					let (k, what) = mapmodel::first_difference(&expected, &m).unwrap_or(("other".into(), "differ".into()));
					ctx.diff(&format!("resolve:{k}"), &format!("mappings of version {:?} (depth {}, last edge: {}) are not root + diffs on its path + inner-class extension: {what}", n.name, n.depth, n.history.last().cloned().unwrap_or_default()), || replay_text(dir, files, Some(vi), Some(&mapmodel::tiny::print(&m))));
				}
			},
		}
	}
	for u in UNKNOWN {
		if dir.nodes.iter().any(|n| n.name == u || keys_of(&n.name).iter().any(|(k, _)| k == u)) {
			continue;
		}
		calls += 1;
		match vcore::guard(|| g.get(u)) {
			Ok(Ok((_, name))) => ctx.diff("get:unknown-accepted", &format!("get({u:?}) of a version no file names answers with {name:?}"), || replay_text(dir, files, None, None)),
			Ok(Err(_)) => st.outcome("refused:unknown-version"),
			Err(p) => ctx.diff(&format!("panic@{}", p.file()), &format!("get({u:?}) panicked at {}: {}", p.site, p.msg), || replay_text(dir, files, None, None)),
		}
	}
	st.outcome_n("real-code-calls", calls);
	st.outcome_n("nodes-resolved", dir.nodes.len() as u64);
	let shape = dir.label.split(';').next().unwrap_or("?").to_owned();
	st.outcome(&format!("history:directories:{shape}"));
	st.sample(&format!("history-{shape}"), || json!({
		"kind": "directory of histories",
		"item": dir.label,
		"versions": dir.nodes.len(),
		"deepest_version": dir.nodes.iter().max_by_key(|n| n.depth).map(|n| json!({"name": n.name, "history": n.history})),
	}));
}

// ---------------------------------------------------------------------------------------------
// plan and sweep

pub struct Out {
	pub st: Stats,
	pub bounds: Value,
	pub floors: Vec<(String, u64, u64)>,
	pub items: u64,
}

struct Shared {
	roots: Vec<MSet>,
	roots_ext: Vec<String>,
	roots_con: Vec<String>,
	alpha: Vec<Edit>,
}

fn shared() -> Shared {
	let roots = roots();
	let mut roots_ext = Vec::new();
	let mut roots_con = Vec::new();
	for (i, r) in roots.iter().enumerate() {
		r.check().unwrap_or_else(|e| fail(&format!("histories: root {i}: {e}")));
		let e = extend_ref(r).unwrap_or_else(|e| fail(&format!("histories: root {i} cannot be extended: {e}")));
		for form in [r, &e] {
			let back = mapmodel::tiny::parse(&mapmodel::tiny::print(form)).unwrap_or_else(|e| fail(&format!("histories: root {i}: {e:?}")));
			if &back != form {
				fail(&format!("histories: root {i}: reference print/parse disagree"));
			}
		}
		roots_ext.push(mapmodel::tiny::print(&e));
		roots_con.push(mapmodel::tiny::print(r));
	}
	Shared { roots, roots_ext, roots_con, alpha: alphabet() }
}

/// the depth patterns: the number of edits folded into the edge at each depth
fn specs(quick: bool, root: usize) -> Vec<Vec<usize>> {
	if quick {
		vec![vec![1, 1], vec![2], vec![2, 1], vec![1, 2], vec![1, 1, 1]]
	} else {
		let mut v = vec![vec![1, 1], vec![2], vec![2, 1], vec![1, 2], vec![1, 1, 1], vec![2, 2]];
		// four diffs after one another, except from the root with the most steps (0)
		if root != 0 {
			v.push(vec![1, 1, 1, 1]);
		}
		// three diffs one of which folds two edits, from the roots in which nothing is named yet (1) and in which nothing is there yet (3)
		if root == 1 || root == 3 {
			v.extend([vec![2, 1, 1], vec![1, 2, 1], vec![1, 1, 2]]);
		}
		v
	}
}

/// decides root form, root name and creation order of an item's directory (a function of the item alone, so
/// that a replay lays out the same directory)
fn chunk_of(item: &Item) -> usize {
	(vcore::hash64(&item.label()) % 6) as usize
}

const VERSIONS_PER_DIRECTORY: usize = 400;
/// versions per work item (an item is built as one tree and then laid out as several directories)
const VERSIONS_PER_ITEM: usize = 1600;

fn plan(sh: &Shared, quick: bool) -> (Vec<Item>, Value) {
	let mut items: Vec<Item> = Vec::new();
	let mut per_root = Vec::new();
	for (ri, r) in sh.roots.iter().enumerate() {
		let mut sk = Skipped::default();
		let n1 = steps_from(r, 1, &sh.alpha, &mut sk).len();
		let n2 = steps_from(r, 2, &sh.alpha, &mut sk).len();
		per_root.push(json!({"root": ROOT_NAMES[ri], "entries": r.entries(), "single_steps": n1, "composite_steps_of_two_edits": n2}));
		for arities in specs(quick, ri) {
			let first = if arities[0] == 1 { n1 } else { n2 };
			// estimated size of the subtree below one first-level step
			let below: usize = arities[1..].iter().map(|a| if *a == 1 { n1.max(1) } else { n2.max(1) }).fold(1usize, |acc, x| acc.saturating_mul(x + 1));
			let per_dir = (VERSIONS_PER_ITEM / below.max(1)).max(1);
			let mut from = 0;
			while from < first {
				let to = (from + per_dir).min(first);
				items.push(Item::Tree { root: ri, arities: arities.clone(), from, to });
				from = to;
			}
		}
	}
	let (chain, fan, ladder) = if quick { (96, 600, 8) } else { (768, 6000, 12) };
	items.extend([Item::Chain { n: chain }, Item::Fan { n: fan }, Item::Ladder { n: ladder }]);
	// a ladder high enough that the number of root→version paths (2^n) is out of reach: resolving must not depend on it
	items.extend(if quick { vec![Item::Ladder { n: 40 }] } else { vec![Item::Ladder { n: 40 }, Item::Ladder { n: 200 }] });
	items.extend((0..sh.roots.len()).map(|root| Item::Web { root }));
	let bounds = json!({
		"universe": UNIVERSE.iter().map(|c| json!({"class": c.key, "fields": c.fields.iter().map(|f| format!("{}:{}", f.name, f.desc)).collect::<Vec<_>>(), "methods": c.methods.iter().map(|m| format!("{}{} params {:?}", m.name, m.desc, m.params)).collect::<Vec<_>>(), "in_root_states": c.in_roots})).collect::<Vec<_>>(),
		"edit_alphabet": {"size": sh.alpha.len(), "kinds": Kind::ALL.iter().map(|k| k.name()).collect::<Vec<_>>(), "levels": ["class (top-level and nested twice)", "field", "method", "parameter"], "names_per_node": 3, "comments_per_node": ["plain", "with a line break", "with backslashes"]},
		"root_states": per_root,
		"root_forms": "extended and contracted, alternating by directory",
		"depth_patterns": (0..sh.roots.len()).map(|ri| json!({"root": ROOT_NAMES[ri], "patterns": specs(quick, ri).iter().map(|a| a.iter().map(|x| x.to_string()).collect::<Vec<_>>().join(",")).collect::<Vec<_>>()})).collect::<Vec<_>>(),
		"depth_patterns_meaning": "a pattern a1,a2,… lays out every history whose i-th edge folds a_i applicable edits into one diff; every applicable edit (pair of edits) at every state of the tree, distinct resulting states only",
		"left_out": "steps after which a named nested class has an absent or nameless outer class (extension not defined by the statement), steps the diff language cannot express (removal of a nameless entry); both counted in outcomes",
		"versions_per_directory_target": VERSIONS_PER_DIRECTORY,
		"versions_per_directory_meaning": "the tree of a work item is laid out as several directories, each the way from the root to some version plus complete subtrees below it",
		"naming": "a third of the versions (and every second root) carry client~server names",
		"creation_orders": "sorted, reversed, rotated by a third, alternating by directory",
		"order_of_entries_inside_the_files": "as printed (sorted), reversed at every level (nested classes before their outer classes, last member first), rotated by one at every level; a function of the directory's label",
		"large_shapes": {"chain_edges": chain, "fan_children": fan, "fan_children_with_names_from_the_wild_list": WILD_NAMES.len(), "ladder_diamonds": ladder, "high_ladders_diamonds": if quick { vec![40] } else { vec![40, 200] }},
		"webs_of_diamonds": "per root state: every single step and, for every two single steps that commute, the version both lead to (two parents, two equally long paths)",
	});
	(items, bounds)
}

fn run_item(run: &Run, sh: &Shared, item: &Item) -> Stats {
	let mut sk = Skipped::default();
	let dir = build(&sh.roots, &sh.alpha, item, chunk_of(item), &mut sk);
	let mut st = Stats::new();
	if dir.nodes.len() > 1 {
		let parts = if matches!(item, Item::Tree { .. }) { split_tree(dir, VERSIONS_PER_DIRECTORY) } else { vec![dir] };
		for d in &parts {
			st = st.merge(judge_dir(run, &sh.roots_ext, &sh.roots_con, d));
		}
	}
	st.outcome_n("history:steps-left-out:extension-undefined", sk.extension_undefined);
	st.outcome_n("history:steps-left-out:inexpressible", sk.inexpressible);
	st
}

pub fn run(run: &Run, quick: bool) -> Out {
	let sh = shared();
	let (items, bounds) = plan(&sh, quick);
	if !quick {
		// the deepest trees of the thorough tier are work items of some 50 000 versions
		vcore::set_case_budget_ms(240_000);
	}
	let st = items.par_iter().with_max_len(1).fold(Stats::new, |acc, item| {
		let s = vcore::watched(|| format!("engine=histories\nitem={}", item.label()), || run_item(run, &sh, item));
		acc.merge(s)
	}).reduce(Stats::new, Stats::merge);

	let mut floors: Vec<(String, u64, u64)> = Vec::new();
	for e in &sh.alpha {
		let k = e.census_key();
		if !floors.iter().any(|(n, _, _)| n == &format!("histories: versions answered right whose last diff holds {k}")) {
			floors.push((format!("histories: versions answered right whose last diff holds {k}"), 1, st.get(&format!("history:edit:{k}"))));
		}
	}
	floors.push(("histories: versions answered right".into(), 1000, st.get("history:answers-equal-to-oracle")));
	floors.push(("histories: versions at depth 2 answered right".into(), 100, st.get("history:depth-2")));
	floors.push(("histories: versions at depth 3 answered right".into(), 100, st.get("history:depth-3")));
	floors.push(("histories: composite edges (two edits in one diff) answered right".into(), 100, st.get("history:composite-edges-answered")));
	floors.push(("histories: versions with names as in the wild and with unusual characters resolved".into(), WILD_NAMES.len() as u64, st.get("history:wild-names-answered")));
	floors.push(("histories: a nameless node named and a member of it changed in one diff".into(), 1, st.get("history:name-on-existing-with-member-change-in-one-diff")));
	floors.push(("histories: large shapes resolved (chain, fan, ladder)".into(), 3, st.get("history:directories:chain") + st.get("history:directories:fan") + st.get("history:directories:ladder")));
	floors.push(("histories: versions with two parents in the webs of diamonds answered right".into(), 100, st.get("history:two-parent-versions-answered")));
	floors.push(("histories: steps left out because the extension is not defined (the filter ran)".into(), 1, st.get("history:steps-left-out:extension-undefined")));
	for mode in ["sorted", "reversed", "rotated"] {
		floors.push((format!("histories: directories whose files list their entries in {mode} order"), 10, st.get(&format!("history:file-order-{mode}"))));
	}
	Out { st, bounds, floors, items: items.len() as u64 }
}

/// re-runs the work item named in a replay file; `None` if the file is not one of this engine
pub fn replay(run: &Run, body: &str) -> Option<Stats> {
	if !body.lines().any(|l| l.trim() == "engine=histories") {
		return None;
	}
	let label = body.lines().find_map(|l| l.strip_prefix("item=")).unwrap_or_else(|| fail("histories replay without item"));
	let item = Item::parse(label).unwrap_or_else(|| fail(&format!("histories replay: bad item {label:?}")));
	let sh = shared();
	println!("item: {}", item.label());
	Some(run_item(run, &sh, &item))
}
