//! C05, third engine: *names and texts*.
//!
//! The two other engines take their mapping states from one small universe of ASCII names in which no two
//! classes carry the same simple name. This engine explores what they leave constant:
//!
//! * **nesting names** (`names;…`): one skeleton of classes nested up to four deep in three places
//!   (`A`, `A$B`, `A$B$C`, `A$B$C$E`, `D`, `D$B`, `D$B$C`, `P`, `P$B` — equal simple source names in different
//!   outer classes) × *every* assignment of target names from a small alphabet (two per top-level class,
//!   among them equal simple names in different packages and a package-less class whose target name equals
//!   its source name; three per nested class: its own simple source name, `P`, `Q`). So every pair and triple
//!   of containers carries equal and different simple names, a nested container is named like a package-less
//!   top-level class, names equal their keys. Plus one chain nested sixteen deep in which every class has the
//!   same simple name, and one state of odd-but-legal names (`$` in a package part, a trailing `$`, `$$`, a
//!   leading `$`). Every state is the root of one directory (printed extended / contracted, classes and members
//!   in sorted / reversed / rotated order inside the file), the child of another and the grandchild of a third.
//! * **texts in the mappings** (`mtext;…`): one text slot (comment of a class / field / method / parameter,
//!   target name of a class / nested class / field / method / parameter) filled with `k` ASCII characters and
//!   one character of 1/2/3/4 UTF-8 bytes for every k up to a bound, and with texts made of multi-byte
//!   characters only; in an accepting situation (the diff edits that text: must be answered) and in a refusing
//!   one (the diff states another old text: must be refused, the error quotes both — no panic). Plus comments
//!   with every escape of the format next to multi-byte characters (`special`).
//! * **texts in version names** (`vtext;…`): the same texts as names of versions, in a well-formed directory,
//!   with unknown names derived from them, and in every refusing situation (second root, loop, unreachable
//!   pair, diff that does not fit).
//! * **large files** (`big;…`): a root file and a diff file of several read buffers (8 KiB) made of multi-byte
//!   comments, shifted byte by byte so that every buffer boundary falls on every phase of a character.
//!
//! The oracle is the one of the other engines: the expected state of a version is built by plain manipulation of
//! the model, the edge file is the printed reference diff, the reference `apply` must reproduce the child
//! (self-check), the answer demanded is `extend_ref(state)`.

use fbrshim::vg::{self, SplitKind};
use mapmodel::{row, MParam, MSet};
use rayon::prelude::*;
use vcore::{json, Stats, Value};
use super::{class, extend_ref, fail, field, keys_of, method, project, prune, Run, NS};

// ---------------------------------------------------------------------------------------------
// order of the entries inside a file

fn indent_of(line: &str) -> usize {
	line.bytes().take_while(|b| *b == b'\t').count()
}

/// Permutes the blocks of `lines` that start at indentation `depth` (and, recursively, the blocks inside them).
/// A comment line of an entry stays the first line below it.
fn permute<'a>(lines: &[&'a str], depth: usize, mode: usize, out: &mut Vec<&'a str>) {
	let mut blocks: Vec<&[&'a str]> = Vec::new();
	let mut start = 0;
	for i in 1..=lines.len() {
		if i == lines.len() || indent_of(lines[i]) <= depth {
			blocks.push(&lines[start..i]);
			start = i;
		}
	}
	let is_comment = |b: &[&str]| depth >= 1 && b[0].trim_start_matches('\t').split('\t').next().map(|f| f.trim_end_matches('\n')) == Some("c");
	let (comments, mut rest): (Vec<&[&str]>, Vec<&[&str]>) = blocks.into_iter().filter(|b| !b.is_empty()).partition(|b| is_comment(b));
	match mode % 3 {
		1 => rest.reverse(),
		2 => {
			if !rest.is_empty() {
				rest.rotate_left(1);
			}
		},
		_ => {},
	}
	for b in comments.into_iter().chain(rest) {
		out.push(b[0]);
		permute(&b[1..], depth + 1, mode, out);
	}
}

/// The same `.tiny` / `.tinydiff` text with its entries in another order: 0 as printed (sorted), 1 reversed at
/// every level (a nested class before its outer class, the last member first), 2 rotated by one at every level.
/// The format does not prescribe an order.
pub fn reorder(text: &str, mode: usize) -> String {
	if mode % 3 == 0 || !text.ends_with('\n') {
		return text.to_owned();
	}
	let lines: Vec<&str> = text.split_inclusive('\n').collect();
	let Some((header, body)) = lines.split_first() else { return text.to_owned() };
	if body.iter().any(|l| l.trim_end_matches('\n').is_empty()) || body.first().is_some_and(|l| indent_of(l) != 0) {
		return text.to_owned();
	}
	let mut out: Vec<&str> = vec![header];
	permute(body, 0, mode, &mut out);
	let (mut a, mut b) = (lines.clone(), out.clone());
	a.sort();
	b.sort();
	if a != b {
		fail("texts: reordering a file lost or invented a line");
	}
	out.concat()
}

// ---------------------------------------------------------------------------------------------
// cases

#[derive(Clone, Debug)]
enum Want {
	/// the version has to be answered with the extension of this state
	Answer(MSet),
	/// the version may be refused; if it is answered, then with the extension of this state
	AnswerOrRefuse(MSet),
	/// the version has to be refused (by `resolve`, `get` or `apply_diffs`); the name of the malformed class
	Refuse(&'static str),
}

struct Case {
	id: String,
	/// in creation order
	files: Vec<(String, String)>,
	versions: Vec<(String, Want)>,
	well_formed: bool,
	/// names no file defines
	unknown: Vec<String>,
	/// counted once per version answered right
	tags: Vec<String>,
}

fn replay_text(c: &Case, actual: Option<&str>) -> String {
	let mut s = format!("engine=texts\ncase={}\n", c.id);
	for (n, t) in &c.files {
		s.push_str(&format!("--- {n}\n{t}"));
	}
	s.push_str("expected per version:\n");
	for (n, w) in &c.versions {
		match w {
			Want::Answer(m) | Want::AnswerOrRefuse(m) => s.push_str(&format!("  {n:?}: {}\n{}", if matches!(w, Want::Answer(_)) { "must be answered with" } else { "refused, or answered with" }, match extend_ref(m) {
				Ok(x) => mapmodel::tiny::print(&x),
				Err(e) => e,
			})),
			Want::Refuse(class) => s.push_str(&format!("  {n:?}: must be refused ({class})\n")),
		}
	}
	if let Some(a) = actual {
		s.push_str(&format!("actual:\n{a}\n"));
	}
	s
}

fn judge(run: &Run, c: &Case) -> Stats {
	let mut st = Stats::new();
	let id = run.counter.fetch_add(1, std::sync::atomic::Ordering::Relaxed);
	let path = run.root.join(format!("d{id}"));
	std::fs::create_dir(&path).unwrap_or_else(|e| fail(&format!("cannot create {path:?}: {e}")));
	for (n, t) in &c.files {
		std::fs::write(path.join(n), t.as_bytes()).unwrap_or_else(|e| fail(&format!("cannot write {n:?} in {path:?}: {e}")));
	}
	judge_on_disk(run, &mut st, c, &path);
	for (n, _) in &c.files {
		let _ = std::fs::remove_file(path.join(n));
	}
	if std::fs::remove_dir(&path).is_err() {
		let _ = std::fs::remove_dir_all(&path);
	}
	let kind = c.id.split(';').next().unwrap_or("?").to_owned();
	st.outcome(&format!("texts:directories:{kind}"));
	st.outcome("texts:directories");
	st.outcome(if c.well_formed { "directories:well-formed" } else { "texts:directories:malformed" });
	st.sample(&format!("texts-{kind}{}", if c.well_formed { "" } else { "-malformed" }), || json!({
		"kind": "directory of the names-and-texts engine",
		"case": c.id,
		"files": c.files.iter().map(|(n, _)| n.clone()).collect::<Vec<_>>(),
	}));
	st
}

fn judge_on_disk(run: &Run, st: &mut Stats, c: &Case, path: &std::path::Path) {
	let ctx = run.ctx;
	st.eval();
	st.distinct.add(&(&c.id, &c.files));
	let here = path.display().to_string();
	let mut calls = 1u64;
	let rp = |a: Option<&str>| replay_text(c, a);
	let g = match vcore::guard(|| vg::resolve(path)) {
		Ok(Ok(g)) => g,
		Ok(Err(e)) => {
			if c.well_formed {
				ctx.diff("wellformed:resolve-refused", &format!("resolve refused a well-formed directory: {}", format!("{e:#}").replace(&here, "<dir>")), || rp(None));
			} else {
				st.outcome("texts:refused-at-resolve");
				for (_, w) in &c.versions {
					if let Want::Refuse(class) = w {
						st.outcome(&format!("texts:refused:{class}"));
					}
				}
			}
			st.outcome_n("real-code-calls", calls);
			return;
		},
		Err(p) => {
			ctx.diff(&format!("panic@{}", p.file()), &format!("resolve panicked at {}: {} ({} directory of the texts engine)", p.site, p.msg, if c.well_formed { "well-formed" } else { "malformed" }), || rp(None));
			st.outcome_n("real-code-calls", calls);
			return;
		},
	};
	if c.well_formed {
		calls += 1;
		match vcore::guard(|| g.versions()) {
			Ok(v) => {
				let mut seen: Vec<String> = v.into_iter().map(|(n, _)| n).collect();
				seen.sort();
				let mut want: Vec<String> = c.versions.iter().map(|(n, _)| n.clone()).collect();
				want.sort();
				if seen != want {
					ctx.diff("versions:node-set", &format!("versions() lists {seen:?}, the directory defines {want:?}"), || rp(None));
				}
			},
			Err(p) => ctx.diff(&format!("panic@{}", p.file()), &format!("versions() panicked at {}: {}", p.site, p.msg), || rp(None)),
		}
	}
	for (vi, (name, want)) in c.versions.iter().enumerate() {
		let mut refused = false;
		let mut answered = false;
		for (key, kind) in keys_of(name) {
			calls += 1;
			let found = match vcore::guard(|| g.get(&key)) {
				Ok(Ok((split, n))) => {
					if &n != name {
						ctx.diff("get:wrong-node", &format!("get({key:?}) answers with version {n:?} instead of {name:?}"), || rp(None));
						continue;
					}
					if split != kind {
						ctx.diff("get:split-kind", &format!("get({key:?}) reports {split:?} for version {name:?}, expected {kind:?}"), || rp(None));
					}
					if c.well_formed {
						st.outcome(match kind {
							SplitKind::None => "get:plain-name",
							SplitKind::First => "get:client-half",
							SplitKind::Second => "get:server-half",
						});
					}
					true
				},
				Ok(Err(e)) => {
					if matches!(want, Want::Answer(_)) {
						ctx.diff("get:version-not-found", &format!("version {name:?} cannot be looked up as {key:?}: {e:#}"), || rp(None));
					}
					refused = true;
					false
				},
				Err(p) => {
					ctx.diff(&format!("panic@{}", p.file()), &format!("get({key:?}) panicked at {}: {}", p.site, p.msg), || rp(None));
					false
				},
			};
			if !found {
				continue;
			}
			calls += 1;
			match vcore::guard(|| project(g.apply_diffs(&key))) {
				Err(p) => ctx.diff(&format!("panic@{}", p.file()), &format!("apply_diffs(get({key:?})) panicked at {}: {} ({})", p.site, p.msg, match want {
					Want::Refuse(class) => format!("a version of a {class} directory"),
					_ => "a version that has an answer".to_owned(),
				}), || rp(None)),
				Ok(Err(e)) => {
					refused = true;
					if matches!(want, Want::Answer(_)) {
						ctx.diff("wellformed:apply-refused", &format!("apply_diffs refused version {name:?} of a well-formed directory: {}", e.replace(&here, "<dir>")), || rp(Some(&e)));
					}
				},
				Ok(Ok(Err(k))) => ctx.diff("resolve:key-invariant", &format!("mappings reported for {name:?} break the key invariant: {k}"), || rp(None)),
				Ok(Ok(Ok(m))) => {
					answered = true;
					match want {
						Want::Answer(s) | Want::AnswerOrRefuse(s) => {
							let expected = extend_ref(s).unwrap_or_else(|e| fail(&format!("texts: a version whose extension is not defined was laid out: {e}")));
							if m == expected {
								st.outcome("answers-equal-to-oracle");
								st.outcome("texts:answers-equal-to-oracle");
								if vi > 0 {
									st.outcome("answers-different-from-root");
								}
								for t in &c.tags {
									st.outcome(t);
								}
							} else {
								let (k, what) = mapmodel::first_difference(&expected, &m).unwrap_or(("other".into(), "differ".into()));
								ctx.diff(&format!("resolve:{k}"), &format!("mappings of version {name:?} (get({key:?})) are not root + diffs on its path + inner-class extension: {what}"), || rp(Some(&mapmodel::tiny::print(&m))));
							}
						},
						Want::Refuse(class) => ctx.diff(&format!("malformed:{class}:answered"), &format!("a mapping set was reported for version {name:?} (get({key:?})) which the {class} directory cannot define"), || rp(Some(&mapmodel::tiny::print(&m)))),
					}
				},
			}
		}
		if let Want::Refuse(class) = want {
			if refused && !answered {
				st.outcome(&format!("texts:refused:{class}"));
				st.outcome("texts:refused-at-query");
			}
		}
	}
	for u in &c.unknown {
		if c.versions.iter().any(|(n, _)| n == u || keys_of(n).iter().any(|(k, _)| k == u)) {
			continue;
		}
		calls += 1;
		match vcore::guard(|| g.get(u)) {
			Ok(Ok((_, name))) => ctx.diff("get:unknown-accepted", &format!("get({u:?}) of a version no file names answers with {name:?}"), || rp(None)),
			Ok(Err(_)) => {
				st.outcome("refused:unknown-version");
				st.outcome("texts:refused:unknown-version");
			},
			Err(p) => ctx.diff(&format!("panic@{}", p.file()), &format!("get({u:?}) panicked at {}: {} (a version no file names)", p.site, p.msg), || rp(None)),
		}
	}
	st.outcome_n("real-code-calls", calls);
	st.outcome_n("nodes-resolved", c.versions.len() as u64);
}

/// the edge file `parent → child` (reference diff, self-checked against the reference `apply`)
fn edge(parent: &MSet, child: &MSet) -> String {
	let d = prune(mapmodel::diff::diff(parent, child).unwrap_or_else(|| fail("texts: no reference diff")));
	let e = mapmodel::diff::apply(&d, parent, 1);
	if e.result.as_ref() != Some(child) || e.may_refuse {
		fail(&format!("texts: reference apply(diff(parent, child), parent) is not child ({})", e.reason));
	}
	mapmodel::diff::print(&d)
}

/// an edge file that does not fit `parent`: the diff `other → child`, which the reference `apply` refuses on `parent`
fn bad_edge(parent: &MSet, other: &MSet, child: &MSet) -> String {
	let d = prune(mapmodel::diff::diff(other, child).unwrap_or_else(|| fail("texts: no reference diff")));
	let e = mapmodel::diff::apply(&d, parent, 1);
	if e.result.is_some() {
		fail("texts: a diff meant not to fit is accepted by the reference apply");
	}
	mapmodel::diff::print(&d)
}

fn root_text(s: &MSet, extended: bool) -> String {
	s.check().unwrap_or_else(|e| fail(&format!("texts: {e}")));
	let e = extend_ref(s).unwrap_or_else(|e| fail(&format!("texts: a root whose extension is not defined: {e}")));
	for form in [s, &e] {
		let back = mapmodel::tiny::parse(&mapmodel::tiny::print(form)).unwrap_or_else(|e| fail(&format!("texts: reference reader refuses a root: {e:?}")));
		if &back != form {
			fail("texts: reference print/parse disagree on a root");
		}
	}
	mapmodel::tiny::print(if extended { &e } else { s })
}

// ---------------------------------------------------------------------------------------------
// nesting names

const TOPS: [(&str, [&str; 2]); 3] = [("A", ["x/P", "x/Q"]), ("D", ["y/P", "x/R"]), ("P", ["P", "Q"])];
const NESTED: [&str; 6] = ["A$B", "A$B$C", "A$B$C$E", "D$B", "D$B$C", "P$B"];
const NESTED_NAMES: usize = 3;

fn names_radices() -> Vec<usize> {
	let mut r = vec![2; TOPS.len()];
	r.extend(NESTED.iter().map(|_| NESTED_NAMES));
	r
}

fn nested_name(key: &str, v: usize) -> String {
	match v {
		0 => "P".to_owned(),
		1 => "Q".to_owned(),
		_ => key.rsplit('$').next().unwrap_or(key).to_owned(),
	}
}

fn names_state(digits: &[usize]) -> MSet {
	let mut s = MSet::new(&NS);
	for (i, (key, names)) in TOPS.iter().enumerate() {
		s.classes.insert((*key).to_owned(), class(key, names[digits[i]], None));
	}
	for (i, key) in NESTED.iter().enumerate() {
		s.classes.insert((*key).to_owned(), class(key, &nested_name(key, digits[TOPS.len() + i]), None));
	}
	// members and comments ride along untouched
	let c = s.classes.get_mut("A$B$C").unwrap_or_else(|| fail("texts"));
	field(c, "g", "LA$B;", "fieldG", Some("field g"));
	let d = s.classes.get_mut("D$B").unwrap_or_else(|| fail("texts"));
	d.doc = Some("class D$B".into());
	method(d, "n", "(LD$B$C;)V", "methodN", None, &[(1, "q1", None)]);
	s
}

/// what a state of the nesting space has that a too coarse key would confuse
fn names_tags(s: &MSet) -> Vec<String> {
	let mut tags = vec!["texts:names:answered".to_owned()];
	let ext = extend_ref(s).unwrap_or_else(|e| fail(&e));
	let simple = |k: &str| s.classes[k].names[1].clone().unwrap_or_default().rsplit('/').next().unwrap_or("").to_owned();
	let containers: Vec<&String> = s.classes.keys().filter(|k| s.classes.keys().any(|o| o.strip_prefix(k.as_str()).is_some_and(|r| r.starts_with('$')))).collect();
	let mut equal = false;
	let mut like_top = false;
	for a in &containers {
		for b in &containers {
			if a != b && simple(a) == simple(b) && ext.classes[*a].names[1] != ext.classes[*b].names[1] {
				equal = true;
				if !a.contains('$') && b.contains('$') && s.classes[*a].names[1].as_deref() == Some(simple(b).as_str()) {
					like_top = true;
				}
			}
		}
	}
	if equal {
		tags.push("texts:names:two-containers-with-one-simple-name".into());
	}
	if like_top {
		tags.push("texts:names:nested-container-named-like-a-package-less-class".into());
	}
	if s.classes.iter().any(|(k, c)| k.contains('$') && c.names[1].as_deref() == k.rsplit('$').next()) {
		tags.push("texts:names:nested-class-named-like-its-key".into());
	}
	tags
}

/// the directory of state `i`: a chain root → child → grandchild through the states i, 7i+3, 7(7i+3)+3 (mod the number of states)
fn names_case(i: u64) -> Case {
	let radices = names_radices();
	let n = vcore::enumerate::Product::size(&radices);
	let next = |x: u64| (x * 7 + 3) % n;
	let state = |x: u64| names_state(&vcore::enumerate::product_nth(&radices, x));
	let (si, sj, sk) = (state(i), state(next(i)), state(next(next(i))));
	let mode = (i % 3) as usize;
	let extended = (i / 3) % 2 == 0;
	let (root, child) = if i % 2 == 0 { ("n0", "n1~sn1") } else { ("n0~sn0", "n1") };
	let mut tags = names_tags(&si);
	tags.push(format!("texts:names:file-order-{}", ["sorted", "reversed", "rotated"][mode]));
	Case {
		id: format!("names;i={i}"),
		files: vec![
			(format!("{root}.tiny"), reorder(&root_text(&si, extended), mode)),
			(format!("{root}#{child}.tinydiff"), reorder(&edge(&si, &sj), mode)),
			(format!("{child}#n2.tinydiff"), reorder(&edge(&sj, &sk), mode)),
		],
		versions: vec![(root.to_owned(), Want::Answer(si)), (child.to_owned(), Want::Answer(sj)), ("n2".to_owned(), Want::Answer(sk))],
		well_formed: true,
		unknown: vec![],
		tags,
	}
}

const DEEP: usize = 16;

/// a chain of classes nested `DEEP` deep, every one of them with the same simple name; the child renames the middle one
fn names_deep() -> Vec<Case> {
	let build = |mid: &str| {
		let mut s = MSet::new(&NS);
		let mut key = String::from("N");
		s.classes.insert(key.clone(), class(&key, "x/X", None));
		for d in 1..DEEP {
			key = format!("{key}${d}");
			s.classes.insert(key.clone(), class(&key, if d == DEEP / 2 { mid } else { "X" }, None));
		}
		s
	};
	let (a, b) = (build("X"), build("Y"));
	(0..3).map(|mode| Case {
		id: format!("names;deep;mode={mode}"),
		files: vec![("n0.tiny".into(), reorder(&root_text(&a, mode != 1), mode)), ("n0#n1.tinydiff".into(), reorder(&edge(&a, &b), mode))],
		versions: vec![("n0".into(), Want::Answer(a.clone())), ("n1".into(), Want::Answer(b.clone()))],
		well_formed: true,
		unknown: vec![],
		tags: vec!["texts:names:deep-chain-answered".into()],
	}).collect()
}

/// Odd but legal names: a nested class is one whose name has a `$` in its last `/`-separated section with something on
/// both sides of it (the last such `$` separates the outer class from the simple name).
fn names_odd() -> Vec<Case> {
	let build = |v: usize| {
		let mut s = MSet::new(&NS);
		let pick = |a: &'static str, b: &'static str| if v == 0 { a } else { b };
		// `$` in the package part only: a top-level class; its target name has one there too
		s.classes.insert("a$b/C".into(), class("a$b/C", pick("q$r/See", "q$r/Sea"), None));
		s.classes.insert("a$b/C$D".into(), class("a$b/C$D", pick("Dee", "Dea"), None));
		// a trailing `$`: nothing on its right side, a top-level class; `T$$U` is `U` inside `T$`
		s.classes.insert("T$".into(), class("T$", "x/Tee", None));
		s.classes.insert("T$$U".into(), class("T$$U", pick("You", "Yoo"), None));
		// a leading `$` (nothing on its left side, also right after the package): top-level classes
		s.classes.insert("$V".into(), class("$V", "y/Vee", None));
		s.classes.insert("x/$W".into(), class("x/$W", pick("y/Wee", "y/Wea"), None));
		s.classes.insert("x/$W$I".into(), class("x/$W$I", "Eye", None));
		s
	};
	let (a, b) = (build(0), build(1));
	(0..3).map(|mode| Case {
		id: format!("names;odd;mode={mode}"),
		files: vec![("n0.tiny".into(), reorder(&root_text(&a, mode != 1), mode)), ("n0#n1.tinydiff".into(), reorder(&edge(&a, &b), mode))],
		versions: vec![("n0".into(), Want::Answer(a.clone())), ("n1".into(), Want::Answer(b.clone()))],
		well_formed: true,
		unknown: vec![],
		tags: vec!["texts:names:odd-names-answered".into()],
	}).collect()
}

// ---------------------------------------------------------------------------------------------
// texts

const WIDE: [char; 4] = ['z', 'é', '€', '😀'];
/// `k` of the texts made of multi-byte characters only
const ALL_WIDE: usize = 1000;

/// `k` ASCII characters and one character of `w` bytes; k = ALL_WIDE: fifty characters of `w` bytes
fn text(k: usize, w: usize) -> String {
	let c = WIDE[(w - 1) % 4];
	if k == ALL_WIDE {
		return std::iter::repeat(c).take(50).collect();
	}
	let mut s: String = (0..k).map(|i| (b'a' + (i % 26) as u8) as char).collect();
	s.push(c);
	s
}

const LEVELS: [&str; 9] = ["class.comment", "field.comment", "method.comment", "parameter.comment", "class.name", "nested.name", "field.name", "method.name", "parameter.name"];

/// the state of the text spaces with `t` in the slot `level`
fn slot_state(level: &str, t: &str) -> MSet {
	let mut s = MSet::new(&NS);
	let name = |l: &str, plain: &str| if level == l { t.to_owned() } else { plain.to_owned() };
	let doc = |l: &str, plain: &str| if level == l { t.to_owned() } else { plain.to_owned() };
	let mut a = class("A", &if level == "class.name" { format!("pkg/{t}") } else { "pkg/Alpha".to_owned() }, Some(&doc("class.comment", "class A")));
	field(&mut a, "f", "I", &name("field.name", "fieldF"), Some(&doc("field.comment", "field f")));
	method(&mut a, "m", "(I)V", &name("method.name", "methodM"), Some(&doc("method.comment", "method m")), &[]);
	a.methods.get_mut(&("m".to_owned(), "(I)V".to_owned())).unwrap_or_else(|| fail("texts")).params.insert(0, MParam { names: row(&[None, Some(&name("parameter.name", "p0"))]), doc: Some(doc("parameter.comment", "param 0")) });
	s.classes.insert("A".into(), a);
	s.classes.insert("A$B".into(), class("A$B", &name("nested.name", "Beta"), None));
	s.classes.insert("A$B$C".into(), class("A$B$C", "Gamma", None));
	s
}

/// Two directories: the root with `text(k, w)` in the slot and a child whose diff edits it (accepting situation); the
/// same root and a child whose diff states another old text (refusing situation: the error quotes both texts).
fn mtext_cases(level: &str, k: usize, w: usize) -> Vec<Case> {
	let t1 = text(k, w);
	let t2 = text(k, w % 4 + 1);
	let (root, ok, other) = (slot_state(level, &t1), slot_state(level, &t2), slot_state(level, &format!("{t1}{}", WIDE[(w + 1) % 4])));
	let refusing = bad_edge(&root, &other, &ok);
	let tags = vec!["texts:mtext:answered".to_owned(), format!("texts:mtext:answered:{level}"), format!("texts:mtext:answered:width-{w}")];
	vec![
		Case {
			id: format!("mtext;level={level};k={k};w={w};kind=accept"),
			files: vec![("t0.tiny".into(), root_text(&root, k % 2 == 0)), ("t0#ok~sok.tinydiff".into(), edge(&root, &ok))],
			versions: vec![("t0".into(), Want::Answer(root.clone())), ("ok~sok".into(), Want::Answer(ok))],
			well_formed: true,
			unknown: vec![],
			tags,
		},
		Case {
			id: format!("mtext;level={level};k={k};w={w};kind=refuse"),
			files: vec![("t0.tiny".into(), root_text(&root, k % 2 == 1)), ("t0#bad.tinydiff".into(), refusing)],
			versions: vec![("t0".into(), Want::AnswerOrRefuse(root)), ("bad".into(), Want::Refuse("bad-diff"))],
			well_formed: false,
			unknown: vec![],
			tags: vec![],
		},
	]
}

/// comments with every escape of the format, next to multi-byte characters, at the ends, doubled
const SPECIAL: [&str; 14] = [
	"tab\there", "cr\rhere", "nul\0here", "é\\né", "\\", "ends with a backslash\\", "\\\\n", "日本\n語", " leading space", "trailing space ",
	"\n", "€\t€\r€\0€\\€\n€", "\\t\\r\\0 kept", "😀\\😀",
];

/// a chain through all special comments at one level: every one of them is in the root once (alone), and the old and
/// the new text of a comment diff once
fn special_case(level: &str, start: usize) -> Case {
	let n = SPECIAL.len();
	let states: Vec<MSet> = (0..4).map(|i| slot_state(level, SPECIAL[(start + i) % n])).collect();
	let mut files = vec![("s0.tiny".to_owned(), root_text(&states[0], start % 2 == 0))];
	let mut versions = vec![("s0".to_owned(), Want::Answer(states[0].clone()))];
	for i in 1..states.len() {
		files.push((format!("s{}#s{i}.tinydiff", i - 1), edge(&states[i - 1], &states[i])));
		versions.push((format!("s{i}"), Want::Answer(states[i].clone())));
	}
	Case { id: format!("mtext;special;level={level};start={start}"), files, versions, well_formed: true, unknown: vec![], tags: vec!["texts:special-comments:answered".into()] }
}

/// the longest `k` of a version name: `parent#child.tinydiff` has to stay below 255 bytes
const VNAME_MAX: usize = 110;

fn vtext_cases(k: usize, w: usize) -> Vec<Case> {
	let p = text(k, w);
	let (s0, s1, s2) = (slot_state("class.name", "Alpha"), slot_state("class.name", "Alpha2"), slot_state("class.name", "Alpha3"));
	// short names are split
	let child = if k <= 50 { format!("c{p}~s{p}") } else { format!("c{p}") };
	let base = vec![(format!("{p}.tiny"), root_text(&s0, true)), (format!("{p}#{child}.tinydiff"), edge(&s0, &s1))];
	let id = |kind: &str| format!("vtext;k={k};w={w};kind={kind}");
	let mut short = p.clone();
	short.pop();
	let mut unknown = vec![format!("{p}x"), format!("x{p}"), short, format!("{p}{}", WIDE[w % 4]), format!("{child}~"), format!("{p}~"), format!("~{p}"), p.to_uppercase()];
	if k == ALL_WIDE {
		// one character less at the front
		unknown.push(p.chars().skip(1).collect());
	}
	let with = |extra: Vec<(String, String)>| {
		let mut f = base.clone();
		f.extend(extra);
		f
	};
	let tags = vec!["texts:vtext:answered".to_owned(), format!("texts:vtext:answered:width-{w}")];
	vec![
		Case { id: id("well-formed"), files: base.clone(), versions: vec![(p.clone(), Want::Answer(s0.clone())), (child.clone(), Want::Answer(s1.clone()))], well_formed: true, unknown, tags: tags.clone() },
		Case { id: id("two-roots"), files: with(vec![(format!("{child}.tiny"), root_text(&s1, true))]), versions: vec![(p.clone(), Want::Refuse("two-roots")), (child.clone(), Want::Refuse("two-roots"))], well_formed: false, unknown: vec![], tags: vec![] },
		Case { id: id("cycle"), files: with(vec![(format!("{child}#{p}.tinydiff"), edge(&s1, &s0))]), versions: vec![(p.clone(), Want::Refuse("cycle")), (child.clone(), Want::Refuse("cycle"))], well_formed: false, unknown: vec![], tags: vec![] },
		Case {
			id: id("unreachable"),
			files: with(vec![(format!("u{p}#w{p}.tinydiff"), edge(&s1, &s2))]),
			versions: vec![(p.clone(), Want::AnswerOrRefuse(s0.clone())), (child.clone(), Want::AnswerOrRefuse(s1.clone())), (format!("u{p}"), Want::Refuse("unreachable")), (format!("w{p}"), Want::Refuse("unreachable"))],
			well_formed: false,
			unknown: vec![],
			tags: tags.clone(),
		},
		Case {
			id: id("bad-diff"),
			files: vec![base[0].clone(), (format!("{p}#{child}.tinydiff"), bad_edge(&s0, &s2, &s1))],
			versions: vec![(p.clone(), Want::AnswerOrRefuse(s0.clone())), (child.clone(), Want::Refuse("bad-diff"))],
			well_formed: false,
			unknown: vec![],
			tags,
		},
	]
}

// ---------------------------------------------------------------------------------------------
// large files

const BIG_CLASSES: usize = 320;

/// a root file and a diff file of several read buffers: `BIG_CLASSES` classes with comments of 2-, 3- and 4-byte
/// characters, every comment edited by the diff; the first class carries a comment of `phase` ASCII characters, which
/// shifts everything behind it
fn big_case(phase: usize) -> Case {
	let build = |v: usize| {
		let mut s = MSet::new(&NS);
		s.classes.insert("A".into(), class("A", "pkg/Alpha", Some(&format!("|{}", "x".repeat(phase)))));
		s.classes.insert("A$B".into(), class("A$B", "Beta", None));
		for i in 0..BIG_CLASSES {
			let key = format!("Z{i:03}");
			let doc: String = (0..20 + i % 7).map(|j| WIDE[1 + (i + j + v) % 3]).collect();
			let mut c = class(&key, &format!("big/Zed{i:03}"), Some(&doc));
			if i % 5 == 0 {
				field(&mut c, "f", "I", &format!("fïeld{}", i + v), Some(&doc));
			}
			s.classes.insert(key, c);
		}
		s
	};
	let (a, b) = (build(0), build(1));
	let files = vec![("b0.tiny".to_owned(), root_text(&a, true)), ("b0#b1.tinydiff".to_owned(), edge(&a, &b))];
	if files.iter().any(|(_, t)| t.len() < 3 * 8192) {
		fail("texts: the large files are not large");
	}
	Case { id: format!("big;phase={phase}"), files, versions: vec![("b0".into(), Want::Answer(a)), ("b1".into(), Want::Answer(b))], well_formed: true, unknown: vec![], tags: vec!["texts:big:answered".into()] }
}

// ---------------------------------------------------------------------------------------------
// plan and sweep

#[derive(Clone, Debug, PartialEq, Eq)]
enum Item {
	Names { i: u64 },
	Deep,
	Odd,
	MText { level: usize, k: usize, w: usize },
	Special { level: usize, start: usize },
	VText { k: usize, w: usize },
	Big { phase: usize },
}

fn cases_of(item: &Item) -> Vec<Case> {
	match item {
		Item::Names { i } => vec![names_case(*i)],
		Item::Deep => names_deep(),
		Item::Odd => names_odd(),
		Item::MText { level, k, w } => mtext_cases(LEVELS[*level], *k, *w),
		Item::Special { level, start } => vec![special_case(LEVELS[*level], *start)],
		Item::VText { k, w } => vtext_cases(*k, *w),
		Item::Big { phase } => vec![big_case(*phase)],
	}
}

/// the item that lays out the case with this id
fn item_of(id: &str) -> Option<Item> {
	let parts: Vec<&str> = id.trim().split(';').collect();
	let kv = |k: &str| parts.iter().find_map(|p| p.strip_prefix(k).and_then(|r| r.strip_prefix('=')));
	let num = |k: &str| kv(k).and_then(|v| v.parse::<usize>().ok());
	let level = || kv("level").and_then(|l| LEVELS.iter().position(|x| *x == l));
	match (*parts.first()?, parts.get(1).copied()) {
		("names", Some("deep")) => Some(Item::Deep),
		("names", Some("odd")) => Some(Item::Odd),
		("names", _) => Some(Item::Names { i: num("i")? as u64 }),
		("mtext", Some("special")) => Some(Item::Special { level: level()?, start: num("start")? }),
		("mtext", _) => Some(Item::MText { level: level()?, k: num("k")?, w: num("w")? }),
		("vtext", _) => Some(Item::VText { k: num("k")?, w: num("w")? }),
		("big", _) => Some(Item::Big { phase: num("phase")? }),
		_ => None,
	}
}

pub struct Out {
	pub st: Stats,
	pub bounds: Value,
	pub floors: Vec<(String, u64, u64)>,
	pub items: u64,
}

pub fn run(run: &Run, quick: bool) -> Out {
	let mut items: Vec<Item> = Vec::new();
	let n_names = vcore::enumerate::Product::size(&names_radices());
	items.extend((0..n_names).map(|i| Item::Names { i }));
	items.extend([Item::Deep, Item::Odd]);
	let k_max = if quick { 140 } else { 300 };
	let mut ks: Vec<usize> = (0..=k_max).collect();
	ks.push(ALL_WIDE);
	for li in 0..LEVELS.len() {
		for &k in &ks {
			for w in 1..=4 {
				items.push(Item::MText { level: li, k, w });
			}
		}
	}
	for level in 0..4 {
		for start in 0..SPECIAL.len() {
			items.push(Item::Special { level, start });
		}
	}
	let mut vks: Vec<usize> = (0..=VNAME_MAX).collect();
	vks.push(ALL_WIDE);
	for &k in &vks {
		for w in 1..=4 {
			// fifty characters of three or four bytes are too long for a file name
			if k == ALL_WIDE && w > 2 {
				continue;
			}
			items.push(Item::VText { k, w });
		}
	}
	let phases = if quick { 8 } else { 64 };
	items.extend((0..phases).map(|phase| Item::Big { phase }));

	let st = items.par_iter().with_max_len(8).fold(Stats::new, |mut acc, item| {
		for c in cases_of(item) {
			let s = vcore::watched(|| format!("engine=texts\ncase={}", c.id), || judge(run, &c));
			acc = acc.merge(s);
		}
		acc
	}).reduce(Stats::new, Stats::merge);

	let mut floors: Vec<(String, u64, u64)> = Vec::new();
	let mut floor = |name: &str, required: u64, key: &str| floors.push((format!("texts: {name}"), required, st.get(key)));
	floor("versions of the nesting-names space answered right", 3 * n_names, "texts:names:answered");
	floor("… in states in which two containers carry one simple name (and different full names)", 100, "texts:names:two-containers-with-one-simple-name");
	floor("… in states in which a nested container is named like a package-less top-level class", 10, "texts:names:nested-container-named-like-a-package-less-class");
	floor("… in states in which a nested class is named like the last part of its key", 100, "texts:names:nested-class-named-like-its-key");
	for mode in ["sorted", "reversed", "rotated"] {
		floor(&format!("… from files whose entries are in {mode} order"), 100, &format!("texts:names:file-order-{mode}"));
	}
	floor("versions of the sixteen-deep chain with one simple name answered right", 6, "texts:names:deep-chain-answered");
	floor("versions with odd but legal class names answered right", 6, "texts:names:odd-names-answered");
	for level in LEVELS {
		floor(&format!("versions with a text of every length in the slot {level} answered right"), 100, &format!("texts:mtext:answered:{level}"));
	}
	for w in 1..=4 {
		floor(&format!("versions whose slot text ends in a character of {w} bytes answered right"), 100, &format!("texts:mtext:answered:width-{w}"));
		floor(&format!("versions whose name ends in a character of {w} bytes answered right"), 100, &format!("texts:vtext:answered:width-{w}"));
	}
	floor("diffs that state another old text refused (the error quotes the texts)", 1000, "texts:refused:bad-diff");
	floor("versions with comments made of escapes answered right", 100, "texts:special-comments:answered");
	for class in ["two-roots", "cycle", "unreachable", "unknown-version"] {
		floor(&format!("malformed class refused with long and multi-byte version names: {class}"), 100, &format!("texts:refused:{class}"));
	}
	floor("versions of directories with files of several read buffers answered right", 2 * phases as u64, "texts:big:answered");
	drop(floor);

	let bounds = json!({
		"nesting_names": {
			"skeleton": {"top_level": TOPS.iter().map(|(k, n)| json!({"class": k, "names": n})).collect::<Vec<_>>(), "nested": NESTED, "names_per_nested_class": ["P", "Q", "the last part of its own key"]},
			"states": n_names,
			"radices": names_radices(),
			"directories": "one per state i: a chain of three versions through the states i (root file, extended / contracted alternating), 7i+3 and 7(7i+3)+3 (mod the number of states) by the reference diffs; root or child split; entries inside all files sorted / reversed (nested classes before their outer classes) / rotated",
			"deep_chain": {"depth": DEEP, "names": "every class of the chain has the same simple name", "directories": 3},
			"odd_names": ["a$b/C (a `$` in the package part only)", "a$b/C$D", "T$ (trailing `$`)", "T$$U", "$V (leading `$`)", "x/$W", "x/$W$I", "target name q$r/See"],
		},
		"texts_in_mappings": {
			"slots": LEVELS,
			"texts": format!("k letters + one character of 1/2/3/4 bytes for every k in 0..={k_max}; fifty characters of 1/2/3/4 bytes"),
			"situations": ["the root carries the text (read by the Tiny v2 reader, both root forms)", "a diff edits it to the text with the next character (answered)", "a diff states the text plus one character as the old one (refused)"],
			"special_comments": SPECIAL,
			"special_comments_directories": "per comment level and per start a chain of four versions through the list",
		},
		"texts_in_version_names": {
			"names": format!("k letters + one character of 1/2/3/4 bytes for every k in 0..={VNAME_MAX} (file names stay below 255 bytes); fifty characters of 1/2 bytes; the child is split for k <= 50"),
			"situations": ["well-formed (plus unknown names: a character more at either end, one less, upper case, `~` at either end)", "second root", "loop", "unreachable pair", "diff that does not fit"],
		},
		"large_files": {"classes": BIG_CLASSES, "phases": phases, "meaning": "root and diff file are longer than three read buffers of 8 KiB; comments of 2-, 3- and 4-byte characters; phase p shifts everything behind the first class by p bytes"},
	});
	Out { st, bounds, floors, items: items.len() as u64 }
}

/// re-runs the case named in a replay file; `None` if the file is not one of this engine
pub fn replay(run: &Run, body: &str) -> Option<Stats> {
	if !body.lines().any(|l| l.trim() == "engine=texts") {
		return None;
	}
	let id = body.lines().find_map(|l| l.strip_prefix("case=")).unwrap_or_else(|| fail("texts replay without case"));
	let item = item_of(id).unwrap_or_else(|| fail(&format!("texts replay: bad case {id:?}")));
	let mut st = Stats::new();
	let mut found = false;
	for c in cases_of(&item) {
		if c.id == id.trim() {
			println!("case: {}", c.id);
			st = st.merge(judge(run, &c));
			found = true;
		}
	}
	if !found {
		fail(&format!("texts replay: no case {id:?}"));
	}
	Some(st)
}
