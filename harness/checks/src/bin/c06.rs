//! C06 — remappers answer names and descriptors consistently with the mappings.
//!
//! Exhaustive enumerators (rayon) running the real `quill::remapper` code on every case:
//!
//! * **desc** — mapping sets over seven class slots (`A`, `L`, `LA`, `A$B`, `é`, `p/A`, `x`; `B` is never
//!   mapped), every slot absent / renamed / present without a name / identity-mapped per namespace,
//!   N ∈ {2,3}, every (from, to) pair; every field, return and method descriptor with ≤ 3 components
//!   over 13 atoms, every array and plain class name; through `remapper_a` and `remapper_b`; compared
//!   with a reference walk of the JVMS grammar that replaces exactly the class names; then mapped
//!   back with the opposite remapper (X→Y→X).
//! * **names** (`c06/names.rs`) — one probe class whose name in every namespace runs through an alphabet of
//!   34 name shapes (JDK/library packages, deep packages, descriptor letters, `L…`, `$`, `(`, `)`, `<>`,
//!   2/3/4-byte characters, 64 and 302 characters): every ordered pair (N = 2) and triple (N = 3, quick:
//!   of 11 core names), next to a plainly renamed neighbour class and next to a neighbour that carries the
//!   same names the other way round (the two classes swap names) × every direction × every descriptor with ≤ 3 / ≤ 2 components and 3/255/256
//!   dimensions; the member tables keyed by descriptors mentioning the probe, asked through owners that
//!   declare, inherit and are absent; `map_method_ref` on array classes; and the remaining ways to obtain
//!   a remapper (`remapper_a_first_to_second`, `remapper_b_first_to_second`, `ARemapperAsBRemapper`).
//! * **malformed** — every string of length ≤ 5 (thorough 6) over `L A ; [ I ( ) V / é` and every string of
//!   length 6 (thorough 7, 8) over `L A ; [ ( ) é` as field, method, return descriptor and array class
//!   name: `Err` or a shape-preserving answer, never a panic.
//! * **inherit** — every acyclic assignment of ordered super lists (length ≤ 2, or "unknown to the
//!   provider") to four classes × every assignment of {absent, row variants} × {member undeclared /
//!   declared with name variants} to the four classes; queries: every (owner, member) plus a wrong
//!   descriptor and a wrong name; compared with the reference lookup of the statement; X→Y→X.
//! * **shapes** (`c06/shapes.rs`) — what four classes cannot show: chains of depth ≤ 4 (6) with every class
//!   absent / mapped / declaring the member / declaring an *overload* of it / both / declaring it under an
//!   unchanged name; chains of up to 300 (1025) classes; owners with up to 5 (7) direct super types; combs
//!   of super classes and interfaces.
//! * **table** — one class with every ≤ 2-subset of four members with every partial row, a second
//!   class in every row state, an inheriting third class; every (owner, name in any namespace,
//!   descriptor in any namespace) query; the `*_ref` convenience methods for every owner; X→Y→X with the
//!   provider renamed by the real `JarSuperProv::remap`.
//! * **confuse** (`c06/confuse.rs`) — two names for one thing: an alphabet of ~90 fields and methods in which, for every
//!   coarser key than (name, descriptor), two members coincide (name ++ descriptor with and without one of 13
//!   separators, name only, parameters without return type, dimensions or class names erased, case, a field
//!   that reads like a method); every single member × every query, every pair of members in one table (both
//!   insertion orders) and split over a class and its super type; owners declaring / inheriting / absent from
//!   the mappings; both directions, and with the namespaces swapped (colliding keys in a source namespace other
//!   than the first); every query list asked in order and, on a fresh remapper, in reverse order. The same for
//!   the class table: every ordered pair of 16 class names that coincide under a coarser key.
//! * **env** (`c06/env.rs`) — the environment: `Vec<JarSuperProv>` providers with the four classes of every
//!   graph distributed over two and three jars in every way; a provider that answers `Err` for one class
//!   (every class in turn); `JarSuperProv::remap` on every graph × nine class-row configurations.
//! * **long** (`c06/long.rs`) — class names of k ≤ 140 ASCII characters and one character of 1/2/3/4 bytes in
//!   accepting and in refusing descriptors (error paths), as names of the 564 members of one class and in
//!   member queries; descriptors with 254–1000 parameters (256 class names in one descriptor); names of
//!   255–65537 bytes.
//!
//! # Clauses of the statement → where they are decided
//!
//! | clause | decided by (oracle) | over |
//! |---|---|---|
//! | a class name maps to its counterpart | `desc::judge_desc` on `Tmpl::Obj` / `NT::Obj` with `gram::CMap` (row with a name in both namespaces ⇒ that name); `map_class`, `map_class_fail`, `map_class_any` must agree (`class:variants-disagree`) | desc: 7 slots × 4–5 states, N ∈ {2,3}, all directions; names: 34² pairs, 11³ (34³) triples; `remapper_a`, `remapper_b`, `*_first_to_second`, `ARemapperAsBRemapper` |
//! | … or is left unchanged when unmapped | the same, `CMap::accepts` for names without a row / without a target name (`desc:*:unmapped-name-changed`) | slot `B`, absent slots, rows without a name in `to`; `java/lang/Object` next to mapped `java/…` names |
//! | rewrites exactly the class names in field / method / return / array descriptors | `judge_desc`: per `L…;` segment the answer must be an accepted counterpart (`desc:<position>:<what>`), positions: field, param, return, array-*, arrayclass | desc: all descriptors ≤ 3 components over 13 atoms; names: ≤ 3 / ≤ 2 components over 6 atoms + 3/255/256 dimensions; array class names; `clone` references on array classes (`arrayref:*`) |
//! | … preserving their shape | `judge_desc`: token sequence of the answer equals the input's except for names (`desc:*:shape-changed`); outside the grammar `Err` or `gram::strip` equal (`malformed-shape-changed`), no panic | as above + malformed sweep |
//! | a member is mapped through the owner when it declares it | `member::judge_member` against `world::World::accepted` (`Ans::Found { class == owner }`) | table (all ≤ 2-subsets of 4 members × all rows), inherit, shapes, names |
//! | … else through the nearest declaring super type in declaration order | `World::accepted`: depth-first in declaration order and nearest-first, entries without target name skipped or ending the search (4 readings); keys `member:wrong-name`, `member:inherited-name-not-applied`, `member:inherited-through-unmapped-owner`, … | inherit: all DAGs on 4 classes with ordered lists ≤ 2; shapes: depth ≤ 1024, ≤ 7 direct super types, combs, overloads on the way; names: owners absent from the mappings |
//! | … falling back to the unchanged name with a remapped descriptor | `World::matches(Ans::Fallback)`: name bytes equal, descriptor ∈ `CMap::map_all`; `map_*_fail` = None must agree (`member:fail-variant-disagrees`) | every member engine: wrong name, wrong descriptor, descriptor of another namespace, no declaring type; array classes; `ARemapperAsBRemapper` |
//! | X → Y → X is the identity on what is named injectively | `desc::judge_roundtrip` (`gram::roundtrip_safe` per name), `member::judge_member_roundtrip` (reference's own round trip is the identity under all readings) | every engine, opposite remapper built by the real code (provider renamed by `JarSuperProv::remap` in table) |
//! | quantifier: partial rows, several namespaces, from ≠ first | generators | desc/table/inherit cell states absent/renamed/same; N = 3 in desc, names, inherit, table; floors `*from-not-first*` |
//! | quantifier: nested arrays, names containing L, $, unicode, one character | generators | desc atoms; names alphabet (floors on JDK-looking, 3/4-byte, long names, 255 dimensions) |
//! | quantifier: diamonds, missing intermediate classes, depth | generators | inherit (diamonds, unknown/absent classes), shapes (depth, width, absent fillers) |
//! | a member is the pair (name, descriptor): two members that coincide under any coarser key are answered apart, a member the mappings do not name keeps its name | `member::judge_member` (the reference compares name and descriptor as a pair) | confuse: all pairs of ~90 confusable members, 4 placements, 2 insertion orders, namespaces swapped; 16² class-name pairs |
//! | answers do not depend on what the remapper was asked before | every answer of a query list asked in order and in reverse order (fresh remapper) is judged; a wrong answer that a fresh remapper gets right is reported as `member:answer-depends-on-earlier-queries` with the sequence as replay | confuse (all lists), inherit (one remapper serves all graphs of a configuration) |
//! | the super types are those the provider knows, wherever it keeps them | `World::accepted` on the graph, whatever the distribution over jars; with a failing provider `Err` or an answer right for the graph with or without the failing class; never a panic | env: 941 graphs × (2⁴ + 3⁴) distributions × 10 sets; 941 graphs × 4 failing classes; `JarSuperProv::remap` (`provider-remap:*`) on 941 graphs × 9 row configurations × 1/2 jars |
//! | quantifier: all descriptors of the grammar — long ones, multi-byte characters at every offset, also where the scanner refuses | `desc::judge_desc_tally` (`Err` or same shape outside the grammar, never a panic) | long: k ≤ 140 × 1/2/3/4-byte character × 6 accepting and 8 refusing forms; ≤ 255 parameter slots and ≤ 65535 bytes demanded, beyond that `Err` or a right answer |

/// dispatch on the number of namespaces
macro_rules! with_n {
	($n:expr, $f:ident, $($a:expr),*) => {
		match $n {
			2 => $f::<2>($($a),*),
			3 => $f::<3>($($a),*),
			n => vcore::machinery_fail(&format!("unsupported namespace count {n}")),
		}
	};
}

#[path = "c06/gram.rs"]
mod gram;
#[path = "c06/world.rs"]
mod world;
#[path = "c06/desc.rs"]
mod desc;
#[path = "c06/member.rs"]
mod member;
#[path = "c06/names.rs"]
mod names;
#[path = "c06/shapes.rs"]
mod shapes;
#[path = "c06/confuse.rs"]
mod confuse;
#[path = "c06/env.rs"]
mod env;
#[path = "c06/long.rs"]
mod long;

use std::collections::BTreeMap;
use vcore::{json, Ctx, Stats, Value};

pub const NS: [&str; 3] = ["a", "b", "c"];

/// allocation-free outcome counters for the hot loops, flushed into a `Stats` at the end of a job
#[derive(Default)]
pub struct Tally(pub BTreeMap<&'static str, u64>);

impl Tally {
	pub fn add(&mut self, k: &'static str) {
		*self.0.entry(k).or_insert(0) += 1;
	}
	pub fn flush(self, st: &mut Stats) {
		for (k, v) in self.0 {
			st.outcome_n(k, v);
		}
	}
}

/// header lines `key=value` up to the line `mappings:`; the rest is Tiny v2 text of the mapping set
pub fn parse_replay(body: &str) -> (BTreeMap<String, String>, Vec<String>, mapmodel::MSet) {
	let mut head = BTreeMap::new();
	let mut supers = Vec::new();
	let mut lines = body.lines();
	for l in lines.by_ref() {
		if l == "mappings:" {
			break;
		}
		if let Some(rest) = l.strip_prefix("super ") {
			supers.push(rest.to_owned());
		} else if let Some((k, v)) = l.split_once('=') {
			head.insert(k.to_owned(), v.to_owned());
		}
	}
	// (the replay file ends with one more line break than the printed set: no empty line may reach the strict reader)
	let mut rest: Vec<&str> = lines.collect();
	while rest.last() == Some(&"") {
		rest.pop();
	}
	let text: String = rest.iter().map(|l| format!("{l}\n")).collect();
	let set = mapmodel::tiny::parse(&text).unwrap_or_else(|e| vcore::machinery_fail(&format!("replay: mapping text: {e:?}")));
	(head, supers, set)
}

pub fn case_header(engine: &str, n: usize, from: usize, to: usize) -> String {
	format!("engine={engine}\nn={n}\nfrom={from}\nto={to}\n")
}

pub fn case_mappings(set: &mapmodel::MSet) -> String {
	format!("mappings:\n{}", mapmodel::tiny::print(set))
}

fn main() {
	let ctx: &'static Ctx = Box::leak(Box::new(Ctx::new("C06", "exploration")));
	if let Some(path) = ctx.replay.clone() {
		replay(ctx, &path);
	}
	let t0 = ctx.elapsed_s();
	let (d, d_bounds) = desc::run(ctx);
	let t1 = ctx.elapsed_s();
	let mal = desc::run_malformed(ctx);
	let t2 = ctx.elapsed_s();
	let (inh, inh_bounds) = member::run_inherit(ctx);
	let t3 = ctx.elapsed_s();
	let (tab, tab_bounds) = member::run_table(ctx);
	let t4 = ctx.elapsed_s();
	let (nam, nam_bounds) = names::run(ctx);
	let t5 = ctx.elapsed_s();
	let (shp, shp_bounds) = shapes::run(ctx);
	let t6 = ctx.elapsed_s();
	let (cnf, cnf_bounds) = confuse::run(ctx);
	let t7 = ctx.elapsed_s();
	let (envs, env_bounds) = env::run(ctx);
	let t8 = ctx.elapsed_s();
	let (lng, lng_bounds) = long::run(ctx);
	let t9 = ctx.elapsed_s();

	let n_floor = ctx.tier.pick(1_000, 10_000);
	ctx.floor("descriptors in which at least two class names changed", n_floor, d.get("desc:two-or-more-names-changed"));
	ctx.floor("class names that changed", n_floor, d.get("class:changed"));
	ctx.floor("descriptor lookups with a source namespace other than the first", n_floor, d.get("desc:from-not-first"));
	ctx.floor("malformed descriptors refused with Err", 1, mal.get("malformed:refused"));
	ctx.floor("malformed descriptors answered shape-preservingly", 1, mal.get("malformed:shape-preserved"));
	ctx.floor("grammatical strings inside the malformed sweep", 10, mal.get("malformed-sweep:grammatical"));
	ctx.floor("descriptor round trips checked (X→Y→X)", n_floor, d.get("roundtrip:desc:identity-required"));
	ctx.floor("descriptor round trips where identity is not required (not injective)", 1, d.get("roundtrip:desc:not-injective"));
	ctx.floor("members answered through a super type at distance ≥ 2", n_floor, inh.get("inherit:found-at-distance>=2"));
	ctx.floor("members answered through a super type at distance 3", 100, inh.get("inherit:found-at-distance>=3"));
	ctx.floor("diamonds in which declaration order decided the answer", 1, inh.get("inherit:diamond-declaration-order-decides"));
	ctx.floor("lookups where depth-first and nearest-first readings differ (both accepted)", 1, inh.get("inherit:dfs-bfs-differ"));
	ctx.floor("lookups through a class unknown to the provider", 100, inh.get("inherit:owner-unknown-to-provider"));
	ctx.floor("lookups falling back to the unchanged name", n_floor, inh.get("inherit:fallback"));
	ctx.floor("member lookups with a source namespace other than the first", n_floor, inh.get("inherit:from-not-first") + tab.get("table:from-not-first"));
	ctx.floor("member round trips checked (X→Y→X)", n_floor, inh.get("roundtrip:member:identity-required") + tab.get("roundtrip:member:identity-required"));
	ctx.floor("table lookups answered by an entry of the owner", n_floor, tab.get("table:found-in-owner"));
	ctx.floor("table lookups answered by an inherited entry", n_floor, tab.get("table:found-in-super"));
	ctx.floor("table lookups with a name of another namespace left unchanged", n_floor, tab.get("table:fallback"));

	ctx.floor("malformed strings with a non-ASCII character judged", n_floor, mal.get("malformed:non-ascii-judged"));
	ctx.floor("names: descriptors and class names judged", n_floor, nam.get("names:desc-judged"));
	ctx.floor("names: mapped names in java/ packages that were rewritten", n_floor, nam.get("names:jdk-looking-name-rewritten"));
	ctx.floor("names: names with three- or four-byte characters that were rewritten", n_floor, nam.get("names:three-or-four-byte-name-rewritten"));
	ctx.floor("names: descriptors rewritten in sets where two classes swap their names", n_floor, nam.get("names:swapped-names-rewritten"));
	ctx.floor("names: class names with unpaired surrogates that were rewritten", 100, nam.get("names:surrogate-name-rewritten"));
	ctx.floor("names: members found in a class whose name has an unpaired surrogate", 10, nam.get("names:surrogate-member-found"));
	ctx.floor("names: names of 300 and more characters that were rewritten", 100, nam.get("names:long-name-rewritten"));
	ctx.floor("names: arrays of 255 dimensions rewritten", 100, nam.get("names:255-dimensions-rewritten"));
	ctx.floor("names: lookups with a source namespace other than the first", n_floor, nam.get("names:desc-from-not-first"));
	ctx.floor("names: members found whose class/descriptor key lies in a java/ package", 100, nam.get("names:member-found-jdk-looking-class"));
	ctx.floor("names: … with a source namespace other than the first", 100, nam.get("names:member-found-jdk-looking-class-from-not-first"));
	ctx.floor("names: members found in a super type", 1_000, nam.get("names:member-found-in-super"));
	ctx.floor("names: *_ref variants compared", 1_000, nam.get("names:ref-variants-checked"));
	ctx.floor("names: method references on array classes judged", 1_000, nam.get("names:array-method-ref-judged"));
	ctx.floor("names: … in which the array class name changed", 1_000, nam.get("names:array-method-ref-class-changed"));
	ctx.floor("names: answers of remapper_*_first_to_second judged", n_floor, nam.get("names:first-to-second-desc-judged") + nam.get("names:first-to-second-member-judged"));
	ctx.floor("names: member answers of remapper_b_first_to_second judged", 1_000, nam.get("names:first-to-second-member-judged"));
	ctx.floor("names: answers of ARemapperAsBRemapper judged", n_floor, nam.get("names:a-as-b-desc-judged") + nam.get("names:a-as-b-member-judged"));
	ctx.floor("names: round trips checked (X→Y→X)", n_floor, nam.get("roundtrip:desc:identity-required"));
	ctx.floor("shapes: members found at depth ≥ 4", 1_000, shp.get("shapes:found-at-depth>=4"));
	ctx.floor("shapes: members found at depth ≥ 64", 100, shp.get("shapes:found-at-depth>=64"));
	ctx.floor("shapes: members found at depth ≥ 256", 10, shp.get("shapes:found-at-depth>=256"));
	ctx.floor("shapes: members found above an owner that declares an overload", 1_000, shp.get("shapes:found-above-an-owner-declaring-an-overload"));
	ctx.floor("shapes: members answered by a nearer declaration with an unchanged name that shadows a renamed one", 1_000, shp.get("shapes:unchanged-name-shadows-a-renamed-one"));
	ctx.floor("shapes: overloads found in a super type", 1_000, shp.get("shapes:overload-found-in-super"));
	ctx.floor("shapes: members found in the third or a later direct super type", 1_000, shp.get("shapes:found-in-third-or-later-direct-super-type"));
	ctx.floor("shapes: members found in an interface of a comb", 1_000, shp.get("shapes:comb-found-in-interface"));
	ctx.floor("shapes: fallbacks", 1_000, shp.get("shapes:fallback"));
	ctx.floor("shapes: round trips checked (X→Y→X)", 1_000, shp.get("roundtrip:member:identity-required"));
	ctx.floor("confuse: member answers judged", 100_000, cnf.get("confuse:judged"));
	ctx.floor("confuse: members found next to a member whose name ++ separator ++ descriptor is the same text", 1_000, cnf.get("confuse:rel:concatenation-coincides"));
	ctx.floor("confuse: … where one is a field and the other a method", 50, cnf.get("confuse:rel:concatenation-coincides-field-and-method"));
	ctx.floor("confuse: members told apart that differ in the return type only", 500, cnf.get("confuse:rel:differ-in-return-type-only"));
	ctx.floor("confuse: members told apart that differ in the array dimensions only", 300, cnf.get("confuse:rel:differ-in-dimensions-only"));
	ctx.floor("confuse: members told apart that differ in the class names of the descriptor only", 10_000, cnf.get("confuse:rel:differ-in-class-names-only"));
	ctx.floor("confuse: members told apart that differ in case only", 200, cnf.get("confuse:rel:differ-in-case-only"));
	ctx.floor("confuse: members the mappings do not name that kept their name", 100_000, cnf.get("confuse:unnamed-member-kept-its-name"));
	ctx.floor("confuse: answers with the colliding spellings in a source namespace other than the first", 100_000, cnf.get("confuse:colliding-spellings-in-a-source-namespace-other-than-the-first"));
	ctx.floor("confuse: answers to the query lists asked in reverse order on a fresh remapper", 100_000, cnf.get("confuse:asked-in-reverse-order-on-a-fresh-remapper"));
	ctx.floor("confuse: members found in the owner / in the super type", 100_000, cnf.get("confuse:found-in-owner").min(cnf.get("confuse:found-in-super")));
	ctx.floor("confuse: round trips checked (X→Y→X)", 100_000, cnf.get("roundtrip:member:identity-required"));
	ctx.floor("confuse: class names and descriptors of class-name pairs judged in the namespace where they look alike", 5_000, cnf.get("confuse:class-pair-desc-judged-in-the-colliding-namespace"));
	ctx.floor("confuse: members of look-alike classes found", 5_000, cnf.get("confuse:class-pair-member-found"));
	ctx.floor("env: member answers with the classes distributed over several jars", 1_000_000, envs.get("env:jars:judged"));
	ctx.floor("env: members found through a class that only a later jar knows", 100_000, envs.get("env:jars:found-through-a-class-known-to-a-later-jar-only"));
	ctx.floor("env: members found through a class that only the last jar knows", 100_000, envs.get("env:jars:found-through-a-class-known-to-the-last-jar-only"));
	ctx.floor("env: members found with an empty first jar", 50_000, envs.get("env:jars:found-with-an-empty-first-jar"));
	ctx.floor("env: failures of the provider that came back as Err", 10_000, envs.get("env:failing:error-came-back"));
	ctx.floor("env: lookups answered although the provider fails for a class", 50_000, envs.get("env:failing:answered"));
	ctx.floor("env: renamed providers compared (JarSuperProv::remap)", 50_000, envs.get("env:remap:judged"));
	ctx.floor("env: … with an ordered list of two super types", 10_000, envs.get("env:remap:judged-with-an-ordered-list-of-two"));
	ctx.floor("long: accepted descriptors with a multi-byte character at every offset", 2_000, lng.get("long:offsets:accepted-judged-multibyte"));
	ctx.floor("long: refused descriptors with a multi-byte character at every offset", 4_000, lng.get("long:offsets:refusing-judged-multibyte"));
	ctx.floor("long: refusals with Err", 10_000, lng.get("long:offsets:refused-with-err"));
	ctx.floor("long: fields of a table of 564 members found", 1_000, lng.get("long:offsets:field-of-a-564-member-table-found"));
	ctx.floor("long: member queries with a refused descriptor that did not panic", 4_000, lng.get("long:offsets:member-query-with-a-refused-descriptor-did-not-panic"));
	ctx.floor("long: descriptors with 256 class names judged", 2, lng.get("long:sizes:descriptor-with-256-class-names-judged"));
	ctx.floor("long: descriptors with 254 or 255 parameters judged", 8, lng.get("long:sizes:descriptor-with-254-or-255-parameters-judged"));
	ctx.floor("long: names of 65533 bytes judged", 6, lng.get("long:sizes:name-of-65533-bytes-judged"));
	ctx.floor("long: members with long names and descriptors found", 20, lng.get("long:sizes:member-found"));

	let mut all = Stats::new();
	let mut samples: Vec<Value> = Vec::new();
	let mut outcomes: BTreeMap<String, u64> = BTreeMap::new();
	let mut distinct = 0u64;
	for s in [&d, &mal, &inh, &tab, &nam, &shp, &cnf, &envs, &lng] {
		all.evaluations += s.evaluations;
		distinct += s.distinct.len();
		for (k, v) in &s.outcomes {
			*outcomes.entry(k.clone()).or_insert(0) += v;
		}
		samples.extend(s.samples.iter().take(3).cloned());
	}
	let coverage = json!({
		"evaluations": all.evaluations,
		"distinct_nontrivial": distinct,
		"rule": "one evaluation = one call of a real ARemapper/BRemapper method on a remapper built by the real Mappings::remapper_a / remapper_b. distinct_nontrivial = distinct rendered descriptor/class-name inputs whose answer differs from the input + distinct (super-type graph, owner, declaring class) triples in which a member was answered through a super type + distinct (table set, query) pairs answered with a changed name + distinct (name-alphabet input) descriptors whose answer differs from the input + distinct (shape, states, owner, declaring class) tuples answered through a class + distinct (confusable set, placement, direction, owner, query) tuples answered by an entry + distinct (graph, jar distribution, set, owner) tuples answered through a super type + distinct long inputs whose answer differs from the input",
		"exhaustive": true,
		"samples": samples,
		"outcomes": outcomes,
		"bounds": {
			"desc": d_bounds,
			"malformed": {"alphabet": desc::MAL_ALPHABET.iter().collect::<String>(), "max_len": desc::mal_len(ctx), "nesting_alphabet": desc::MAL_NEST_ALPHABET.iter().collect::<String>(), "nesting_exact_lengths": desc::mal_nest_lens(ctx), "kinds": ["field", "method", "return", "arrclass"]},
			"inherit": inh_bounds,
			"table": tab_bounds,
			"names": nam_bounds,
			"shapes": shp_bounds,
			"confuse": cnf_bounds,
			"env": env_bounds,
			"long": lng_bounds,
		},
		"engine_evaluations": {"desc": d.evaluations, "malformed": mal.evaluations, "inherit": inh.evaluations, "table": tab.evaluations, "names": nam.evaluations, "shapes": shp.evaluations, "confuse": cnf.evaluations, "env": envs.evaluations, "long": lng.evaluations},
		"engine_wall_s": {"desc": t1 - t0, "malformed": t2 - t1, "inherit": t3 - t2, "table": t4 - t3, "names": t5 - t4, "shapes": t6 - t5, "confuse": t7 - t6, "env": t8 - t7, "long": t9 - t8},
	});
	ctx.finish(coverage, &[
		"class, field and method names are drawn from explicit alphabets (desc: 7 slots; names: 34 shapes incl. JDK/library packages, descriptor letters, L, $, (, ), <>, 2/3/4-byte characters, 64 and 302 characters; five names with unpaired surrogates); other names are not covered",
		"map_method_ref on an array class: no mapping set can name a member of an array class and no provider is asked about one, so the unchanged name is demanded (the statement's fallback)",
		"ARemapperAsBRemapper has no member tables by design: for members the unchanged name is accepted next to the reference's answers; class names and descriptors are judged like every other remapper",
		"member names of the names engine are rotated with the index of the set (covering, not the full product)",
		"\"nearest declaring super type in declaration order\" is read both as depth-first in declaration order and as smallest distance first; where the two readings differ both answers are accepted",
		"an entry that has a name in the source namespace but none in the target namespace may either end the search with the unchanged name or be skipped",
		"for a found entry the descriptor may be the rewritten query descriptor or the entry's own descriptor carried to the target namespace (they differ only for classes without a source-namespace name)",
		"X→Y→X identity is demanded exactly where the reference model's own round trip is the identity under every accepted reading",
		"malformed descriptors: only Err or a shape-preserving Ok is demanded",
		"a provider that answers Err: Err is accepted; an Ok answer must be right for the graph as it is or for the graph in which the failing class is unknown to the provider",
		"a class known to several jars of one provider is not explored (the statement does not say which jar wins)",
		"beyond what a class file can hold (more than 255 parameter slots, names or descriptors of more than 65535 bytes) a refusal is accepted, a wrong answer is not",
		"JarSuperProv::remap is judged as the means to carry an inheritance graph into the target namespace for the way back (same classes, same super types, same order, new names)",
	]);
}

fn replay(ctx: &'static Ctx, path: &std::path::Path) -> ! {
	let body = vcore::replay_body(path);
	let (head, supers, set) = parse_replay(&body);
	let engine = head.get("engine").cloned().unwrap_or_else(|| vcore::machinery_fail("replay: no engine line"));
	let mut st = Stats::new();
	let obs1;
	let obs2;
	if engine.starts_with("names") {
		obs1 = names::replay_case(ctx, &head, &set, &mut st);
		obs2 = names::replay_case(ctx, &head, &set, &mut Stats::new());
	} else if engine.starts_with("desc") {
		obs1 = desc::replay_case(ctx, &head, &set, &mut st);
		obs2 = desc::replay_case(ctx, &head, &set, &mut Stats::new());
	} else if engine.starts_with("member-sequence") {
		obs1 = confuse::replay_case(ctx, &head, &supers, &set, &mut st);
		obs2 = confuse::replay_case(ctx, &head, &supers, &set, &mut Stats::new());
	} else if engine == "long-sizes" {
		obs1 = long::replay_case(ctx, &head, &mut st);
		obs2 = long::replay_case(ctx, &head, &mut Stats::new());
	} else if engine == "provider-remap" || engine == "member-failing-provider" {
		obs1 = env::replay_case(ctx, &head, &supers, &set, &mut st);
		obs2 = env::replay_case(ctx, &head, &supers, &set, &mut Stats::new());
	} else {
		obs1 = member::replay_case(ctx, &head, &supers, &set, &mut st);
		obs2 = member::replay_case(ctx, &head, &supers, &set, &mut Stats::new());
	}
	println!("observed: {obs1}");
	if obs1 != obs2 {
		vcore::machinery_fail("replay is not deterministic");
	}
	ctx.finish(json!({"evaluations": st.evaluations, "distinct_nontrivial": 1, "rule": "replay of one case", "samples": ["replay"], "exhaustive": false}), &[]);
}
