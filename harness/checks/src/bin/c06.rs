//! C06 — remappers answer names and descriptors consistently with the mappings.
//!
//! Exhaustive enumerators (rayon) running the real `quill::remapper` code on every case:
//!
//! * **desc** — mapping sets over seven class slots (`A`, `L`, `LA`, `A$B`, `é`, `p/A`, `x`; `B` is never
//!   mapped), every slot absent / renamed / present without a name / identity-mapped per namespace,
//!   N ∈ {2,3}, every (from, to) pair; every field, return and method descriptor with ≤ 3 components
//!   over 13 atoms, every array and plain class name; through `remapper_a` and `remapper_b`; compared
//!   with a reference walk of the JVMS grammar that replaces exactly the class names; then mapped
//!   back with the opposite remapper (X→Y→X).
//! * **malformed** — every string of length ≤ 5 over `L A ; [ I ( ) V /` as field, method, return
//!   descriptor and array class name: `Err` or a shape-preserving answer, never a panic.
//! * **inherit** — every acyclic assignment of ordered super lists (length ≤ 2, or "unknown to the
//!   provider") to four classes × every assignment of {absent, row variants} × {member undeclared /
//!   declared with name variants} to the four classes; queries: every (owner, member) plus a wrong
//!   descriptor and a wrong name; compared with the reference lookup of the statement; X→Y→X.
//! * **table** — one class with every ≤ 2-subset of four members with every partial row, a second
//!   class in every row state, an inheriting third class; every (owner, name in any namespace,
//!   descriptor in any namespace) query; the `*_ref` convenience methods; X→Y→X with the provider
//!   renamed by the real `JarSuperProv::remap`.

/// dispatch on the number of namespaces
macro_rules! with_n {
	($n:expr, $f:ident, $($a:expr),*) => {
		match $n {
			2 => $f::<2>($($a),*),
			3 => $f::<3>($($a),*),
			n => vcore::machinery_fail(&format!("unsupported namespace count {n}")),
		}
	};
}

#[path = "c06/gram.rs"]
mod gram;
#[path = "c06/world.rs"]
mod world;
#[path = "c06/desc.rs"]
mod desc;
#[path = "c06/member.rs"]
mod member;

use std::collections::BTreeMap;
use vcore::{json, Ctx, Stats, Value};

pub const NS: [&str; 3] = ["a", "b", "c"];

/// allocation-free outcome counters for the hot loops, flushed into a `Stats` at the end of a job
#[derive(Default)]
pub struct Tally(pub BTreeMap<&'static str, u64>);

impl Tally {
	pub fn add(&mut self, k: &'static str) {
		*self.0.entry(k).or_insert(0) += 1;
	}
	pub fn flush(self, st: &mut Stats) {
		for (k, v) in self.0 {
			st.outcome_n(k, v);
		}
	}
}

/// header lines `key=value` up to the line `mappings:`; the rest is Tiny v2 text of the mapping set
pub fn parse_replay(body: &str) -> (BTreeMap<String, String>, Vec<String>, mapmodel::MSet) {
	let mut head = BTreeMap::new();
	let mut supers = Vec::new();
	let mut lines = body.lines();
	for l in lines.by_ref() {
		if l == "mappings:" {
			break;
		}
		if let Some(rest) = l.strip_prefix("super ") {
			supers.push(rest.to_owned());
		} else if let Some((k, v)) = l.split_once('=') {
			head.insert(k.to_owned(), v.to_owned());
		}
	}
	let text: String = lines.map(|l| format!("{l}\n")).collect();
	let set = mapmodel::tiny::parse(&text).unwrap_or_else(|e| vcore::machinery_fail(&format!("replay: mapping text: {e:?}")));
	(head, supers, set)
}

pub fn case_header(engine: &str, n: usize, from: usize, to: usize) -> String {
	format!("engine={engine}\nn={n}\nfrom={from}\nto={to}\n")
}

pub fn case_mappings(set: &mapmodel::MSet) -> String {
	format!("mappings:\n{}", mapmodel::tiny::print(set))
}

fn main() {
	let ctx: &'static Ctx = Box::leak(Box::new(Ctx::new("C06", "exploration")));
	if let Some(path) = ctx.replay.clone() {
		replay(ctx, &path);
	}
	let t0 = ctx.elapsed_s();
	let (d, d_bounds) = desc::run(ctx);
	let t1 = ctx.elapsed_s();
	let mal = desc::run_malformed(ctx);
	let t2 = ctx.elapsed_s();
	let (inh, inh_bounds) = member::run_inherit(ctx);
	let t3 = ctx.elapsed_s();
	let (tab, tab_bounds) = member::run_table(ctx);
	let t4 = ctx.elapsed_s();

	let n_floor = ctx.tier.pick(1_000, 10_000);
	ctx.floor("descriptors in which at least two class names changed", n_floor, d.get("desc:two-or-more-names-changed"));
	ctx.floor("class names that changed", n_floor, d.get("class:changed"));
	ctx.floor("descriptor lookups with a source namespace other than the first", n_floor, d.get("desc:from-not-first"));
	ctx.floor("malformed descriptors refused with Err", 1, mal.get("malformed:refused"));
	ctx.floor("malformed descriptors answered shape-preservingly", 1, mal.get("malformed:shape-preserved"));
	ctx.floor("grammatical strings inside the malformed sweep", 10, mal.get("malformed-sweep:grammatical"));
	ctx.floor("descriptor round trips checked (X→Y→X)", n_floor, d.get("roundtrip:desc:identity-required"));
	ctx.floor("descriptor round trips where identity is not required (not injective)", 1, d.get("roundtrip:desc:not-injective"));
	ctx.floor("members answered through a super type at distance ≥ 2", n_floor, inh.get("inherit:found-at-distance>=2"));
	ctx.floor("members answered through a super type at distance 3", 100, inh.get("inherit:found-at-distance>=3"));
	ctx.floor("diamonds in which declaration order decided the answer", 1, inh.get("inherit:diamond-declaration-order-decides"));
	ctx.floor("lookups where depth-first and nearest-first readings differ (both accepted)", 1, inh.get("inherit:dfs-bfs-differ"));
	ctx.floor("lookups through a class unknown to the provider", 100, inh.get("inherit:owner-unknown-to-provider"));
	ctx.floor("lookups falling back to the unchanged name", n_floor, inh.get("inherit:fallback"));
	ctx.floor("member lookups with a source namespace other than the first", n_floor, inh.get("inherit:from-not-first") + tab.get("table:from-not-first"));
	ctx.floor("member round trips checked (X→Y→X)", n_floor, inh.get("roundtrip:member:identity-required") + tab.get("roundtrip:member:identity-required"));
	ctx.floor("table lookups answered by an entry of the owner", n_floor, tab.get("table:found-in-owner"));
	ctx.floor("table lookups answered by an inherited entry", n_floor, tab.get("table:found-in-super"));
	ctx.floor("table lookups with a name of another namespace left unchanged", n_floor, tab.get("table:fallback"));

	let mut all = Stats::new();
	let mut samples: Vec<Value> = Vec::new();
	let mut outcomes: BTreeMap<String, u64> = BTreeMap::new();
	let mut distinct = 0u64;
	for s in [&d, &mal, &inh, &tab] {
		all.evaluations += s.evaluations;
		distinct += s.distinct.len();
		for (k, v) in &s.outcomes {
			*outcomes.entry(k.clone()).or_insert(0) += v;
		}
		samples.extend(s.samples.iter().take(3).cloned());
	}
	let coverage = json!({
		"evaluations": all.evaluations,
		"distinct_nontrivial": distinct,
		"rule": "one evaluation = one call of a real ARemapper/BRemapper method on a remapper built by the real Mappings::remapper_a / remapper_b. distinct_nontrivial = distinct rendered descriptor/class-name inputs whose answer differs from the input + distinct (super-type graph, owner, declaring class) triples in which a member was answered through a super type + distinct (table set, query) pairs answered with a changed name",
		"exhaustive": true,
		"samples": samples,
		"outcomes": outcomes,
		"bounds": {
			"desc": d_bounds,
			"malformed": {"alphabet": desc::MAL_ALPHABET.iter().collect::<String>(), "max_len": desc::MAL_LEN, "kinds": ["field", "method", "return", "arrclass"]},
			"inherit": inh_bounds,
			"table": tab_bounds,
		},
		"engine_evaluations": {"desc": d.evaluations, "malformed": mal.evaluations, "inherit": inh.evaluations, "table": tab.evaluations},
		"engine_wall_s": {"desc": t1 - t0, "malformed": t2 - t1, "inherit": t3 - t2, "table": t4 - t3},
	});
	ctx.finish(coverage, &[
		"class, field and method names are drawn from small alphabets (names containing L, $, /, non-ASCII, one character); other names are not covered",
		"\"nearest declaring super type in declaration order\" is read both as depth-first in declaration order and as smallest distance first; where the two readings differ both answers are accepted",
		"an entry that has a name in the source namespace but none in the target namespace may either end the search with the unchanged name or be skipped",
		"for a found entry the descriptor may be the rewritten query descriptor or the entry's own descriptor carried to the target namespace (they differ only for classes without a source-namespace name)",
		"X→Y→X identity is demanded exactly where the reference model's own round trip is the identity under every accepted reading",
		"malformed descriptors: only Err or a shape-preserving Ok is demanded",
	]);
}

fn replay(ctx: &'static Ctx, path: &std::path::Path) -> ! {
	let body = vcore::replay_body(path);
	let (head, supers, set) = parse_replay(&body);
	let engine = head.get("engine").cloned().unwrap_or_else(|| vcore::machinery_fail("replay: no engine line"));
	let mut st = Stats::new();
	let obs1;
	let obs2;
	if engine.starts_with("desc") {
		obs1 = desc::replay_case(ctx, &head, &set, &mut st);
		obs2 = desc::replay_case(ctx, &head, &set, &mut Stats::new());
	} else {
		obs1 = member::replay_case(ctx, &head, &supers, &set, &mut st);
		obs2 = member::replay_case(ctx, &head, &supers, &set, &mut Stats::new());
	}
	println!("observed: {obs1}");
	if obs1 != obs2 {
		vcore::machinery_fail("replay is not deterministic");
	}
	ctx.finish(json!({"evaluations": st.evaluations, "distinct_nontrivial": 1, "rule": "replay of one case", "samples": ["replay"], "exhaustive": false}), &[]);
}
