//! Engine "confuse": two names for one thing / one name for two things.
//!
//! The member tables of a remapper are keyed by (name, descriptor in the source namespace). A key that is
//! any coarser than that pair merges two different members: name ++ descriptor without a separator (field `a`
//! of type `LLy;` and field `aL` of type `Ly;`), the same with a separator that may occur in names
//! (`a:Lx` + `:` + `Ly;`), the name alone, the name and the parameters without the return type, the
//! descriptor with its dimensions or class names erased, a comparison that ignores case, one table for
//! fields and methods (field `m()` of type `I` and method `m` with `()I`), …
//!
//! * **members** — an alphabet of ~90 fields and methods built so that for each of these coarse keys at least
//!   two members coincide; a holder class `H`, its super type `G`, a subclass `S` the mappings do not name.
//!   Every single member in `H` or in `G` × *every* member of the alphabet as query (a member the mappings do
//!   not name must keep its name); every unordered pair of members × {both in `H` inserted in sorted order,
//!   both in `H` inserted in reversed order, one in `H` the other in `G`, the other way round} × both members
//!   as query; owners `H`, `G`, `S`; both directions; and the same sets with the two namespaces swapped, so
//!   that the colliding spellings are those of a source namespace other than the first (the keys are
//!   descriptors carried there by the real code). Every list of queries is asked in order on one remapper
//!   and in reverse order on a second, freshly built one (answers must not depend on what was asked before).
//!   Oracle: the reference lookup of `world.rs`, X→Y→X.
//! * **classes** — the same for the class table: every ordered pair of 16 class names that coincide under a
//!   coarser key (case, package, `$` suffix/prefix, doubled name), the first mapped and declaring members,
//!   the second absent / mapped to another name and declaring the same members under other names; class
//!   names, descriptors and members of both.

use std::collections::BTreeMap;
use duke::tree::class::ObjClassName;
use mapmodel::{MClass, MField, MMethod, MSet, Order};
use quill::remapper::NoSuperClassProvider;
use quill::tree::mappings::Mappings;
use quill::tree::names::Namespace;
use rayon::prelude::*;
use vcore::{json, Ctx, Stats, Value};
use super::desc::{judge_desc, judge_roundtrip, real_map};
use super::gram::{names_of, parse_desc, strip, CMap, TKind};
use super::member::{jar_prov, judge_member, judge_member_roundtrip, real_member, CaseText, Query, RealM};
use super::world::{Ans, MKind, World};
use super::{case_header, case_mappings, Tally, NS};

fn ns(i: usize) -> Namespace<2> {
	Namespace::new(i).unwrap_or_else(|e| vcore::machinery_fail(&format!("namespace {i}: {e}")))
}

fn fail<T>(what: &str) -> impl FnOnce(anyhow::Error) -> T + '_ {
	move |e| vcore::machinery_fail(&format!("{what}: {e:#}"))
}

// ---------------------------------------------------------------------------------------------
// the alphabet of members

/// separators a concatenated key might use; every one of them may occur in a member and in a class name
pub const SEPS: [&str; 13] = ["", ":", " ", "|", "#", ",", "-", "@", "$", "_", "=", "!", "+"];

#[derive(Clone, Debug, PartialEq, Eq)]
pub struct Mem {
	pub kind: MKind,
	pub name: String,
	pub desc: String,
}

pub fn alphabet() -> Vec<Mem> {
	let mut v: Vec<Mem> = Vec::new();
	let mut add = |kind: MKind, name: &str, desc: &str| {
		let m = Mem { kind, name: name.to_owned(), desc: desc.to_owned() };
		if !v.contains(&m) {
			v.push(m);
		}
	};
	// fields: one name with descriptors that differ in one respect, one descriptor with names that differ in one respect
	for d in ["I", "J", "[I", "[[I", "Ly;", "Lx;", "LY;", "[Ly;", "Lp/y;", "Ly$;", "LLy;", "LxLy;"] {
		add(MKind::Field, "a", d);
	}
	add(MKind::Field, "A", "I");
	add(MKind::Field, "b", "I");
	add(MKind::Field, "aL", "I");
	add(MKind::Field, "aL", "Ly;");
	add(MKind::Field, "aLx", "Ly;");
	for sep in &SEPS[1..] {
		add(MKind::Field, "a", &format!("Lx{sep}Ly;"));
		add(MKind::Field, &format!("a{sep}Lx"), "Ly;");
	}
	// a field that reads like a method
	add(MKind::Field, "m()", "I");
	add(MKind::Field, "m", "I");
	// methods
	for d in ["()V", "()I", "()J", "(I)V", "(J)V", "(II)V", "([I)V", "([[I)V", "(Ly;)V", "(Lx;)V", "(LY;)V", "()Ly;", "()Lx;", "(Ly;)Lx;", "(Lx;)Ly;", "(Ly;Lx;)V", "(Lx;Ly;)V", "(Lx(Ly;)V"] {
		add(MKind::Method, "m", d);
	}
	add(MKind::Method, "M", "()V");
	add(MKind::Method, "n", "()V");
	add(MKind::Method, "<init>", "()V");
	add(MKind::Method, "<init>", "(I)V");
	add(MKind::Method, "<clinit>", "()V");
	add(MKind::Method, "m(Lx", "(Ly;)V");
	for sep in &SEPS[1..] {
		add(MKind::Method, "m", &format!("(Lx{sep}(Ly;)V"));
		add(MKind::Method, &format!("m{sep}(Lx"), "(Ly;)V");
	}
	v
}

/// the ways in which two different members look alike (for the floors: proof that the alphabet contains what it promises)
fn relations(a: &Mem, b: &Mem) -> Vec<&'static str> {
	let mut r = Vec::new();
	if SEPS.iter().any(|s| format!("{}{s}{}", a.name, a.desc) == format!("{}{s}{}", b.name, b.desc)) {
		r.push(if a.kind == b.kind { "confuse:rel:concatenation-coincides" } else { "confuse:rel:concatenation-coincides-field-and-method" });
	}
	if a.kind != b.kind {
		return r;
	}
	if a.name == b.name {
		r.push("confuse:rel:same-name");
		if a.kind == MKind::Method && a.desc.split(')').next() == b.desc.split(')').next() {
			r.push("confuse:rel:differ-in-return-type-only");
		}
		if a.desc.replace('[', "") == b.desc.replace('[', "") {
			r.push("confuse:rel:differ-in-dimensions-only");
		}
		if strip(&a.desc) == strip(&b.desc) {
			r.push("confuse:rel:differ-in-class-names-only");
		}
		if a.desc.len() == b.desc.len() {
			r.push("confuse:rel:descriptors-of-equal-length");
		}
	}
	if a.desc == b.desc {
		r.push("confuse:rel:same-descriptor");
	}
	if a.name.eq_ignore_ascii_case(&b.name) && a.desc.eq_ignore_ascii_case(&b.desc) {
		r.push("confuse:rel:differ-in-case-only");
	}
	if a.name.starts_with(&b.name) || b.name.starts_with(&a.name) {
		r.push("confuse:rel:name-is-prefix-of-the-other");
	}
	r
}

pub const HOLDER: &str = "H";
pub const SUPER: &str = "G";
pub const SUB: &str = "S";

/// every class the alphabet mentions (first-namespace spelling), in order of first mention
fn class_universe(alpha: &[Mem]) -> Vec<String> {
	let mut v: Vec<String> = Vec::new();
	for m in alpha {
		let toks = parse_desc(m.kind.tkind(), &m.desc).unwrap_or_else(|| vcore::machinery_fail(&format!("confuse: {:?} is not a descriptor", m.desc)));
		for n in names_of(&toks) {
			if !v.iter().any(|x| x == n) {
				v.push(n.to_owned());
			}
		}
	}
	v
}

/// where the members of a set are declared and in which order the set is handed to the real code
#[derive(Clone, Debug)]
pub struct Placement {
	/// (index into the alphabet, declared by `G` instead of `H`)
	pub members: Vec<(usize, bool)>,
	pub order: Order,
}

struct Universe {
	alpha: Vec<Mem>,
	classes: Vec<String>,
	/// relations[i][j]
	rel: Vec<Vec<Vec<&'static str>>>,
}

impl Universe {
	fn new() -> Universe {
		let alpha = alphabet();
		let classes = class_universe(&alpha);
		let rel = alpha.iter().map(|a| alpha.iter().map(|b| if a == b { Vec::new() } else { relations(a, b) }).collect()).collect();
		Universe { alpha, classes, rel }
	}

	/// the other-namespace name of class `i` / member `i`: plain, unique, no letter that means anything in a descriptor
	fn class_plain(&self, i: usize) -> String {
		format!("k{i}")
	}
	fn member_plain(&self, i: usize) -> String {
		format!("r{i}")
	}

	/// `mirrored`: the plain spellings are the first namespace, the colliding ones the second
	fn set(&self, p: &Placement, mirrored: bool) -> MSet {
		let mut set = MSet::new(&NS[..2]);
		let two = |a: String, b: String| if mirrored { vec![Some(b), Some(a)] } else { vec![Some(a), Some(b)] };
		let plain_of: BTreeMap<&str, String> = self.classes.iter().enumerate().map(|(i, c)| (c.as_str(), self.class_plain(i))).collect();
		for (i, c) in self.classes.iter().enumerate() {
			let names = two(c.clone(), self.class_plain(i));
			set.classes.insert(names[0].clone().unwrap(), MClass { names, ..Default::default() });
		}
		let mut holder = MClass { names: two(HOLDER.to_owned(), format!("{HOLDER}_1")), ..Default::default() };
		let mut sup = MClass { names: two(SUPER.to_owned(), format!("{SUPER}_1")), ..Default::default() };
		for (mi, in_super) in &p.members {
			let m = &self.alpha[*mi];
			let names = two(m.name.clone(), self.member_plain(*mi));
			let desc0 = if mirrored { plain_desc(m, &plain_of) } else { m.desc.clone() };
			let key = (names[0].clone().unwrap(), desc0);
			let c = if *in_super { &mut sup } else { &mut holder };
			match m.kind {
				MKind::Field => {
					c.fields.insert(key, MField { names, doc: None });
				},
				MKind::Method => {
					c.methods.insert(key, MMethod { names, doc: None, params: BTreeMap::new() });
				},
			}
		}
		set.classes.insert(holder.names[0].clone().unwrap(), holder);
		set.classes.insert(sup.names[0].clone().unwrap(), sup);
		set
	}
}

/// the descriptor of `m` with every class name replaced by its plain spelling
fn plain_desc(m: &Mem, plain_of: &BTreeMap<&str, String>) -> String {
	let mut cm = CMap::default();
	for (k, v) in plain_of {
		cm.m.insert((*k).to_owned(), vec![v.clone()]);
	}
	cm.map_one(m.kind.tkind(), &m.desc).unwrap_or_else(|| vcore::machinery_fail("confuse: plain descriptor"))
}

fn placements(n: usize) -> Vec<Placement> {
	let mut v = Vec::new();
	for i in 0..n {
		for in_super in [false, true] {
			v.push(Placement { members: vec![(i, in_super)], order: Order::Sorted });
		}
	}
	for i in 0..n {
		for j in i + 1..n {
			v.push(Placement { members: vec![(i, false), (j, false)], order: Order::Sorted });
			v.push(Placement { members: vec![(i, false), (j, false)], order: Order::Reversed });
			v.push(Placement { members: vec![(i, false), (j, true)], order: Order::Sorted });
			v.push(Placement { members: vec![(i, true), (j, false)], order: Order::Sorted });
		}
	}
	v
}

fn run_placement(ctx: &Ctx, u: &Universe, p: &Placement) -> Stats {
	let mut st = Stats::new();
	let mut ta = Tally::default();
	let mut evals = 0u64;
	let reversed = p.order == Order::Reversed;
	for mirrored in [false, true] {
		let set = u.set(p, mirrored);
		let q: Mappings<2, ()> = mapmodel::to_quill_ordered(&set, p.order).unwrap_or_else(fail("confuse generator"));
		for from in 0..2 {
			let to = 1 - from;
			// the namespace in which the members are spelled so that they collide
			let colliding = if mirrored { 1 } else { 0 };
			let spell = |plain: String, coll: &str, j: usize| if j == colliding { coll.to_owned() } else { plain };
			let cname = |base: &str, j: usize| if j == colliding { base.to_owned() } else { format!("{base}_1") };
			let names: Vec<String> = vec![cname(HOLDER, from), cname(SUPER, from), SUB.to_owned()];
			let to_jar: Vec<String> = vec![cname(HOLDER, to), cname(SUPER, to), SUB.to_owned()];
			let sup: Vec<Option<Vec<usize>>> = vec![Some(vec![1]), Some(vec![]), Some(vec![0])];
			let fwd = CMap::build(&set, from, to);
			let bwd = CMap::build(&set, to, from);
			let engine = if reversed { "member-reversed" } else { "member" };
			let engine_rt = if reversed { "member-roundtrip-reversed" } else { "member-roundtrip" };
			let header = || format!("{}{}", case_header(engine, 2, from, to), case_mappings(&set));
			let prov = jar_prov(&names, &sup);
			let prov_b = jar_prov(&to_jar, &sup);
			let built = vcore::guard(|| -> anyhow::Result<_> {
				Ok((q.remapper_b(ns(from), ns(to), &prov)?, q.remapper_b(ns(from), ns(to), &prov)?, q.remapper_b(ns(to), ns(from), &prov_b)?))
			});
			let (rb, rb2, rbb) = match built {
				Ok(Ok(x)) => x,
				Ok(Err(e)) => {
					ctx.diff("build:refused", &format!("building the remappers failed: {e:#}"), header);
					continue;
				},
				Err(pn) => {
					ctx.diff(&format!("panic@{}", pn.file()), &format!("building the remappers panicked at {}: {}", pn.site, pn.msg), header);
					continue;
				},
			};
			let world = World::build(&set, from, to, &names);
			let world_b = World::build(&set, to, from, &to_jar);
			if world.ambiguous || world_b.ambiguous {
				vcore::machinery_fail("confuse generator produced an ambiguous world");
			}
			// the queries: for a single member every member of the alphabet, for a pair the two members
			let plain_from = CMap::build(&set, colliding, from);
			let qidx: Vec<usize> = if p.members.len() == 1 { (0..u.alpha.len()).collect() } else { p.members.iter().map(|(i, _)| *i).collect() };
			let queries: Vec<Query> = qidx.iter().map(|i| {
				let m = &u.alpha[*i];
				let d = plain_from.map_one(m.kind.tkind(), &m.desc).unwrap_or_else(|| vcore::machinery_fail("confuse: descriptor in from"));
				Query::new(m.kind, &spell(u.member_plain(*i), &m.name, from), &d, &fwd)
			}).collect();
			let typed: Vec<ObjClassName> = names.iter().map(|x| mapmodel::cls(x).unwrap_or_else(fail("class name"))).collect();
			let to_typed: Vec<ObjClassName> = to_jar.iter().map(|x| mapmodel::cls(x).unwrap_or_else(fail("class name"))).collect();
			let flat: Vec<(usize, usize)> = (0..names.len()).flat_map(|o| (0..queries.len()).map(move |k| (o, k))).collect();
			for pass in 0..2 {
				let r = if pass == 0 { &rb } else { &rb2 };
				let order: Box<dyn Iterator<Item = &(usize, usize)>> = if pass == 0 { Box::new(flat.iter()) } else { Box::new(flat.iter().rev()) };
				for &(owner, k) in order {
					let qu = &queries[k];
					let real = real_member(r, &typed[owner], qu, &mut evals);
					let case = CaseText { engine, n: 2, from, to, set: &set, names: &world.names, sup: &sup, owner: &names[owner], q: qu };
					// an answer that is wrong here but right on a remapper that was asked nothing before depends on the history
					if let Ok(Ok(_)) = &real {
						if !answer_accepted(&world, &sup, owner, qu, &real) {
							let fresh = vcore::guard(|| q.remapper_b(ns(from), ns(to), &prov)).ok().and_then(|r| r.ok()).map(|r2| real_member(&r2, &typed[owner], qu, &mut evals));
							if fresh.as_ref().is_some_and(|f| answer_accepted(&world, &sup, owner, qu, f)) {
								let asked: Vec<(usize, usize)> = if pass == 0 { flat.iter().copied().take_while(|x| *x != (owner, k)).collect() } else { flat.iter().rev().copied().take_while(|x| *x != (owner, k)).collect() };
								ctx.diff("member:answer-depends-on-earlier-queries", &format!("{} {:?} {:?} of {:?} is answered differently by a remapper that was asked {} other members before than by a fresh one ({})", qu.kind.label(), qu.name, qu.desc, names[owner], asked.len(), show_real(&real)), || {
									let mut t = case_header(if reversed { "member-sequence-reversed" } else { "member-sequence" }, 2, from, to);
									t.push_str(&super::member::render_supers(&world.names, &sup));
									for (i, (o, kk)) in asked.iter().enumerate() {
										t.push_str(&format!("ask{i:04}={}\t{}\t{}\t{}\n", names[*o], queries[*kk].kind.label(), queries[*kk].name, queries[*kk].desc));
									}
									t.push_str(&format!("owner={}\nkind={}\nname={}\ndesc={}\n{}", names[owner], qu.kind.label(), qu.name, qu.desc, case_mappings(&set)));
									t
								});
								continue;
							}
						}
					}
					let Some(a) = judge_member(ctx, &world, &sup, owner, qu, &real, &case) else { continue };
					let Ok(Ok(rm)) = &real else { continue };
					if pass == 1 {
						ta.add("confuse:asked-in-reverse-order-on-a-fresh-remapper");
						continue;
					}
					ta.add("confuse:judged");
					if from != 0 && mirrored {
						ta.add("confuse:colliding-spellings-in-a-source-namespace-other-than-the-first");
					}
					let qi = qidx[k];
					match a {
						Ans::Fallback => {
							ta.add("confuse:unnamed-member-kept-its-name");
							if from == colliding {
								for (mi, _) in &p.members {
									for rel in &u.rel[qi][*mi] {
										ta.add(*rel);
									}
								}
							}
						},
						Ans::Found { class, .. } => {
							ta.add(if class == owner { "confuse:found-in-owner" } else { "confuse:found-in-super" });
							st.distinct.add(&("confuse", &p.members, reversed, mirrored, from, owner, qi));
							if from == colliding && p.members.len() == 2 {
								let other = p.members.iter().map(|(i, _)| *i).find(|i| *i != qi).unwrap_or(qi);
								for rel in &u.rel[qi][other] {
									ta.add(*rel);
								}
								if !u.rel[qi][other].is_empty() && u.rel[qi][other][0].starts_with("confuse:rel:concatenation") {
									st.sample("confuse", || json!({"engine": "confuse", "from": from, "to": to, "namespaces_swapped": mirrored, "owner": names[owner], "declared_next_to": [u.alpha[other].name, u.alpha[other].desc], "member": [qu.name, qu.desc], "answer": [String::from_utf8_lossy(&rm.name), String::from_utf8_lossy(&rm.desc)]}));
								}
							}
						},
					}
					// X→Y→X
					let acc = world.accepted(&sup, owner, qu.kind, &qu.name, &qu.desc);
					if !acc.iter().all(|x| x.same_target(&acc[0])) {
						continue;
					}
					let qb = Query::new(qu.kind, &String::from_utf8_lossy(&rm.name), &String::from_utf8_lossy(&rm.desc), &bwd);
					let real_b = real_member(&rbb, &to_typed[owner], &qb, &mut evals);
					let case_r = CaseText { engine: engine_rt, ..case };
					judge_member_roundtrip(ctx, &mut ta, &world_b, &sup, owner, qu, &qb, &real_b, &case_r);
				}
			}
		}
	}
	st.evaluations += evals;
	ta.flush(&mut st);
	st
}

/// is the real answer one of those the reference accepts (and do `map_*` and `map_*_fail` agree)?
fn answer_accepted(world: &World, sup: &[Option<Vec<usize>>], owner: usize, qu: &Query, real: &RealM) -> bool {
	let Ok(Ok(r)) = real else { return false };
	let coherent = match &r.fail {
		Some((nm, d)) => *nm == r.name && *d == r.desc,
		None => r.name == qu.name.as_bytes(),
	};
	coherent && world.accepted(sup, owner, qu.kind, &qu.name, &qu.desc).iter().any(|a| world.matches(a, &qu.name, &qu.exp_desc, &r.name, &r.desc))
}

fn show_real(r: &RealM) -> String {
	match r {
		Ok(Ok(r)) => format!("fail={:?} name={:?} desc={:?}", r.fail.as_ref().map(|(a, b)| (String::from_utf8_lossy(a).into_owned(), String::from_utf8_lossy(b).into_owned())), String::from_utf8_lossy(&r.name), String::from_utf8_lossy(&r.desc)),
		Ok(Err(e)) => format!("Err({e})"),
		Err(p) => format!("panic at {}", p.site),
	}
}

/// replay of a sequence of queries on one remapper (key `member:answer-depends-on-earlier-queries`)
pub fn replay_case(ctx: &Ctx, head: &BTreeMap<String, String>, supers: &[String], set: &MSet, st: &mut Stats) -> String {
	let get = |k: &str| head.get(k).cloned().unwrap_or_else(|| vcore::machinery_fail(&format!("replay: no {k} line")));
	let num = |k: &str| -> usize { get(k).parse().unwrap_or_else(|_| vcore::machinery_fail("replay: bad number")) };
	let kind_of = |s: &str| match s {
		"field" => MKind::Field,
		"method" => MKind::Method,
		_ => vcore::machinery_fail("replay: bad kind"),
	};
	let (from, to) = (num("from"), num("to"));
	let owner_name = get("owner");
	let (names, mut sup) = super::member::parse_supers(supers, Some(&owner_name));
	let world = World::build(set, from, to, &names);
	sup.resize(world.names.len(), None);
	let owner = world.index_of(&owner_name).unwrap_or_else(|| vcore::machinery_fail("replay: owner"));
	let fwd = CMap::build(set, from, to);
	let order = if get("engine").ends_with("reversed") { Order::Reversed } else { Order::Sorted };
	let q: Mappings<2, ()> = mapmodel::to_quill_ordered(set, order).unwrap_or_else(fail("replay"));
	let prov = jar_prov(&world.names, &sup);
	let rb = q.remapper_b(ns(from), ns(to), &prov).unwrap_or_else(fail("replay: remapper_b"));
	let mut evals = 0u64;
	let mut asked = 0;
	for (k, v) in head {
		if !k.starts_with("ask") {
			continue;
		}
		let c: Vec<&str> = v.split('\t').collect();
		if c.len() != 4 {
			vcore::machinery_fail("replay: bad ask line");
		}
		let qa = Query::new(kind_of(c[1]), c[2], c[3], &fwd);
		let _ = real_member(&rb, &mapmodel::cls(c[0]).unwrap_or_else(fail("replay: owner of an ask line")), &qa, &mut evals);
		asked += 1;
	}
	let qu = Query::new(kind_of(&get("kind")), &get("name"), &get("desc"), &fwd);
	let typed = mapmodel::cls(&owner_name).unwrap_or_else(fail("replay: owner"));
	let real = real_member(&rb, &typed, &qu, &mut evals);
	let fresh_r = q.remapper_b(ns(from), ns(to), &prov).unwrap_or_else(fail("replay: remapper_b"));
	let fresh = real_member(&fresh_r, &typed, &qu, &mut evals);
	st.evaluations += evals;
	if !answer_accepted(&world, &sup, owner, &qu, &real) && answer_accepted(&world, &sup, owner, &qu, &fresh) {
		let body = {
			let mut t = case_header(&get("engine"), 2, from, to);
			t.push_str(&super::member::render_supers(&world.names, &sup));
			for (k, v) in head {
				if k.starts_with("ask") {
					t.push_str(&format!("{k}={v}\n"));
				}
			}
			t.push_str(&format!("owner={owner_name}\nkind={}\nname={}\ndesc={}\n{}", qu.kind.label(), qu.name, qu.desc, case_mappings(set)));
			t
		};
		ctx.diff("member:answer-depends-on-earlier-queries", &format!("{} {:?} {:?} of {owner_name:?} is answered differently by a remapper that was asked {asked} other members before than by a fresh one ({})", qu.kind.label(), qu.name, qu.desc, show_real(&real)), || body);
	}
	format!("after {asked} queries: {}; fresh: {}", show_real(&real), show_real(&fresh))
}

// ---------------------------------------------------------------------------------------------
// class names that coincide under a coarser key

pub const CLASS_NAMES: [&str; 16] = ["A", "a", "p/A", "q/A", "p/a", "P/A", "A$", "$A", "A$A", "AA", "A/A", "A$B", "A$b", "A/B", "A_", "p/q/A"];

fn class_pair_set(n1: &str, n2: &str, second: u8, mirrored: bool) -> MSet {
	let mut set = MSet::new(&NS[..2]);
	let two = |a: String, b: String| if mirrored { vec![Some(b), Some(a)] } else { vec![Some(a), Some(b)] };
	let mut add = |name: &str, plain: &str, tag: &str| {
		let names = two(name.to_owned(), plain.to_owned());
		let mut c = MClass { names: names.clone(), ..Default::default() };
		// a method without classes in its descriptor and a field of the type of the first class
		let mn = two("m".to_owned(), format!("m{tag}"));
		c.methods.insert((mn[0].clone().unwrap(), "()V".to_owned()), MMethod { names: mn, doc: None, params: BTreeMap::new() });
		let fnm = two("f".to_owned(), format!("f{tag}"));
		let d0 = if mirrored { "LZ1;".to_owned() } else { format!("L{n1};") };
		c.fields.insert((fnm[0].clone().unwrap(), d0), MField { names: fnm, doc: None });
		set.classes.insert(names[0].clone().unwrap(), c);
	};
	add(n1, "Z1", "1");
	match second {
		0 => {},
		_ => add(n2, "Z2", "2"),
	}
	set
}

fn run_class_pair(ctx: &Ctx, n1: &str, n2: &str, second: u8) -> Stats {
	let mut st = Stats::new();
	let mut ta = Tally::default();
	let mut evals = 0u64;
	for mirrored in [false, true] {
		let set = class_pair_set(n1, n2, second, mirrored);
		let q: Mappings<2, ()> = mapmodel::to_quill(&set).unwrap_or_else(fail("confuse class generator"));
		let colliding = if mirrored { 1 } else { 0 };
		for from in 0..2 {
			let to = 1 - from;
			let fwd = CMap::build(&set, from, to);
			let bwd = CMap::build(&set, to, from);
			let in_ns = |name: &str, plain: &str, j: usize, mapped: bool| if j == colliding || !mapped { name.to_owned() } else { plain.to_owned() };
			let names: Vec<String> = vec![in_ns(n1, "Z1", from, true), in_ns(n2, "Z2", from, second != 0)];
			let sup: Vec<Option<Vec<usize>>> = vec![None, None];
			let header = || format!("{}{}", case_header("member", 2, from, to), case_mappings(&set));
			let built = vcore::guard(|| -> anyhow::Result<_> {
				Ok((q.remapper_a(ns(from), ns(to))?, q.remapper_b(ns(from), ns(to), NoSuperClassProvider::new())?, q.remapper_a(ns(to), ns(from))?))
			});
			let (ra, rb, rback) = match built {
				Ok(Ok(x)) => x,
				Ok(Err(e)) => {
					ctx.diff("build:refused", &format!("building the remappers failed: {e:#}"), header);
					continue;
				},
				Err(pn) => {
					ctx.diff(&format!("panic@{}", pn.file()), &format!("building the remappers panicked at {}: {}", pn.site, pn.msg), header);
					continue;
				},
			};
			// class names and descriptors
			let (a, b) = (&names[0], &names[1]);
			let inputs: Vec<(TKind, String)> = vec![
				(TKind::ObjClass, a.clone()), (TKind::ObjClass, b.clone()), (TKind::Field, format!("L{a};")), (TKind::Field, format!("L{b};")),
				(TKind::ArrClass, format!("[L{a};")), (TKind::ArrClass, format!("[[L{b};")), (TKind::Method, format!("(L{a};L{b};)L{b};")), (TKind::Method, format!("(L{b};[L{a};)V")), (TKind::Return, format!("L{b};")),
			];
			for (kind, input) in &inputs {
				let text = |imp: &str| format!("{}impl={imp}\nkind={}\ninput={input}\n{}", case_header("desc", 2, from, to), kind.label(), case_mappings(&set));
				let real_a = real_map(&ra, *kind, input, &mut st);
				let ok_a = judge_desc(ctx, &mut st, "a", *kind, input, &real_a, &fwd, &|| text("a"));
				let real_b = real_map(&rb, *kind, input, &mut st);
				let ok_b = judge_desc(ctx, &mut st, "b", *kind, input, &real_b, &fwd, &|| text("b"));
				if ok_a && ok_b {
					ta.add("confuse:class-pair-desc-judged");
					if from == colliding {
						ta.add("confuse:class-pair-desc-judged-in-the-colliding-namespace");
					}
				}
				if let (true, Ok(Ok(o))) = (ok_a, &real_a) {
					let back = real_map(&rback, *kind, o, &mut st);
					judge_roundtrip(ctx, &mut ta, *kind, input, o, &back, &fwd, &bwd, &|| text("a"));
				}
			}
			// members of both classes
			let world = World::build(&set, from, to, &names);
			if world.ambiguous {
				vcore::machinery_fail("confuse class generator produced an ambiguous world");
			}
			let first_desc = format!("L{a};");
			let queries = [
				Query::new(MKind::Method, if from == colliding { "m" } else { "m1" }, "()V", &fwd),
				Query::new(MKind::Method, if from == colliding { "m" } else { "m2" }, "()V", &fwd),
				Query::new(MKind::Field, if from == colliding { "f" } else { "f1" }, &first_desc, &fwd),
				Query::new(MKind::Field, if from == colliding { "f" } else { "f2" }, &first_desc, &fwd),
			];
			for owner in 0..2 {
				let typed = mapmodel::cls(&names[owner]).unwrap_or_else(fail("class name"));
				for qu in &queries {
					let real = real_member(&rb, &typed, qu, &mut evals);
					let case = CaseText { engine: "member", n: 2, from, to, set: &set, names: &world.names, sup: &sup, owner: &names[owner], q: qu };
					if let Some(a) = judge_member(ctx, &world, &sup, owner, qu, &real, &case) {
						ta.add(if matches!(a, Ans::Found { .. }) { "confuse:class-pair-member-found" } else { "confuse:class-pair-member-unchanged" });
					}
				}
			}
		}
	}
	st.evaluations += evals;
	ta.flush(&mut st);
	st
}

// ---------------------------------------------------------------------------------------------

pub fn run(ctx: &'static Ctx) -> (Stats, Value) {
	let u = Universe::new();
	// self-check of the generator: the printed form of the largest kind of set reads back as the same set
	for mirrored in [false, true] {
		let set = u.set(&Placement { members: vec![(0, false), (u.alpha.len() - 1, true)], order: Order::Sorted }, mirrored);
		if mapmodel::tiny::parse(&mapmodel::tiny::print(&set)).ok().as_ref() != Some(&set) {
			vcore::machinery_fail("confuse: a generated set does not survive printing and reading (replays would differ)");
		}
	}
	let pl = placements(u.alpha.len());
	let t0 = ctx.elapsed_s();
	let st_members = pl.par_iter().enumerate().fold(Stats::new, |st, (i, p)| {
		let s = vcore::watched(|| format!("confuse placement {i}: {p:?}"), || run_placement(ctx, &u, p));
		st.merge(s)
	}).reduce(Stats::new, Stats::merge);
	let t1 = ctx.elapsed_s();
	let mut class_cases: Vec<(usize, usize, u8)> = Vec::new();
	for i in 0..CLASS_NAMES.len() {
		for j in 0..CLASS_NAMES.len() {
			if i != j {
				class_cases.push((i, j, 0));
				class_cases.push((i, j, 1));
			}
		}
	}
	let st_classes = class_cases.par_iter().fold(Stats::new, |st, (i, j, s)| {
		let r = vcore::watched(|| format!("confuse class pair {} {} {s}", CLASS_NAMES[*i], CLASS_NAMES[*j]), || run_class_pair(ctx, CLASS_NAMES[*i], CLASS_NAMES[*j], *s));
		st.merge(r)
	}).reduce(Stats::new, Stats::merge);
	let t2 = ctx.elapsed_s();
	let bounds = json!({
		"separators": SEPS,
		"members": u.alpha.iter().map(|m| format!("{}{}{}", m.name, if m.kind == MKind::Field { " : " } else { " " }, m.desc)).collect::<Vec<_>>(),
		"classes_in_descriptors": u.classes,
		"holder": HOLDER, "super_type_of_holder": SUPER, "subclass_absent_from_the_mappings": SUB,
		"placements": pl.len(),
		"placements_rule": "every member alone in H or in G (queries: the whole alphabet) + every unordered pair of members: both in H inserted sorted, both in H inserted reversed, first in H second in G, first in G second in H (queries: the two members)",
		"per_placement": "normal and namespace-swapped set × both directions × owners H, G, S × the queries in order on one remapper and in reverse order on a fresh one",
		"class_names": CLASS_NAMES, "class_pair_cases": class_cases.len(),
		"class_pair_rule": "every ordered pair of different names: the first mapped (declaring m()V and a field of its own type), the second absent from the mappings or mapped to another name declaring the same members under other names; normal and namespace-swapped × both directions",
		"evaluations_members": st_members.evaluations, "evaluations_classes": st_classes.evaluations,
		"wall_s_members": t1 - t0, "wall_s_classes": t2 - t1,
	});
	(st_members.merge(st_classes), bounds)
}
