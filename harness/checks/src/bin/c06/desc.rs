//! Engines "desc" and "malformed": class names and descriptors through the real ARemapper methods.

use std::collections::BTreeMap;
use java_string::JavaStr;
use duke::tree::class::{ClassNameSlice, ObjClassNameSlice};
use duke::tree::descriptor::ReturnDescriptorSlice;
use duke::tree::field::FieldDescriptorSlice;
use duke::tree::method::MethodDescriptorSlice;
use mapmodel::{MClass, MSet};
use quill::remapper::{ARemapper, NoSuperClassProvider};
use quill::tree::mappings::Mappings;
use quill::tree::names::Namespace;
use rayon::prelude::*;
use vcore::{json, Ctx, Panic, Stats, Value};
use super::gram::{names_of, parse_desc, position_label, roundtrip_safe, strip, CMap, TKind, Tok};
use super::{case_header, case_mappings, Tally, NS};

// ---------------------------------------------------------------------------------------------
// real calls

pub type Real = Result<Result<String, String>, Panic>;

fn show(s: &JavaStr) -> String {
	s.as_str_lossy().into_owned()
}

/// one real call; for plain class names the three variants are called and must agree with each other
pub fn real_map<R: ARemapper + ?Sized>(r: &R, kind: TKind, s: &str, st: &mut Stats) -> Real {
	st.eval();
	vcore::guard(|| -> Result<String, String> {
		let js = JavaStr::from_str(s);
		let e = |e: anyhow::Error| format!("{e:#}");
		match kind {
			TKind::Field => {
				let d: &FieldDescriptorSlice = js.try_into().map_err(e)?;
				r.map_field_desc(d).map(|x| show(x.as_inner())).map_err(e)
			},
			TKind::Method => {
				let d: &MethodDescriptorSlice = js.try_into().map_err(e)?;
				r.map_method_desc(d).map(|x| show(x.as_inner())).map_err(e)
			},
			TKind::Return => {
				let d: &ReturnDescriptorSlice = js.try_into().map_err(e)?;
				r.map_return_desc(d).map(|x| show(x.as_inner())).map_err(e)
			},
			TKind::ArrClass => {
				let d: &ClassNameSlice = js.try_into().map_err(e)?;
				r.map_class_any(d).map(|x| show(x.as_inner())).map_err(e)
			},
			TKind::ObjClass => {
				let d: &ObjClassNameSlice = js.try_into().map_err(e)?;
				let a = r.map_class(d).map_err(e)?;
				let f = r.map_class_fail(d).map_err(e)?;
				let any: &ClassNameSlice = js.try_into().map_err(e)?;
				let b = r.map_class_any(any).map_err(e)?;
				let a = show(a.as_inner());
				if show(b.as_inner()) != a {
					return Err(format!("VARIANTS map_class={a:?} map_class_any={:?}", show(b.as_inner())));
				}
				match f {
					Some(f) if show(f.as_inner()) != a => return Err(format!("VARIANTS map_class={a:?} map_class_fail={:?}", show(f.as_inner()))),
					None if a != s => return Err(format!("VARIANTS map_class={a:?} map_class_fail=None")),
					_ => {},
				}
				Ok(a)
			},
		}
	})
}

// ---------------------------------------------------------------------------------------------
// oracle

/// Judges one answer; returns true iff it is acceptable.
#[allow(clippy::too_many_arguments)]
pub fn judge_desc(ctx: &Ctx, st: &mut Stats, imp: &str, kind: TKind, input: &str, real: &Real, fwd: &CMap, replay: &dyn Fn() -> String) -> bool {
	let mut ta = Tally::default();
	let ok = judge_desc_tally(ctx, &mut ta, imp, kind, input, real, fwd, replay);
	ta.flush(st);
	ok
}

/// [`judge_desc`] with allocation-free counters (the malformed sweep judges tens of millions of answers)
#[allow(clippy::too_many_arguments)]
pub fn judge_desc_tally(ctx: &Ctx, st: &mut Tally, imp: &str, kind: TKind, input: &str, real: &Real, fwd: &CMap, replay: &dyn Fn() -> String) -> bool {
	let k = kind.label();
	let out = match real {
		Err(p) => {
			ctx.diff(&format!("panic@{}", p.file()), &format!("{imp}: mapping {k} {input:?} panicked at {}: {}", p.site, p.msg), replay);
			return false;
		},
		Ok(r) => r,
	};
	let Some(toks) = parse_desc(kind, input) else {
		// outside the grammar: Err or a shape-preserving answer
		return match out {
			Err(_) => {
				st.add("malformed:refused");
				true
			},
			Ok(o) if strip(o) == strip(input) => {
				st.add("malformed:shape-preserved");
				true
			},
			Ok(o) => {
				ctx.diff(&format!("desc:{k}:malformed-shape-changed"), &format!("{imp}: {k} {input:?} (not derived by the grammar) was answered {o:?}, which has another shape"), replay);
				false
			},
		};
	};
	let o = match out {
		Err(e) if e.starts_with("VARIANTS") => {
			ctx.diff("class:variants-disagree", &format!("{imp}: map_class / map_class_fail / map_class_any disagree on {input:?}: {e}"), replay);
			return false;
		},
		Err(e) => {
			ctx.diff(&format!("desc:{k}:valid-input-refused"), &format!("{imp}: {k} {input:?} is derived by the grammar but was refused: {e}"), replay);
			return false;
		},
		Ok(o) => o,
	};
	let got = parse_desc(kind, o);
	let same_shape = got.as_ref().is_some_and(|g| g.len() == toks.len() && g.iter().zip(&toks).all(|(a, b)| matches!((a, b), (Tok::Name(_), Tok::Name(_))) || a == b));
	if !same_shape {
		ctx.diff(&format!("desc:{k}:shape-changed"), &format!("{imp}: {k} {input:?} was answered {o:?}: not the same descriptor shape"), replay);
		return false;
	}
	let got = got.unwrap();
	for (i, (a, b)) in got.iter().zip(&toks).enumerate() {
		if let (Tok::Name(g), Tok::Name(n)) = (a, b) {
			if !fwd.accepts(n, g) {
				let pos = position_label(kind, &toks, i);
				let what = if g == n { "name-not-remapped" } else if fwd.cands(n).len() == 1 && fwd.cands(n)[0] == *n { "unmapped-name-changed" } else { "wrong-name" };
				ctx.diff(&format!("desc:{pos}:{what}"), &format!("{imp}: {k} {input:?} was answered {o:?}: class name {n:?} must become {:?}, got {g:?}", fwd.cands(n)), replay);
				return false;
			}
		}
	}
	true
}

/// X→Y→X: `back` is the answer of the opposite remapper on the forward answer
#[allow(clippy::too_many_arguments)]
pub fn judge_roundtrip(ctx: &Ctx, st: &mut Tally, kind: TKind, input: &str, fwd_out: &str, back: &Real, fwd: &CMap, bwd: &CMap, replay: &dyn Fn() -> String) {
	let Some(toks) = parse_desc(kind, input) else { return };
	let names = names_of(&toks);
	let safe: Vec<bool> = names.iter().map(|n| roundtrip_safe(fwd, bwd, n)).collect();
	let all_safe = safe.iter().all(|s| *s);
	if all_safe {
		st.add("roundtrip:desc:identity-required");
	} else {
		st.add("roundtrip:desc:not-injective");
	}
	let k = kind.label();
	match back {
		Err(p) => ctx.diff(&format!("panic@{}", p.file()), &format!("round trip: mapping {k} {fwd_out:?} back panicked at {}: {}", p.site, p.msg), replay),
		Ok(Err(e)) => ctx.diff("roundtrip:desc:refused", &format!("round trip: {k} {input:?} → {fwd_out:?} was refused on the way back: {e}"), replay),
		Ok(Ok(b)) => {
			if all_safe {
				if b != input {
					ctx.diff("roundtrip:desc:not-identity", &format!("round trip: {k} {input:?} → {fwd_out:?} → {b:?}, every class name in it is named injectively"), replay);
				}
				return;
			}
			let ok = parse_desc(kind, b).is_some_and(|g| {
				let gn = names_of(&g);
				let same_shape = g.len() == toks.len() && g.iter().zip(&toks).all(|(a, b)| matches!((a, b), (Tok::Name(_), Tok::Name(_))) || a == b);
				same_shape && gn.len() == names.len() && gn.iter().zip(&names).zip(&safe).all(|((g, n), s)| !*s || g == n)
			});
			if !ok {
				ctx.diff("roundtrip:desc:not-identity", &format!("round trip: {k} {input:?} → {fwd_out:?} → {b:?}, an injectively named class name did not come back"), replay);
			}
		},
	}
}

// ---------------------------------------------------------------------------------------------
// mapping sets over the class slots

pub const SLOTS: [&str; 7] = ["A", "L", "LA", "A$B", "é", "p/A", "x"];
/// renamed names per slot in namespaces 1 and 2
pub const DIFF: [[&str; 2]; 7] = [["LX", "a2"], ["M", "L2"], ["AL", "LA2"], ["X$Y", "A2$B"], ["ü", "é2"], ["q/r/A", "A3"], ["y", "xx"]];
pub const UNMAPPED: &str = "B";

#[derive(Clone, Copy, PartialEq, Eq, Debug)]
pub enum Cel {
	/// no name in this namespace
	Absent,
	/// a different name
	Diff,
	/// the same name as in the first namespace
	Same,
	/// (slot `x`, namespace 1 only) the name slot `A` gets when renamed: the set does not name injectively
	Coll,
}

fn slot_name(slot: usize, j: usize, c: Cel) -> Option<String> {
	match c {
		Cel::Absent => None,
		Cel::Diff => Some(DIFF[slot][j - 1].to_owned()),
		Cel::Same => Some(SLOTS[slot].to_owned()),
		Cel::Coll => Some(DIFF[0][j - 1].to_owned()),
	}
}

/// the states of one slot: `None` = no row at all, else one cell per namespace 1..n
pub fn slot_states(slot: usize, n: usize) -> Vec<Option<Vec<Cel>>> {
	let mut rows: Vec<Vec<Cel>> = vec![vec![]];
	for j in 1..n {
		let mut opts = vec![Cel::Absent, Cel::Diff, Cel::Same];
		if slot == 6 && j == 1 {
			opts.push(Cel::Coll);
		}
		let mut next = Vec::new();
		for r in &rows {
			for o in &opts {
				let mut r2 = r.clone();
				r2.push(*o);
				next.push(r2);
			}
		}
		rows = next;
	}
	let mut v = vec![None];
	v.extend(rows.into_iter().map(Some));
	v
}

pub fn slot_set(n: usize, states: &[Option<Vec<Cel>>]) -> MSet {
	let mut set = MSet::new(&NS[..n]);
	for (slot, s) in states.iter().enumerate() {
		if let Some(cells) = s {
			let mut names = vec![Some(SLOTS[slot].to_owned())];
			for (k, c) in cells.iter().enumerate() {
				names.push(slot_name(slot, k + 1, *c));
			}
			set.classes.insert(SLOTS[slot].to_owned(), MClass { names, ..Default::default() });
		}
	}
	set
}

// ---------------------------------------------------------------------------------------------
// descriptor templates

#[derive(Clone, Copy, Debug)]
pub enum Base {
	Prim(char),
	Slot(usize),
	Unmapped,
}

#[derive(Clone, Copy, Debug)]
pub struct Atom {
	dims: u8,
	base: Base,
}

/// I J LA; LB; [LA; [[I LL; LLA; LA$B; Lé; Lp/A; Lx; [[LA;
pub const ATOMS: [Atom; 13] = [
	Atom { dims: 0, base: Base::Prim('I') },
	Atom { dims: 0, base: Base::Prim('J') },
	Atom { dims: 0, base: Base::Slot(0) },
	Atom { dims: 0, base: Base::Unmapped },
	Atom { dims: 1, base: Base::Slot(0) },
	Atom { dims: 2, base: Base::Prim('I') },
	Atom { dims: 0, base: Base::Slot(1) },
	Atom { dims: 0, base: Base::Slot(2) },
	Atom { dims: 0, base: Base::Slot(3) },
	Atom { dims: 0, base: Base::Slot(4) },
	Atom { dims: 0, base: Base::Slot(5) },
	Atom { dims: 0, base: Base::Slot(6) },
	Atom { dims: 2, base: Base::Slot(0) },
];

#[derive(Clone, Debug)]
pub enum Tmpl {
	Field(Atom),
	Ret(Option<Atom>),
	Method(Vec<Atom>, Option<Atom>),
	Arr(Atom),
	Obj(Base),
}

fn push_atom(out: &mut String, a: &Atom, names: &[String]) {
	for _ in 0..a.dims {
		out.push('[');
	}
	match a.base {
		Base::Prim(c) => out.push(c),
		Base::Slot(i) => {
			out.push('L');
			out.push_str(&names[i]);
			out.push(';');
		},
		Base::Unmapped => {
			out.push('L');
			out.push_str(UNMAPPED);
			out.push(';');
		},
	}
}

impl Tmpl {
	/// number of field-type components (a `V` return counts as none)
	pub fn comps(&self) -> usize {
		match self {
			Tmpl::Method(p, r) => p.len() + r.is_some() as usize,
			_ => 1,
		}
	}
	pub fn render(&self, names: &[String]) -> (TKind, String) {
		let mut s = String::new();
		match self {
			Tmpl::Field(a) => {
				push_atom(&mut s, a, names);
				(TKind::Field, s)
			},
			Tmpl::Ret(a) => {
				match a {
					Some(a) => push_atom(&mut s, a, names),
					None => s.push('V'),
				}
				(TKind::Return, s)
			},
			Tmpl::Method(p, r) => {
				s.push('(');
				for a in p {
					push_atom(&mut s, a, names);
				}
				s.push(')');
				match r {
					Some(a) => push_atom(&mut s, a, names),
					None => s.push('V'),
				}
				(TKind::Method, s)
			},
			Tmpl::Arr(a) => {
				push_atom(&mut s, a, names);
				(TKind::ArrClass, s)
			},
			Tmpl::Obj(b) => (TKind::ObjClass, match b {
				Base::Slot(i) => names[*i].clone(),
				_ => UNMAPPED.to_owned(),
			}),
		}
	}
}

/// every template with at most `max` components, simplest first
pub fn templates(max: usize) -> Vec<Tmpl> {
	let mut v = Vec::new();
	for i in 0..SLOTS.len() {
		v.push(Tmpl::Obj(Base::Slot(i)));
	}
	v.push(Tmpl::Obj(Base::Unmapped));
	for a in ATOMS {
		v.push(Tmpl::Field(a));
	}
	v.push(Tmpl::Ret(None));
	for a in ATOMS {
		v.push(Tmpl::Ret(Some(a)));
	}
	for a in ATOMS.iter().filter(|a| a.dims > 0) {
		v.push(Tmpl::Arr(*a));
	}
	for total in 0..=max {
		// parameters only (return V), then parameters + a return type
		for with_ret in [false, true] {
			let params = if with_ret { if total == 0 { continue } else { total - 1 } } else { total };
			let count = ATOMS.len().pow(params as u32);
			for idx in 0..count {
				let mut p = Vec::with_capacity(params);
				let mut x = idx;
				for _ in 0..params {
					p.push(ATOMS[x % ATOMS.len()]);
					x /= ATOMS.len();
				}
				p.reverse();
				if with_ret {
					for r in ATOMS {
						v.push(Tmpl::Method(p.clone(), Some(r)));
					}
				} else {
					v.push(Tmpl::Method(p, None));
				}
			}
		}
	}
	v
}

// ---------------------------------------------------------------------------------------------
// the sweep

#[derive(Clone, Debug)]
struct Job {
	n: usize,
	states: Vec<Option<Vec<Cel>>>,
	dirs: Vec<(usize, usize)>,
	max_comp: usize,
	/// also render the class slots with their first-namespace names when `from` is another namespace
	key_rendering: bool,
}

fn all_dirs(n: usize) -> Vec<(usize, usize)> {
	(0..n).flat_map(|f| (0..n).map(move |t| (f, t))).collect()
}

fn jobs(ctx: &Ctx) -> (Vec<Job>, Value) {
	let mut out = Vec::new();
	let quick = ctx.quick();
	// (a) the whole two-namespace space
	let st2: Vec<Vec<Option<Vec<Cel>>>> = (0..SLOTS.len()).map(|s| slot_states(s, 2)).collect();
	let dims2: Vec<usize> = st2.iter().map(|v| v.len()).collect();
	let total2 = vcore::enumerate::Product::size(&dims2);
	for idx in 0..total2 {
		let pick = vcore::enumerate::product_nth(&dims2, idx);
		let states: Vec<_> = pick.iter().enumerate().map(|(s, k)| st2[s][*k].clone()).collect();
		out.push(Job { n: 2, states, dirs: if quick { vec![(0, 1), (1, 0)] } else { all_dirs(2) }, max_comp: if quick { 2 } else { 3 }, key_rendering: false });
	}
	// (b) three namespaces: slots A, p/A and x in every state, the others renamed everywhere / absent
	let st3: Vec<Vec<Option<Vec<Cel>>>> = (0..SLOTS.len()).map(|s| slot_states(s, 3)).collect();
	let vary = [0usize, 5, 6];
	let dims3: Vec<usize> = vary.iter().map(|s| st3[*s].len()).collect();
	let total3 = vcore::enumerate::Product::size(&dims3);
	let rest_variants: Vec<Option<Vec<Cel>>> = if quick { vec![Some(vec![Cel::Diff, Cel::Diff])] } else { vec![Some(vec![Cel::Diff, Cel::Diff]), None, Some(vec![Cel::Absent, Cel::Diff])] };
	for rest in &rest_variants {
		for idx in 0..total3 {
			let pick = vcore::enumerate::product_nth(&dims3, idx);
			let mut states: Vec<Option<Vec<Cel>>> = vec![rest.clone(); SLOTS.len()];
			for (k, s) in vary.iter().enumerate() {
				states[*s] = st3[*s][pick[k]].clone();
			}
			out.push(Job { n: 3, states, dirs: if quick { vec![(1, 2), (2, 1), (0, 2), (2, 0)] } else { all_dirs(3) }, max_comp: 2, key_rendering: false });
		}
	}
	// (c) covering sets with every descriptor of three components and both renderings
	let mut covering = 0;
	for (n, st) in [(2usize, &st2), (3usize, &st3)] {
		let max_states = st.iter().map(|v| v.len()).max().unwrap();
		for r in 0..max_states {
			// rotation: slot i in state (i + r); uniform: every slot in state r
			for uniform in [false, true] {
				let states: Vec<_> = (0..SLOTS.len()).map(|i| st[i][(if uniform { r } else { i + r }) % st[i].len()].clone()).collect();
				out.push(Job { n, states, dirs: all_dirs(n), max_comp: 3, key_rendering: true });
				covering += 1;
			}
		}
	}
	let bounds = json!({
		"class_slots": SLOTS, "never_mapped": UNMAPPED, "renamed_names": DIFF,
		"cell_states": ["absent", "renamed", "same as first namespace", "collides with slot A (slot x, namespace 1)"],
		"atoms": ["I", "J", "LA;", "LB;", "[LA;", "[[I", "LL;", "LLA;", "LA$B;", "Lé;", "Lp/A;", "Lx;", "[[LA;"],
		"two_namespace_sets": total2, "two_namespace_dirs": if quick { json!([[0, 1], [1, 0]]) } else { json!(all_dirs(2)) },
		"two_namespace_max_components": if quick { 2 } else { 3 },
		"three_namespace_sets": total3 * rest_variants.len() as u64, "three_namespace_max_components": 2,
		"covering_sets_with_three_components_all_dirs": covering,
		"templates_le2": templates(2).len(), "templates_le3": templates(3).len(),
	});
	(out, bounds)
}

fn ns<const N: usize>(i: usize) -> Namespace<N> {
	Namespace::new(i).unwrap_or_else(|e| vcore::machinery_fail(&format!("namespace {i}: {e}")))
}

fn run_job<const N: usize>(ctx: &Ctx, job: &Job, t2: &[Tmpl], t3: &[Tmpl]) -> Stats {
	let mut st = Stats::new();
	let mut ta = Tally::default();
	let set = slot_set(job.n, &job.states);
	let q: Mappings<N, ()> = mapmodel::to_quill(&set).unwrap_or_else(|e| vcore::machinery_fail(&format!("generator: {e:#}")));
	let tmpls = if job.max_comp >= 3 { t3 } else { t2 };
	for &(from, to) in &job.dirs {
		let header = || format!("{}{}", case_header("desc", job.n, from, to), case_mappings(&set));
		let built = vcore::guard(|| -> anyhow::Result<_> { Ok((q.remapper_a(ns(from), ns(to))?, q.remapper_b(ns(from), ns(to), NoSuperClassProvider::new())?, q.remapper_a(ns(to), ns(from))?)) });
		let (ra, rb, rback) = match built {
			Ok(Ok(x)) => x,
			Ok(Err(e)) => {
				ctx.diff("build:refused", &format!("building the remappers failed: {e:#}"), header);
				continue;
			},
			Err(p) => {
				ctx.diff(&format!("panic@{}", p.file()), &format!("building the remappers panicked at {}: {}", p.site, p.msg), header);
				continue;
			},
		};
		let fwd = CMap::build(&set, from, to);
		let bwd = CMap::build(&set, to, from);
		let mut renderings: Vec<Vec<String>> = vec![(0..SLOTS.len()).map(|i| set.classes.get(SLOTS[i]).and_then(|c| c.names[from].clone()).unwrap_or_else(|| SLOTS[i].to_owned())).collect()];
		if job.key_rendering && from != 0 {
			renderings.push(SLOTS.iter().map(|s| s.to_string()).collect());
		}
		for names in &renderings {
			for t in tmpls {
				let (kind, input) = t.render(names);
				let case = |imp: &str| format!("{}impl={imp}\nkind={}\ninput={input}\n{}", case_header("desc", job.n, from, to), kind.label(), case_mappings(&set));
				let exp = fwd.map_all(kind, &input);
				let mut fwd_out = None;
				for (imp, real) in [("a", real_map(&ra, kind, &input, &mut st)), ("b", real_map(&rb, kind, &input, &mut st))] {
					let fast = matches!((&exp, &real), (Some(e), Ok(Ok(o))) if e.iter().any(|x| x == o));
					if fast || judge_desc(ctx, &mut st, imp, kind, &input, &real, &fwd, &|| case(imp)) {
						if imp == "a" {
							fwd_out = real.ok().and_then(|r| r.ok());
						}
					}
				}
				let Some(o) = fwd_out else { continue };
				// counters
				if kind == TKind::ObjClass {
					if o != input {
						ta.add("class:changed");
						st.distinct.add(&(kind, &input));
					} else {
						ta.add("class:unchanged");
					}
				} else {
					let changed = parse_desc(kind, &input).zip(parse_desc(kind, &o)).map(|(a, b)| a.iter().zip(&b).filter(|(x, y)| x != y).count()).unwrap_or(0);
					match changed {
						0 => ta.add("desc:no-name-changed"),
						1 => ta.add("desc:one-name-changed"),
						_ => ta.add("desc:two-or-more-names-changed"),
					}
					if changed > 0 {
						st.distinct.add(&(kind, &input));
					}
				}
				if from != 0 {
					ta.add("desc:from-not-first");
				}
				// X→Y→X
				let back = real_map(&rback, kind, &o, &mut st);
				judge_roundtrip(ctx, &mut ta, kind, &input, &o, &back, &fwd, &bwd, &|| format!("{}impl=a\nkind={}\ninput={input}\n{}", case_header("desc-roundtrip", job.n, from, to), kind.label(), case_mappings(&set)));
				if t.comps() == 3 && o != input {
					st.sample("desc", || json!({"engine": "desc", "namespaces": job.n, "from": from, "to": to, "kind": kind.label(), "input": input, "answer": o, "mappings": mapmodel::tiny::print(&set)}));
				}
			}
		}
	}
	ta.flush(&mut st);
	st
}

pub fn run(ctx: &'static Ctx) -> (Stats, Value) {
	let (jobs, bounds) = jobs(ctx);
	let t2 = templates(2);
	let t3 = templates(3);
	let st = jobs.par_iter().enumerate().fold(Stats::new, |st, (i, job)| {
		let s = vcore::watched(|| format!("desc job {i}: n={} states={:?}", job.n, job.states), || with_n!(job.n, run_job, ctx, job, &t2, &t3));
		st.merge(s)
	}).reduce(Stats::new, Stats::merge);
	(st, bounds)
}

// ---------------------------------------------------------------------------------------------
// malformed sweep

pub const MAL_ALPHABET: [char; 10] = ['L', 'A', ';', '[', 'I', '(', ')', 'V', '/', 'é'];
/// every string of length ≤ this over [`MAL_ALPHABET`]
pub fn mal_len(ctx: &Ctx) -> usize {
	ctx.tier.pick(5, 6)
}
/// … and every string of exactly these lengths over the characters that open, close and nest class names
pub const MAL_NEST_ALPHABET: [char; 7] = ['L', 'A', ';', '[', '(', ')', 'é'];
pub fn mal_nest_lens(ctx: &Ctx) -> Vec<usize> {
	ctx.tier.pick(vec![6], vec![7, 8])
}

fn malformed_sets() -> Vec<MSet> {
	let mk = |rows: &[(&str, &str)]| {
		let mut s = MSet::new(&NS[..2]);
		for (a, b) in rows {
			s.classes.insert(a.to_string(), MClass { names: vec![Some(a.to_string()), Some(b.to_string())], ..Default::default() });
		}
		s
	};
	vec![mk(&[("A", "LX"), ("A/A", "A"), ("AA", "I"), ("AI", "x"), ("é", "A"), ("Aé", "éé")]), mk(&[]), mk(&[("I", "L"), ("V", "A/A"), ("A", "é"), ("LA", "A"), ("éA", "I")])]
}

/// the `idx`-th string of the malformed sweep: first the strings of length ≤ `mal_len`, then the nested ones
fn mal_string(max_len: usize, first: u64, nest_lens: &[usize], idx: u64) -> String {
	if idx < first {
		return vcore::enumerate::string_nth(&MAL_ALPHABET, max_len, idx).into_iter().collect();
	}
	let mut rest = idx - first;
	for &l in nest_lens {
		let count = (MAL_NEST_ALPHABET.len() as u64).pow(l as u32);
		if rest < count {
			return vcore::enumerate::product_nth(&vec![MAL_NEST_ALPHABET.len(); l], rest).into_iter().map(|i| MAL_NEST_ALPHABET[i]).collect();
		}
		rest -= count;
	}
	vcore::machinery_fail("malformed sweep: index out of range")
}

pub fn run_malformed(ctx: &'static Ctx) -> Stats {
	let sets = malformed_sets();
	let max_len = mal_len(ctx);
	let nest_lens = mal_nest_lens(ctx);
	let first = vcore::enumerate::strings_count(MAL_ALPHABET.len(), max_len);
	let total = first + nest_lens.iter().map(|l| (MAL_NEST_ALPHABET.len() as u64).pow(*l as u32)).sum::<u64>();
	let chunk = 512u64;
	let chunks = total.div_ceil(chunk);
	(0..chunks * sets.len() as u64).into_par_iter().fold(Stats::new, |mut st, job| {
		let set = &sets[(job / chunks) as usize];
		let c = job % chunks;
		vcore::watched(|| format!("malformed chunk {c} of set {}", job / chunks), || {
			let mut ta = Tally::default();
			let q: Mappings<2, ()> = mapmodel::to_quill(set).unwrap_or_else(|e| vcore::machinery_fail(&format!("generator: {e:#}")));
			let ra = q.remapper_a(ns(0), ns(1)).unwrap_or_else(|e| vcore::machinery_fail(&format!("{e:#}")));
			let rb = q.remapper_b(ns(0), ns(1), NoSuperClassProvider::new()).unwrap_or_else(|e| vcore::machinery_fail(&format!("{e:#}")));
			let fwd = CMap::build(set, 0, 1);
			for idx in c * chunk..((c + 1) * chunk).min(total) {
				let s = mal_string(max_len, first, &nest_lens, idx);
				let non_ascii = !s.is_ascii();
				for kind in [TKind::Field, TKind::Method, TKind::Return, TKind::ArrClass] {
					if kind == TKind::ArrClass && !s.starts_with('[') {
						continue;
					}
					let grammatical = parse_desc(kind, &s).is_some();
					if grammatical {
						ta.add("malformed-sweep:grammatical");
					}
					for (imp, real) in [("a", real_map(&ra, kind, &s, &mut st)), ("b", real_map(&rb, kind, &s, &mut st))] {
						let ok = judge_desc_tally(ctx, &mut ta, imp, kind, &s, &real, &fwd, &|| format!("{}impl={imp}\nkind={}\ninput={s}\n{}", case_header("desc", 2, 0, 1), kind.label(), case_mappings(set)));
						if ok && non_ascii && !grammatical {
							ta.add("malformed:non-ascii-judged");
						}
						if imp == "a" && !grammatical {
							if let Ok(r) = &real {
								let tag = if r.is_ok() { "malformed-ok" } else { "malformed-err" };
								st.sample(tag, || json!({"engine": "malformed", "kind": kind.label(), "input": s, "answer": format!("{r:?}")}));
							}
						}
					}
				}
			}
			ta.flush(&mut st);
		});
		st
	}).reduce(Stats::new, Stats::merge)
}

// ---------------------------------------------------------------------------------------------
// replay

pub fn replay_case(ctx: &Ctx, head: &BTreeMap<String, String>, set: &MSet, st: &mut Stats) -> String {
	let n: usize = set.n();
	with_n!(n, replay_n, ctx, head, set, st)
}

fn replay_n<const N: usize>(ctx: &Ctx, head: &BTreeMap<String, String>, set: &MSet, st: &mut Stats) -> String {
	let get = |k: &str| head.get(k).cloned().unwrap_or_else(|| vcore::machinery_fail(&format!("replay: no {k} line")));
	let num = |k: &str| -> usize { get(k).parse().unwrap_or_else(|_| vcore::machinery_fail("replay: bad number")) };
	let (from, to) = (num("from"), num("to"));
	let kind = TKind::from_label(&get("kind")).unwrap_or_else(|| vcore::machinery_fail("replay: bad kind"));
	let input = get("input");
	let imp = get("impl");
	let q: Mappings<N, ()> = mapmodel::to_quill(set).unwrap_or_else(|e| vcore::machinery_fail(&format!("replay: {e:#}")));
	let fwd = CMap::build(set, from, to);
	let bwd = CMap::build(set, to, from);
	let text = || format!("{}impl={imp}\nkind={}\ninput={input}\n{}", case_header(&get("engine"), N, from, to), kind.label(), case_mappings(set));
	let real = if imp == "b" {
		let rb = q.remapper_b(ns(from), ns(to), NoSuperClassProvider::new()).unwrap_or_else(|e| vcore::machinery_fail(&format!("{e:#}")));
		real_map(&rb, kind, &input, st)
	} else {
		let ra = q.remapper_a(ns(from), ns(to)).unwrap_or_else(|e| vcore::machinery_fail(&format!("{e:#}")));
		real_map(&ra, kind, &input, st)
	};
	println!("reference: {:?}", fwd.map_all(kind, &input));
	let ok = judge_desc(ctx, st, &imp, kind, &input, &real, &fwd, &text);
	let mut obs = format!("{real:?}");
	if ok {
		if let Ok(Ok(o)) = &real {
			if parse_desc(kind, &input).is_some() {
				let rback = q.remapper_a(ns(to), ns(from)).unwrap_or_else(|e| vcore::machinery_fail(&format!("{e:#}")));
				let back = real_map(&rback, kind, o, st);
				let mut ta = Tally::default();
				judge_roundtrip(ctx, &mut ta, kind, &input, o, &back, &fwd, &bwd, &text);
				obs.push_str(&format!(" back={back:?}"));
			}
		}
	}
	obs
}
