//! Engine "env": the environment of a `BRemapper` — the `SuperClassProvider` it asks for super types.
//!
//! * **jars** — the provider the maintainers use is a `Vec<JarSuperProv>`, one per jar, searched in order.
//!   Every acyclic super-type graph on four classes (ordered lists of ≤ 2) × every distribution of the four
//!   classes over two and over three jars (each class known to exactly one jar; jars may stay empty, also the
//!   first one) × ten mapping sets (the member declared by one class, or by two classes under different
//!   names) × every owner, through the real `impl SuperClassProvider for Vec<S>`; oracle: the reference
//!   lookup of `world.rs` on the graph (where a class lives must not matter).
//! * **failing** — the same graphs with a provider that answers `Err` for one of the four classes: the
//!   statement is silent about provider failures, so an `Err` is accepted; an `Ok` answer must be one the
//!   reference gives for the graph as it is or for the graph in which the failing class is unknown to the
//!   provider; never a panic.
//! * **remap** — `JarSuperProv::remap`, which carries a provider into the target namespace for the way back:
//!   every graph × nine class-row configurations × one and two jars × `remapper_a` and `remapper_b` × both
//!   directions; the renamed provider must know the renamed classes with the renamed super types in the
//!   same order.

use std::cell::{Cell, RefCell};
use std::collections::BTreeMap;
use anyhow::{anyhow, Result};
use indexmap::IndexSet;
use duke::tree::class::{ObjClassName, ObjClassNameSlice};
use mapmodel::{MClass, MField, MMethod, MSet};
use quill::remapper::{ARemapper, JarSuperProv, SuperClassProvider};
use quill::tree::mappings::Mappings;
use quill::tree::names::Namespace;
use rayon::prelude::*;
use vcore::{json, Ctx, Stats, Value};
use super::gram::CMap;
use super::member::{jar_prov, judge_member, parse_supers, real_member, render_supers, CaseText, DagSet, Query, SwitchProv, KEYS, MEMBERS};
use super::world::{Ans, World};
use super::{case_header, case_mappings, Tally, NS};

fn ns(i: usize) -> Namespace<2> {
	Namespace::new(i).unwrap_or_else(|e| vcore::machinery_fail(&format!("namespace {i}: {e}")))
}

fn fail<T>(what: &str) -> impl FnOnce(anyhow::Error) -> T + '_ {
	move |e| vcore::machinery_fail(&format!("{what}: {e:#}"))
}

// ---------------------------------------------------------------------------------------------
// mapping sets: four renamed classes, the member declared by the classes of `decl`

/// (index into MEMBERS, declaring classes)
fn configs() -> Vec<(usize, Vec<usize>)> {
	let mut v = Vec::new();
	for k in 0..4 {
		v.push((1, vec![k]));
	}
	for k in 0..4 {
		for l in k + 1..4 {
			v.push((3, vec![k, l]));
		}
	}
	v
}

/// `rows[k]`: 0 = absent from the mappings, 1 = renamed, 2 = the same name in both namespaces
fn env_set(member: usize, decl: &[usize], rows: [u8; 4]) -> MSet {
	let spec = &MEMBERS[member];
	let mut set = MSet::new(&NS[..2]);
	for k in 0..4 {
		if rows[k] == 0 {
			continue;
		}
		let other = if rows[k] == 1 { format!("{}1", KEYS[k]) } else { KEYS[k].to_owned() };
		let mut c = MClass { names: vec![Some(KEYS[k].to_owned()), Some(other)], ..Default::default() };
		if decl.contains(&k) {
			let names = vec![Some(spec.nm.to_owned()), Some(format!("{}{}1", spec.nm, KEYS[k]))];
			let key = (spec.nm.to_owned(), spec.desc0.to_owned());
			match spec.kind {
				super::world::MKind::Field => {
					c.fields.insert(key, MField { names, doc: None });
				},
				super::world::MKind::Method => {
					c.methods.insert(key, MMethod { names, doc: None, params: BTreeMap::new() });
				},
			}
		}
		set.classes.insert(KEYS[k].to_owned(), c);
	}
	set
}

// ---------------------------------------------------------------------------------------------
// providers

/// the knowledge of all jars; which jar knows which class and which super list is switched between cases
struct Jars {
	names: Vec<ObjClassName>,
	sets: Vec<Vec<IndexSet<ObjClassName>>>,
	sel: Cell<[u8; 4]>,
	jar_of: Cell<[u8; 4]>,
}

struct JarView<'a> {
	all: &'a Jars,
	idx: u8,
}

impl SuperClassProvider for JarView<'_> {
	fn get_super_classes(&self, class: &ObjClassNameSlice) -> Result<Option<&IndexSet<ObjClassName>>> {
		for (i, n) in self.all.names.iter().enumerate() {
			if n.as_slice() == class {
				if self.all.jar_of.get()[i] != self.idx {
					return Ok(None);
				}
				return Ok(Some(&self.all.sets[i][self.all.sel.get()[i] as usize]));
			}
		}
		Ok(None)
	}
}

/// answers `Err` for one class
struct FailProv<'a> {
	inner: &'a SwitchProv,
	fail: RefCell<Option<ObjClassName>>,
}

impl SuperClassProvider for FailProv<'_> {
	fn get_super_classes(&self, class: &ObjClassNameSlice) -> Result<Option<&IndexSet<ObjClassName>>> {
		if let Some(f) = self.fail.borrow().as_ref() {
			if f.as_slice() == class {
				return Err(anyhow!("the provider cannot read the class {class:?}"));
			}
		}
		self.inner.get_super_classes(class)
	}
}

// ---------------------------------------------------------------------------------------------

fn assignments(jars: usize) -> Vec<[u8; 4]> {
	(0..(jars as u64).pow(4)).map(|idx| {
		let p = vcore::enumerate::product_nth(&[jars; 4], idx);
		std::array::from_fn(|i| p[i] as u8)
	}).collect()
}

fn run_jars_config(ctx: &Ctx, member: usize, decl: &[usize]) -> Stats {
	let mut st = Stats::new();
	let mut ta = Tally::default();
	let mut evals = 0u64;
	let dags = DagSet::get();
	let set = env_set(member, decl, [1; 4]);
	let q: Mappings<2, ()> = mapmodel::to_quill(&set).unwrap_or_else(fail("env generator"));
	let spec = &MEMBERS[member];
	let (from, to) = (0, 1);
	let fwd = CMap::build(&set, from, to);
	let jar: Vec<String> = KEYS.iter().map(|k| k.to_string()).collect();
	let typed: Vec<ObjClassName> = jar.iter().map(|n| mapmodel::cls(n).unwrap_or_else(fail("class name"))).collect();
	let world = World::build(&set, from, to, &jar);
	if world.ambiguous || world.names.len() != 4 {
		vcore::machinery_fail("env generator produced an ambiguous world");
	}
	let qu = Query::new(spec.kind, spec.nm, spec.desc0, &fwd);
	let all = Jars {
		names: typed.clone(),
		sets: (0..4).map(|i| dags.opts[i].iter().map(|l| l.iter().map(|x| typed[*x].clone()).collect::<IndexSet<_>>()).collect()).collect(),
		sel: Cell::new([0; 4]),
		jar_of: Cell::new([0; 4]),
	};
	for jars in [2usize, 3] {
		let prov: Vec<JarView> = (0..jars).map(|j| JarView { all: &all, idx: j as u8 }).collect();
		let header = || format!("{}{}", case_header("member", 2, from, to), case_mappings(&set));
		let rb = match vcore::guard(|| q.remapper_b(ns(from), ns(to), &prov)) {
			Ok(Ok(r)) => r,
			Ok(Err(e)) => {
				ctx.diff("build:refused", &format!("building the remapper failed: {e:#}"), header);
				continue;
			},
			Err(p) => {
				ctx.diff(&format!("panic@{}", p.file()), &format!("building the remapper panicked at {}: {}", p.site, p.msg), header);
				continue;
			},
		};
		let asg = assignments(jars);
		for g in &dags.known_only {
			all.sel.set(*g);
			let sup = dags.sup(g);
			let acc: Vec<[Ans; 4]> = (0..4).map(|o| world.accepted(&sup, o, qu.kind, &qu.name, &qu.desc)).collect();
			for a in &asg {
				all.jar_of.set(*a);
				for owner in 0..4 {
					let real = real_member(&rb, &typed[owner], &qu, &mut evals);
					let fast = match &real {
						Ok(Ok(r)) => {
							let coherent = match &r.fail {
								Some((nm, d)) => *nm == r.name && *d == r.desc,
								None => r.name == qu.name.as_bytes(),
							};
							if coherent { acc[owner].iter().find(|x| world.matches(x, &qu.name, &qu.exp_desc, &r.name, &r.desc)).copied() } else { None }
						},
						_ => None,
					};
					let matched = match fast {
						Some(x) => Some(x),
						None => {
							let engine = format!("member-jars\njars={jars}\njar_of={a:?}");
							let case = CaseText { engine: &engine, n: 2, from, to, set: &set, names: &world.names, sup: &sup, owner: &jar[owner], q: &qu };
							judge_member(ctx, &world, &sup, owner, &qu, &real, &case)
						},
					};
					let Some(x) = matched else { continue };
					ta.add("env:jars:judged");
					if let Ans::Found { class, .. } = x {
						if class != owner {
							ta.add("env:jars:found-in-super");
							let path = world.path_to(&sup, owner, class);
							if path[..path.len() - 1].iter().any(|c| a[*c] > 0) {
								ta.add("env:jars:found-through-a-class-known-to-a-later-jar-only");
							}
							if path[..path.len() - 1].iter().any(|c| a[*c] as usize == jars - 1) {
								ta.add("env:jars:found-through-a-class-known-to-the-last-jar-only");
							}
							if !a.contains(&0) {
								ta.add("env:jars:found-with-an-empty-first-jar");
							}
							st.distinct.add(&("env-jars", member, decl, g, jars, a, owner));
						}
					}
				}
			}
		}
	}
	st.evaluations += evals;
	ta.flush(&mut st);
	st
}

fn run_failing_config(ctx: &Ctx, member: usize, decl: &[usize]) -> Stats {
	let mut st = Stats::new();
	let mut ta = Tally::default();
	let mut evals = 0u64;
	let dags = DagSet::get();
	let set = env_set(member, decl, [1; 4]);
	let q: Mappings<2, ()> = mapmodel::to_quill(&set).unwrap_or_else(fail("env generator"));
	let spec = &MEMBERS[member];
	let (from, to) = (0, 1);
	let fwd = CMap::build(&set, from, to);
	let jar: Vec<String> = KEYS.iter().map(|k| k.to_string()).collect();
	let typed: Vec<ObjClassName> = jar.iter().map(|n| mapmodel::cls(n).unwrap_or_else(fail("class name"))).collect();
	let world = World::build(&set, from, to, &jar);
	let qu = Query::new(spec.kind, spec.nm, spec.desc0, &fwd);
	let inner = SwitchProv::new(&jar, dags);
	let prov = FailProv { inner: &inner, fail: RefCell::new(None) };
	let header = || format!("{}{}", case_header("member", 2, from, to), case_mappings(&set));
	let rb = match vcore::guard(|| q.remapper_b(ns(from), ns(to), &prov)) {
		Ok(Ok(r)) => r,
		_ => {
			ctx.diff("build:refused", "building the remapper failed or panicked", header);
			return st;
		},
	};
	for g in &dags.known_only {
		inner.select(*g);
		let sup = dags.sup(g);
		for f in 0..4 {
			*prov.fail.borrow_mut() = Some(typed[f].clone());
			for owner in 0..4 {
				let real = real_member(&rb, &typed[owner], &qu, &mut evals);
				let text = || {
					format!("{}{}failing={}\nowner={}\nkind={}\nname={}\ndesc={}\n{}", case_header("member-failing-provider", 2, from, to), render_supers(&world.names, &sup), jar[f], jar[owner], qu.kind.label(), qu.name, qu.desc, case_mappings(&set))
				};
				ta.add(judge_failing(ctx, &world, &sup, f, owner, &qu, &real, &text));
			}
		}
	}
	st.evaluations += evals;
	ta.flush(&mut st);
	st
}

/// the provider answers `Err` for class `f`: an `Err` is accepted, an answer must be right for the graph as it
/// is or for the graph in which `f` is unknown to the provider; returns the outcome counted
#[allow(clippy::too_many_arguments)]
fn judge_failing(ctx: &Ctx, world: &World, sup: &[Option<Vec<usize>>], f: usize, owner: usize, qu: &Query, real: &super::member::RealM, text: &dyn Fn() -> String) -> &'static str {
	let mut sup_unknown = sup.to_vec();
	sup_unknown[f] = None;
	match real {
		Err(p) => {
			ctx.diff(&format!("panic@{}", p.file()), &format!("the provider answered Err for {:?}: mapping {:?} of {:?} panicked at {}: {}", world.names[f], qu.name, world.names[owner], p.site, p.msg), text);
			"env:failing:panicked"
		},
		Ok(Err(_)) => "env:failing:error-came-back",
		Ok(Ok(r)) => {
			let coherent = match &r.fail {
				Some((nm, d)) => *nm == r.name && *d == r.desc,
				None => r.name == qu.name.as_bytes(),
			};
			let ok = coherent && [sup, &sup_unknown[..]].iter().any(|s| world.accepted(s, owner, qu.kind, &qu.name, &qu.desc).iter().any(|x| world.matches(x, &qu.name, &qu.exp_desc, &r.name, &r.desc)));
			if ok {
				"env:failing:answered"
			} else {
				ctx.diff("env:provider-error:answer-wrong", &format!("the provider answered Err for {:?}: {} {:?} of {:?} was answered {:?} {:?} (fail variant {:?}), which is right neither for the graph as it is nor with {:?} unknown", world.names[f], qu.kind.label(), qu.name, world.names[owner], String::from_utf8_lossy(&r.name), String::from_utf8_lossy(&r.desc), r.fail.as_ref().map(|(a, b)| (String::from_utf8_lossy(a).into_owned(), String::from_utf8_lossy(b).into_owned())), world.names[f]), text);
				"env:failing:answer-wrong"
			}
		},
	}
}

fn remap_row_configs() -> Vec<[u8; 4]> {
	let mut v = vec![[1u8; 4]];
	for k in 0..4 {
		let mut a = [1u8; 4];
		a[k] = 0;
		v.push(a);
		let mut b = [1u8; 4];
		b[k] = 2;
		v.push(b);
	}
	v
}

fn run_remap_config(ctx: &Ctx, rows: [u8; 4]) -> Stats {
	let mut st = Stats::new();
	let mut ta = Tally::default();
	let dags = DagSet::get();
	let set = env_set(1, &[0], rows);
	let q: Mappings<2, ()> = mapmodel::to_quill(&set).unwrap_or_else(fail("env generator"));
	for from in 0..2 {
		let to = 1 - from;
		let fwd = CMap::build(&set, from, to);
		let jar: Vec<String> = (0..4).map(|i| set.classes.get(KEYS[i]).and_then(|c| c.names[from].clone()).unwrap_or_else(|| KEYS[i].to_owned())).collect();
		let to_jar: Vec<String> = jar.iter().map(|n| fwd.cands(n)[0].clone()).collect();
		let header = || format!("{}{}", case_header("provider-remap", 2, from, to), case_mappings(&set));
		let none = quill::remapper::NoSuperClassProvider::new();
		let built = vcore::guard(|| -> Result<_> { Ok((q.remapper_a(ns(from), ns(to))?, q.remapper_b(ns(from), ns(to), none)?)) });
		let (ra, rb) = match built {
			Ok(Ok(x)) => x,
			_ => {
				ctx.diff("build:refused", "building the remappers failed or panicked", header);
				continue;
			},
		};
		for g in &dags.known_only {
			let sup = dags.sup(g);
			let (one, exp_one) = remap_jars(&jar, &sup, false);
			let (two, exp_two) = remap_jars(&jar, &sup, true);
			for (jars, prov, classes_per_jar) in [("one", &one, &exp_one), ("two", &two, &exp_two)] {
				for (imp, r) in [("a", &ra as &dyn RemapDyn), ("b", &rb as &dyn RemapDyn)] {
					st.eval();
					let text = || format!("{}impl={imp}\njars={jars}\n{}{}", case_header("provider-remap", 2, from, to), render_supers(&jar, &sup), case_mappings(&set));
					if judge_remap(ctx, r, imp, prov, classes_per_jar, &to_jar, &sup, &text) {
						ta.add("env:remap:judged");
						if sup.iter().any(|s| s.as_ref().is_some_and(|v| v.len() == 2)) {
							ta.add("env:remap:judged-with-an-ordered-list-of-two");
						}
					}
				}
			}
		}
	}
	ta.flush(&mut st);
	st
}

/// one jar with all four classes; two jars: C, D in the first, A, B in the second → (jars, class indices per jar)
fn remap_jars(jar: &[String], sup: &[Option<Vec<usize>>], two: bool) -> (Vec<JarSuperProv>, Vec<Vec<usize>>) {
	if two {
		(vec![jar_prov(jar, &[None, None, sup[2].clone(), sup[3].clone()]), jar_prov(jar, &[sup[0].clone(), sup[1].clone()])], vec![vec![2, 3], vec![0, 1]])
	} else {
		(vec![jar_prov(jar, sup)], vec![vec![0, 1, 2, 3]])
	}
}

#[allow(clippy::too_many_arguments)]
fn judge_remap(ctx: &Ctx, r: &dyn RemapDyn, imp: &str, prov: &Vec<JarSuperProv>, classes_per_jar: &[Vec<usize>], to_jar: &[String], sup: &[Option<Vec<usize>>], text: &dyn Fn() -> String) -> bool {
	match vcore::guard(|| r.remap(prov)) {
		Err(p) => {
			ctx.diff(&format!("panic@{}", p.file()), &format!("JarSuperProv::remap panicked at {}: {}", p.site, p.msg), text);
			false
		},
		Ok(Err(e)) => {
			ctx.diff("provider-remap:refused", &format!("JarSuperProv::remap failed: {e:#}"), text);
			false
		},
		Ok(Ok(out)) => {
			let got: Vec<Vec<(String, Vec<String>)>> = out.iter().map(|j| j.super_classes.iter().map(|(k, v)| (k.as_inner().as_str_lossy().into_owned(), v.iter().map(|x| x.as_inner().as_str_lossy().into_owned()).collect())).collect()).collect();
			let exp: Vec<Vec<(String, Vec<String>)>> = classes_per_jar.iter().map(|cs| cs.iter().filter(|c| sup[**c].is_some()).map(|c| (to_jar[*c].clone(), sup[*c].as_ref().unwrap().iter().map(|x| to_jar[*x].clone()).collect())).collect()).collect();
			if got != exp {
				ctx.diff("provider-remap:wrong", &format!("JarSuperProv::remap ({imp}) of the jars with the classes {classes_per_jar:?} gave {got:?}; the classes and their super types in the same order under their new names are {exp:?}"), text);
				false
			} else {
				true
			}
		},
	}
}

/// `JarSuperProv::remap` takes `&impl ARemapper`: one object-safe shim per remapper type
trait RemapDyn {
	fn remap(&self, prov: &Vec<JarSuperProv>) -> Result<Vec<JarSuperProv>>;
}

impl<T: ARemapper> RemapDyn for T {
	fn remap(&self, prov: &Vec<JarSuperProv>) -> Result<Vec<JarSuperProv>> {
		JarSuperProv::remap(self, prov)
	}
}

/// one jar that answers `Err` for one class (replay of the "failing" space)
struct FailingJar {
	inner: JarSuperProv,
	fail: ObjClassName,
}

impl SuperClassProvider for FailingJar {
	fn get_super_classes(&self, class: &ObjClassNameSlice) -> Result<Option<&IndexSet<ObjClassName>>> {
		if self.fail.as_slice() == class {
			return Err(anyhow!("the provider cannot read the class {class:?}"));
		}
		self.inner.get_super_classes(class)
	}
}

pub fn replay_case(ctx: &Ctx, head: &BTreeMap<String, String>, supers: &[String], set: &MSet, st: &mut Stats) -> String {
	let get = |k: &str| head.get(k).cloned().unwrap_or_else(|| vcore::machinery_fail(&format!("replay: no {k} line")));
	let num = |k: &str| -> usize { get(k).parse().unwrap_or_else(|_| vcore::machinery_fail("replay: bad number")) };
	let (from, to) = (num("from"), num("to"));
	let q: Mappings<2, ()> = mapmodel::to_quill(set).unwrap_or_else(fail("replay"));
	let fwd = CMap::build(set, from, to);
	if get("engine") == "provider-remap" {
		let (jar, sup) = parse_supers(supers, None);
		let to_jar: Vec<String> = jar.iter().map(|n| fwd.cands(n)[0].clone()).collect();
		let (prov, classes_per_jar) = remap_jars(&jar, &sup, get("jars") == "two");
		let none = quill::remapper::NoSuperClassProvider::new();
		let ra = q.remapper_a(ns(from), ns(to)).unwrap_or_else(fail("replay"));
		let rb = q.remapper_b(ns(from), ns(to), none).unwrap_or_else(fail("replay"));
		let imp = get("impl");
		let r: &dyn RemapDyn = if imp == "a" { &ra } else { &rb };
		st.eval();
		let jars = get("jars");
		let ok = judge_remap(ctx, r, &imp, &prov, &classes_per_jar, &to_jar, &sup, &|| format!("{}impl={imp}\njars={jars}\n{}{}", case_header("provider-remap", 2, from, to), render_supers(&jar, &sup), case_mappings(set)));
		return format!("renamed provider as expected: {ok}");
	}
	let kind = match get("kind").as_str() {
		"field" => super::world::MKind::Field,
		"method" => super::world::MKind::Method,
		_ => vcore::machinery_fail("replay: bad kind"),
	};
	let owner_name = get("owner");
	let (names, mut sup) = parse_supers(supers, Some(&owner_name));
	let world = World::build(set, from, to, &names);
	sup.resize(world.names.len(), None);
	let owner = world.index_of(&owner_name).unwrap_or_else(|| vcore::machinery_fail("replay: owner"));
	let failing = get("failing");
	let f = world.index_of(&failing).unwrap_or_else(|| vcore::machinery_fail("replay: failing class"));
	let prov = FailingJar { inner: jar_prov(&world.names, &sup), fail: mapmodel::cls(&failing).unwrap_or_else(fail("replay")) };
	let rb = q.remapper_b(ns(from), ns(to), &prov).unwrap_or_else(fail("replay: remapper_b"));
	let qu = Query::new(kind, &get("name"), &get("desc"), &fwd);
	let mut evals = 0;
	let real = real_member(&rb, &mapmodel::cls(&owner_name).unwrap_or_else(fail("replay")), &qu, &mut evals);
	st.evaluations += evals;
	let outcome = judge_failing(ctx, &world, &sup, f, owner, &qu, &real, &|| {
		format!("{}{}failing={failing}\nowner={owner_name}\nkind={}\nname={}\ndesc={}\n{}", case_header("member-failing-provider", 2, from, to), render_supers(&world.names, &sup), qu.kind.label(), qu.name, qu.desc, case_mappings(set))
	});
	format!("{outcome}: {}", match &real {
		Ok(Ok(r)) => format!("name={:?} desc={:?}", String::from_utf8_lossy(&r.name), String::from_utf8_lossy(&r.desc)),
		Ok(Err(e)) => format!("Err({e})"),
		Err(p) => format!("panic at {}", p.site),
	})
}

pub fn run(ctx: &'static Ctx) -> (Stats, Value) {
	let cfgs = configs();
	let t0 = ctx.elapsed_s();
	let st_jars = cfgs.par_iter().fold(Stats::new, |st, (m, d)| {
		let s = vcore::watched(|| format!("env jars member {m} declared by {d:?}"), || run_jars_config(ctx, *m, d));
		st.merge(s)
	}).reduce(Stats::new, Stats::merge);
	let t1 = ctx.elapsed_s();
	let st_fail = cfgs.par_iter().fold(Stats::new, |st, (m, d)| {
		let s = vcore::watched(|| format!("env failing provider member {m} declared by {d:?}"), || run_failing_config(ctx, *m, d));
		st.merge(s)
	}).reduce(Stats::new, Stats::merge);
	let t2 = ctx.elapsed_s();
	let rows = remap_row_configs();
	let st_remap = rows.par_iter().fold(Stats::new, |st, r| {
		let s = vcore::watched(|| format!("env provider remap rows {r:?}"), || run_remap_config(ctx, *r));
		st.merge(s)
	}).reduce(Stats::new, Stats::merge);
	let t3 = ctx.elapsed_s();
	let bounds = json!({
		"graphs": DagSet::get().known_only.len(), "graphs_rule": "every acyclic assignment of an ordered list of ≤ 2 other classes to each of the 4 classes",
		"mapping_sets": cfgs.iter().map(|(m, d)| format!("{}{} declared by {:?}", MEMBERS[*m].nm, MEMBERS[*m].desc0, d.iter().map(|k| KEYS[*k]).collect::<Vec<_>>())).collect::<Vec<_>>(),
		"jars": [2, 3], "distributions": "every assignment of the 4 classes to the jars (2^4 + 3^4), each class known to exactly one jar",
		"failing_provider": "Err for one of the 4 classes, every class in turn; Err accepted, Ok must be right for the graph or for the graph with that class unknown",
		"remap_row_configurations": rows.iter().map(|r| format!("{r:?}")).collect::<Vec<_>>(), "remap_row_legend": "per class: 0 absent from the mappings, 1 renamed, 2 same name in both namespaces",
		"remap_jars": ["one jar with A B C D", "two jars: [C D] [A B]"], "remap_implementations": ["remapper_a", "remapper_b"], "remap_directions": [[0, 1], [1, 0]],
		"evaluations": {"jars": st_jars.evaluations, "failing": st_fail.evaluations, "remap": st_remap.evaluations},
		"wall_s": {"jars": t1 - t0, "failing": t2 - t1, "remap": t3 - t2},
	});
	(st_jars.merge(st_fail).merge(st_remap), bounds)
}
