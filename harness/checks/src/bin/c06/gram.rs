//! Reference reading of the JVMS descriptor grammar (4.3.2, 4.3.3) and the class map of a mapping
//! set between two namespaces. Written from the JVMS and the property statement.

use std::collections::BTreeMap;
use mapmodel::MSet;

#[derive(Clone, Debug, PartialEq, Eq)]
pub enum Tok {
	/// `(`, `)`, `[`, a base type letter or `V`
	Ch(char),
	/// the class name between `L` and `;`
	Name(String),
}

#[derive(Clone, Copy, Debug, PartialEq, Eq, Hash, PartialOrd, Ord)]
pub enum TKind {
	Field,
	Method,
	Return,
	/// an array class name (= a field descriptor with at least one dimension)
	ArrClass,
	/// a plain class name
	ObjClass,
}

impl TKind {
	pub fn label(self) -> &'static str {
		match self {
			TKind::Field => "field",
			TKind::Method => "method",
			TKind::Return => "return",
			TKind::ArrClass => "arrclass",
			TKind::ObjClass => "class",
		}
	}
	pub fn from_label(s: &str) -> Option<TKind> {
		[TKind::Field, TKind::Method, TKind::Return, TKind::ArrClass, TKind::ObjClass].into_iter().find(|k| k.label() == s)
	}
}

/// JVMS 4.2.1 / 4.2.2: identifiers separated by `/`, each non-empty and without `.` `;` `[` `/`
pub fn valid_binary_name(n: &str) -> bool {
	!n.is_empty() && n.split('/').all(|p| !p.is_empty() && !p.contains(['.', ';', '[']))
}

fn parse_field_type(c: &[char], i: &mut usize, out: &mut Vec<Tok>) -> bool {
	let mut dims = 0;
	while *i < c.len() && c[*i] == '[' {
		out.push(Tok::Ch('['));
		*i += 1;
		dims += 1;
		if dims > 255 {
			return false;
		}
	}
	if *i >= c.len() {
		return false;
	}
	match c[*i] {
		'B' | 'C' | 'D' | 'F' | 'I' | 'J' | 'S' | 'Z' => {
			out.push(Tok::Ch(c[*i]));
			*i += 1;
			true
		},
		'L' => {
			*i += 1;
			let start = *i;
			while *i < c.len() && c[*i] != ';' {
				*i += 1;
			}
			if *i >= c.len() {
				return false;
			}
			let name: String = c[start..*i].iter().collect();
			*i += 1;
			if !valid_binary_name(&name) {
				return false;
			}
			out.push(Tok::Name(name));
			true
		},
		_ => false,
	}
}

/// `Some(tokens)` iff `s` is derived by the grammar of `kind`
pub fn parse_desc(kind: TKind, s: &str) -> Option<Vec<Tok>> {
	if kind == TKind::ObjClass {
		return if valid_binary_name(s) { Some(vec![Tok::Name(s.to_owned())]) } else { None };
	}
	let c: Vec<char> = s.chars().collect();
	let mut i = 0;
	let mut out = Vec::new();
	match kind {
		TKind::Field => {
			if !parse_field_type(&c, &mut i, &mut out) {
				return None;
			}
		},
		TKind::ArrClass => {
			if c.first() != Some(&'[') || !parse_field_type(&c, &mut i, &mut out) {
				return None;
			}
		},
		TKind::Return => {
			if c.first() == Some(&'V') {
				out.push(Tok::Ch('V'));
				i = 1;
			} else if !parse_field_type(&c, &mut i, &mut out) {
				return None;
			}
		},
		TKind::Method => {
			if c.first() != Some(&'(') {
				return None;
			}
			out.push(Tok::Ch('('));
			i = 1;
			loop {
				if i >= c.len() {
					return None;
				}
				if c[i] == ')' {
					out.push(Tok::Ch(')'));
					i += 1;
					break;
				}
				if !parse_field_type(&c, &mut i, &mut out) {
					return None;
				}
			}
			if i < c.len() && c[i] == 'V' {
				out.push(Tok::Ch('V'));
				i += 1;
			} else if !parse_field_type(&c, &mut i, &mut out) {
				return None;
			}
		},
		TKind::ObjClass => unreachable!(),
	}
	if i != c.len() {
		return None;
	}
	Some(out)
}

pub fn names_of(toks: &[Tok]) -> Vec<&str> {
	toks.iter().filter_map(|t| if let Tok::Name(n) = t { Some(n.as_str()) } else { None }).collect()
}

/// Shape of an arbitrary string: everything between an `L` and the next `;` removed (left to right).
pub fn strip(s: &str) -> String {
	let mut out = String::new();
	let mut it = s.chars();
	while let Some(c) = it.next() {
		out.push(c);
		if c == 'L' {
			let mut closed = false;
			for d in it.by_ref() {
				if d == ';' {
					closed = true;
					break;
				}
			}
			out.push(if closed { ';' } else { '?' });
		}
	}
	out
}

/// where in a descriptor a class name sits (for difference keys)
pub fn position_label(kind: TKind, toks: &[Tok], idx: usize) -> String {
	let array = idx > 0 && toks[idx - 1] == Tok::Ch('[');
	let after_paren = toks[..idx].contains(&Tok::Ch(')'));
	let place = match kind {
		TKind::Field => "field",
		TKind::Return => "return",
		TKind::ArrClass => "arrayclass",
		TKind::ObjClass => "class",
		TKind::Method => if after_paren { "return" } else { "param" },
	};
	if array && kind != TKind::ArrClass { format!("array-{place}") } else { place.to_owned() }
}

/// The class map of a mapping set from namespace `from` to namespace `to`: a row that has a name in
/// both namespaces maps the one to the other; a row without a name in `to` leaves the name unchanged;
/// rows without a name in `from` do not exist in `from`. Several rows with the same `from` name (a
/// set that does not name injectively) give several acceptable answers.
#[derive(Clone, Debug, Default)]
pub struct CMap {
	pub m: BTreeMap<String, Vec<String>>,
}

impl CMap {
	pub fn build(set: &MSet, from: usize, to: usize) -> CMap {
		let mut m: BTreeMap<String, Vec<String>> = BTreeMap::new();
		for c in set.classes.values() {
			if let Some(f) = &c.names[from] {
				let t = c.names[to].clone().unwrap_or_else(|| f.clone());
				let e = m.entry(f.clone()).or_default();
				if !e.contains(&t) {
					e.push(t);
				}
			}
		}
		for v in m.values_mut() {
			v.sort();
		}
		CMap { m }
	}

	pub fn accepts(&self, name: &str, answer: &str) -> bool {
		match self.m.get(name) {
			Some(c) => c.iter().any(|x| x == answer),
			None => name == answer,
		}
	}

	/// the acceptable answers for one name
	pub fn cands(&self, name: &str) -> Vec<String> {
		match self.m.get(name) {
			Some(c) => c.clone(),
			None => vec![name.to_owned()],
		}
	}

	/// every acceptable rewriting of `s` (None: `s` is not derived by the grammar of `kind`)
	pub fn map_all(&self, kind: TKind, s: &str) -> Option<Vec<String>> {
		let toks = parse_desc(kind, s)?;
		let mut outs = vec![String::with_capacity(s.len() + 8)];
		for t in &toks {
			match t {
				Tok::Ch(c) => outs.iter_mut().for_each(|o| o.push(*c)),
				Tok::Name(n) => {
					let wrap = kind != TKind::ObjClass;
					match self.m.get(n) {
						Some(c) if c.len() > 1 => {
							let mut next = Vec::with_capacity(outs.len() * c.len());
							for o in &outs {
								for x in c {
									let mut s2 = o.clone();
									if wrap {
										s2.push('L');
									}
									s2.push_str(x);
									if wrap {
										s2.push(';');
									}
									next.push(s2);
								}
							}
							outs = next;
						},
						other => {
							let x: &str = other.map(|c| c[0].as_str()).unwrap_or(n.as_str());
							for o in outs.iter_mut() {
								if wrap {
									o.push('L');
								}
								o.push_str(x);
								if wrap {
									o.push(';');
								}
							}
						},
					}
				},
			}
		}
		Some(outs)
	}

	/// `Some(x)` iff exactly one rewriting is acceptable
	pub fn map_one(&self, kind: TKind, s: &str) -> Option<String> {
		let mut v = self.map_all(kind, s)?;
		if v.len() == 1 { v.pop() } else { None }
	}
}

/// Is mapping `n` with `fwd` and back with `bwd` the identity according to the class maps alone
/// (every acceptable forward answer has `n` as its only acceptable backward answer)?
pub fn roundtrip_safe(fwd: &CMap, bwd: &CMap, n: &str) -> bool {
	fwd.cands(n).iter().all(|y| {
		let g = bwd.cands(y);
		g.len() == 1 && g[0] == n
	})
}

#[cfg(test)]
mod tests {
	use super::*;

	#[test]
	fn grammar() {
		assert!(parse_desc(TKind::Field, "LA;").is_some());
		assert!(parse_desc(TKind::Field, "[[I").is_some());
		assert!(parse_desc(TKind::Field, "L;").is_none());
		assert!(parse_desc(TKind::Field, "LA").is_none());
		assert!(parse_desc(TKind::Field, "LA/;").is_none());
		assert!(parse_desc(TKind::Field, "V").is_none());
		assert!(parse_desc(TKind::Return, "V").is_some());
		assert!(parse_desc(TKind::Method, "()V").is_some());
		assert!(parse_desc(TKind::Method, "(LLA;[I)LL;").is_some());
		assert!(parse_desc(TKind::Method, "(V)V").is_none());
		assert!(parse_desc(TKind::Method, "()").is_none());
		assert!(parse_desc(TKind::ArrClass, "I").is_none());
		assert_eq!(strip("(LLA;[LA$B;)Lx;"), "(L;[L;)L;");
	}
}
