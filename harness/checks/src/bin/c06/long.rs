//! Engine "long": sizes and offsets that the small alphabets of the other engines do not reach.
//!
//! * **offsets** — text is bytes, characters are not: a class name of `k` ASCII characters followed by one
//!   character of 1, 2, 3 or 4 UTF-8 bytes, for every k ≤ 140 (messages that quote a descriptor are usually
//!   cut at 60/80/100/120), in accepting situations (`L<name>;`, `[L<name>;`, `(L<name>;)L<name>;`, all 564
//!   names mapped) *and* refusing ones (`L<name>` without semicolon, `L<name>;L;`, `[L<name>`, `(L<name>`,
//!   `(L<name>;L;)V`: the scanner must answer `Err` or keep the shape — building the error message must not
//!   panic); as field, return, method descriptor and array class name, through `remapper_a` and `remapper_b`;
//!   the same 564 strings as names of the fields of one class (a table of 564 members), every one looked up;
//!   and the refused descriptors as descriptor of a member query (the fallback path of `map_field` / `map_method`).
//! * **sizes** — method descriptors with 254, 255, 256, 300 and 1000 one-slot parameters (a mix of mapped
//!   class, primitive, array of a mapped class, unmapped class; and the mapped class only, so that 255
//!   parameters and the return type make 256 class names in one descriptor); class and member names of 255,
//!   256, 257, 65533, 65535, 65536 and 65537 bytes (ASCII, and two-byte characters so that the counts of
//!   characters and of bytes differ); judged by the reference walk of the grammar, X→Y→X; the methods and
//!   fields with these descriptors and names looked up. Beyond what a class file can hold (more than 255
//!   parameter slots, JVMS 4.3.3; more than 65535 bytes) a refusal is accepted, a wrong answer is not.

use std::collections::BTreeMap;
use mapmodel::{MClass, MField, MMethod, MSet};
use quill::remapper::NoSuperClassProvider;
use quill::tree::mappings::Mappings;
use quill::tree::names::Namespace;
use rayon::prelude::*;
use vcore::{json, Ctx, Stats, Value};
use super::desc::{judge_desc_tally, judge_roundtrip, real_map};
use super::gram::{parse_desc, CMap, TKind, Tok};
use super::member::{judge_member, real_member, CaseText, Query};
use super::world::{Ans, MKind, World};
use super::{case_header, case_mappings, Tally, NS};

fn ns(i: usize) -> Namespace<2> {
	Namespace::new(i).unwrap_or_else(|e| vcore::machinery_fail(&format!("namespace {i}: {e}")))
}

fn fail<T>(what: &str) -> impl FnOnce(anyhow::Error) -> T + '_ {
	move |e| vcore::machinery_fail(&format!("{what}: {e:#}"))
}

pub const MAX_PREFIX: usize = 140;
pub const LAST_CHARS: [char; 4] = ['z', 'é', '中', '𝒜'];
const HOLDER: &str = "Holder";

fn offset_name(k: usize, c: char) -> String {
	let mut s = "x".repeat(k);
	s.push(c);
	s
}

fn offset_plain(k: usize, c: char) -> String {
	format!("t{k}_{}", c.len_utf8())
}

/// all names mapped; the holder class declares one field per name (named like the class, of the class's type)
fn offset_set() -> MSet {
	let mut set = MSet::new(&NS[..2]);
	let mut holder = MClass { names: vec![Some(HOLDER.to_owned()), Some("Holder_1".to_owned())], ..Default::default() };
	for k in 0..=MAX_PREFIX {
		for c in LAST_CHARS {
			let n = offset_name(k, c);
			set.classes.insert(n.clone(), MClass { names: vec![Some(n.clone()), Some(offset_plain(k, c))], ..Default::default() });
			holder.fields.insert((n.clone(), format!("L{n};")), MField { names: vec![Some(n.clone()), Some(format!("f{}", offset_plain(k, c)))], doc: None });
		}
	}
	set.classes.insert(HOLDER.to_owned(), holder);
	set
}

fn run_offsets(ctx: &'static Ctx) -> Stats {
	let set = offset_set();
	let q: Mappings<2, ()> = mapmodel::to_quill(&set).unwrap_or_else(fail("long generator"));
	let cases: Vec<(usize, char)> = (0..=MAX_PREFIX).flat_map(|k| LAST_CHARS.iter().map(move |c| (k, *c))).collect();
	let chunks: Vec<(usize, &[(usize, char)])> = (0..2usize).flat_map(|from| cases.chunks(12).map(move |c| (from, c))).collect();
	chunks.par_iter().fold(Stats::new, |mut st, (from, chunk)| {
		let from = *from;
		vcore::watched(|| format!("long offsets from {from} cases {:?}..", chunk[0]), || {
			let mut ta = Tally::default();
			let mut evals = 0u64;
			let to = 1 - from;
			let fwd = CMap::build(&set, from, to);
			let bwd = CMap::build(&set, to, from);
			let none = NoSuperClassProvider::new();
			let (ra, rb, rback) = match vcore::guard(|| -> anyhow::Result<_> { Ok((q.remapper_a(ns(from), ns(to))?, q.remapper_b(ns(from), ns(to), none)?, q.remapper_a(ns(to), ns(from))?)) }) {
				Ok(Ok(x)) => x,
				_ => {
					ctx.diff("build:refused", "building the remappers failed or panicked", || format!("{}{}", case_header("desc", 2, from, to), case_mappings(&set)));
					return;
				},
			};
			let holder = if from == 0 { HOLDER.to_owned() } else { "Holder_1".to_owned() };
			let names = vec![holder.clone()];
			let sup: Vec<Option<Vec<usize>>> = vec![None];
			let world = World::build(&set, from, to, &names);
			let typed = mapmodel::cls(&holder).unwrap_or_else(fail("class name"));
			for &(k, c) in chunk.iter() {
				let n = if from == 0 { offset_name(k, c) } else { offset_plain(k, c) };
				let multibyte = from == 0 && c.len_utf8() > 1;
				let inputs: Vec<(TKind, String)> = vec![
					(TKind::ObjClass, n.clone()),
					(TKind::Field, format!("L{n};")), (TKind::Return, format!("L{n};")), (TKind::Field, format!("[L{n};")), (TKind::ArrClass, format!("[[L{n};")),
					(TKind::Method, format!("(L{n};)L{n};")), (TKind::Method, format!("(IL{n};[L{n};)V")),
					// refusing situations
					(TKind::Field, format!("L{n}")), (TKind::Return, format!("L{n}")), (TKind::Field, format!("L{n};L;")), (TKind::Return, format!("L{n};L;")),
					(TKind::Field, format!("[L{n}")), (TKind::ArrClass, format!("[L{n}")), (TKind::Method, format!("(L{n}")), (TKind::Method, format!("(L{n};L;)V")),
					(TKind::Method, format!("(L{n};)L")), (TKind::Method, format!("(L;L{n};)V")), (TKind::Return, format!("L;{n}")),
				];
				for (kind, input) in &inputs {
					let grammatical = parse_desc(*kind, input).is_some();
					let text = |imp: &str| format!("{}impl={imp}\nkind={}\ninput={input}\n{}", case_header("desc", 2, from, to), kind.label(), case_mappings(&set));
					let real_a = real_map(&ra, *kind, input, &mut st);
					let ok_a = judge_desc_tally(ctx, &mut ta, "a", *kind, input, &real_a, &fwd, &|| text("a"));
					let real_b = real_map(&rb, *kind, input, &mut st);
					let ok_b = judge_desc_tally(ctx, &mut ta, "b", *kind, input, &real_b, &fwd, &|| text("b"));
					if ok_a && ok_b {
						ta.add(if grammatical { "long:offsets:accepted-judged" } else { "long:offsets:refusing-judged" });
						if multibyte {
							ta.add(if grammatical { "long:offsets:accepted-judged-multibyte" } else { "long:offsets:refusing-judged-multibyte" });
						}
						if !grammatical && matches!(real_a, Ok(Err(_))) {
							ta.add("long:offsets:refused-with-err");
						}
					}
					if let (true, true, Ok(Ok(o))) = (grammatical, ok_a, &real_a) {
						if o != input {
							st.distinct.add(&("long-offsets", *kind, input));
						}
						let back = real_map(&rback, *kind, o, &mut st);
						judge_roundtrip(ctx, &mut ta, *kind, input, o, &back, &fwd, &bwd, &|| text("a"));
					}
				}
				// the field of the holder named like the class; then the refused descriptors through the member fallback
				let fname = if from == 0 { offset_name(k, c) } else { format!("f{}", offset_plain(k, c)) };
				let queries = [
					Query::new(MKind::Field, &fname, &format!("L{n};"), &fwd),
					Query::new(MKind::Field, &fname, &format!("L{n}"), &fwd),
					Query::new(MKind::Field, &fname, &format!("L{n};L;"), &fwd),
					Query::new(MKind::Method, &offset_name(k, c), &format!("(L{n}"), &fwd),
					Query::new(MKind::Method, &offset_name(k, c), &format!("(L{n};L;)V"), &fwd),
				];
				for (qi, qu) in queries.iter().enumerate() {
					let real = real_member(&rb, &typed, qu, &mut evals);
					let case = CaseText { engine: "member", n: 2, from, to, set: &set, names: &world.names, sup: &sup, owner: &holder, q: qu };
					let a = judge_member(ctx, &world, &sup, 0, qu, &real, &case);
					if qi == 0 {
						if let Some(Ans::Found { .. }) = a {
							ta.add("long:offsets:field-of-a-564-member-table-found");
						}
					} else if real.is_ok() {
						ta.add("long:offsets:member-query-with-a-refused-descriptor-did-not-panic");
					}
				}
			}
			st.evaluations += evals;
			ta.flush(&mut st);
		});
		st
	}).reduce(Stats::new, Stats::merge)
}

// ---------------------------------------------------------------------------------------------

pub const PARAM_COUNTS: [usize; 5] = [254, 255, 256, 300, 1000];
/// 65533 bytes: `L<name>;` is the longest descriptor a class file can hold (65535 bytes)
pub const NAME_BYTES: [usize; 7] = [255, 256, 257, 65533, 65535, 65536, 65537];

fn long_name(bytes: usize, two_byte: bool) -> String {
	if two_byte {
		// an odd number of bytes starts with one ASCII character
		let mut s = if bytes % 2 == 1 { "n".to_owned() } else { String::new() };
		s.push_str(&"é".repeat(bytes / 2));
		s
	} else {
		"n".repeat(bytes)
	}
}

fn long_plain(i: usize, two_byte: bool) -> String {
	format!("W{i}{}", if two_byte { "e" } else { "a" })
}

/// `all_mapped`: every parameter is the mapped class (with the return type count + 1 class names); else a mix of one-slot types
fn many_params(count: usize, all_mapped: bool, p: &str, k: &str) -> String {
	let mut s = String::from("(");
	for i in 0..count {
		match if all_mapped { 0 } else { i % 4 } {
			0 => s.push_str(&format!("L{p};")),
			1 => s.push('I'),
			2 => s.push_str(&format!("[L{k};")),
			_ => s.push_str("Ljava/lang/Object;"),
		}
	}
	s.push_str(&format!(")L{p};"));
	s
}

/// JVMS 4.3.3: a method descriptor is valid only if its parameters take at most 255 slots; a class file cannot
/// hold a name or descriptor of more than 65535 bytes. Beyond that a refusal is accepted (a wrong answer is not).
fn in_domain(kind: TKind, input: &str) -> bool {
	if input.len() > 65535 {
		return false;
	}
	if kind != TKind::Method {
		return true;
	}
	let Some(toks) = parse_desc(kind, input) else { return true };
	let mut slots = 0usize;
	let mut arr = false;
	for t in &toks {
		match t {
			Tok::Ch('(') => {},
			Tok::Ch(')') => break,
			Tok::Ch('[') => arr = true,
			Tok::Ch(c) => {
				slots += if !arr && (*c == 'J' || *c == 'D') { 2 } else { 1 };
				arr = false;
			},
			Tok::Name(_) => {
				slots += 1;
				arr = false;
			},
		}
	}
	slots <= 255
}

/// `in_domain_only`: the set names only what a class file can hold (the real code must build remappers from it);
/// otherwise everything (the real code may refuse it)
fn sizes_set(in_domain_only: bool) -> MSet {
	let mut set = MSet::new(&NS[..2]);
	let mut p = MClass { names: vec![Some("P".to_owned()), Some("P_1".to_owned())], ..Default::default() };
	set.classes.insert("K".to_owned(), MClass { names: vec![Some("K".to_owned()), Some("K_1".to_owned())], ..Default::default() });
	for (i, count) in PARAM_COUNTS.iter().enumerate() {
		for all in [false, true] {
			if in_domain_only && !in_domain(TKind::Method, &many_params(*count, all, "P", "K")) {
				continue;
			}
			p.methods.insert(("m".to_owned(), many_params(*count, all, "P", "K")), MMethod { names: vec![Some("m".to_owned()), Some(format!("m{i}{}_1", if all { "p" } else { "x" }))], doc: None, params: BTreeMap::new() });
		}
	}
	for (i, bytes) in NAME_BYTES.iter().enumerate() {
		for two in [false, true] {
			let n = long_name(*bytes, two);
			let plain = long_plain(i, two);
			if in_domain_only && !in_domain(TKind::Field, &format!("L{n};")) {
				continue;
			}
			set.classes.insert(n.clone(), MClass { names: vec![Some(n.clone()), Some(plain.clone())], ..Default::default() });
			// a field with the long name, of the long class's type
			p.fields.insert((n.clone(), format!("L{n};")), MField { names: vec![Some(n.clone()), Some(format!("f{plain}"))], doc: None });
		}
	}
	set.classes.insert("P".to_owned(), p);
	set
}

/// (label, kind, input) of one direction
fn sizes_inputs(from: usize) -> Vec<(String, TKind, String)> {
	let (p, k) = if from == 0 { ("P", "K") } else { ("P_1", "K_1") };
	let mut inputs: Vec<(String, TKind, String)> = Vec::new();
	for count in PARAM_COUNTS {
		for all in [false, true] {
			inputs.push((format!("params-{count}-{}", if all { "all-mapped" } else { "mixed" }), TKind::Method, many_params(count, all, p, k)));
		}
	}
	for (i, bytes) in NAME_BYTES.iter().enumerate() {
		for two in [false, true] {
			let n = if from == 0 { long_name(*bytes, two) } else { long_plain(i, two) };
			let label = format!("name-{bytes}-bytes-{}", if two { "two-byte" } else { "ascii" });
			inputs.push((label.clone(), TKind::ObjClass, n.clone()));
			inputs.push((label.clone(), TKind::Field, format!("L{n};")));
			inputs.push((label.clone(), TKind::ArrClass, format!("[[L{n};")));
			inputs.push((label.clone(), TKind::Method, format!("(L{n};IL{n};)[L{n};")));
			inputs.push((label, TKind::Return, format!("L{n}")));
		}
	}
	inputs
}

fn sizes_text(in_domain_only: bool, from: usize, imp: &str, kind: TKind, label: &str) -> String {
	// names of 65537 bytes are not carried in the replay text: the case is named, the replay regenerates it
	format!("engine=long-sizes\nn=2\nfrom={from}\nto={}\nset={}\nimpl={imp}\nkind={}\ncase={label}\nmappings:\ntiny\t2\t0\ta\tb\n", 1 - from, if in_domain_only { "in-domain" } else { "all" }, kind.label())
}

/// `only`: (label, kind) of the single case to run (replay)
#[allow(clippy::too_many_arguments)]
fn run_sizes_dir(ctx: &Ctx, set: &MSet, q: &Mappings<2, ()>, in_domain_only: bool, from: usize, only: Option<(&str, TKind)>, st: &mut Stats, ta: &mut Tally) -> String {
	let mut obs = String::new();
	let mut evals = 0u64;
	let to = 1 - from;
	let fwd = CMap::build(set, from, to);
	let bwd = CMap::build(set, to, from);
	let none = NoSuperClassProvider::new();
	let (ra, rb, rback) = match vcore::guard(|| -> anyhow::Result<_> { Ok((q.remapper_a(ns(from), ns(to))?, q.remapper_b(ns(from), ns(to), none)?, q.remapper_a(ns(to), ns(from))?)) }) {
		Ok(Ok(x)) => x,
		Ok(Err(_)) if !in_domain_only => {
			ta.add("long:sizes:set-beyond-the-class-file-limits-refused");
			return "build refused".to_owned();
		},
		Ok(Err(e)) => {
			ctx.diff("build:refused", &format!("long sizes: building the remappers from a set with 255 parameters / names of 65533 bytes failed: {e:#}"), || sizes_text(in_domain_only, from, "a", TKind::ObjClass, "build"));
			return "build failed".to_owned();
		},
		Err(p) => {
			ctx.diff(&format!("panic@{}", p.file()), &format!("long sizes: building the remappers panicked at {}: {}", p.site, p.msg), || sizes_text(in_domain_only, from, "a", TKind::ObjClass, "build"));
			return "build panicked".to_owned();
		},
	};
	for (label, kind, input) in &sizes_inputs(from) {
		if only.is_some_and(|(l, k)| l != label || k != *kind) {
			continue;
		}
		// the set that names only what a class file can hold is asked only that
		if in_domain_only && !in_domain(*kind, input) {
			continue;
		}
		let grammatical = parse_desc(*kind, input).is_some();
		let dom = in_domain(*kind, input);
		let real_a = real_map(&ra, *kind, input, st);
		let real_b = real_map(&rb, *kind, input, st);
		if only.is_some() {
			obs.push_str(&format!("a: {} b: {};", show_short(&real_a), show_short(&real_b)));
		}
		let mut oks = [false; 2];
		for (i, (imp, real)) in [("a", &real_a), ("b", &real_b)].into_iter().enumerate() {
			if !dom && matches!(real, Ok(Err(_))) {
				ta.add("long:sizes:beyond-the-class-file-limits-refused");
				continue;
			}
			oks[i] = judge_desc_tally(ctx, ta, imp, *kind, input, real, &fwd, &|| sizes_text(in_domain_only, from, imp, *kind, label));
		}
		if oks[0] && oks[1] && grammatical {
			ta.add("long:sizes:judged");
			if label.starts_with("params") && dom {
				ta.add("long:sizes:descriptor-with-254-or-255-parameters-judged");
				if label.ends_with("255-all-mapped") {
					ta.add("long:sizes:descriptor-with-256-class-names-judged");
				}
			} else if input.len() >= 65533 && dom {
				ta.add("long:sizes:name-of-65533-bytes-judged");
			} else if !dom {
				ta.add("long:sizes:beyond-the-class-file-limits-answered-and-judged");
			}
		}
		if let (true, true, Ok(Ok(o))) = (grammatical, oks[0], &real_a) {
			if o != input {
				st.distinct.add(&("long-sizes", *kind, label));
				st.sample("long-sizes", || json!({"engine": "long", "case": label, "kind": kind.label(), "from": from, "to": to, "input_bytes": input.len(), "answer_bytes": o.len()}));
			}
			let back = real_map(&rback, *kind, o, st);
			judge_roundtrip(ctx, ta, *kind, input, o, &back, &fwd, &bwd, &|| sizes_text(in_domain_only, from, "a", *kind, label));
		}
	}
	if only.is_some() {
		return obs;
	}
	// members: the methods with at most 255 parameters and the fields with names a class file can hold
	let (p, k) = if from == 0 { ("P", "K") } else { ("P_1", "K_1") };
	let names = vec![p.to_owned()];
	let sup: Vec<Option<Vec<usize>>> = vec![None];
	let world = World::build(set, from, to, &names);
	let typed = mapmodel::cls(p).unwrap_or_else(fail("class name"));
	let mut queries: Vec<Query> = Vec::new();
	for (i, count) in PARAM_COUNTS.iter().enumerate() {
		for all in [false, true] {
			let d = many_params(*count, all, p, k);
			if in_domain(TKind::Method, &d) && in_domain_only {
				queries.push(Query::new(MKind::Method, &if from == 0 { "m".to_owned() } else { format!("m{i}{}_1", if all { "p" } else { "x" }) }, &d, &fwd));
			}
		}
	}
	for (i, bytes) in NAME_BYTES.iter().enumerate() {
		for two in [false, true] {
			let plain = long_plain(i, two);
			let (n, f) = if from == 0 { (long_name(*bytes, two), long_name(*bytes, two)) } else { (plain.clone(), format!("f{plain}")) };
			if in_domain(TKind::Field, &format!("L{};", long_name(*bytes, two))) && in_domain_only {
				queries.push(Query::new(MKind::Field, &f, &format!("L{n};"), &fwd));
			}
		}
	}
	for qu in &queries {
		let real = real_member(&rb, &typed, qu, &mut evals);
		// (the case text carries the whole mapping set: about a megabyte, only rendered for a difference)
		let case = CaseText { engine: "member", n: 2, from, to, set, names: &world.names, sup: &sup, owner: p, q: qu };
		if let Some(Ans::Found { .. }) = judge_member(ctx, &world, &sup, 0, qu, &real, &case) {
			ta.add("long:sizes:member-found");
		}
	}
	st.evaluations += evals;
	obs
}

fn show_short(r: &super::desc::Real) -> String {
	match r {
		Ok(Ok(o)) => format!("Ok({} bytes, hash {:016x})", o.len(), vcore::hash64(o)),
		Ok(Err(e)) => format!("Err({})", e.chars().take(80).collect::<String>()),
		Err(p) => format!("panic at {}", p.site),
	}
}

fn run_sizes(ctx: &'static Ctx) -> Stats {
	(0..4usize).into_par_iter().fold(Stats::new, |mut st, job| {
		let (in_domain_only, from) = (job / 2 == 0, job % 2);
		vcore::watched(|| format!("long sizes in-domain {in_domain_only} from {from}"), || {
			let set = sizes_set(in_domain_only);
			let q: Mappings<2, ()> = mapmodel::to_quill(&set).unwrap_or_else(fail("long generator"));
			let mut ta = Tally::default();
			run_sizes_dir(ctx, &set, &q, in_domain_only, from, None, &mut st, &mut ta);
			ta.flush(&mut st);
		});
		st
	}).reduce(Stats::new, Stats::merge)
}

pub fn replay_case(ctx: &Ctx, head: &BTreeMap<String, String>, st: &mut Stats) -> String {
	let get = |k: &str| head.get(k).cloned().unwrap_or_else(|| vcore::machinery_fail(&format!("replay: no {k} line")));
	let from: usize = get("from").parse().unwrap_or_else(|_| vcore::machinery_fail("replay: bad number"));
	let kind = TKind::from_label(&get("kind")).unwrap_or_else(|| vcore::machinery_fail("replay: bad kind"));
	let in_domain_only = get("set") == "in-domain";
	let set = sizes_set(in_domain_only);
	let q: Mappings<2, ()> = mapmodel::to_quill(&set).unwrap_or_else(fail("long generator"));
	let mut ta = Tally::default();
	run_sizes_dir(ctx, &set, &q, in_domain_only, from, Some((&get("case"), kind)), st, &mut ta)
}

pub fn run(ctx: &'static Ctx) -> (Stats, Value) {
	let t0 = ctx.elapsed_s();
	let a = run_offsets(ctx);
	let t1 = ctx.elapsed_s();
	let b = run_sizes(ctx);
	let t2 = ctx.elapsed_s();
	let bounds = json!({
		"offsets_prefix_lengths": format!("0..={MAX_PREFIX}"), "offsets_last_characters": LAST_CHARS.iter().map(|c| format!("{c} ({} bytes)", c.len_utf8())).collect::<Vec<_>>(),
		"offsets_accepting_forms": ["<name>", "L<name>;", "[L<name>;", "[[L<name>;", "(L<name>;)L<name>;", "(IL<name>;[L<name>;)V"],
		"offsets_refusing_forms": ["L<name>", "L<name>;L;", "[L<name>", "(L<name>", "(L<name>;L;)V", "(L<name>;)L", "(L;L<name>;)V", "L;<name>"],
		"offsets_members": "one class with 564 fields named like the 564 classes; every field looked up; refused descriptors as descriptor of a field and a method query",
		"parameter_counts": PARAM_COUNTS, "parameter_mixes": ["LP; I [LK; Ljava/lang/Object; repeated", "LP; only"],
		"name_bytes": NAME_BYTES, "name_characters": ["ASCII", "two-byte"],
		"domain": "≤ 255 parameter slots and ≤ 65535 bytes per name/descriptor: a right answer is demanded; beyond: Err or a right answer",
		"sets": ["only what a class file can hold (must be accepted)", "everything (may be refused when the remapper is built)"],
		"directions": [[0, 1], [1, 0]],
		"evaluations": {"offsets": a.evaluations, "sizes": b.evaluations}, "wall_s": {"offsets": t1 - t0, "sizes": t2 - t1},
	});
	(a.merge(b), bounds)
}
