//! Engines "inherit" and "table": fields and methods through the real BRemapper methods.

use std::cell::Cell;
use std::collections::BTreeMap;
use std::sync::OnceLock;
use anyhow::Result;
use indexmap::{IndexMap, IndexSet};
use duke::tree::class::{ClassName, ObjClassName, ObjClassNameSlice};
use duke::tree::field::{FieldDescriptor, FieldName, FieldRef};
use duke::tree::method::{MethodDescriptor, MethodName, MethodNameAndDesc, MethodRef, MethodRefObj};
use mapmodel::{MClass, MField, MMethod, MSet, Row};
use quill::remapper::{ARemapper, BRemapper, JarSuperProv, SuperClassProvider};
use quill::tree::mappings::Mappings;
use quill::tree::names::Namespace;
use rayon::prelude::*;
use vcore::{json, Ctx, Panic, Stats, Value};
use super::desc::Cel;
use super::gram::CMap;
use super::world::{Ans, MKind, Sup, World};
use super::{case_header, case_mappings, Tally, NS};

fn ns<const N: usize>(i: usize) -> Namespace<N> {
	Namespace::new(i).unwrap_or_else(|e| vcore::machinery_fail(&format!("namespace {i}: {e}")))
}

fn fail<T>(what: &str) -> impl FnOnce(anyhow::Error) -> T + '_ {
	move |e| vcore::machinery_fail(&format!("{what}: {e:#}"))
}

// ---------------------------------------------------------------------------------------------
// queries and real calls

/// one (member name, member descriptor) question, typed for the real API
pub struct Query {
	pub kind: MKind,
	pub name: String,
	pub desc: String,
	/// acceptable rewritings of `desc` (None: not a descriptor)
	pub exp_desc: Vec<String>,
	fname: Option<FieldName>,
	fdesc: Option<FieldDescriptor>,
	mname: Option<MethodName>,
	mdesc: Option<MethodDescriptor>,
}

impl Query {
	pub fn new(kind: MKind, name: &str, desc: &str, fwd: &CMap) -> Query {
		let exp_desc = fwd.map_all(kind.tkind(), desc).unwrap_or_default();
		let mut q = Query { kind, name: name.to_owned(), desc: desc.to_owned(), exp_desc, fname: None, fdesc: None, mname: None, mdesc: None };
		match kind {
			MKind::Field => {
				q.fname = Some(mapmodel::fname(name).unwrap_or_else(fail("field name")));
				q.fdesc = Some(mapmodel::fdesc(desc).unwrap_or_else(fail("field descriptor")));
			},
			MKind::Method => {
				q.mname = Some(mapmodel::mname(name).unwrap_or_else(fail("method name")));
				q.mdesc = Some(mapmodel::mdesc(desc).unwrap_or_else(fail("method descriptor")));
			},
		}
		q
	}
}

/// the answers of `map_*_fail` and `map_*`
pub struct RealMember {
	pub fail: Option<(Vec<u8>, Vec<u8>)>,
	pub name: Vec<u8>,
	pub desc: Vec<u8>,
}

pub type RealM = std::result::Result<std::result::Result<RealMember, String>, Panic>;

pub fn real_member<R: BRemapper + ?Sized>(r: &R, owner: &ObjClassNameSlice, q: &Query, evals: &mut u64) -> RealM {
	*evals += 2;
	vcore::guard(|| -> std::result::Result<RealMember, String> {
		let e = |e: anyhow::Error| format!("{e:#}");
		match q.kind {
			MKind::Field => {
				let (n, d) = (q.fname.as_ref().unwrap(), q.fdesc.as_ref().unwrap());
				let a = r.map_field_fail(owner, n, d).map_err(e)?;
				let b = r.map_field(owner, n, d).map_err(e)?;
				Ok(RealMember {
					fail: a.map(|a| (a.name.as_inner().as_bytes().to_vec(), a.desc.as_inner().as_bytes().to_vec())),
					name: b.name.as_inner().as_bytes().to_vec(),
					desc: b.desc.as_inner().as_bytes().to_vec(),
				})
			},
			MKind::Method => {
				let (n, d) = (q.mname.as_ref().unwrap(), q.mdesc.as_ref().unwrap());
				let a = r.map_method_fail(owner, n, d).map_err(e)?;
				let b = r.map_method(owner, n, d).map_err(e)?;
				Ok(RealMember {
					fail: a.map(|a| (a.name.as_inner().as_bytes().to_vec(), a.desc.as_inner().as_bytes().to_vec())),
					name: b.name.as_inner().as_bytes().to_vec(),
					desc: b.desc.as_inner().as_bytes().to_vec(),
				})
			},
		}
	})
}

fn lossy(b: &[u8]) -> String {
	String::from_utf8_lossy(b).into_owned()
}

pub fn render_supers(names: &[String], sup: &Sup) -> String {
	let mut s = String::new();
	for (i, n) in names.iter().enumerate() {
		match sup.get(i) {
			Some(Some(v)) => {
				s.push_str(&format!("super {n} ="));
				for x in v {
					s.push(' ');
					s.push_str(&names[*x]);
				}
				s.push('\n');
			},
			_ => s.push_str(&format!("super {n} unknown\n")),
		}
	}
	s
}

pub struct CaseText<'a> {
	pub engine: &'a str,
	pub n: usize,
	pub from: usize,
	pub to: usize,
	pub set: &'a MSet,
	pub names: &'a [String],
	pub sup: &'a Sup,
	pub owner: &'a str,
	pub q: &'a Query,
}

impl CaseText<'_> {
	pub fn render(&self) -> String {
		format!(
			"{}{}owner={}\nkind={}\nname={}\ndesc={}\n{}",
			case_header(self.engine, self.n, self.from, self.to),
			render_supers(self.names, self.sup),
			self.owner,
			self.q.kind.label(),
			self.q.name,
			self.q.desc,
			case_mappings(self.set)
		)
	}
}

/// Is the real answer one the statement allows? Reports the difference if not. Returns the accepted
/// answer it matched.
pub fn judge_member(ctx: &Ctx, world: &World, sup: &Sup, owner: usize, q: &Query, real: &RealM, case: &CaseText) -> Option<Ans> {
	let r = match real {
		Err(p) => {
			ctx.diff(&format!("panic@{}", p.file()), &format!("mapping {} {:?} {:?} of {:?} panicked at {}: {}", q.kind.label(), q.name, q.desc, case.owner, p.site, p.msg), || case.render());
			return None;
		},
		Ok(Err(e)) => {
			if q.exp_desc.is_empty() {
				return None; // the queried descriptor is outside the grammar: refusing is fine
			}
			ctx.diff("member:valid-query-refused", &format!("mapping {} {:?} {:?} of {:?} failed: {e}", q.kind.label(), q.name, q.desc, case.owner), || case.render());
			return None;
		},
		Ok(Ok(r)) => r,
	};
	if world.ambiguous || q.exp_desc.is_empty() {
		return None;
	}
	// the two variants of the real API must tell the same story
	let coherent = match &r.fail {
		Some((n, d)) => *n == r.name && *d == r.desc,
		None => r.name == q.name.as_bytes(),
	};
	if !coherent {
		ctx.diff("member:fail-variant-disagrees", &format!("map_{k}_fail answered {:?} but map_{k} answered {:?} {:?}", r.fail.as_ref().map(|(n, d)| (lossy(n), lossy(d))), lossy(&r.name), lossy(&r.desc), k = q.kind.label()), || case.render());
		return None;
	}
	let acc = world.accepted(sup, owner, q.kind, &q.name, &q.desc);
	if let Some(a) = acc.iter().find(|a| world.matches(a, &q.name, &q.exp_desc, &r.name, &r.desc)) {
		return Some(*a);
	}
	// a difference: name or descriptor?
	let names: Vec<&str> = acc.iter().map(|a| world.name_of(a, &q.name)).collect();
	let got = (lossy(&r.name), lossy(&r.desc));
	let key = if names.iter().any(|n| n.as_bytes() == r.name) {
		"member:wrong-descriptor".to_owned()
	} else if r.name == q.name.as_bytes() {
		// left unchanged although a declaring super type exists
		world.blocking(sup, owner, &acc[0]).unwrap_or("member:inherited-name-not-applied").to_owned()
	} else if matches!(acc[0], Ans::Fallback) {
		"member:renamed-without-declaring-type".to_owned()
	} else {
		"member:wrong-name".to_owned()
	};
	ctx.diff(&key, &format!("{} {:?} {:?} of {:?} was answered {:?} {:?}; the statement allows the name(s) {:?} with descriptor {:?}", q.kind.label(), q.name, q.desc, case.owner, got.0, got.1, names, q.exp_desc), || case.render());
	None
}

// ---------------------------------------------------------------------------------------------
// super-type graphs

/// option 0 = known without super types, 1.. = ordered lists of one or two other classes, `UNKNOWN` = the provider has no entry
pub const UNKNOWN: u8 = 255;

pub struct DagSet {
	/// per class the ordered super lists it may have (index = option)
	pub opts: [Vec<Vec<usize>>; 4],
	/// every acyclic assignment, simplest first; without / with the "unknown" option
	pub known_only: Vec<[u8; 4]>,
	pub all: Vec<[u8; 4]>,
}

impl DagSet {
	pub fn get() -> &'static DagSet {
		static S: OnceLock<DagSet> = OnceLock::new();
		S.get_or_init(|| {
			let opts: [Vec<Vec<usize>>; 4] = std::array::from_fn(|i| {
				let others: Vec<usize> = (0..4).filter(|j| *j != i).collect();
				let mut v = vec![vec![]];
				for &a in &others {
					v.push(vec![a]);
				}
				for &a in &others {
					for &b in &others {
						if a != b {
							v.push(vec![a, b]);
						}
					}
				}
				v
			});
			let mut all = Vec::new();
			let mut known_only = Vec::new();
			let k = opts[0].len() + 1;
			for idx in 0..(k as u64).pow(4) {
				let pick = vcore::enumerate::product_nth(&[k; 4], idx);
				let g: [u8; 4] = std::array::from_fn(|i| if pick[i] == k - 1 { UNKNOWN } else { pick[i] as u8 });
				let sup = Self::sup_of(&opts, &g);
				if acyclic(&sup) {
					if !g.contains(&UNKNOWN) {
						known_only.push(g);
					}
					all.push(g);
				}
			}
			DagSet { opts, known_only, all }
		})
	}

	fn sup_of(opts: &[Vec<Vec<usize>>; 4], g: &[u8; 4]) -> [Option<Vec<usize>>; 4] {
		std::array::from_fn(|i| if g[i] == UNKNOWN { None } else { Some(opts[i][g[i] as usize].clone()) })
	}

	pub fn sup(&self, g: &[u8; 4]) -> [Option<Vec<usize>>; 4] {
		Self::sup_of(&self.opts, g)
	}
}

fn acyclic(sup: &[Option<Vec<usize>>; 4]) -> bool {
	fn go(sup: &[Option<Vec<usize>>; 4], u: usize, state: &mut [u8; 4]) -> bool {
		state[u] = 1;
		for &v in sup[u].as_deref().unwrap_or(&[]) {
			if state[v] == 1 || (state[v] == 0 && !go(sup, v, state)) {
				return false;
			}
		}
		state[u] = 2;
		true
	}
	let mut state = [0u8; 4];
	(0..4).all(|u| state[u] != 0 || go(sup, u, &mut state))
}

/// is some class reachable from `owner` along two different paths?
fn has_diamond(sup: &Sup, owner: usize) -> bool {
	fn count(sup: &Sup, c: usize, hits: &mut [u32; 4]) {
		hits[c] += 1;
		if hits[c] > 8 {
			return;
		}
		if let Some(Some(v)) = sup.get(c) {
			for &x in v {
				count(sup, x, hits);
			}
		}
	}
	let mut hits = [0u32; 4];
	count(sup, owner, &mut hits);
	hits.iter().any(|h| *h >= 2)
}

/// A provider over four named classes whose super lists are switched between cases without
/// rebuilding the remapper (the remapper only holds a reference to its provider).
pub struct SwitchProv {
	names: Vec<ObjClassName>,
	sets: Vec<Vec<IndexSet<ObjClassName>>>,
	sel: Cell<[u8; 4]>,
}

impl SwitchProv {
	pub fn new(names: &[String], dags: &DagSet) -> SwitchProv {
		let typed: Vec<ObjClassName> = names.iter().map(|n| mapmodel::cls(n).unwrap_or_else(fail("class name"))).collect();
		let sets = (0..4).map(|i| dags.opts[i].iter().map(|l| l.iter().map(|x| typed[*x].clone()).collect::<IndexSet<_>>()).collect()).collect();
		SwitchProv { names: typed, sets, sel: Cell::new([0; 4]) }
	}
	pub fn select(&self, g: [u8; 4]) {
		self.sel.set(g);
	}
}

impl SuperClassProvider for SwitchProv {
	fn get_super_classes(&self, class: &ObjClassNameSlice) -> Result<Option<&IndexSet<ObjClassName>>> {
		for (i, n) in self.names.iter().enumerate() {
			if n.as_slice() == class {
				let o = self.sel.get()[i];
				return Ok(if o == UNKNOWN { None } else { Some(&self.sets[i][o as usize]) });
			}
		}
		Ok(None)
	}
}

pub fn jar_prov(names: &[String], sup: &Sup) -> JarSuperProv {
	let mut super_classes = IndexMap::new();
	for (i, n) in names.iter().enumerate() {
		if let Some(Some(v)) = sup.get(i) {
			let set: IndexSet<ObjClassName> = v.iter().map(|x| mapmodel::cls(&names[*x]).unwrap_or_else(fail("class name"))).collect();
			super_classes.insert(mapmodel::cls(n).unwrap_or_else(fail("class name")), set);
		}
	}
	JarSuperProv { super_classes }
}

// ---------------------------------------------------------------------------------------------
// members

pub struct MemberSpec {
	pub kind: MKind,
	pub nm: &'static str,
	pub desc0: &'static str,
	/// short tag used in renamed names of the table engine
	pub tag: &'static str,
}

pub const MEMBERS: [MemberSpec; 4] = [
	MemberSpec { kind: MKind::Method, nm: "m", desc0: "()V", tag: "ma" },
	MemberSpec { kind: MKind::Method, nm: "m", desc0: "(LA;)V", tag: "mb" },
	MemberSpec { kind: MKind::Field, nm: "f", desc0: "I", tag: "fa" },
	MemberSpec { kind: MKind::Field, nm: "f", desc0: "LB;", tag: "fb" },
];

pub const KEYS: [&str; 4] = ["A", "B", "C", "D"];

fn class_cell(k: usize, j: usize, c: Cel) -> Option<String> {
	match c {
		Cel::Absent => None,
		Cel::Diff => Some(format!("{}{}", KEYS[k], j)),
		Cel::Same => Some(KEYS[k].to_owned()),
		Cel::Coll => vcore::machinery_fail("no colliding names in the member engines"),
	}
}

fn insert_member(c: &mut MClass, spec: &MemberSpec, names: Row) {
	let key = (names[0].clone().unwrap(), spec.desc0.to_owned());
	match spec.kind {
		MKind::Field => {
			c.fields.insert(key, MField { names, doc: None });
		},
		MKind::Method => {
			c.methods.insert(key, MMethod { names, doc: None, params: BTreeMap::new() });
		},
	}
}

include!("member_inherit.rs");
include!("member_table.rs");
include!("member_replay.rs");
