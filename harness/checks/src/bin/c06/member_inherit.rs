// (included into member.rs) — engine "inherit"

/// X→Y→X for one member query. `qb` is the forward answer asked back through the opposite remapper
/// (`real_b`), `world_b` the reference model of the opposite direction over the same class indices.
#[allow(clippy::too_many_arguments)]
pub fn judge_member_roundtrip(ctx: &Ctx, ta: &mut Tally, world_b: &World, sup: &Sup, owner: usize, q: &Query, qb: &Query, real_b: &RealM, case: &CaseText) {
	if world_b.ambiguous || qb.exp_desc.is_empty() {
		return;
	}
	let acc = world_b.accepted(sup, owner, qb.kind, &qb.name, &qb.desc);
	if !acc.iter().all(|a| a.same_target(&acc[0])) {
		ta.add("roundtrip:member:identity-not-required");
		return;
	}
	// what the reference says comes back
	let back_name = world_b.name_of(&acc[0], &qb.name);
	let back_descs: Vec<&String> = qb.exp_desc.iter().collect();
	if back_name != q.name || back_descs.iter().any(|d| **d != q.desc) {
		ta.add("roundtrip:member:identity-not-required");
		return;
	}
	ta.add("roundtrip:member:identity-required");
	match real_b {
		Err(p) => ctx.diff(&format!("panic@{}", p.file()), &format!("round trip: mapping {:?} {:?} back panicked at {}: {}", qb.name, qb.desc, p.site, p.msg), || case.render()),
		Ok(Err(e)) => ctx.diff("roundtrip:member:refused", &format!("round trip: mapping {:?} {:?} back failed: {e}", qb.name, qb.desc), || case.render()),
		Ok(Ok(r)) => {
			if r.name != q.name.as_bytes() || r.desc != q.desc.as_bytes() {
				let key = world_b.blocking(sup, owner, &acc[0]).unwrap_or("roundtrip:member:not-identity");
				if ctx.is_known(key) {
					ctx.diff(key, "", String::new);
				} else {
					ctx.diff(key, &format!("round trip: {} {:?} {:?} of {:?} → {:?} {:?} → {:?} {:?}; the mappings name it injectively", q.kind.label(), q.name, q.desc, case.owner, qb.name, qb.desc, lossy(&r.name), lossy(&r.desc)), || case.render());
				}
			}
		},
	}
}

#[derive(Clone, Debug, PartialEq, Eq)]
pub struct ClassCfg {
	/// the class row's cells for namespaces 1..n
	ctail: Vec<Cel>,
	/// the member row's cells for namespaces 1..n (None: the class does not declare the member)
	member: Option<Vec<Cel>>,
}

fn tails(n: usize, from: usize, to: usize, fc: Cel, tc: Cel) -> Vec<Cel> {
	(1..n).map(|j| if j == from { fc } else if j == to { tc } else { Cel::Diff }).collect()
}

#[derive(Clone, Copy, PartialEq, Eq, Debug)]
enum Level {
	Small,
	Mid,
	Full,
}

/// what one class can be: absent, or a class row variant × (member undeclared | member row variant)
fn alphabet(n: usize, from: usize, to: usize, level: Level) -> Vec<Option<ClassCfg>> {
	use Cel::{Absent as A, Diff as D, Same as S};
	type T = ((Cel, Cel), Option<(Cel, Cel)>);
	let mut t: Vec<T> = vec![((D, D), None), ((D, D), Some((D, D))), ((D, A), Some((D, D))), ((D, D), Some((D, A)))];
	if level != Level::Small {
		t.extend([((D, A), None), ((S, S), Some((D, D))), ((A, D), Some((D, D))), ((D, D), Some((A, D)))]);
	}
	if level == Level::Full {
		t.clear();
		for cf in [A, D, S] {
			for ct in [A, D, S] {
				t.push(((cf, ct), None));
				for mf in [A, D, S] {
					for mt in [A, D, S] {
						t.push(((cf, ct), Some((mf, mt))));
					}
				}
			}
		}
	}
	let mut out: Vec<Option<ClassCfg>> = vec![None];
	for ((cf, ct), m) in t {
		let c = Some(ClassCfg { ctail: tails(n, from, to, cf, ct), member: m.map(|(mf, mt)| tails(n, from, to, mf, mt)) });
		if !out.contains(&c) {
			out.push(c);
		}
	}
	out
}

fn inherit_set(n: usize, from: usize, cfg: &[Option<ClassCfg>], spec: &MemberSpec) -> MSet {
	let mut set = MSet::new(&NS[..n]);
	for (k, c) in cfg.iter().enumerate() {
		let Some(c) = c else { continue };
		let mut names = vec![Some(KEYS[k].to_owned())];
		for (i, cel) in c.ctail.iter().enumerate() {
			names.push(class_cell(k, i + 1, *cel));
		}
		let mut mc = MClass { names, ..Default::default() };
		if let Some(mt) = &c.member {
			// the name in `from` is shared by all classes (an inherited member has one name there);
			// the names in the other namespaces tell the declaring classes apart
			let name0 = if from == 0 { spec.nm.to_owned() } else { format!("{}{}0", spec.nm, KEYS[k]) };
			let mut row = vec![Some(name0.clone())];
			for (i, cel) in mt.iter().enumerate() {
				let j = i + 1;
				row.push(match cel {
					Cel::Absent => None,
					Cel::Same => Some(name0.clone()),
					_ => Some(if j == from { format!("{}{}", spec.nm, j) } else { format!("{}{}{}", spec.nm, KEYS[k], j) }),
				});
			}
			insert_member(&mut mc, spec, row);
		}
		set.classes.insert(KEYS[k].to_owned(), mc);
	}
	set
}

struct Plan {
	label: String,
	n: usize,
	from: usize,
	to: usize,
	level: Level,
	opts: Vec<Option<ClassCfg>>,
	with_unknown: bool,
	primary: usize,
}

impl Plan {
	fn new(n: usize, from: usize, to: usize, level: Level, with_unknown: bool, primary: usize) -> Plan {
		Plan { label: format!("n={n} {from}->{to} {level:?} unknown={with_unknown} member={}{}", MEMBERS[primary].nm, MEMBERS[primary].desc0), n, from, to, level, opts: alphabet(n, from, to, level), with_unknown, primary }
	}
	fn configs(&self) -> u64 {
		(self.opts.len() as u64).pow(4)
	}
}

fn plans(ctx: &Ctx) -> Vec<Plan> {
	let mut v = Vec::new();
	// members 1 (method with a class in its descriptor) and 3 (field of class type): the descriptor
	// keys depend on the class rows; members 0 and 2 are their class-free counterparts
	if ctx.quick() {
		for primary in [1, 3] {
			v.push(Plan::new(2, 0, 1, Level::Mid, true, primary));
			v.push(Plan::new(2, 1, 0, Level::Small, true, primary));
		}
		v.push(Plan::new(2, 0, 1, Level::Small, true, 0));
		v.push(Plan::new(2, 0, 1, Level::Small, true, 2));
		v.push(Plan::new(3, 1, 2, Level::Small, false, 1));
		v.push(Plan::new(3, 2, 1, Level::Small, false, 3));
		v.push(Plan::new(3, 0, 2, Level::Small, false, 3));
		v.push(Plan::new(3, 2, 0, Level::Small, false, 1));
	} else {
		for primary in [1, 3] {
			v.push(Plan::new(2, 0, 1, Level::Full, false, primary));
			v.push(Plan::new(2, 0, 1, Level::Mid, true, primary));
			v.push(Plan::new(2, 1, 0, Level::Full, false, primary));
			v.push(Plan::new(2, 1, 0, Level::Mid, true, primary));
			for (f, t) in [(1, 2), (2, 1), (0, 2), (2, 0)] {
				v.push(Plan::new(3, f, t, Level::Mid, false, primary));
				v.push(Plan::new(3, f, t, Level::Small, true, primary));
			}
		}
		for primary in [0, 2] {
			v.push(Plan::new(2, 0, 1, Level::Mid, true, primary));
			v.push(Plan::new(2, 1, 0, Level::Small, true, primary));
		}
	}
	v
}

struct DagTable {
	graphs: Vec<[u8; 4]>,
	sups: Vec<[Option<Vec<usize>>; 4]>,
	diamond: Vec<[bool; 4]>,
}

fn dag_table(with_unknown: bool) -> &'static DagTable {
	static A: OnceLock<DagTable> = OnceLock::new();
	static B: OnceLock<DagTable> = OnceLock::new();
	let mk = |with_unknown: bool| {
		let d = DagSet::get();
		let graphs = if with_unknown { d.all.clone() } else { d.known_only.clone() };
		let sups: Vec<_> = graphs.iter().map(|g| d.sup(g)).collect();
		let diamond = sups.iter().map(|s| std::array::from_fn(|o| has_diamond(s, o))).collect();
		DagTable { graphs, sups, diamond }
	};
	if with_unknown { A.get_or_init(|| mk(true)) } else { B.get_or_init(|| mk(false)) }
}

fn run_cfg<const N: usize>(ctx: &Ctx, plan: &Plan, idx: u64) -> Stats {
	let mut st = Stats::new();
	let mut ta = Tally::default();
	let k = plan.opts.len();
	let pick = vcore::enumerate::product_nth(&[k; 4], idx);
	let cfg: Vec<Option<ClassCfg>> = pick.iter().map(|p| plan.opts[*p].clone()).collect();
	let spec = &MEMBERS[plan.primary];
	let (n, from, to) = (plan.n, plan.from, plan.to);
	let set = inherit_set(n, from, &cfg, spec);
	let q: Mappings<N, ()> = mapmodel::to_quill(&set).unwrap_or_else(fail("generator"));
	let dags = DagSet::get();
	let table = dag_table(plan.with_unknown);
	let fwd = CMap::build(&set, from, to);
	let jar: Vec<String> = (0..4).map(|i| set.classes.get(KEYS[i]).and_then(|c| c.names[from].clone()).unwrap_or_else(|| KEYS[i].to_owned())).collect();
	let jar_typed: Vec<ObjClassName> = jar.iter().map(|n| mapmodel::cls(n).unwrap_or_else(fail("class name"))).collect();
	let header = || format!("{}{}", case_header("member", n, from, to), case_mappings(&set));
	let prov_f = SwitchProv::new(&jar, dags);
	let rb = match vcore::guard(|| q.remapper_b(ns(from), ns(to), &prov_f)) {
		Ok(Ok(r)) => r,
		Ok(Err(e)) => {
			ctx.diff("build:refused", &format!("building the remapper failed: {e:#}"), header);
			return st;
		},
		Err(p) => {
			ctx.diff(&format!("panic@{}", p.file()), &format!("building the remapper panicked at {}: {}", p.site, p.msg), header);
			return st;
		},
	};
	let world = World::build(&set, from, to, &jar);
	if world.ambiguous || world.names.len() != 4 {
		vcore::machinery_fail("inherit generator produced an ambiguous world");
	}
	// queries: the member, the member's name with another descriptor, another name with the member's descriptor
	let zero_from = CMap::build(&set, 0, from);
	let desc_from = zero_from.map_one(spec.kind.tkind(), spec.desc0).unwrap_or_else(|| vcore::machinery_fail("descriptor in from"));
	let common = if from == 0 { spec.nm.to_owned() } else { format!("{}{}", spec.nm, from) };
	let other_desc = match (spec.kind, spec.desc0) {
		(MKind::Method, "()V") => "(I)V",
		(MKind::Method, _) => "()V",
		(MKind::Field, "I") => "J",
		(MKind::Field, _) => "I",
	};
	let queries = [Query::new(spec.kind, &common, &desc_from, &fwd), Query::new(spec.kind, &common, other_desc, &fwd), Query::new(spec.kind, "zz", &desc_from, &fwd)];
	// the opposite direction over the same class indices
	let to_names: Vec<Vec<String>> = jar.iter().map(|n| fwd.cands(n)).collect();
	let distinct_to = to_names.iter().all(|c| c.len() == 1) && (0..4).all(|i| (0..i).all(|j| to_names[i][0] != to_names[j][0]));
	let to_jar: Vec<String> = to_names.iter().map(|c| c[0].clone()).collect();
	let to_typed: Vec<ObjClassName> = to_jar.iter().map(|n| mapmodel::cls(n).unwrap_or_else(fail("class name"))).collect();
	let prov_b = SwitchProv::new(&to_jar, dags);
	let back = if distinct_to {
		match vcore::guard(|| q.remapper_b(ns(to), ns(from), &prov_b)) {
			Ok(Ok(r)) => Some((r, World::build(&set, to, from, &to_jar), CMap::build(&set, to, from))),
			_ => {
				ctx.diff("build:refused", "building the opposite remapper failed or panicked", header);
				None
			},
		}
	} else {
		None
	};
	let mut back_queries: Vec<Query> = Vec::new();
	let mut evals = 0u64;

	for (gi, g) in table.graphs.iter().enumerate() {
		prov_f.select(*g);
		prov_b.select(*g);
		let sup = &table.sups[gi];
		for owner in 0..4 {
			for (qi, qu) in queries.iter().enumerate() {
				let real = real_member(&rb, &jar_typed[owner], qu, &mut evals);
				let acc = world.accepted(sup, owner, qu.kind, &qu.name, &qu.desc);
				let fast = match &real {
					Ok(Ok(r)) => {
						let coherent = match &r.fail {
							Some((nm, d)) => *nm == r.name && *d == r.desc,
							None => r.name == qu.name.as_bytes(),
						};
						if coherent { acc.iter().find(|a| world.matches(a, &qu.name, &qu.exp_desc, &r.name, &r.desc)).copied() } else { None }
					},
					_ => None,
				};
				let case = CaseText { engine: "member", n, from, to, set: &set, names: &world.names, sup, owner: &jar[owner], q: qu };
				let matched = match fast {
					Some(a) => Some(a),
					None => {
						// known differences are counted without rendering anything
						let quick_key = match &real {
							Ok(Ok(r)) if r.name == qu.name.as_bytes() => world.blocking(sup, owner, &acc[0]).filter(|k| ctx.is_known(k)),
							_ => None,
						};
						match quick_key {
							Some(k) => {
								ctx.diff(k, "", String::new);
								ta.add("inherit:known-difference");
								None
							},
							None => judge_member(ctx, &world, sup, owner, qu, &real, &case),
						}
					},
				};
				let Some(a) = matched else { continue };
				if qi != 0 {
					ta.add(if matches!(a, Ans::Fallback) { "inherit:other-member-unchanged" } else { "inherit:other-member-renamed" });
					continue;
				}
				if from != 0 {
					ta.add("inherit:from-not-first");
				}
				if sup[owner].is_none() {
					ta.add("inherit:owner-unknown-to-provider");
				}
				if !acc[0].same_target(&acc[2]) {
					ta.add("inherit:dfs-bfs-differ");
				}
				if !acc[0].same_target(&acc[1]) {
					ta.add("inherit:entry-without-target-name-on-the-way");
				}
				match a {
					Ans::Fallback => ta.add("inherit:fallback"),
					Ans::Found { class, .. } if class == owner => ta.add("inherit:found-in-owner"),
					Ans::Found { class, .. } => {
						let d = world.distance(sup, owner, class).unwrap_or(0);
						ta.add("inherit:found-in-super");
						if d >= 2 {
							ta.add("inherit:found-at-distance>=2");
						}
						if d >= 3 {
							ta.add("inherit:found-at-distance>=3");
						}
						st.distinct.add(&(plan.with_unknown, g, owner, class));
						if table.diamond[gi][owner] && acc[0].same_target(&acc[2]) {
							let rev = world.primary_reversed(sup, owner, qu.kind, &qu.name, &qu.desc);
							if world.name_of(&rev, &qu.name) != world.name_of(&acc[0], &qu.name) {
								ta.add("inherit:diamond-declaration-order-decides");
								st.sample("inherit-diamond", || json!({"engine": "inherit", "namespaces": n, "from": from, "to": to, "supers": render_supers(&world.names, sup), "owner": jar[owner], "member": [qu.name, qu.desc], "answer": [lossy(match &real { Ok(Ok(r)) => &r.name, _ => &[] })], "mappings": mapmodel::tiny::print(&set)}));
							}
						}
						if d >= 3 {
							st.sample("inherit-depth3", || json!({"engine": "inherit", "namespaces": n, "from": from, "to": to, "supers": render_supers(&world.names, sup), "owner": jar[owner], "member": [qu.name, qu.desc], "answer": [lossy(match &real { Ok(Ok(r)) => &r.name, _ => &[] })], "mappings": mapmodel::tiny::print(&set)}));
						}
					},
				}
				// X→Y→X
				let Some((rbb, world_b, bwd)) = &back else { continue };
				if !acc.iter().all(|x| x.same_target(&acc[0])) {
					continue;
				}
				let Ok(Ok(r)) = &real else { continue };
				let (bn, bd) = (lossy(&r.name), lossy(&r.desc));
				let bi = match back_queries.iter().position(|b| b.name == bn && b.desc == bd) {
					Some(i) => i,
					None => {
						back_queries.push(Query::new(qu.kind, &bn, &bd, bwd));
						back_queries.len() - 1
					},
				};
				let qb = &back_queries[bi];
				let real_b = real_member(rbb, &to_typed[owner], qb, &mut evals);
				let case = CaseText { engine: "member-roundtrip", ..case };
				judge_member_roundtrip(ctx, &mut ta, world_b, sup, owner, qu, qb, &real_b, &case);
			}
		}
	}
	st.evaluations += evals;
	ta.flush(&mut st);
	st
}

pub fn run_inherit(ctx: &'static Ctx) -> (Stats, Value) {
	let plans = plans(ctx);
	let mut total = Stats::new();
	let mut bounds = Vec::new();
	for plan in &plans {
		let table = dag_table(plan.with_unknown);
		let t0 = ctx.elapsed_s();
		let st = (0..plan.configs()).into_par_iter().fold(Stats::new, |st, idx| {
			let s = vcore::watched(|| format!("inherit plan {} config {idx}", plan.label), || with_n!(plan.n, run_cfg, ctx, plan, idx));
			st.merge(s)
		}).reduce(Stats::new, Stats::merge);
		bounds.push(json!({
			"namespaces": plan.n, "from": plan.from, "to": plan.to, "member": format!("{}{}{}", MEMBERS[plan.primary].nm, if MEMBERS[plan.primary].kind == MKind::Field { ":" } else { "" }, MEMBERS[plan.primary].desc0),
			"per_class_options": plan.opts.len(), "alphabet": format!("{:?}", plan.level), "configurations": plan.configs(),
			"super_type_graphs": table.graphs.len(), "graphs_include_classes_unknown_to_provider": plan.with_unknown,
			"owners": 4, "queries_per_owner": 3, "evaluations": st.evaluations, "wall_s": ctx.elapsed_s() - t0,
		}));
		total = total.merge(st);
	}
	let b = json!({
		"classes": KEYS,
		"super_lists": "every acyclic assignment of an ordered list of ≤ 2 other classes (or 'unknown to the provider') to each of the 4 classes",
		"graphs_known_only": dag_table(false).graphs.len(), "graphs_with_unknown": dag_table(true).graphs.len(),
		"class_states": "absent, or a row whose cells in `from` / `to` are: renamed, same as first namespace, without a name",
		"member_states": "undeclared, or an entry whose cells in `from` / `to` are: renamed (per declaring class in `to`), same as first namespace, without a name",
		"plans": bounds,
	});
	(total, b)
}
