// (included into member.rs) — replay of one member case through the same oracle

pub fn replay_case(ctx: &Ctx, head: &BTreeMap<String, String>, supers: &[String], set: &MSet, st: &mut Stats) -> String {
	with_n!(set.n(), replay_member_n, ctx, head, supers, set, st)
}

fn replay_member_n<const N: usize>(ctx: &Ctx, head: &BTreeMap<String, String>, supers: &[String], set: &MSet, st: &mut Stats) -> String {
	let get = |k: &str| head.get(k).cloned().unwrap_or_else(|| vcore::machinery_fail(&format!("replay: no {k} line")));
	let num = |k: &str| -> usize { get(k).parse().unwrap_or_else(|_| vcore::machinery_fail("replay: bad number")) };
	let (from, to) = (num("from"), num("to"));
	let kind = match get("kind").as_str() {
		"field" => MKind::Field,
		"method" => MKind::Method,
		_ => vcore::machinery_fail("replay: bad kind"),
	};
	let owner_name = get("owner");
	let (names, mut sup) = parse_supers(supers, Some(&owner_name));
	let world = World::build(set, from, to, &names);
	sup.resize(world.names.len(), None);
	let owner = world.index_of(&owner_name).unwrap();
	let fwd = CMap::build(set, from, to);
	let bwd = CMap::build(set, to, from);
	// sets of the "confuse" engine are handed to the real code in reversed order
	let order = if get("engine").ends_with("reversed") { mapmodel::Order::Reversed } else { mapmodel::Order::Sorted };
	let q: Mappings<N, ()> = mapmodel::to_quill_ordered(set, order).unwrap_or_else(fail("replay"));
	// one jar, or (engine "env") the classes distributed over several jars as the case says
	let prov: Vec<JarSuperProv> = match head.get("jar_of") {
		None => vec![jar_prov(&world.names, &sup)],
		Some(j) => {
			let jar_of: Vec<usize> = j.trim_matches(['[', ']']).split(',').map(|x| x.trim().parse().unwrap_or_else(|_| vcore::machinery_fail("replay: bad jar_of"))).collect();
			let jars: usize = num("jars");
			(0..jars).map(|k| {
				let masked: Vec<Option<Vec<usize>>> = sup.iter().enumerate().map(|(i, s)| if jar_of.get(i) == Some(&k) { s.clone() } else { None }).collect();
				jar_prov(&world.names, &masked)
			}).collect()
		},
	};
	let rb = q.remapper_b(ns(from), ns(to), &prov).unwrap_or_else(fail("replay: remapper_b"));
	let qu = Query::new(kind, &get("name"), &get("desc"), &fwd);
	let mut evals = 0;
	let typed_owner = mapmodel::cls(&owner_name).unwrap_or_else(fail("owner"));
	let real = real_member(&rb, &typed_owner, &qu, &mut evals);
	let case = CaseText { engine: "member", n: N, from, to, set, names: &world.names, sup: &sup, owner: &owner_name, q: &qu };
	let acc = world.accepted(&sup, owner, kind, &qu.name, &qu.desc);
	println!("reference (depth-first/skip, depth-first/stop, nearest-first/skip, nearest-first/stop): {:?}", acc.iter().map(|a| world.name_of(a, &qu.name)).collect::<Vec<_>>());
	let matched = judge_member(ctx, &world, &sup, owner, &qu, &real, &case);
	let show = |r: &RealM| match r {
		Ok(Ok(r)) => format!("fail={:?} name={:?} desc={:?}", r.fail.as_ref().map(|(a, b)| (lossy(a), lossy(b))), lossy(&r.name), lossy(&r.desc)),
		Ok(Err(e)) => format!("Err({e})"),
		Err(p) => format!("panic {p:?}"),
	};
	let mut obs = show(&real);
	// X→Y→X with the provider renamed by the reference class map
	if let (Some(_), Ok(Ok(r))) = (matched, &real) {
		let to_names: Vec<Vec<String>> = world.names.iter().map(|x| fwd.cands(x)).collect();
		let distinct_to = to_names.iter().all(|c| c.len() == 1) && (0..to_names.len()).all(|i| (0..i).all(|j| to_names[i][0] != to_names[j][0]));
		if distinct_to && acc.iter().all(|x| x.same_target(&acc[0])) {
			let to_jar: Vec<String> = to_names.iter().map(|c| c[0].clone()).collect();
			let prov_b = jar_prov(&to_jar, &sup);
			let rbb = q.remapper_b(ns(to), ns(from), &prov_b).unwrap_or_else(fail("replay: opposite remapper_b"));
			let world_b = World::build(set, to, from, &to_jar);
			let qb = Query::new(kind, &lossy(&r.name), &lossy(&r.desc), &bwd);
			let real_b = real_member(&rbb, &mapmodel::cls(&to_jar[owner]).unwrap_or_else(fail("owner")), &qb, &mut evals);
			let mut ta = Tally::default();
			let case = CaseText { engine: "member-roundtrip", ..case };
			judge_member_roundtrip(ctx, &mut ta, &world_b, &sup, owner, &qu, &qb, &real_b, &case);
			obs.push_str(&format!(" back: {} ({:?})", show(&real_b), ta.0));
		}
	}
	st.evaluations += evals;
	obs
}

/// class names in the order of the `super` lines (then the classes only mentioned as super types, then the owner) and the super lists
pub fn parse_supers(supers: &[String], owner: Option<&str>) -> (Vec<String>, Vec<Option<Vec<usize>>>) {
	let mut names: Vec<String> = Vec::new();
	let mut parsed: Vec<(String, Option<Vec<String>>)> = Vec::new();
	for l in supers {
		if let Some(n) = l.strip_suffix(" unknown") {
			parsed.push((n.to_owned(), None));
		} else if let Some((n, rest)) = l.split_once(" =") {
			parsed.push((n.to_owned(), Some(rest.split_whitespace().map(|s| s.to_owned()).collect())));
		} else {
			vcore::machinery_fail("replay: bad super line");
		}
	}
	for (n, _) in &parsed {
		if !names.contains(n) {
			names.push(n.clone());
		}
	}
	for (_, l) in &parsed {
		for x in l.iter().flatten() {
			if !names.contains(x) {
				names.push(x.clone());
			}
		}
	}
	if let Some(o) = owner {
		if !names.iter().any(|n| n == o) {
			names.push(o.to_owned());
		}
	}
	let mut sup: Vec<Option<Vec<usize>>> = vec![None; names.len()];
	for (n, l) in &parsed {
		let i = names.iter().position(|x| x == n).unwrap();
		sup[i] = l.as_ref().map(|v| v.iter().map(|x| names.iter().position(|y| y == x).unwrap()).collect());
	}
	(names, sup)
}
