// (included into member.rs) — engine "table"

#[derive(Clone, Debug)]
struct TableA {
	ctail: Vec<Cel>,
	/// (member index, cells for namespaces 1..n)
	members: Vec<(usize, Vec<Cel>)>,
}

fn cell_rows(n: usize) -> Vec<Vec<Cel>> {
	let mut rows: Vec<Vec<Cel>> = vec![vec![]];
	for _ in 1..n {
		let mut next = Vec::new();
		for r in &rows {
			for o in [Cel::Absent, Cel::Diff, Cel::Same] {
				let mut r2 = r.clone();
				r2.push(o);
				next.push(r2);
			}
		}
		rows = next;
	}
	rows
}

/// class A: absent, or every class row × every subset of ≤ 2 of the four members × every member row
fn table_a_options(n: usize) -> Vec<Option<TableA>> {
	let rows = cell_rows(n);
	let mut subsets: Vec<Vec<(usize, Vec<Cel>)>> = vec![vec![]];
	for a in 0..4 {
		for ra in &rows {
			subsets.push(vec![(a, ra.clone())]);
		}
	}
	for a in 0..4 {
		for b in a + 1..4 {
			for ra in &rows {
				for rb in &rows {
					subsets.push(vec![(a, ra.clone()), (b, rb.clone())]);
				}
			}
		}
	}
	let mut out = vec![None];
	for c in &rows {
		for s in &subsets {
			out.push(Some(TableA { ctail: c.clone(), members: s.clone() }));
		}
	}
	out
}

fn table_set(n: usize, a: &Option<TableA>, b: &Option<Vec<Cel>>, c: bool) -> MSet {
	let mut set = MSet::new(&NS[..n]);
	let class_row = |k: usize, tail: &[Cel]| -> Row {
		let mut names = vec![Some(KEYS[k].to_owned())];
		for (i, cel) in tail.iter().enumerate() {
			names.push(class_cell(k, i + 1, *cel));
		}
		names
	};
	if let Some(a) = a {
		let mut mc = MClass { names: class_row(0, &a.ctail), ..Default::default() };
		for (k, tail) in &a.members {
			let spec = &MEMBERS[*k];
			let mut row = vec![Some(spec.nm.to_owned())];
			for (i, cel) in tail.iter().enumerate() {
				row.push(match cel {
					Cel::Absent => None,
					Cel::Same => Some(spec.nm.to_owned()),
					_ => Some(format!("{}{}", spec.tag, i + 1)),
				});
			}
			insert_member(&mut mc, spec, row);
		}
		set.classes.insert(KEYS[0].to_owned(), mc);
	}
	if let Some(b) = b {
		set.classes.insert(KEYS[1].to_owned(), MClass { names: class_row(1, b), ..Default::default() });
	}
	if c {
		set.classes.insert(KEYS[2].to_owned(), MClass { names: class_row(2, &vec![Cel::Diff; n - 1]), ..Default::default() });
	}
	set
}

struct TablePlan {
	n: usize,
	a: Vec<Option<TableA>>,
	b: Vec<Option<Vec<Cel>>>,
	c: Vec<bool>,
	dirs: Vec<(usize, usize)>,
}

impl TablePlan {
	fn jobs(&self) -> u64 {
		(self.a.len() * self.b.len() * self.c.len()) as u64
	}
}

fn table_plans(ctx: &Ctx) -> Vec<TablePlan> {
	let all_dirs = |n: usize| -> Vec<(usize, usize)> { (0..n).flat_map(|f| (0..n).map(move |t| (f, t))).collect() };
	let b_all = |n: usize| -> Vec<Option<Vec<Cel>>> { std::iter::once(None).chain(cell_rows(n).into_iter().map(Some)).collect() };
	let mut v = vec![TablePlan { n: 2, a: table_a_options(2), b: b_all(2), c: vec![false, true], dirs: all_dirs(2) }];
	if ctx.quick() {
		v.push(TablePlan { n: 3, a: table_a_options(3), b: vec![None, Some(vec![Cel::Diff, Cel::Diff])], c: vec![true], dirs: all_dirs(3).into_iter().filter(|(f, t)| f != t).collect() });
	} else {
		v.push(TablePlan { n: 3, a: table_a_options(3), b: b_all(3), c: vec![false, true], dirs: all_dirs(3) });
	}
	v
}

/// the convenience methods that also rename the owner must agree with map_class + map_field / map_method
pub fn real_refs<R: BRemapper + ?Sized>(r: &R, owner: &ObjClassName, q: &Query, evals: &mut u64) -> std::result::Result<std::result::Result<Vec<(String, String, String)>, String>, Panic> {
	vcore::guard(|| -> std::result::Result<Vec<(String, String, String)>, String> {
		let e = |e: anyhow::Error| format!("{e:#}");
		let s = |x: &java_string::JavaStr| x.as_str_lossy().into_owned();
		let mut out = Vec::new();
		match q.kind {
			MKind::Field => {
				*evals += 1;
				let fr = FieldRef { class: owner.clone(), name: q.fname.clone().unwrap(), desc: q.fdesc.clone().unwrap() };
				let x = r.map_field_ref(&fr).map_err(e)?;
				out.push((s(x.class.as_inner()), s(x.name.as_inner()), s(x.desc.as_inner())));
			},
			MKind::Method => {
				*evals += 3;
				let mr = MethodRef { class: ClassName::from(owner.clone()), name: q.mname.clone().unwrap(), desc: q.mdesc.clone().unwrap() };
				let x = r.map_method_ref(&mr).map_err(e)?;
				out.push((s(x.class.as_inner()), s(x.name.as_inner()), s(x.desc.as_inner())));
				let mo = MethodRefObj { class: owner.clone(), name: q.mname.clone().unwrap(), desc: q.mdesc.clone().unwrap() };
				let x = r.map_method_ref_obj(&mo).map_err(e)?;
				out.push((s(x.class.as_inner()), s(x.name.as_inner()), s(x.desc.as_inner())));
				let nd = MethodNameAndDesc { name: q.mname.clone().unwrap(), desc: q.mdesc.clone().unwrap() };
				let x = r.map_method_name_and_desc(owner, &nd).map_err(e)?;
				let c = r.map_class(owner).map_err(e)?;
				out.push((s(c.as_inner()), s(x.name.as_inner()), s(x.desc.as_inner())));
			},
		}
		Ok(out)
	})
}

fn run_table_job<const N: usize>(ctx: &Ctx, plan: &TablePlan, job: u64) -> Stats {
	let mut st = Stats::new();
	let mut ta = Tally::default();
	let n = plan.n;
	let pick = vcore::enumerate::product_nth(&[plan.a.len(), plan.b.len(), plan.c.len()], job);
	let set = table_set(n, &plan.a[pick[0]], &plan.b[pick[1]], plan.c[pick[2]]);
	let q: Mappings<N, ()> = mapmodel::to_quill(&set).unwrap_or_else(fail("generator"));
	let mut evals = 0u64;
	for &(from, to) in &plan.dirs {
		let fwd = CMap::build(&set, from, to);
		let bwd = CMap::build(&set, to, from);
		let header = || format!("{}{}", case_header("member", n, from, to), case_mappings(&set));
		// classes of the jar in `from`: A, B, C, an unrelated Z, and A's first-namespace name if it differs
		let mut names: Vec<String> = (0..3).map(|i| set.classes.get(KEYS[i]).and_then(|c| c.names[from].clone()).unwrap_or_else(|| KEYS[i].to_owned())).collect();
		names.push("Z".to_owned());
		if names[0] != KEYS[0] {
			names.push(KEYS[0].to_owned());
		}
		let mut sup: Vec<Option<Vec<usize>>> = vec![None; names.len()];
		sup[0] = Some(vec![]);
		sup[2] = Some(vec![0]);
		// the provider as the maintainers build it: one JarSuperProv per jar, searched in order
		let prov: Vec<JarSuperProv> = vec![jar_prov(&names, &[None, None, sup[2].clone()]), jar_prov(&names, &[sup[0].clone()])];
		let rb = match vcore::guard(|| q.remapper_b(ns(from), ns(to), &prov)) {
			Ok(Ok(r)) => r,
			Ok(Err(e)) => {
				ctx.diff("build:refused", &format!("building the remapper failed: {e:#}"), header);
				continue;
			},
			Err(p) => {
				ctx.diff(&format!("panic@{}", p.file()), &format!("building the remapper panicked at {}: {}", p.site, p.msg), header);
				continue;
			},
		};
		let world = World::build(&set, from, to, &names);
		if world.ambiguous || world.names.len() != names.len() {
			vcore::machinery_fail("table generator produced an ambiguous world");
		}
		let typed: Vec<ObjClassName> = names.iter().map(|x| mapmodel::cls(x).unwrap_or_else(fail("class name"))).collect();
		// every member under every name it has in any namespace × its descriptor in every namespace
		let mut queries: Vec<Query> = Vec::new();
		for spec in &MEMBERS {
			let mut qn: Vec<String> = vec![spec.nm.to_owned()];
			qn.extend((1..n).map(|j| format!("{}{}", spec.tag, j)));
			let mut qd: Vec<String> = Vec::new();
			for j in 0..n {
				if let Some(d) = CMap::build(&set, 0, j).map_one(spec.kind.tkind(), spec.desc0) {
					if !qd.contains(&d) {
						qd.push(d);
					}
				}
			}
			for name in &qn {
				for d in &qd {
					queries.push(Query::new(spec.kind, name, d, &fwd));
				}
			}
		}
		// the opposite direction: provider renamed by the real JarSuperProv::remap
		let to_names: Vec<Vec<String>> = names.iter().map(|x| fwd.cands(x)).collect();
		let distinct_to = to_names.iter().all(|c| c.len() == 1) && (0..names.len()).all(|i| (0..i).all(|j| to_names[i][0] != to_names[j][0]));
		let to_jar: Vec<String> = to_names.iter().map(|c| c[0].clone()).collect();
		let to_typed: Vec<ObjClassName> = to_jar.iter().map(|x| mapmodel::cls(x).unwrap_or_else(fail("class name"))).collect();
		let prov_b = if distinct_to {
			evals += 1;
			match vcore::guard(|| JarSuperProv::remap(&rb, &prov)) {
				Ok(Ok(p)) => Some(p),
				Ok(Err(e)) => {
					ctx.diff("provider-remap:refused", &format!("JarSuperProv::remap failed: {e:#}"), header);
					None
				},
				Err(p) => {
					ctx.diff(&format!("panic@{}", p.file()), &format!("JarSuperProv::remap panicked at {}: {}", p.site, p.msg), header);
					None
				},
			}
		} else {
			None
		};
		if let Some(p) = &prov_b {
			// the renamed provider must know C' with the single super type A'
			let got = p.get_super_classes(&to_typed[2]).ok().flatten().map(|s| s.iter().map(|x| x.as_inner().as_str_lossy().into_owned()).collect::<Vec<_>>());
			if got != Some(vec![to_jar[0].clone()]) {
				ctx.diff("provider-remap:wrong", &format!("JarSuperProv::remap: super types of {:?} are {:?}, expected [{:?}]", to_jar[2], got, to_jar[0]), header);
			}
		}
		let back = prov_b.as_ref().and_then(|p| match vcore::guard(|| q.remapper_b(ns(to), ns(from), p)) {
			Ok(Ok(r)) => Some((r, World::build(&set, to, from, &to_jar))),
			_ => {
				ctx.diff("build:refused", "building the opposite remapper failed or panicked", header);
				None
			},
		});

		for owner in 0..names.len() {
			for (qi, qu) in queries.iter().enumerate() {
				let real = real_member(&rb, &typed[owner], qu, &mut evals);
				let case = CaseText { engine: "member", n, from, to, set: &set, names: &world.names, sup: &sup, owner: &names[owner], q: qu };
				let acc = world.accepted(&sup, owner, qu.kind, &qu.name, &qu.desc);
				let fast = match &real {
					Ok(Ok(r)) => {
						let coherent = match &r.fail {
							Some((nm, d)) => *nm == r.name && *d == r.desc,
							None => r.name == qu.name.as_bytes(),
						};
						if coherent { acc.iter().find(|a| world.matches(a, &qu.name, &qu.exp_desc, &r.name, &r.desc)).copied() } else { None }
					},
					_ => None,
				};
				let matched = match fast {
					Some(a) => Some(a),
					None => {
						let quick_key = match &real {
							Ok(Ok(r)) if r.name == qu.name.as_bytes() => world.blocking(&sup, owner, &acc[0]).filter(|k| ctx.is_known(k)),
							_ => None,
						};
						match quick_key {
							Some(k) => {
								ctx.diff(k, "", String::new);
								ta.add("table:known-difference");
								None
							},
							None => judge_member(ctx, &world, &sup, owner, qu, &real, &case),
						}
					},
				};
				let Some(a) = matched else { continue };
				let Ok(Ok(r)) = &real else { continue };
				if from != 0 {
					ta.add("table:from-not-first");
				}
				match a {
					Ans::Fallback => ta.add("table:fallback"),
					Ans::Found { class, .. } if class == owner => {
						ta.add("table:found-in-owner");
						st.distinct.add(&("table", n, pick[0], from, to, qi));
					},
					Ans::Found { .. } => ta.add("table:found-in-super"),
				}
				if !acc[0].same_target(&acc[1]) {
					ta.add("table:entry-without-target-name");
				}
				// the *_ref methods (for every owner: also the class with partial rows, the unknown one and A's other name)
				{
					let exp_class = fwd.cands(&names[owner]);
					match real_refs(&rb, &typed[owner], qu, &mut evals) {
						Err(p) => ctx.diff(&format!("panic@{}", p.file()), &format!("a *_ref method panicked at {}: {}", p.site, p.msg), || case.render()),
						Ok(Err(e)) => ctx.diff("member:ref-variant-refused", &format!("a *_ref method failed where map_{} succeeded: {e}", qu.kind.label()), || case.render()),
						Ok(Ok(v)) => {
							for (c, nm, d) in &v {
								if !exp_class.contains(c) || nm.as_bytes() != r.name || d.as_bytes() != r.desc {
									ctx.diff("member:ref-variant-disagrees", &format!("a *_ref method answered ({c:?}, {nm:?}, {d:?}); map_class allows {exp_class:?} and map_{} answered ({:?}, {:?})", qu.kind.label(), lossy(&r.name), lossy(&r.desc)), || case.render());
								}
							}
							ta.add("table:ref-variants-checked");
						},
					}
				}
				if matches!(a, Ans::Found { .. }) {
					st.sample(if from == 0 { "table" } else { "table-from-not-first" }, || json!({"engine": "table", "namespaces": n, "from": from, "to": to, "supers": render_supers(&world.names, &sup), "owner": names[owner], "member": [qu.name, qu.desc], "answer": [lossy(&r.name), lossy(&r.desc)], "mappings": mapmodel::tiny::print(&set)}));
				}
				// X→Y→X
				let Some((rbb, world_b)) = &back else { continue };
				if !acc.iter().all(|x| x.same_target(&acc[0])) {
					continue;
				}
				let qb = Query::new(qu.kind, &lossy(&r.name), &lossy(&r.desc), &bwd);
				let real_b = real_member(rbb, &to_typed[owner], &qb, &mut evals);
				let case = CaseText { engine: "member-roundtrip", ..case };
				judge_member_roundtrip(ctx, &mut ta, world_b, &sup, owner, qu, &qb, &real_b, &case);
			}
		}
	}
	st.evaluations += evals;
	ta.flush(&mut st);
	st
}

pub fn run_table(ctx: &'static Ctx) -> (Stats, Value) {
	let plans = table_plans(ctx);
	let mut total = Stats::new();
	let mut bounds = Vec::new();
	for plan in &plans {
		let t0 = ctx.elapsed_s();
		let st = (0..plan.jobs()).into_par_iter().fold(Stats::new, |st, job| {
			let s = vcore::watched(|| format!("table n={} job {job}", plan.n), || with_n!(plan.n, run_table_job, ctx, plan, job));
			st.merge(s)
		}).reduce(Stats::new, Stats::merge);
		bounds.push(json!({
			"namespaces": plan.n, "class_A_options": plan.a.len(), "class_B_options": plan.b.len(), "class_C_options": plan.c.len(),
			"mapping_sets": plan.jobs(), "directions": plan.dirs, "evaluations": st.evaluations, "wall_s": ctx.elapsed_s() - t0,
		}));
		total = total.merge(st);
	}
	let b = json!({
		"members": MEMBERS.iter().map(|m| format!("{}{}{}", m.nm, if m.kind == MKind::Field { ":" } else { "" }, m.desc0)).collect::<Vec<_>>(),
		"class_A": "absent, or every row × every subset of ≤ 2 members × every member row (cells: renamed / same as first / no name)",
		"class_B": "absent or every row (only referenced from the descriptor LB;)", "class_C": "absent or renamed everywhere; inherits from A; declares nothing",
		"owners": ["A", "B", "C", "Z (unknown everywhere)", "A's first-namespace name where it differs"],
		"queries": "every member under each of its names in any namespace × its descriptor rendered in every namespace",
		"provider": "Vec<JarSuperProv> of two jars; opposite direction through the real JarSuperProv::remap",
		"plans": bounds,
	});
	(total, b)
}
