//! Engine "names": the alphabet of class names.
//!
//! The "desc" engine varies the *states* of seven short class names. This engine varies the *names*: one
//! probe class `P` whose name in every namespace runs through an alphabet of name shapes (names in JDK
//! and library packages such as `java/lang/Shim`, deep packages, one letter names that are also
//! descriptor letters, names containing `L`, `$`, `(`, `)`, `<`, `>`, two-, three- and four-byte
//! characters, names of 64 and 302 characters), next to a neighbour class `K` — plainly renamed
//! (`K`, `K1`, `K2`), or carrying the probe's names rotated by one namespace, so that the two classes
//! swap names and an answer that is looked up a second time goes wrong — and the never mapped
//! `java/lang/Object`. For every mapping set and direction:
//!
//! * every descriptor with ≤ 3 (pairs) / ≤ 2 (triples) components over `I LP; [LP; LK; LU; [[LP;`, plus
//!   arrays of `P` with 3, 255 and 256 dimensions, through `remapper_a`, `remapper_b` and (two
//!   namespaces, first → second) `remapper_a_first_to_second`, `remapper_b_first_to_second` and
//!   `ARemapperAsBRemapper`; judged by the reference walk of the grammar; X→Y→X;
//! * the member tables whose descriptor keys mention `P` (method `(LP;)LP;` and field `[LP;` of `K`,
//!   field `LK;` and method `()Ljava/lang/Object;` of `P`, all four under one shared name in the first
//!   namespace), asked for the owners `P`, `K`, `S extends K` and `T extends P, S` (both absent from the
//!   mappings) through `map_*`, `map_*_fail` and the `*_ref` methods; X→Y→X;
//! * class names with unpaired surrogate code units (legal in class files, not representable in `String`):
//!   every ordered pair of five such names, both directions, judged on the bytes;
//! * `map_method_ref` on array classes (`clone` of `[LP;` …): the array class name and the descriptor
//!   are rewritten, the name stays.

use std::collections::BTreeMap;
use java_string::{JavaCodePoint, JavaStr, JavaString};
use duke::tree::class::{ClassName, ObjClassName, ObjClassNameSlice};
use duke::tree::field::{FieldDescriptor, FieldDescriptorSlice, FieldNameAndDesc};
use duke::tree::method::{MethodDescriptorSlice, MethodRef};
use mapmodel::{MClass, MField, MMethod, MSet, Row};
use quill::remapper::{ARemapper, ARemapperAsBRemapper, BRemapper, NoSuperClassProvider};
use quill::tree::mappings::{ClassMapping, ClassNowodeMapping, FieldMapping, FieldNowodeMapping, Mappings};
use quill::tree::names::{Names, Namespace};
use quill::tree::NodeInfo;
use rayon::prelude::*;
use vcore::{json, Ctx, Stats, Value};
use super::desc::{judge_desc, judge_roundtrip, real_map};
use super::gram::{CMap, TKind};
use super::member::{jar_prov, judge_member, judge_member_roundtrip, real_member, real_refs, CaseText, Query, RealM};
use super::world::{Ans, MKind, World};
use super::{case_header, case_mappings, Tally, NS};

fn ns<const N: usize>(i: usize) -> Namespace<N> {
	Namespace::new(i).unwrap_or_else(|e| vcore::machinery_fail(&format!("namespace {i}: {e}")))
}

fn fail<T>(what: &str) -> impl FnOnce(anyhow::Error) -> T + '_ {
	move |e| vcore::machinery_fail(&format!("{what}: {e:#}"))
}

// ---------------------------------------------------------------------------------------------
// alphabets

/// never mapped, mentioned in descriptors
pub const U_JDK: &str = "java/lang/Object";
/// the names of the plainly renamed class per namespace
pub const KN: [&str; 3] = ["K", "K1", "K2"];
/// classes that only the provider knows
const SUBS: [&str; 2] = ["S", "T"];

/// every name is a binary name in internal form (JVMS 4.2.1)
pub fn alphabet() -> Vec<String> {
	let mut v: Vec<String> = [
		"java/lang/Shim", "java/X", "java", "jav/a", "javax/a/B", "Ljava/lang/Shim", "sun/misc/U", "jdk/internal/J", "kotlin/Kt", "org/o/O",
		"net/minecraft/C_1", "com/mojang/D", "a", "I", "V", "Z", "L", "LL", "a/b/c/d/e/f/g/H", "p/package-info", "A$1", "A$B$C", "$", "_", "1",
		"a(b", "a)b", "<a>", "é", "中", "𝒜", "p/中/𝒜é",
	].iter().map(|s| s.to_string()).collect();
	v.push("x".repeat(64));
	v.push(format!("q/{}", "y".repeat(300)));
	v
}

/// the part of the alphabet whose triples are explored in the quick tier
const CORE: [&str; 11] = ["java/lang/Shim", "java/X", "net/minecraft/C_1", "a", "L", "I", "A$1", "a)b", "é", "𝒜", "p/中/𝒜é"];

/// member names (first namespace); the other namespaces append the declaring member's tag and the namespace index
const BASES: [&str; 8] = ["m", "method_1_", "é", "a", "func_1_", "L", "I", "𝒜"];

fn mem_name(base: &str, tag: &str, j: usize) -> String {
	if j == 0 { base.to_owned() } else { format!("{base}{tag}{j}") }
}

/// (kind, descriptor in the first namespace, tag, declaring class: true = K)
fn member_specs(p0: &str, k0: &str) -> [(MKind, String, &'static str, bool); 4] {
	[
		(MKind::Method, format!("(L{p0};)L{p0};"), "Km", true),
		(MKind::Field, format!("[L{p0};"), "Kf", true),
		(MKind::Field, format!("L{k0};"), "Pg", false),
		(MKind::Method, format!("()L{U_JDK};"), "Ph", false),
	]
}

#[derive(Clone, Debug)]
pub struct NameCase {
	/// the probe's name per namespace
	pub p: Vec<String>,
	/// the neighbour's name per namespace: `K`, `K1`, `K2`, or the probe's names rotated by one namespace
	/// (then the two classes swap names: what one is called in `from` the other is called in `to`)
	pub k: Vec<String>,
	pub base: &'static str,
}

pub fn names_set(case: &NameCase) -> MSet {
	let n = case.p.len();
	let mut set = MSet::new(&NS[..n]);
	let row = |tag: &str| -> Row { (0..n).map(|j| Some(mem_name(case.base, tag, j))).collect() };
	let mut k = MClass { names: case.k.iter().cloned().map(Some).collect(), ..Default::default() };
	let mut p = MClass { names: case.p.iter().cloned().map(Some).collect(), ..Default::default() };
	for (kind, d0, tag, in_k) in member_specs(&case.p[0], &case.k[0]) {
		let c = if in_k { &mut k } else { &mut p };
		let key = (case.base.to_owned(), d0);
		match kind {
			MKind::Field => {
				c.fields.insert(key, MField { names: row(tag), doc: None });
			},
			MKind::Method => {
				c.methods.insert(key, MMethod { names: row(tag), doc: None, params: BTreeMap::new() });
			},
		}
	}
	set.classes.insert(case.k[0].clone(), k);
	set.classes.insert(case.p[0].clone(), p);
	set
}

// ---------------------------------------------------------------------------------------------
// descriptor templates

#[derive(Clone, Copy, Debug, PartialEq, Eq)]
pub enum NB {
	Int,
	P,
	K,
	U,
}

#[derive(Clone, Copy, Debug)]
pub struct NAtom {
	dims: u16,
	base: NB,
}

/// I LP; [LP; LK; LU; [[LP;
const NATOMS: [NAtom; 6] = [
	NAtom { dims: 0, base: NB::Int },
	NAtom { dims: 0, base: NB::P },
	NAtom { dims: 1, base: NB::P },
	NAtom { dims: 0, base: NB::K },
	NAtom { dims: 0, base: NB::U },
	NAtom { dims: 2, base: NB::P },
];

#[derive(Clone, Debug)]
pub enum NT {
	Field(NAtom),
	Ret(Option<NAtom>),
	Method(Vec<NAtom>, Option<NAtom>),
	Arr(NAtom),
	Obj(NB),
}

fn push_atom(out: &mut String, a: &NAtom, p: &str, k: &str) {
	for _ in 0..a.dims {
		out.push('[');
	}
	match a.base {
		NB::Int => out.push('I'),
		NB::P => {
			out.push('L');
			out.push_str(p);
			out.push(';');
		},
		NB::K => {
			out.push('L');
			out.push_str(k);
			out.push(';');
		},
		NB::U => {
			out.push('L');
			out.push_str(U_JDK);
			out.push(';');
		},
	}
}

impl NT {
	pub fn render(&self, p: &str, k: &str) -> (TKind, String) {
		let mut s = String::new();
		match self {
			NT::Field(a) => {
				push_atom(&mut s, a, p, k);
				(TKind::Field, s)
			},
			NT::Ret(a) => {
				match a {
					Some(a) => push_atom(&mut s, a, p, k),
					None => s.push('V'),
				}
				(TKind::Return, s)
			},
			NT::Method(ps, r) => {
				s.push('(');
				for a in ps {
					push_atom(&mut s, a, p, k);
				}
				s.push(')');
				match r {
					Some(a) => push_atom(&mut s, a, p, k),
					None => s.push('V'),
				}
				(TKind::Method, s)
			},
			NT::Arr(a) => {
				push_atom(&mut s, a, p, k);
				(TKind::ArrClass, s)
			},
			NT::Obj(b) => (TKind::ObjClass, match b {
				NB::P => p.to_owned(),
				NB::K => k.to_owned(),
				_ => U_JDK.to_owned(),
			}),
		}
	}
}

/// every template with at most `max` components, plus arrays of the probe with 3, 255 and 256 dimensions
pub fn templates(max: usize) -> Vec<NT> {
	let mut v = vec![NT::Obj(NB::P), NT::Obj(NB::K), NT::Obj(NB::U)];
	let deep = [3u16, 255, 256].map(|dims| NAtom { dims, base: NB::P });
	for a in NATOMS.iter().chain(&deep) {
		v.push(NT::Field(*a));
		v.push(NT::Ret(Some(*a)));
		if a.dims > 0 {
			v.push(NT::Arr(*a));
		}
	}
	v.push(NT::Ret(None));
	v.push(NT::Method(vec![deep[1]], Some(deep[0])));
	for total in 0..=max {
		for with_ret in [false, true] {
			let params = if with_ret { if total == 0 { continue } else { total - 1 } } else { total };
			let count = NATOMS.len().pow(params as u32);
			for idx in 0..count {
				let mut p = Vec::with_capacity(params);
				let mut x = idx;
				for _ in 0..params {
					p.push(NATOMS[x % NATOMS.len()]);
					x /= NATOMS.len();
				}
				p.reverse();
				if with_ret {
					for r in NATOMS {
						v.push(NT::Method(p.clone(), Some(r)));
					}
				} else {
					v.push(NT::Method(p, None));
				}
			}
		}
	}
	v
}

const ARRAYS: [NAtom; 5] = [
	NAtom { dims: 1, base: NB::P },
	NAtom { dims: 2, base: NB::P },
	NAtom { dims: 1, base: NB::Int },
	NAtom { dims: 1, base: NB::K },
	NAtom { dims: 1, base: NB::U },
];

// ---------------------------------------------------------------------------------------------
// map_method_ref on array classes

type RealRef = Result<Result<(String, String, String), String>, vcore::Panic>;

fn real_array_ref(r: &dyn BRemapper, arr: &str, desc: &str, st: &mut Stats) -> RealRef {
	st.eval();
	vcore::guard(|| -> Result<(String, String, String), String> {
		let e = |e: anyhow::Error| format!("{e:#}");
		let s = |x: &JavaStr| x.as_str_lossy().into_owned();
		let mr = MethodRef { class: ClassName::try_from(JavaString::from(arr)).map_err(e)?, name: mapmodel::mname("clone").map_err(e)?, desc: mapmodel::mdesc(desc).map_err(e)? };
		let x = r.map_method_ref(&mr).map_err(e)?;
		Ok((s(x.class.as_inner()), s(x.name.as_inner()), s(x.desc.as_inner())))
	})
}

/// `clone` of an array class: no mapping set names a member of an array class and no provider is asked
/// about one, so the statement's fallback applies — unchanged name, rewritten descriptor — and the array
/// class name is rewritten like every array descriptor.
fn judge_array_ref(ctx: &Ctx, ta: &mut Tally, imp: &str, arr: &str, desc: &str, real: &RealRef, fwd: &CMap, replay: &dyn Fn() -> String) {
	match real {
		Err(p) => ctx.diff(&format!("panic@{}", p.file()), &format!("{imp}: map_method_ref of clone {desc:?} on {arr:?} panicked at {}: {}", p.site, p.msg), replay),
		Ok(Err(e)) => ctx.diff("arrayref:refused", &format!("{imp}: map_method_ref of clone {desc:?} on {arr:?} failed: {e}"), replay),
		Ok(Ok((c, n, d))) => {
			let ec = fwd.map_all(TKind::ArrClass, arr).unwrap_or_default();
			let ed = fwd.map_all(TKind::Method, desc).unwrap_or_default();
			if !ec.contains(c) {
				ctx.diff("arrayref:class-name-wrong", &format!("{imp}: map_method_ref on array class {arr:?} answered the class {c:?}; the mappings say {ec:?}"), replay);
			} else if n != "clone" {
				ctx.diff("arrayref:name-changed", &format!("{imp}: map_method_ref on array class {arr:?} renamed clone to {n:?}"), replay);
			} else if !ed.contains(d) {
				ctx.diff("arrayref:descriptor-wrong", &format!("{imp}: map_method_ref on array class {arr:?} answered the descriptor {d:?} for {desc:?}; the mappings say {ed:?}"), replay);
			} else {
				ta.add("names:array-method-ref-judged");
				if c != arr {
					ta.add("names:array-method-ref-class-changed");
				}
			}
		},
	}
}

// ---------------------------------------------------------------------------------------------
// members through the extra ways to obtain a BRemapper

/// `lenient`: the remapper has no member tables by design (`ARemapperAsBRemapper`): the unchanged name is
/// accepted next to every answer of the reference; the descriptor must be rewritten all the same.
#[allow(clippy::too_many_arguments)]
fn judge_variant_member(ctx: &Ctx, ta: &mut Tally, world: &World, sup: &[Option<Vec<usize>>], owner: usize, qu: &Query, real: &RealM, case: &CaseText, lenient: bool) {
	if !lenient {
		if judge_member(ctx, world, sup, owner, qu, real, case).is_some() {
			ta.add("names:first-to-second-member-judged");
		}
		return;
	}
	match real {
		Err(p) => ctx.diff(&format!("panic@{}", p.file()), &format!("ARemapperAsBRemapper: mapping {:?} {:?} panicked at {}: {}", qu.name, qu.desc, p.site, p.msg), || case.render()),
		Ok(Err(e)) => ctx.diff("member:valid-query-refused", &format!("ARemapperAsBRemapper: mapping {:?} {:?} failed: {e}", qu.name, qu.desc), || case.render()),
		Ok(Ok(r)) => {
			let coherent = match &r.fail {
				Some((n, d)) => *n == r.name && *d == r.desc,
				None => r.name == qu.name.as_bytes(),
			};
			let acc = world.accepted(sup, owner, qu.kind, &qu.name, &qu.desc);
			let ok = coherent && (world.matches(&Ans::Fallback, &qu.name, &qu.exp_desc, &r.name, &r.desc) || acc.iter().any(|a| world.matches(a, &qu.name, &qu.exp_desc, &r.name, &r.desc)));
			if ok {
				ta.add("names:a-as-b-member-judged");
			} else {
				ctx.diff("a-as-b:member-wrong", &format!("ARemapperAsBRemapper answered {:?} {:?} (fail variant {:?}) for {} {:?} {:?}; expected the unchanged name with the descriptor {:?}", String::from_utf8_lossy(&r.name), String::from_utf8_lossy(&r.desc), r.fail.as_ref().map(|(a, b)| (String::from_utf8_lossy(a).into_owned(), String::from_utf8_lossy(b).into_owned())), qu.kind.label(), qu.name, qu.desc, qu.exp_desc), || case.render());
			}
		},
	}
}

// ---------------------------------------------------------------------------------------------
// one mapping set, one direction

fn desc_case_text(n: usize, from: usize, to: usize, imp: &str, kind: TKind, input: &str, set: &MSet) -> String {
	format!("{}impl={imp}\nkind={}\ninput={input}\n{}", case_header("names-desc", n, from, to), kind.label(), case_mappings(set))
}

#[allow(clippy::too_many_arguments)]
fn dir_job<const N: usize>(
	ctx: &Ctx, st: &mut Stats, ta: &mut Tally, q: &Mappings<N, ()>, set: &MSet, case: &NameCase, from: usize, to: usize, tmpls: &[NT],
	extra_a: &[(&'static str, &dyn ARemapper)], extra_b: &[(&'static str, &dyn BRemapper, bool)],
) {
	let n = N;
	let header = || format!("{}{}", case_header("names-desc", n, from, to), case_mappings(set));
	let fwd = CMap::build(set, from, to);
	let bwd = CMap::build(set, to, from);
	let pf = case.p[from].clone();
	let kf: &str = &case.k[from];
	// the jar in `from`: P (unknown to the provider), K, S extends K, T extends P, S
	let names: Vec<String> = vec![pf.clone(), kf.to_owned(), SUBS[0].to_owned(), SUBS[1].to_owned()];
	let sup: Vec<Option<Vec<usize>>> = vec![None, Some(vec![]), Some(vec![1]), Some(vec![0, 2])];
	let prov = jar_prov(&names, &sup);
	let built = vcore::guard(|| -> anyhow::Result<_> { Ok((q.remapper_a(ns(from), ns(to))?, q.remapper_b(ns(from), ns(to), &prov)?, q.remapper_a(ns(to), ns(from))?)) });
	let (ra, rb, rback) = match built {
		Ok(Ok(x)) => x,
		Ok(Err(e)) => {
			ctx.diff("build:refused", &format!("building the remappers failed: {e:#}"), header);
			return;
		},
		Err(p) => {
			ctx.diff(&format!("panic@{}", p.file()), &format!("building the remappers panicked at {}: {}", p.site, p.msg), header);
			return;
		},
	};
	let mut impls: Vec<(&'static str, &dyn ARemapper)> = vec![("a", &ra), ("b", &rb)];
	impls.extend_from_slice(extra_a);
	let jdk = pf.starts_with("java/");
	let wide_char = pf.chars().any(|c| c as u32 >= 0x800);
	let long = pf.len() >= 300;

	// ---- descriptors
	for t in tmpls {
		let (kind, input) = t.render(&pf, kf);
		let exp = fwd.map_all(kind, &input);
		let mut fwd_out = None;
		for (imp, r) in &impls {
			let real = real_map(*r, kind, &input, st);
			let fast = matches!((&exp, &real), (Some(e), Ok(Ok(o))) if e.iter().any(|x| x == o));
			if fast || judge_desc(ctx, st, imp, kind, &input, &real, &fwd, &|| desc_case_text(n, from, to, imp, kind, &input, set)) {
				match *imp {
					"a" => fwd_out = real.ok().and_then(|r| r.ok()),
					"b" => {},
					"ab" => ta.add("names:a-as-b-desc-judged"),
					_ => ta.add("names:first-to-second-desc-judged"),
				}
			}
		}
		let Some(o) = fwd_out else { continue };
		ta.add("names:desc-judged");
		if case.k[0] != KN[0] && o != input {
			ta.add("names:swapped-names-rewritten");
		}
		if from != 0 {
			ta.add("names:desc-from-not-first");
		}
		if o != input {
			st.distinct.add(&("names", kind, &input));
			if jdk {
				ta.add("names:jdk-looking-name-rewritten");
			}
			if wide_char {
				ta.add("names:three-or-four-byte-name-rewritten");
			}
			if long {
				ta.add("names:long-name-rewritten");
			}
			if input.len() > 255 && kind != TKind::ObjClass && !long {
				ta.add("names:255-dimensions-rewritten");
			}
		}
		let back = real_map(&rback, kind, &o, st);
		judge_roundtrip(ctx, ta, kind, &input, &o, &back, &fwd, &bwd, &|| desc_case_text(n, from, to, "a", kind, &input, set));
		if jdk && o != input && kind == TKind::Method {
			st.sample("names-jdk", || json!({"engine": "names", "namespaces": n, "from": from, "to": to, "kind": kind.label(), "input": input, "answer": o, "mappings": mapmodel::tiny::print(set)}));
		}
	}

	// ---- method references on array classes
	let mut bimpls: Vec<(&'static str, &dyn BRemapper, bool)> = vec![("b", &rb, false)];
	bimpls.extend_from_slice(extra_b);
	for a in &ARRAYS {
		let mut arr = String::new();
		push_atom(&mut arr, a, &pf, kf);
		let desc = format!("(){arr}");
		for (imp, r, _) in &bimpls {
			let real = real_array_ref(*r, &arr, &desc, st);
			judge_array_ref(ctx, ta, imp, &arr, &desc, &real, &fwd, &|| format!("{}impl={imp}\nkind=arrclass\ninput={arr}\n{}", case_header("names-arrayref", n, from, to), case_mappings(set)));
		}
	}

	// ---- members
	let world = World::build(set, from, to, &names);
	if world.ambiguous || world.names.len() != names.len() {
		vcore::machinery_fail("names generator produced an ambiguous world");
	}
	let typed: Vec<ObjClassName> = names.iter().map(|x| mapmodel::cls(x).unwrap_or_else(fail("class name"))).collect();
	let zero_from = CMap::build(set, 0, from);
	let mut queries: Vec<Query> = Vec::new();
	for (kind, d0, tag, _) in member_specs(&case.p[0], &case.k[0]) {
		let name_from = mem_name(case.base, tag, from);
		let d_from = zero_from.map_one(kind.tkind(), &d0).unwrap_or_else(|| vcore::machinery_fail("names: descriptor in from"));
		if d_from != d0 {
			// the descriptor as the mappings store it: in `from` it names another (unmapped) class
			queries.push(Query::new(kind, &name_from, &d0, &fwd));
		}
		queries.push(Query::new(kind, &name_from, &d_from, &fwd));
	}
	let to_names: Vec<Vec<String>> = names.iter().map(|x| fwd.cands(x)).collect();
	let distinct_to = to_names.iter().all(|c| c.len() == 1) && (0..names.len()).all(|i| (0..i).all(|j| to_names[i][0] != to_names[j][0]));
	let to_jar: Vec<String> = to_names.iter().map(|c| c[0].clone()).collect();
	let to_typed: Vec<ObjClassName> = to_jar.iter().map(|x| mapmodel::cls(x).unwrap_or_else(fail("class name"))).collect();
	let prov_b = jar_prov(&to_jar, &sup);
	let back = if distinct_to {
		match vcore::guard(|| q.remapper_b(ns(to), ns(from), &prov_b)) {
			Ok(Ok(r)) => Some((r, World::build(set, to, from, &to_jar))),
			_ => {
				ctx.diff("build:refused", "building the opposite remapper failed or panicked", header);
				None
			},
		}
	} else {
		None
	};
	let mut evals = 0u64;
	for owner in 0..names.len() {
		for qu in &queries {
			let real = real_member(&rb, &typed[owner], qu, &mut evals);
			let case_t = CaseText { engine: "member", n, from, to, set, names: &world.names, sup: &sup, owner: &names[owner], q: qu };
			let Some(a) = judge_member(ctx, &world, &sup, owner, qu, &real, &case_t) else { continue };
			let Ok(Ok(r)) = &real else { continue };
			ta.add("names:member-judged");
			if let Ans::Found { class, .. } = a {
				ta.add(if class == owner { "names:member-found-in-owner" } else { "names:member-found-in-super" });
				if jdk {
					ta.add("names:member-found-jdk-looking-class");
					if from != 0 {
						ta.add("names:member-found-jdk-looking-class-from-not-first");
					}
				}
				if wide_char {
					ta.add("names:member-found-three-or-four-byte-class");
				}
			}
			// the *_ref methods
			let exp_class = fwd.cands(&names[owner]);
			match real_refs(&rb, &typed[owner], qu, &mut evals) {
				Err(p) => ctx.diff(&format!("panic@{}", p.file()), &format!("a *_ref method panicked at {}: {}", p.site, p.msg), || case_t.render()),
				Ok(Err(e)) => ctx.diff("member:ref-variant-refused", &format!("a *_ref method failed where map_{} succeeded: {e}", qu.kind.label()), || case_t.render()),
				Ok(Ok(v)) => {
					for (c, nm, d) in &v {
						if !exp_class.contains(c) || nm.as_bytes() != r.name || d.as_bytes() != r.desc {
							ctx.diff("member:ref-variant-disagrees", &format!("a *_ref method answered ({c:?}, {nm:?}, {d:?}); map_class allows {exp_class:?} and map_{} answered ({:?}, {:?})", qu.kind.label(), String::from_utf8_lossy(&r.name), String::from_utf8_lossy(&r.desc)), || case_t.render());
						}
					}
					ta.add("names:ref-variants-checked");
				},
			}
			// X→Y→X
			let Some((rbb, world_b)) = &back else { continue };
			let acc = world.accepted(&sup, owner, qu.kind, &qu.name, &qu.desc);
			if !acc.iter().all(|x| x.same_target(&acc[0])) {
				continue;
			}
			let qb = Query::new(qu.kind, &String::from_utf8_lossy(&r.name), &String::from_utf8_lossy(&r.desc), &bwd);
			let real_b = real_member(rbb, &to_typed[owner], &qb, &mut evals);
			let case_r = CaseText { engine: "member-roundtrip", ..case_t };
			judge_member_roundtrip(ctx, ta, world_b, &sup, owner, qu, &qb, &real_b, &case_r);
		}
	}
	// the extra ways to obtain a BRemapper know no super types
	let sup_none: Vec<Option<Vec<usize>>> = vec![None; names.len()];
	for (imp, r, lenient) in extra_b {
		let engine = format!("names-member-{imp}");
		for owner in 0..names.len() {
			for qu in &queries {
				let real = real_member(*r, &typed[owner], qu, &mut evals);
				let case_t = CaseText { engine: &engine, n, from, to, set, names: &world.names, sup: &sup_none, owner: &names[owner], q: qu };
				judge_variant_member(ctx, ta, &world, &sup_none, owner, qu, &real, &case_t, *lenient);
			}
		}
	}
	st.evaluations += evals;
}

fn run_pair(ctx: &Ctx, case: &NameCase, tmpls: &[NT], dirs: &[(usize, usize)]) -> Stats {
	let mut st = Stats::new();
	let mut ta = Tally::default();
	let set = names_set(case);
	let q: Mappings<2, ()> = mapmodel::to_quill(&set).unwrap_or_else(fail("names generator"));
	for &(from, to) in dirs {
		if (from, to) == (0, 1) {
			let header = || format!("{}{}", case_header("names-desc", 2, 0, 1), case_mappings(&set));
			let built = vcore::guard(|| -> anyhow::Result<_> { Ok((q.remapper_a_first_to_second()?, q.remapper_b_first_to_second(NoSuperClassProvider::new())?, ARemapperAsBRemapper(q.remapper_a_first_to_second()?))) });
			match built {
				Ok(Ok((a12, b12, ab))) => {
					let extra_a: [(&'static str, &dyn ARemapper); 3] = [("a12", &a12), ("b12", &b12), ("ab", &ab)];
					let extra_b: [(&'static str, &dyn BRemapper, bool); 2] = [("b12", &b12, false), ("ab", &ab, true)];
					dir_job(ctx, &mut st, &mut ta, &q, &set, case, from, to, tmpls, &extra_a, &extra_b);
				},
				Ok(Err(e)) => ctx.diff("build:refused", &format!("remapper_*_first_to_second failed: {e:#}"), header),
				Err(p) => ctx.diff(&format!("panic@{}", p.file()), &format!("remapper_*_first_to_second panicked at {}: {}", p.site, p.msg), header),
			}
		} else {
			dir_job(ctx, &mut st, &mut ta, &q, &set, case, from, to, tmpls, &[], &[]);
		}
	}
	ta.flush(&mut st);
	st
}

fn run_triple(ctx: &Ctx, case: &NameCase, tmpls: &[NT], dirs: &[(usize, usize)]) -> Stats {
	let mut st = Stats::new();
	let mut ta = Tally::default();
	let set = names_set(case);
	let q: Mappings<3, ()> = mapmodel::to_quill(&set).unwrap_or_else(fail("names generator"));
	for &(from, to) in dirs {
		dir_job(ctx, &mut st, &mut ta, &q, &set, case, from, to, tmpls, &[], &[]);
	}
	ta.flush(&mut st);
	st
}

pub fn run(ctx: &'static Ctx) -> (Stats, Value) {
	let w = alphabet();
	let quick = ctx.quick();
	let t2 = templates(2);
	let t3 = templates(3);
	// (a) two namespaces: every ordered pair of names (also the same name twice)
	let pair_dirs: Vec<(usize, usize)> = if quick { vec![(0, 1), (1, 0)] } else { vec![(0, 1), (1, 0), (0, 0), (1, 1)] };
	let plain = |n: usize| -> Vec<String> { KN[..n].iter().map(|s| s.to_string()).collect() };
	let mut pairs: Vec<NameCase> = Vec::new();
	for i in 0..w.len() {
		for j in 0..w.len() {
			pairs.push(NameCase { p: vec![w[i].clone(), w[j].clone()], k: plain(2), base: BASES[(i + j) % BASES.len()] });
			if i != j {
				// the neighbour has the probe's names the other way round
				pairs.push(NameCase { p: vec![w[i].clone(), w[j].clone()], k: vec![w[j].clone(), w[i].clone()], base: BASES[(i + j) % BASES.len()] });
			}
		}
	}
	let st_pairs = pairs.par_iter().enumerate().fold(Stats::new, |st, (i, case)| {
		let s = vcore::watched(|| format!("names pair {i}: {:?} {:?}", case.p, case.k), || run_pair(ctx, case, if case.k[0] == KN[0] { &t3 } else { &t2 }, &pair_dirs));
		st.merge(s)
	}).reduce(Stats::new, Stats::merge);
	// (b) three namespaces: every triple of names (quick: of the core alphabet), every direction between different namespaces
	let tw: Vec<String> = if quick { CORE.iter().map(|s| s.to_string()).collect() } else { w.clone() };
	for c in &tw {
		if !w.contains(c) {
			vcore::machinery_fail("names: core name outside the alphabet");
		}
	}
	let triple_dirs: Vec<(usize, usize)> = (0..3).flat_map(|f| (0..3).map(move |t| (f, t))).filter(|(f, t)| f != t).collect();
	let k = tw.len();
	let mut triples: Vec<NameCase> = Vec::new();
	for x in 0..k * k * k {
		let p = vec![tw[x / (k * k)].clone(), tw[x / k % k].clone(), tw[x % k].clone()];
		triples.push(NameCase { p: p.clone(), k: plain(3), base: BASES[x % BASES.len()] });
		if !quick && p[0] != p[1] && p[1] != p[2] && p[2] != p[0] {
			triples.push(NameCase { k: vec![p[1].clone(), p[2].clone(), p[0].clone()], p, base: BASES[x % BASES.len()] });
		}
	}
	let st_triples = triples.par_iter().enumerate().fold(Stats::new, |st, (i, case)| {
		let s = vcore::watched(|| format!("names triple {i}: {:?} {:?}", case.p, case.k), || run_triple(ctx, case, &t2, &triple_dirs));
		st.merge(s)
	}).reduce(Stats::new, Stats::merge);
	let bounds = json!({
		"probe_names": w, "core_names_for_triples": tw, "plain_class": KN, "never_mapped": U_JDK, "provider_only_classes": SUBS,
		"member_base_names": BASES, "members": ["K.base(LP;)LP;", "K.base:[LP;", "P.base:LK;", "P.base()Ljava/lang/Object;"],
		"atoms": ["I", "LP;", "[LP;", "LK;", "Ljava/lang/Object;", "[[LP;"], "extra_dimensions_of_P": [3, 255, 256],
		"pair_sets": pairs.len(), "pair_sets_rule": "every ordered pair with the plain neighbour (≤ 3 components) + every pair of different names with the neighbour carrying the same names the other way round (≤ 2 components)", "pair_dirs": pair_dirs, "pair_max_components": 3, "pair_templates": t3.len(),
		"triple_sets": triples.len(), "triple_sets_rule": "every triple with the plain neighbour; thorough: + every triple of different names with the neighbour carrying the names rotated by one namespace", "triple_dirs": triple_dirs, "triple_max_components": 2, "triple_templates": t2.len(),
		"implementations": ["remapper_a", "remapper_b (JarSuperProv)", "remapper_a_first_to_second", "remapper_b_first_to_second (NoSuperClassProvider)", "ARemapperAsBRemapper(remapper_a_first_to_second)"],
		"array_method_refs": ["[LP;", "[[LP;", "[I", "[LK;", "[Ljava/lang/Object;"],
		"surrogate_names": ["a\\uD800b", "\\uDFFF", "\\uDC00\\uD800", "p/\\uD83D/A", "A"], "surrogate_sets": "every ordered pair of the five names (one class with a field of its own type), both directions",
		"member_base_name_choice": "rotated with the index of the set (covering, not the product)",
		"evaluations_pairs": st_pairs.evaluations, "evaluations_triples": st_triples.evaluations,
	});
	(st_pairs.merge(st_triples).merge(run_surrogates(ctx)), bounds)
}

// ---------------------------------------------------------------------------------------------
// names that are not Unicode strings: unpaired surrogate code units (legal in class files, representable
// in `JavaStr`, not in `String`) — built with quill's public API directly, judged on the bytes

fn jstr(units: &[u32]) -> JavaString {
	let mut s = JavaString::new();
	for u in units {
		s.push_java(JavaCodePoint::from_u32(*u).unwrap_or_else(|| vcore::machinery_fail("surrogates: bad code point")));
	}
	s
}

/// a high surrogate alone, a low surrogate alone, low before high, a surrogate inside a package path, plain ASCII
fn surrogate_names() -> Vec<JavaString> {
	vec![
		jstr(&[0x61, 0xD800, 0x62]),
		jstr(&[0xDFFF]),
		jstr(&[0xDC00, 0xD800]),
		jstr(&[0x70, 0x2F, 0xD83D, 0x2F, 0x41]),
		jstr(&[0x41]),
	]
}

/// descriptor pieces: `true` = the class name goes here
const SURROGATE_TEMPLATES: [(&str, &[(&str, bool)]); 5] = [
	("field", &[("L", false), ("", true), (";", false)]),
	("field", &[("[[L", false), ("", true), (";", false)]),
	("method", &[("(L", false), ("", true), (";IL", false), ("", true), (";)V", false)]),
	("method", &[("()[L", false), ("", true), (";", false)]),
	("class", &[("", true)]),
];

fn fill(parts: &[(&str, bool)], name: &JavaStr) -> JavaString {
	let mut s = JavaString::new();
	for (lit, is_name) in parts {
		if *is_name {
			s.push_java_str(name);
		} else {
			s.push_str(lit);
		}
	}
	s
}

fn surrogate_map(r: &dyn BRemapper, kind: &str, input: &JavaStr, st: &mut Stats) -> Result<Result<JavaString, String>, vcore::Panic> {
	st.eval();
	vcore::guard(|| -> Result<JavaString, String> {
		let e = |e: anyhow::Error| format!("{e:#}");
		match kind {
			"field" => {
				let d: &FieldDescriptorSlice = input.try_into().map_err(e)?;
				r.map_field_desc(d).map(|x| x.as_inner().to_owned()).map_err(e)
			},
			"method" => {
				let d: &MethodDescriptorSlice = input.try_into().map_err(e)?;
				r.map_method_desc(d).map(|x| x.as_inner().to_owned()).map_err(e)
			},
			_ => {
				let d: &ObjClassNameSlice = input.try_into().map_err(e)?;
				r.map_class(d).map(|x| x.as_inner().to_owned()).map_err(e)
			},
		}
	})
}

/// one case = (index of the first-namespace name, index of the second-namespace name, direction)
pub fn surrogate_case(ctx: &Ctx, i: usize, j: usize, from: usize, st: &mut Stats, ta: &mut Tally) -> String {
	let names = surrogate_names();
	let to = 1 - from;
	let row = [names[i].clone(), names[j].clone()];
	let replay = || format!("engine=names-surrogate\nn=2\nfrom={from}\nto={to}\nfirst={i}\nsecond={j}\nmappings:\ntiny\t2\t0\ta\tb\n");
	let built = vcore::guard(|| -> anyhow::Result<Mappings<2, ()>> {
		let mut q: Mappings<2, ()> = Mappings::from_namespaces(["a", "b"])?;
		let cn = |x: &JavaString| ObjClassName::try_from(x.clone());
		let mut c = ClassNowodeMapping::new(ClassMapping { names: Names::try_from([Some(cn(&row[0])?), Some(cn(&row[1])?)])? });
		// a field of the class's own type: its descriptor key has to be carried into `from`
		let desc = FieldDescriptor::try_from(fill(SURROGATE_TEMPLATES[0].1, &row[0]))?;
		let f = FieldNowodeMapping::new(FieldMapping { desc: desc.clone(), names: Names::try_from([Some(mapmodel::fname("f0")?), Some(mapmodel::fname("f1")?)])? });
		c.fields.insert(FieldNameAndDesc { name: mapmodel::fname("f0")?, desc }, f);
		q.classes.insert(cn(&row[0])?, c);
		Ok(q)
	});
	let q = match built {
		Ok(Ok(q)) => q,
		Ok(Err(e)) => {
			ctx.diff("surrogate:set-refused", &format!("a mapping set with the class names {row:?} could not be built: {e:#}"), replay);
			return "set refused".to_owned();
		},
		Err(p) => {
			ctx.diff(&format!("panic@{}", p.file()), &format!("building a mapping set with the class names {row:?} panicked at {}: {}", p.site, p.msg), replay);
			return "panic".to_owned();
		},
	};
	let remappers = vcore::guard(|| -> anyhow::Result<_> { Ok((q.remapper_b(ns(from), ns(to), NoSuperClassProvider::new())?, q.remapper_b(ns(to), ns(from), NoSuperClassProvider::new())?)) });
	let (rb, rbb) = match remappers {
		Ok(Ok(x)) => x,
		Ok(Err(e)) => {
			ctx.diff("build:refused", &format!("building the remappers for class names {row:?} failed: {e:#}"), replay);
			return "build refused".to_owned();
		},
		Err(p) => {
			ctx.diff(&format!("panic@{}", p.file()), &format!("building the remappers for class names {row:?} panicked at {}: {}", p.site, p.msg), replay);
			return "panic".to_owned();
		},
	};
	let mut obs = String::new();
	for (kind, parts) in SURROGATE_TEMPLATES {
		let input = fill(parts, &row[from]);
		let expected = fill(parts, &row[to]);
		let real = surrogate_map(&rb, kind, &input, st);
		obs.push_str(&format!("{real:?};"));
		match &real {
			Err(p) => ctx.diff(&format!("panic@{}", p.file()), &format!("mapping {kind} {input:?} panicked at {}: {}", p.site, p.msg), replay),
			Ok(Err(e)) => ctx.diff(&format!("desc:{kind}:valid-input-refused"), &format!("{kind} {input:?} (a class name with an unpaired surrogate is a legal name) was refused: {e}"), replay),
			Ok(Ok(o)) if *o != expected => ctx.diff("desc:surrogate-name:wrong", &format!("{kind} {input:?} was answered {o:?}, the mappings say {expected:?}"), replay),
			Ok(Ok(o)) => {
				ta.add("names:surrogate-name-judged");
				if *o != input {
					ta.add("names:surrogate-name-rewritten");
				}
				match surrogate_map(&rbb, kind, o, st) {
					Ok(Ok(b)) if b == input => ta.add("roundtrip:desc:identity-required"),
					other => ctx.diff("roundtrip:desc:not-identity", &format!("round trip: {kind} {input:?} → {o:?} → {other:?}"), replay),
				}
			},
		}
	}
	// the field of the class, asked for in `from`
	let (fname_from, fname_to) = (if from == 0 { "f0" } else { "f1" }, if to == 0 { "f0" } else { "f1" });
	let desc_from = fill(SURROGATE_TEMPLATES[0].1, &row[from]);
	let desc_to = fill(SURROGATE_TEMPLATES[0].1, &row[to]);
	st.eval();
	let real = vcore::guard(|| -> Result<(JavaString, JavaString), String> {
		let e = |e: anyhow::Error| format!("{e:#}");
		let owner: &ObjClassNameSlice = row[from].as_java_str().try_into().map_err(e)?;
		let d: &FieldDescriptorSlice = desc_from.as_java_str().try_into().map_err(e)?;
		let x = rb.map_field(owner, &mapmodel::fname(fname_from).map_err(e)?, d).map_err(e)?;
		Ok((x.name.as_inner().to_owned(), x.desc.as_inner().to_owned()))
	});
	obs.push_str(&format!("{real:?}"));
	match &real {
		Err(p) => ctx.diff(&format!("panic@{}", p.file()), &format!("mapping the field {fname_from} {desc_from:?} of {:?} panicked at {}: {}", row[from], p.site, p.msg), replay),
		Ok(Err(e)) => ctx.diff("member:valid-query-refused", &format!("mapping the field {fname_from} {desc_from:?} of {:?} failed: {e}", row[from]), replay),
		Ok(Ok((n, d))) => {
			if n.as_bytes() != fname_to.as_bytes() {
				ctx.diff("member:inherited-name-not-applied", &format!("field {fname_from} {desc_from:?} of {:?} was answered {n:?}; the owner declares it as {fname_to}", row[from]), replay);
			} else if *d != desc_to {
				ctx.diff("member:wrong-descriptor", &format!("field {fname_from} {desc_from:?} of {:?} was answered with the descriptor {d:?}, the mappings say {desc_to:?}", row[from]), replay);
			} else {
				ta.add("names:surrogate-member-found");
			}
		},
	}
	obs
}

pub fn run_surrogates(ctx: &'static Ctx) -> Stats {
	let mut st = Stats::new();
	let mut ta = Tally::default();
	let k = surrogate_names().len();
	vcore::watched(|| "names: surrogate cases".to_owned(), || {
		for i in 0..k {
			for j in 0..k {
				for from in 0..2 {
					surrogate_case(ctx, i, j, from, &mut st, &mut ta);
				}
			}
		}
	});
	ta.flush(&mut st);
	st
}

// ---------------------------------------------------------------------------------------------
// replay

pub fn replay_case(ctx: &Ctx, head: &BTreeMap<String, String>, set: &MSet, st: &mut Stats) -> String {
	let get = |k: &str| head.get(k).cloned().unwrap_or_else(|| vcore::machinery_fail(&format!("replay: no {k} line")));
	let num = |k: &str| -> usize { get(k).parse().unwrap_or_else(|_| vcore::machinery_fail("replay: bad number")) };
	let (from, to) = (num("from"), num("to"));
	let engine = get("engine");
	if engine == "names-surrogate" {
		let mut ta = Tally::default();
		return surrogate_case(ctx, num("first"), num("second"), from, st, &mut ta);
	}
	let imp = head.get("impl").cloned().unwrap_or_else(|| engine.rsplit('-').next().unwrap_or("b").to_owned());
	match set.n() {
		2 => {
			let q: Mappings<2, ()> = mapmodel::to_quill(set).unwrap_or_else(fail("replay"));
			let rback = q.remapper_a(ns(to), ns(from)).unwrap_or_else(fail("replay"));
			match imp.as_str() {
				"a" => replay_with(ctx, head, set, st, from, to, &q.remapper_a(ns(from), ns(to)).unwrap_or_else(fail("replay")), None, &rback),
				"b" => {
					let r = q.remapper_b(ns(from), ns(to), NoSuperClassProvider::new()).unwrap_or_else(fail("replay"));
					replay_with(ctx, head, set, st, from, to, &r, Some(&r), &rback)
				},
				"a12" => replay_with(ctx, head, set, st, from, to, &q.remapper_a_first_to_second().unwrap_or_else(fail("replay")), None, &rback),
				"b12" => {
					let r = q.remapper_b_first_to_second(NoSuperClassProvider::new()).unwrap_or_else(fail("replay"));
					replay_with(ctx, head, set, st, from, to, &r, Some(&r), &rback)
				},
				"ab" => {
					let r = ARemapperAsBRemapper(q.remapper_a_first_to_second().unwrap_or_else(fail("replay")));
					replay_with(ctx, head, set, st, from, to, &r, Some(&r), &rback)
				},
				_ => vcore::machinery_fail("replay: unknown impl"),
			}
		},
		3 => {
			let q: Mappings<3, ()> = mapmodel::to_quill(set).unwrap_or_else(fail("replay"));
			let rback = q.remapper_a(ns(to), ns(from)).unwrap_or_else(fail("replay"));
			match imp.as_str() {
				"a" => replay_with(ctx, head, set, st, from, to, &q.remapper_a(ns(from), ns(to)).unwrap_or_else(fail("replay")), None, &rback),
				"b" => {
					let r = q.remapper_b(ns(from), ns(to), NoSuperClassProvider::new()).unwrap_or_else(fail("replay"));
					replay_with(ctx, head, set, st, from, to, &r, Some(&r), &rback)
				},
				_ => vcore::machinery_fail("replay: unknown impl"),
			}
		},
		n => vcore::machinery_fail(&format!("unsupported namespace count {n}")),
	}
}

#[allow(clippy::too_many_arguments)]
fn replay_with(ctx: &Ctx, head: &BTreeMap<String, String>, set: &MSet, st: &mut Stats, from: usize, to: usize, a: &dyn ARemapper, b: Option<&dyn BRemapper>, rback: &dyn ARemapper) -> String {
	let get = |k: &str| head.get(k).cloned().unwrap_or_else(|| vcore::machinery_fail(&format!("replay: no {k} line")));
	let engine = get("engine");
	let n = set.n();
	let fwd = CMap::build(set, from, to);
	let bwd = CMap::build(set, to, from);
	let mut ta = Tally::default();
	if engine == "names-desc" {
		let kind = TKind::from_label(&get("kind")).unwrap_or_else(|| vcore::machinery_fail("replay: bad kind"));
		let input = get("input");
		let imp = get("impl");
		let text = || desc_case_text(n, from, to, &imp, kind, &input, set);
		let real = real_map(a, kind, &input, st);
		println!("reference: {:?}", fwd.map_all(kind, &input));
		let ok = judge_desc(ctx, st, &imp, kind, &input, &real, &fwd, &text);
		let mut obs = format!("{real:?}");
		if let (true, Ok(Ok(o))) = (ok, &real) {
			let back = real_map(rback, kind, o, st);
			judge_roundtrip(ctx, &mut ta, kind, &input, o, &back, &fwd, &bwd, &text);
			obs.push_str(&format!(" back={back:?}"));
		}
		obs
	} else if engine == "names-arrayref" {
		let b = b.unwrap_or_else(|| vcore::machinery_fail("replay: array references need a BRemapper"));
		let arr = get("input");
		let imp = get("impl");
		let desc = format!("(){arr}");
		let real = real_array_ref(b, &arr, &desc, st);
		judge_array_ref(ctx, &mut ta, &imp, &arr, &desc, &real, &fwd, &|| format!("{}impl={imp}\nkind=arrclass\ninput={arr}\n{}", case_header("names-arrayref", n, from, to), case_mappings(set)));
		format!("{real:?}")
	} else if let Some(imp) = engine.strip_prefix("names-member-") {
		let b = b.unwrap_or_else(|| vcore::machinery_fail("replay: members need a BRemapper"));
		let kind = match get("kind").as_str() {
			"field" => MKind::Field,
			"method" => MKind::Method,
			_ => vcore::machinery_fail("replay: bad kind"),
		};
		let owner_name = get("owner");
		let world = World::build(set, from, to, &[owner_name.clone()]);
		let owner = world.index_of(&owner_name).unwrap_or_else(|| vcore::machinery_fail("replay: owner"));
		let sup: Vec<Option<Vec<usize>>> = vec![None; world.names.len()];
		let qu = Query::new(kind, &get("name"), &get("desc"), &fwd);
		let mut evals = 0;
		let real = real_member(b, &mapmodel::cls(&owner_name).unwrap_or_else(fail("owner")), &qu, &mut evals);
		st.evaluations += evals;
		let case_t = CaseText { engine: &engine, n, from, to, set, names: &world.names, sup: &sup, owner: &owner_name, q: &qu };
		judge_variant_member(ctx, &mut ta, &world, &sup, owner, &qu, &real, &case_t, imp == "ab");
		match &real {
			Ok(Ok(r)) => format!("fail={:?} name={:?} desc={:?}", r.fail.as_ref().map(|(a, b)| (String::from_utf8_lossy(a).into_owned(), String::from_utf8_lossy(b).into_owned())), String::from_utf8_lossy(&r.name), String::from_utf8_lossy(&r.desc)),
			Ok(Err(e)) => format!("Err({e})"),
			Err(p) => format!("panic {p:?}"),
		}
	} else {
		vcore::machinery_fail("replay: unknown names engine")
	}
}
