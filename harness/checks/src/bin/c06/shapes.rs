//! Engine "shapes": inheritance graphs beyond the four classes of the "inherit" engine, and classes that
//! declare an *overload* (same name, other descriptor) of the queried member.
//!
//! * **chain** — every chain `C0 → C1 → … → Cd` (d ≤ 4 quick / 6 thorough) with every class in one of
//!   six states: absent from the mappings, mapped without members, declares the member, declares only
//!   an overload of it, declares both, declares the member under a name that does not change; every owner.
//! * **long** — chains of up to 300 (quick) / 1025 (thorough) classes, lengths around the powers of two;
//!   the member declared by the top class (and, in a second variant, also by the middle class); the
//!   classes in between all absent / all mapped / all declaring an overload / alternating.
//! * **wide** — an owner with k ≤ 5 (quick) / 7 (thorough) direct super types, every super type
//!   absent / mapped / declaring the member / declaring an overload; the owner absent / mapped /
//!   declaring an overload.
//! * **comb** — `Ci` has the super types `[Ci+1, Ii]` (or `[Ii, Ci+1]`), i ≤ 3; every one of the eight
//!   classes absent / mapped / declaring the member.
//!
//! Two namespaces, both directions, methods and fields; the oracle is the reference lookup of
//! `world.rs` (all four accepted readings) and X→Y→X.

use std::collections::BTreeMap;
use duke::tree::class::ObjClassName;
use mapmodel::{MClass, MField, MMethod, MSet, Row};
use quill::tree::mappings::Mappings;
use quill::tree::names::Namespace;
use rayon::prelude::*;
use vcore::{json, Ctx, Stats, Value};
use super::gram::CMap;
use super::member::{jar_prov, judge_member, judge_member_roundtrip, real_member, CaseText, Query};
use super::world::{Ans, MKind, World};
use super::{case_header, case_mappings, Tally, NS};

fn ns(i: usize) -> Namespace<2> {
	Namespace::new(i).unwrap_or_else(|e| vcore::machinery_fail(&format!("namespace {i}: {e}")))
}

fn fail<T>(what: &str) -> impl FnOnce(anyhow::Error) -> T + '_ {
	move |e| vcore::machinery_fail(&format!("{what}: {e:#}"))
}

/// class states
pub const ABSENT: u8 = 0;
pub const MAPPED: u8 = 1;
pub const MEMBER: u8 = 2;
pub const OVERLOAD: u8 = 3;
pub const BOTH: u8 = 4;
/// declares the member under a name that is the same in both namespaces (it still shadows the super types)
pub const UNCHANGED: u8 = 5;

#[derive(Clone, Debug)]
pub struct Shape {
	pub family: &'static str,
	pub sup: Vec<Option<Vec<usize>>>,
	pub state: Vec<u8>,
	pub owners: Vec<usize>,
}

fn cname(i: usize) -> String {
	format!("C{i}")
}

struct Spec {
	kind: MKind,
	nm: &'static str,
	desc: &'static str,
	over: &'static str,
}

const SPECS: [Spec; 2] = [Spec { kind: MKind::Method, nm: "m", desc: "(LX;)V", over: "()V" }, Spec { kind: MKind::Field, nm: "f", desc: "LX;", over: "I" }];

/// The name in `from` is shared by all declaring classes (an inherited member has one name there), the
/// name in the other namespace tells the declaring classes (and the member from its overload) apart.
fn shape_set(sh: &Shape, spec: &Spec, from: usize) -> MSet {
	let mut set = MSet::new(&NS[..2]);
	set.classes.insert("X".to_owned(), MClass { names: vec![Some("X".to_owned()), Some("X_1".to_owned())], ..Default::default() });
	for (i, s) in sh.state.iter().enumerate() {
		if *s == ABSENT {
			continue;
		}
		let nm = cname(i);
		let mut c = MClass { names: vec![Some(nm.clone()), Some(format!("{nm}_1"))], ..Default::default() };
		let row = |tag: &str| -> Row {
			let shared = if from == 0 { spec.nm.to_owned() } else { format!("{}1", spec.nm) };
			let distinct = format!("{}{tag}_{nm}_{}", spec.nm, 1 - from);
			if from == 0 { vec![Some(shared), Some(distinct)] } else { vec![Some(distinct), Some(shared)] }
		};
		let mut add = |tag: &str, desc: &str| {
			let names = row(tag);
			let key = (names[0].clone().unwrap(), desc.to_owned());
			match spec.kind {
				MKind::Field => {
					c.fields.insert(key, MField { names, doc: None });
				},
				MKind::Method => {
					c.methods.insert(key, MMethod { names, doc: None, params: BTreeMap::new() });
				},
			}
		};
		if *s == MEMBER || *s == BOTH {
			add("p", spec.desc);
		}
		if *s == OVERLOAD || *s == BOTH {
			add("o", spec.over);
		}
		if *s == UNCHANGED {
			let shared = if from == 0 { spec.nm.to_owned() } else { format!("{}1", spec.nm) };
			let names = vec![Some(shared.clone()), Some(shared.clone())];
			match spec.kind {
				MKind::Field => {
					c.fields.insert((shared, spec.desc.to_owned()), MField { names, doc: None });
				},
				MKind::Method => {
					c.methods.insert((shared, spec.desc.to_owned()), MMethod { names, doc: None, params: BTreeMap::new() });
				},
			}
		}
		set.classes.insert(nm, c);
	}
	set
}

// ---------------------------------------------------------------------------------------------
// the families

fn chain_sup(len: usize) -> Vec<Option<Vec<usize>>> {
	(0..len).map(|i| Some(if i + 1 < len { vec![i + 1] } else { vec![] })).collect()
}

fn chains(max_d: usize) -> Vec<Shape> {
	let mut v = Vec::new();
	for d in 0..=max_d {
		let len = d + 1;
		for idx in 0..6u64.pow(len as u32) {
			let state: Vec<u8> = vcore::enumerate::product_nth(&vec![6; len], idx).into_iter().map(|x| x as u8).collect();
			v.push(Shape { family: "chain", sup: chain_sup(len), state, owners: (0..len).collect() });
		}
	}
	v
}

fn long_lengths(quick: bool) -> Vec<usize> {
	let mut v = vec![7, 8, 9, 15, 16, 17, 31, 32, 33, 63, 64, 65, 100, 127, 128, 129, 255, 256, 257, 300];
	if !quick {
		v.extend([511, 512, 513, 1000, 1023, 1024, 1025]);
	}
	v
}

fn longs(quick: bool) -> Vec<Shape> {
	let mut v = Vec::new();
	for len in long_lengths(quick) {
		for pattern in 0..4 {
			for bottom in [ABSENT, MAPPED, OVERLOAD] {
				for mid in [false, true] {
					let mut state: Vec<u8> = (0..len).map(|i| match pattern {
						0 => ABSENT,
						1 => MAPPED,
						2 => OVERLOAD,
						_ => if i % 2 == 0 { ABSENT } else { MAPPED },
					}).collect();
					state[0] = bottom;
					state[len - 1] = MEMBER;
					if mid {
						state[len / 2] = BOTH;
					}
					v.push(Shape { family: "long", sup: chain_sup(len), state, owners: vec![0, 1, len / 2, len - 2] });
				}
			}
		}
	}
	v
}

fn wides(max_k: usize) -> Vec<Shape> {
	let mut v = Vec::new();
	for k in 1..=max_k {
		let mut sup: Vec<Option<Vec<usize>>> = vec![Some((1..=k).collect())];
		sup.extend((0..k).map(|_| Some(vec![])));
		for own in [ABSENT, MAPPED, OVERLOAD] {
			for idx in 0..4u64.pow(k as u32) {
				let mut state = vec![own];
				state.extend(vcore::enumerate::product_nth(&vec![4; k], idx).into_iter().map(|x| x as u8));
				v.push(Shape { family: "wide", sup: sup.clone(), state, owners: vec![0] });
			}
		}
	}
	v
}

fn combs() -> Vec<Shape> {
	// classes 0..4 = C0..C3, 4..8 = I0..I3
	let mut v = Vec::new();
	for class_first in [true, false] {
		let sup: Vec<Option<Vec<usize>>> = (0..8).map(|i| {
			if i >= 4 {
				Some(vec![])
			} else if i == 3 {
				Some(vec![7])
			} else if class_first {
				Some(vec![i + 1, i + 4])
			} else {
				Some(vec![i + 4, i + 1])
			}
		}).collect();
		for idx in 0..3u64.pow(8) {
			let state: Vec<u8> = vcore::enumerate::product_nth(&[3; 8], idx).into_iter().map(|x| x as u8).collect();
			v.push(Shape { family: "comb", sup: sup.clone(), state, owners: vec![0, 1] });
		}
	}
	v
}

// ---------------------------------------------------------------------------------------------

fn run_shape(ctx: &Ctx, sh: &Shape, spec: &Spec, from: usize) -> Stats {
	let mut st = Stats::new();
	let mut ta = Tally::default();
	let to = 1 - from;
	let set = shape_set(sh, spec, from);
	let q: Mappings<2, ()> = mapmodel::to_quill(&set).unwrap_or_else(fail("shapes generator"));
	let fwd = CMap::build(&set, from, to);
	let bwd = CMap::build(&set, to, from);
	let len = sh.state.len();
	let name_in = |i: usize, j: usize| if sh.state[i] != ABSENT && j == 1 { format!("C{i}_1") } else { cname(i) };
	let mut names: Vec<String> = (0..len).map(|i| name_in(i, from)).collect();
	names.push(if from == 1 { "X_1".to_owned() } else { "X".to_owned() });
	let mut to_jar: Vec<String> = (0..len).map(|i| name_in(i, to)).collect();
	to_jar.push(if to == 1 { "X_1".to_owned() } else { "X".to_owned() });
	let mut sup = sh.sup.clone();
	sup.push(None);
	let header = || format!("{}{}", case_header("member", 2, from, to), case_mappings(&set));
	let prov = jar_prov(&names, &sup);
	let prov_b = jar_prov(&to_jar, &sup);
	let built = vcore::guard(|| -> anyhow::Result<_> { Ok((q.remapper_b(ns(from), ns(to), &prov)?, q.remapper_b(ns(to), ns(from), &prov_b)?)) });
	let (rb, rbb) = match built {
		Ok(Ok(x)) => x,
		Ok(Err(e)) => {
			ctx.diff("build:refused", &format!("building the remappers failed: {e:#}"), header);
			return st;
		},
		Err(p) => {
			ctx.diff(&format!("panic@{}", p.file()), &format!("building the remappers panicked at {}: {}", p.site, p.msg), header);
			return st;
		},
	};
	let world = World::build(&set, from, to, &names);
	let world_b = World::build(&set, to, from, &to_jar);
	if world.ambiguous || world.names.len() != names.len() || world_b.ambiguous || world_b.names.len() != names.len() {
		vcore::machinery_fail("shapes generator produced an ambiguous world");
	}
	let shared = if from == 0 { spec.nm.to_owned() } else { format!("{}1", spec.nm) };
	let desc_from = CMap::build(&set, 0, from).map_one(spec.kind.tkind(), spec.desc).unwrap_or_else(|| vcore::machinery_fail("shapes: descriptor in from"));
	let queries = [Query::new(spec.kind, &shared, &desc_from, &fwd), Query::new(spec.kind, &shared, spec.over, &fwd), Query::new(spec.kind, "zz", &desc_from, &fwd)];
	let mut evals = 0u64;
	for &owner in &sh.owners {
		let typed: ObjClassName = mapmodel::cls(&names[owner]).unwrap_or_else(fail("class name"));
		let to_typed: ObjClassName = mapmodel::cls(&to_jar[owner]).unwrap_or_else(fail("class name"));
		for (qi, qu) in queries.iter().enumerate() {
			let real = real_member(&rb, &typed, qu, &mut evals);
			let case = CaseText { engine: "member", n: 2, from, to, set: &set, names: &world.names, sup: &sup, owner: &names[owner], q: qu };
			let Some(a) = judge_member(ctx, &world, &sup, owner, qu, &real, &case) else { continue };
			let Ok(Ok(r)) = &real else { continue };
			ta.add("shapes:judged");
			if qi == 0 {
				match a {
					Ans::Fallback => ta.add("shapes:fallback"),
					Ans::Found { class, depth, .. } => {
						if depth >= 4 {
							ta.add("shapes:found-at-depth>=4");
						}
						if depth >= 64 {
							ta.add("shapes:found-at-depth>=64");
						}
						if depth >= 256 {
							ta.add("shapes:found-at-depth>=256");
						}
						if sh.state[class] == UNCHANGED && class != owner && (class + 1..sh.state.len()).any(|c| matches!(sh.state[c], MEMBER | BOTH)) {
							ta.add("shapes:unchanged-name-shadows-a-renamed-one");
						}
						if class != owner && matches!(sh.state[owner], OVERLOAD) {
							ta.add("shapes:found-above-an-owner-declaring-an-overload");
						}
						if sh.family == "wide" && class >= 3 {
							ta.add("shapes:found-in-third-or-later-direct-super-type");
						}
						if sh.family == "comb" && class >= 4 {
							ta.add("shapes:comb-found-in-interface");
						}
						st.distinct.add(&("shapes", sh.family, &sh.state, &sh.sup.len(), owner, class));
						if depth >= 256 {
							st.sample("shapes-deep", || json!({"engine": "shapes", "family": sh.family, "classes": len, "from": from, "to": to, "owner": names[owner], "member": [qu.name, qu.desc], "answer": [String::from_utf8_lossy(&r.name), String::from_utf8_lossy(&r.desc)], "declared_by": names[class], "depth": depth}));
						}
					},
				}
			} else if qi == 1 {
				if let Ans::Found { class, .. } = a {
					if class != owner {
						ta.add("shapes:overload-found-in-super");
					}
				}
			}
			// X→Y→X
			let acc = world.accepted(&sup, owner, qu.kind, &qu.name, &qu.desc);
			if !acc.iter().all(|x| x.same_target(&acc[0])) {
				continue;
			}
			let qb = Query::new(qu.kind, &String::from_utf8_lossy(&r.name), &String::from_utf8_lossy(&r.desc), &bwd);
			let real_b = real_member(&rbb, &to_typed, &qb, &mut evals);
			let case_r = CaseText { engine: "member-roundtrip", ..case };
			judge_member_roundtrip(ctx, &mut ta, &world_b, &sup, owner, qu, &qb, &real_b, &case_r);
		}
	}
	st.evaluations += evals;
	ta.flush(&mut st);
	st
}

pub fn run(ctx: &'static Ctx) -> (Stats, Value) {
	let quick = ctx.quick();
	let max_d = ctx.tier.pick(4, 6);
	let max_k = ctx.tier.pick(5, 7);
	let families: Vec<(&str, Vec<Shape>)> = vec![("chain", chains(max_d)), ("long", longs(quick)), ("wide", wides(max_k)), ("comb", combs())];
	let mut total = Stats::new();
	let mut sizes = Vec::new();
	for (name, shapes) in &families {
		let t0 = ctx.elapsed_s();
		let st = shapes.par_iter().enumerate().fold(Stats::new, |mut st, (i, sh)| {
			for (si, spec) in SPECS.iter().enumerate() {
				for from in 0..2 {
					let s = vcore::watched(|| format!("shapes {name} {i} kind {si} from {from}: states {:?}", &sh.state[..sh.state.len().min(16)]), || run_shape(ctx, sh, spec, from));
					st = st.merge(s);
				}
			}
			st
		}).reduce(Stats::new, Stats::merge);
		sizes.push(json!({"family": name, "graphs_with_states": shapes.len(), "kinds": 2, "directions": 2, "evaluations": st.evaluations, "wall_s": ctx.elapsed_s() - t0}));
		total = total.merge(st);
	}
	let bounds = json!({
		"class_states": ["absent from the mappings", "mapped, no members", "declares the member", "declares an overload (same name, other descriptor)", "declares both", "declares the member with the same name in both namespaces (chain family only)"],
		"members": ["m(LX;)V with overload m()V", "f:LX; with overload f:I"],
		"chain_max_depth": max_d, "long_chain_lengths": long_lengths(quick), "long_chain_fillers": ["absent", "mapped", "overload", "alternating absent/mapped"],
		"wide_max_direct_super_types": max_k, "comb": "C0..C3 with Ci: [Ci+1, Ii] or [Ii, Ci+1], 3 states per class",
		"queries_per_owner": ["the member", "the overload", "another name with the member's descriptor"],
		"families": sizes,
	});
	(total, bounds)
}
