//! Reference model of member lookup: what the property statement says a remapper from namespace
//! `from` to namespace `to` answers for (owner, member name, member descriptor), given the super types
//! the provider knows.

use mapmodel::MSet;
use super::gram::{CMap, TKind};

#[derive(Clone, Copy, Debug, PartialEq, Eq, Hash, PartialOrd, Ord)]
pub enum MKind {
	Field,
	Method,
}

impl MKind {
	pub fn label(self) -> &'static str {
		match self {
			MKind::Field => "field",
			MKind::Method => "method",
		}
	}
	pub fn tkind(self) -> TKind {
		match self {
			MKind::Field => TKind::Field,
			MKind::Method => TKind::Method,
		}
	}
}

#[derive(Clone, Debug)]
pub struct RefMember {
	pub kind: MKind,
	/// name and descriptor in namespace `from` (entries without a name in `from` do not exist there)
	pub from_name: String,
	pub from_desc: String,
	pub to_name: Option<String>,
}

#[derive(Clone, Debug)]
pub struct RefClass {
	pub to_name: Option<String>,
	pub members: Vec<RefMember>,
}

/// super types by class index; `None` = the provider does not know the class
pub type Sup = [Option<Vec<usize>>];

#[derive(Clone, Debug)]
pub struct World {
	/// class names in namespace `from`
	pub names: Vec<String>,
	/// the mapping row visible under that name in `from` (None: the mappings do not name this class)
	pub rows: Vec<Option<RefClass>>,
	pub fwd: CMap,
	/// two rows share a `from` name or a descriptor has several readings in `from`: members are not judged
	pub ambiguous: bool,
}

#[derive(Clone, Copy, Debug)]
pub enum Ans {
	Found { class: usize, member: usize, depth: usize },
	Fallback,
}

impl Ans {
	pub fn same_target(&self, o: &Ans) -> bool {
		match (self, o) {
			(Ans::Found { class: a, member: b, .. }, Ans::Found { class: c, member: d, .. }) => a == c && b == d,
			(Ans::Fallback, Ans::Fallback) => true,
			_ => false,
		}
	}
}

/// guard of the reference walks (the generators only build acyclic graphs; the deepest chain explored has 1025 classes)
const MAX_DEPTH: usize = 4096;

impl World {
	/// `first_names`: class names (in `from`) that get the first indices, in this order
	pub fn build(set: &MSet, from: usize, to: usize, first_names: &[String]) -> World {
		let zero_from = CMap::build(set, 0, from);
		let fwd = CMap::build(set, from, to);
		let mut names: Vec<String> = first_names.to_vec();
		let mut rows: Vec<Option<RefClass>> = vec![None; names.len()];
		let mut ambiguous = false;
		for c in set.classes.values() {
			let Some(f) = &c.names[from] else { continue };
			let idx = match names.iter().position(|n| n == f) {
				Some(i) => i,
				None => {
					names.push(f.clone());
					rows.push(None);
					names.len() - 1
				},
			};
			if rows[idx].is_some() {
				ambiguous = true;
				continue;
			}
			let mut members = Vec::new();
			let mut add = |kind: MKind, d0: &str, row: &mapmodel::Row, ambiguous: &mut bool| {
				let Some(from_name) = &row[from] else { return };
				let fd = zero_from.map_all(kind.tkind(), d0).unwrap_or_default();
				if fd.len() != 1 {
					*ambiguous = true;
					return;
				}
				members.push(RefMember {
					kind,
					from_name: from_name.clone(),
					from_desc: fd[0].clone(),
					to_name: row[to].clone(),
				});
			};
			for ((_, d0), fl) in &c.fields {
				add(MKind::Field, d0, &fl.names, &mut ambiguous);
			}
			for ((_, d0), me) in &c.methods {
				add(MKind::Method, d0, &me.names, &mut ambiguous);
			}
			rows[idx] = Some(RefClass { to_name: c.names[to].clone(), members });
		}
		World { names, rows, fwd, ambiguous }
	}

	pub fn index_of(&self, name: &str) -> Option<usize> {
		self.names.iter().position(|n| n == name)
	}

	/// does class `c` declare the member in `from`? → (member index, has a name in `to`)
	fn declares(&self, c: usize, kind: MKind, q: &str, dq: &str) -> Option<(usize, bool)> {
		let row = self.rows.get(c)?.as_ref()?;
		row.members.iter().position(|m| m.kind == kind && m.from_name == q && m.from_desc == dq).map(|i| (i, row.members[i].to_name.is_some()))
	}

	fn supers<'a>(sup: &'a Sup, c: usize) -> &'a [usize] {
		match sup.get(c) {
			Some(Some(v)) => v,
			_ => &[],
		}
	}

	/// depth-first in declaration order; `None` = nothing found below `c`
	#[allow(clippy::too_many_arguments)]
	fn dfs(&self, sup: &Sup, c: usize, depth: usize, kind: MKind, q: &str, dq: &str, stop_on_partial: bool, rev: bool) -> Option<Ans> {
		if depth > MAX_DEPTH {
			return None;
		}
		match self.declares(c, kind, q, dq) {
			Some((m, true)) => return Some(Ans::Found { class: c, member: m, depth }),
			Some((_, false)) if stop_on_partial => return Some(Ans::Fallback),
			_ => {},
		}
		let s = Self::supers(sup, c);
		let n = s.len();
		for k in 0..n {
			let x = if rev { s[n - 1 - k] } else { s[k] };
			if let Some(a) = self.dfs(sup, x, depth + 1, kind, q, dq, stop_on_partial, rev) {
				return Some(a);
			}
		}
		None
	}

	/// breadth-first: smallest distance first, declaration order within a level
	#[allow(clippy::too_many_arguments)]
	fn bfs(&self, sup: &Sup, owner: usize, kind: MKind, q: &str, dq: &str, stop_on_partial: bool, rev: bool) -> Ans {
		let mut level = vec![owner];
		let mut seen = vec![owner];
		let mut depth = 0;
		while !level.is_empty() && depth <= MAX_DEPTH {
			for &c in &level {
				match self.declares(c, kind, q, dq) {
					Some((m, true)) => return Ans::Found { class: c, member: m, depth },
					Some((_, false)) if stop_on_partial => return Ans::Fallback,
					_ => {},
				}
			}
			let mut next = Vec::new();
			for &c in &level {
				let s = Self::supers(sup, c);
				let n = s.len();
				for k in 0..n {
					let x = if rev { s[n - 1 - k] } else { s[k] };
					if !seen.contains(&x) {
						seen.push(x);
						next.push(x);
					}
				}
			}
			level = next;
			depth += 1;
		}
		Ans::Fallback
	}

	/// The answers the statement allows. "Nearest declaring super type in declaration order" is read
	/// both as depth-first in declaration order and as smallest distance with declaration order as the
	/// tie-break; an entry without a name in `to` may either end the search (unchanged name) or be skipped.
	pub fn accepted(&self, sup: &Sup, owner: usize, kind: MKind, q: &str, dq: &str) -> [Ans; 4] {
		[
			self.dfs(sup, owner, 0, kind, q, dq, false, false).unwrap_or(Ans::Fallback),
			self.dfs(sup, owner, 0, kind, q, dq, true, false).unwrap_or(Ans::Fallback),
			self.bfs(sup, owner, kind, q, dq, false, false),
			self.bfs(sup, owner, kind, q, dq, true, false),
		]
	}

	/// the same with every super list reversed (to measure whether declaration order decided)
	pub fn primary_reversed(&self, sup: &Sup, owner: usize, kind: MKind, q: &str, dq: &str) -> Ans {
		self.dfs(sup, owner, 0, kind, q, dq, false, true).unwrap_or(Ans::Fallback)
	}

	/// smallest number of super-type steps from `owner` to `target`
	pub fn distance(&self, sup: &Sup, owner: usize, target: usize) -> Option<usize> {
		let mut level = vec![owner];
		let mut seen = vec![owner];
		let mut depth = 0;
		while !level.is_empty() && depth <= MAX_DEPTH {
			if level.contains(&target) {
				return Some(depth);
			}
			let mut next = Vec::new();
			for &c in &level {
				for &x in Self::supers(sup, c) {
					if !seen.contains(&x) {
						seen.push(x);
						next.push(x);
					}
				}
			}
			level = next;
			depth += 1;
		}
		None
	}

	/// the classes on the depth-first path from `owner` to `target` (both included)
	pub fn path_to(&self, sup: &Sup, owner: usize, target: usize) -> Vec<usize> {
		fn go(sup: &Sup, c: usize, target: usize, path: &mut Vec<usize>) -> bool {
			if path.len() > MAX_DEPTH {
				return false;
			}
			path.push(c);
			if c == target {
				return true;
			}
			for &x in World::supers(sup, c) {
				if go(sup, x, target, path) {
					return true;
				}
			}
			path.pop();
			false
		}
		let mut p = Vec::new();
		go(sup, owner, target, &mut p);
		p
	}

	/// does (name, desc) equal what answer `a` stands for? `exp_desc` = acceptable rewritings of the queried descriptor
	pub fn matches(&self, a: &Ans, q: &str, exp_desc: &[String], name: &[u8], desc: &[u8]) -> bool {
		match a {
			Ans::Fallback => name == q.as_bytes() && exp_desc.iter().any(|d| d.as_bytes() == desc),
			Ans::Found { class, member, .. } => {
				let m = &self.rows[*class].as_ref().unwrap().members[*member];
				// the descriptor answered with a renamed member is the QUERIED descriptor with exactly its class names rewritten
				// (the entry's own descriptor carried from the first namespace to `to` was accepted here as well until the
				// repair of remapper_b recorded in known_findings.json: it can name a class by its first-namespace name)
				m.to_name.as_deref().map(|n| n.as_bytes()) == Some(name) && exp_desc.iter().any(|d| d.as_bytes() == desc)
			},
		}
	}

	/// the name answer `a` stands for
	pub fn name_of<'a>(&'a self, a: &Ans, q: &'a str) -> &'a str {
		match a {
			Ans::Fallback => q,
			Ans::Found { class, member, .. } => self.rows[*class].as_ref().unwrap().members[*member].to_name.as_deref().unwrap_or(q),
		}
	}

	/// Why could the real lookup have missed answer `a`? The first class on the path that the mappings
	/// do not name in `from` at all, or name without a name in `to`.
	pub fn blocking(&self, sup: &Sup, owner: usize, a: &Ans) -> Option<&'static str> {
		let Ans::Found { class, .. } = a else { return None };
		for c in self.path_to(sup, owner, *class) {
			match self.rows.get(c).and_then(|r| r.as_ref()) {
				None => return Some("member:inherited-through-unmapped-owner"),
				Some(r) if r.to_name.is_none() => return Some("member:owner-class-without-target-name"),
				_ => {},
			}
		}
		None
	}
}
