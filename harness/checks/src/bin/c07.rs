//! C07 — remapping a jar renames every reference consistently and nothing else.
//!
//! Every case is a jar built in memory (classes assembled by cfmodel or taken from the javac corpus,
//! resources, directories) and a remapper. The REAL `dukebox::remap::remap` runs on it, the result is
//! written with `ParsedJar::to_mem`, reopened with `zip`, every class entry parsed by the independent
//! strict parser. Expected = the input's class description with THE SAME remapper object asked at every
//! reference-carrying position (`c07/refs.rs`, written from the statement and JVMS ch. 4).
//!
//! Three observations per class, so that a loss is charged to the component that has it:
//! * `remap:<key>`  — projection of the remapped tree vs the renaming of the projection of the tree the
//!   reader built (dukebox's traversal, nothing else);
//! * `writer:<key>` — the written class vs the projection of the remapped tree (duke's writer: C02's business);
//! * plain keys     — the reader's tree vs the parser's reading of the input (duke's reader: C01's business);
//! * `e2e:<key>`    — anything visible end to end (parser's reading renamed vs parsed output) that none of
//!   the three stages explains; `jar:<key>` — entry names, non-class entries, re-opening.
//!
//! The remapper itself is anchored code too (quill's provided trait methods, `Mappings::remapper_b`, the provider
//! `Jar::get_super_classes_provider` builds): `c07/audit.rs` puts every question of every jar to it three ways —
//! * `provided:<method>:<kind>` — `map_class`, `map_*_desc`, `map_class_any`, `map_field`, `map_method` against their
//!   documented composition of the primitive answers (descriptors re-read by the harness' own JVMS 4.3 scanner);
//! * `engine:<method>:<kind>`   — the primitive answers of the real engines against the table they were built from
//!   (owner's entry, else the entry reached through the super types the jar states, else none);
//! * `provider:<kind>`          — the provider against the super class and interfaces the class files state.
//! A remapper whose provided methods contradict its primitive answers is reported and the jar is not judged.
//! A refusal (`remap` or `to_mem` returns an error) is accepted exactly when the reference renaming cannot be
//! encoded as a class file or zip entry (`cfmodel::assemble` says so), never otherwise.
//!
//! Clause → where it is decided:
//! * every reference is what the remapper answers … `remap:` keys, all spaces; positions listed in the evidence
//! * each class entry stored under the name of its remapped class … `jar:class-entry-name:*`
//! * non-class entries unchanged … `jar:non-class-entry*` (mixed jars, corpus jars)
//! * all non-name content unchanged … `remap:`/`writer:`/`e2e:` keys of `cfmodel::sdiff` (flags, instruction shape,
//!   constants, line numbers, attributes in every class-file version)
//! * re-opens as a valid jar of well-formed classes … `jar:not-a-valid-zip`, `*:output-class-not-well-formed`
//!
//! Enumerated spaces (complete within each): the position × reference-kind matrix × 19 remappers; the
//! kitchen-sink classes and module descriptors × derived remappers; constant-pool shift classes; jars
//! mixing classes, resources and directories in five layouts; the javac corpus as jars × derived remappers;
//! * class-file versions: the kitchen-sink classes and a module descriptor in each of the 37 versions the reader
//!   takes (45.0, 45.3, 45.65535, 46.0 … 67.0, 52.3, the preview minors of 56 … 66) × 3 remappers (thorough: every
//!   matrix cell in every version);
//! * odd names: the whole matrix in four other spellings of its universe — characters of 2, 3 and 4 bytes at the
//!   first, middle and last place of packages, classes and members; names that are descriptor letters (`L`, `I`, `V`,
//!   `LL`, `L$L`, `p/(S)`), default package; names that are prefixes of one another, end in `$`, differ by package or
//!   case only, a field and a method of one name; names outside the jar with lone surrogates — × 9 remappers, one of
//!   them with odd target names;
//! * pairs: all 30 × 30 ordered pairs of reference-carrying instructions in one method (and the second alone in a
//!   second method) × 4 remappers (thorough 8);
//! * nesting depth: element values nested 0 … 58 (arrays), 0 … 28 (annotations), 0 … 36 (alternating) levels and
//!   dynamic constants as bootstrap arguments 0 … 28 levels deep, every reference kind at the bottom;
//! * strings that grow to the limit: a renamed name makes a class name, field descriptor, array class name, method
//!   descriptor, field name 65534, 65535, 65536, 65537 bytes long, last character of 1, 2, 3, 6 bytes;
//! * error paths: every one-position class of the matrix and every kitchen-sink class alone in a jar, remapped once
//!   per question the code under test puts to a table remapper that fails at exactly that question: the error must
//!   come back (`remap:error-of-the-remapper-swallowed`, `panic@…`);
//! * the remapped `ParsedJar` of the sink, shift, mixed, corpus and depth jars is remapped once more with a remapper
//!   that knows no name and with one that renames every class and member of it.

#[path = "c07/refs.rs"]
mod refs;
#[path = "c07/remappers.rs"]
mod remappers;
#[path = "c07/matrix.rs"]
mod matrix;
#[path = "c07/derive.rs"]
mod derive;
#[path = "c07/audit.rs"]
mod audit;
#[path = "c07/jar.rs"]
mod jar;
#[path = "c07/extra.rs"]
mod extra;

use std::collections::{BTreeMap, BTreeSet};
use cfmodel::asm::{assemble, AsmError, Encoding, PoolOrder};
use cfmodel::gen::{js, kitchen_sink, method_with, module_class, normalize, skeleton, RETURN};
use cfmodel::model::*;
use rayon::prelude::*;
use vcore::{json, Ctx, Stats, Tier};
use jar::{prepare_case, run_case, Case, Entry, Prepared, Tally};
use remappers::Spec;

/// assembles a generated class; the oracle's self-check `parse(assemble(m)) == m` comes first
fn bytes_of(label: &str, m: &SClass, enc: &Encoding) -> Vec<u8> {
	let b = match assemble(m, enc) {
		Ok(b) => b,
		Err(AsmError::Unencodable(e)) => fail(&format!("{label}: generated class cannot be encoded: {e}")),
		Err(AsmError::Internal(e)) => fail(&format!("{label}: assembler: {e}")),
	};
	match cfmodel::parse(&b) {
		Ok(p) if &p.class == m => b,
		Ok(p) => fail(&format!("{label}: assembler and reference parser disagree: {:?}", cfmodel::sdiff::diff(m, &p.class).0.first())),
		Err(e) => fail(&format!("{label}: the reference parser rejects an assembled class: {e}")),
	}
}

fn encodings(quick: bool) -> Vec<Encoding> {
	let mut v = vec![Encoding::default()];
	if !quick {
		v.push(Encoding { default_form: 2, pool: PoolOrder::Reversed, ..Default::default() });
	}
	v
}

struct Space {
	name: &'static str,
	/// (case, remappers to run it with)
	cases: Vec<(Prepared, Vec<Spec>)>,
}

fn matrix_space(quick: bool) -> (Space, Vec<(String, usize)>) {
	let specs = matrix::specs();
	let cells = matrix::cells();
	let cell_ids = cells.iter().map(|c| (c.position.to_owned(), c.kind)).collect();
	let encs = encodings(quick);
	let cases = cells.par_iter().flat_map_iter(|cell| {
		encs.iter().enumerate().map(|(k, enc)| {
			let label = format!("matrix/{}/{}/enc{k}", cell.position, matrix::KINDS[cell.kind]);
			let entries = cell.classes.iter().map(|c| Entry::Class(bytes_of(&label, c, enc))).collect();
			let mut p = prepare_case(Case { label, entries, second_pass: false });
			p.audit_full = true;
			(p, specs.clone())
		}).collect::<Vec<_>>()
	}).collect();
	(Space { name: "matrix", cases }, cell_ids)
}

fn specs_for(p: &Prepared) -> Vec<Spec> {
	let classes: Vec<&SClass> = p.pres.iter().flatten().map(|p| &p.s0).collect();
	derive::specs(&classes)
}

fn sink_space(quick: bool) -> Space {
	let mut cases = Vec::new();
	for variant in 0..6usize {
		let mut s = kitchen_sink(variant);
		normalize(&mut s);
		for (k, enc) in encodings(quick).iter().enumerate() {
			let label = format!("sink/variant{variant}/enc{k}");
			// the sink, and small classes for some of the names it refers to (so that the jar's super-type provider knows them)
			let mut own = skeleton("p/Own");
			own.fields.push(SField { access: 1, name: js("f"), desc: js("I"), ..Default::default() });
			own.methods.push(method_with("v", "(IJ)V", vec![RETURN]));
			own.methods.push(method_with("s", "(I)I", vec![SInsn::Load(LvKind::I, 0), SInsn::Simple(op::IRETURN)]));
			let mut inner = skeleton("p/Sink$In0");
			inner.super_class = Some(js("p/Own"));
			let entries = vec![Entry::Class(bytes_of(&label, &own, enc)), Entry::Class(bytes_of(&label, &s, enc)), Entry::Class(bytes_of(&label, &inner, enc)), Entry::Class(bytes_of(&label, &skeleton("p/T"), enc))];
			let p = prepare_case(Case { label, entries, second_pass: true });
			let specs = specs_for(&p);
			cases.push((p, specs));
		}
	}
	for open in [false, true] {
		for k in 0..3usize {
			let label = format!("sink/module-open{open}-{k}");
			let entries = vec![Entry::Class(bytes_of(&label, &module_class(open, k), &Encoding::default())), Entry::Class(bytes_of(&label, &skeleton("p/Main"), &Encoding::default())), Entry::Class(bytes_of(&label, &skeleton("p/Impl0"), &Encoding::default()))];
			let p = prepare_case(Case { label, entries, second_pass: true });
			let specs = specs_for(&p);
			cases.push((p, specs));
		}
	}
	Space { name: "kitchen-sink", cases }
}

/// Classes whose constant pool changes size when names are renamed: a string constant equal to a class
/// name (shares the Utf8 entry until the class is renamed), one equal to the new name (shares it
/// afterwards), with `n` other constants in front so that the `ldc` indices sit around 255/256.
fn shift_space() -> Space {
	let specs: Vec<Spec> = matrix::specs().into_iter().filter(|s| ["identity-quill", "total-same-length", "total-growing", "total-shrinking", "chain-table", "unicode"].contains(&s.name.as_str())).collect();
	let mut cases = Vec::new();
	for n in 236..=262usize {
		let mut insns: Vec<SInsn> = (0..n).map(|i| SInsn::Ldc(SConst::Str(js(&format!("s{i}"))))).collect();
		insns.extend([
			SInsn::Ldc(SConst::Class(js(matrix::M))), SInsn::Ldc(SConst::Str(js(matrix::M))), SInsn::Ldc(SConst::Str(js("p/N"))), SInsn::Ldc(SConst::Str(js("a"))),
			SInsn::Ldc(SConst::Class(js(matrix::V))), SInsn::Ldc(SConst::Str(js("Lp/M;"))), SInsn::Ldc(SConst::MethodType(js("(Lp/M;)Lp/V;"))),
			SInsn::Field(op::GETSTATIC, cfmodel::gen::mref(matrix::M, "f", "I")), SInsn::Ldc(SConst::Str(js("f"))), SInsn::Ldc(SConst::Str(js("tail"))), SInsn::Ldc(SConst::Long(7)), RETURN,
		]);
		let mut host = skeleton(matrix::HOST);
		host.methods.push(method_with("run", "()V", insns));
		let label = format!("shift/{n}");
		let mut classes = matrix::support_classes();
		classes.push(host);
		let entries = classes.iter().map(|c| Entry::Class(bytes_of(&label, c, &Encoding::default()))).collect();
		cases.push((prepare_case(Case { label, entries, second_pass: true }), specs.clone()));
	}
	Space { name: "constant-pool-shift", cases }
}

/// deterministic incompressible bytes (xorshift64*): content for large jar entries, not a source of cases
fn noise(n: usize, seed: u64) -> Vec<u8> {
	let mut x = 0x9e37_79b9_7f4a_7c15u64 ^ seed.wrapping_mul(0xbf58_476d_1ce4_e5b9);
	(0..n).map(|_| {
		x ^= x >> 12;
		x ^= x << 25;
		x ^= x >> 27;
		(x.wrapping_mul(0x2545_f491_4f6c_dd1d) >> 56) as u8
	}).collect()
}

/// a method whose jumps do not fit 16 bits: a forward `goto_w` over more than 32767 bytes, short forward jumps behind
/// it, a far backward `goto_w`, with references to renamed classes on both sides of the long stretch
fn far_jump_class() -> SClass {
	let mut c = skeleton("p/Far");
	let pad = 33_000usize;
	// 0: goto_w far(end-2) ; 1: getstatic ; 2..: nops ; then: getstatic, ifeq +1, goto (short forward), return ; goto_w back to 1
	let mut insns = vec![SInsn::Branch(op::GOTO, (pad + 3) as Idx), SInsn::Field(op::GETSTATIC, cfmodel::gen::mref(matrix::M, "f", "I")), SInsn::Simple(0x57)];
	insns.extend((0..pad).map(|_| SInsn::Simple(op::NOP)));
	let base = insns.len() as Idx;
	insns.extend([
		SInsn::Field(op::GETSTATIC, cfmodel::gen::mref(matrix::M, "f", "I")),
		SInsn::Branch(op::IFEQ, base + 3),
		SInsn::Branch(op::GOTO, base + 4),
		SInsn::Branch(op::GOTO, 1),
		RETURN,
	]);
	c.methods.push(method_with("far", "()V", insns));
	c
}

/// a class whose file is large and incompressible: an unknown attribute of 100 000 noise bytes
fn bulky_class() -> SClass {
	let mut c = skeleton("p/Bulky");
	c.super_class = Some(js(matrix::M));
	c.unknown.push(SUnknown { name: js("Noise"), bytes: noise(100_000, 7) });
	c
}

/// jars mixing classes, resources and directories
fn mix_space() -> Space {
	let specs = matrix::specs();
	let enc = Encoding::default();
	let mut classes = matrix::support_classes();
	let mut host = skeleton(matrix::HOST);
	host.super_class = Some(js(matrix::SUB));
	host.methods.push(method_with("run", "()V", vec![SInsn::Invoke(op::INVOKEVIRTUAL, cfmodel::gen::mref(matrix::SUB, "m", "()V"), false), SInsn::Field(op::GETSTATIC, cfmodel::gen::mref(matrix::E, "K", "Lp/E;")), RETURN]));
	classes.push(host);
	classes.push(far_jump_class());
	classes.push(bulky_class());
	let class_entries: Vec<Entry> = classes.iter().map(|c| Entry::Class(bytes_of("mix", c, &enc))).collect();
	let a_class = bytes_of("mix", &classes[0], &enc);
	let res = |name: &str, bytes: &[u8], deflate: bool| Entry::Other { name: name.to_owned(), bytes: bytes.to_vec(), deflate };
	let resources = vec![
		res("META-INF/MANIFEST.MF", b"Manifest-Version: 1.0\r\nMain-Class: p.M\r\n\r\n", true),
		res("p/M.txt", b"p/M p.M Lp/M; mentions of class names in resources stay as they are", false),
		res("p/empty", b"", false),
		res("p/M.class.bak", &a_class, true),
		res("p/looks-like-a-class.bin", &a_class, false),
		res("data/binary", &(0..=255u8).chain([0xca, 0xfe, 0xba, 0xbe]).collect::<Vec<u8>>(), true),
		res("p/M$In.properties", b"key=value\n", false),
		res("classy", b"not a class", false),
		res("README.class.md", b"# readme", true),
		// entries larger than any buffer a reader might fill in one go (64 KiB deflate window, 32 KiB chunks), incompressible
		// so that the compressed size is large too; and a large compressible one
		res("assets/noise-deflated.bin", &noise(200_000, 1), true),
		res("assets/noise-stored.bin", &noise(70_000, 2), false),
		res("assets/zeros-deflated.bin", &vec![0u8; 300_000], true),
		res("assets/noise-33k.bin", &noise(33_000, 3), true),
	];
	let dirs = vec![Entry::Dir("META-INF/".into()), Entry::Dir("p/".into()), Entry::Dir("p/sub/".into()), Entry::Dir("data/".into()), Entry::Dir("empty-dir/".into())];
	let mut layouts: Vec<(&str, Vec<Entry>)> = Vec::new();
	layouts.push(("classes-only", class_entries.clone()));
	layouts.push(("dirs-resources-classes", dirs.iter().chain(&resources).chain(&class_entries).cloned().collect()));
	layouts.push(("classes-resources-dirs", class_entries.iter().chain(&resources).chain(&dirs).cloned().collect()));
	let mut inter = Vec::new();
	for i in 0..class_entries.len().max(resources.len()).max(dirs.len()) {
		inter.extend(resources.get(i).cloned());
		inter.extend(class_entries.get(i).cloned());
		inter.extend(dirs.get(i).cloned());
	}
	layouts.push(("interleaved", inter.clone()));
	inter.reverse();
	layouts.push(("interleaved-reversed", inter));
	layouts.push(("resources-only", dirs.iter().chain(&resources).cloned().collect()));
	layouts.push(("empty-jar", vec![]));
	let cases = layouts.into_iter().map(|(n, entries)| (prepare_case(Case { label: format!("mix/{n}"), entries, second_pass: true }), specs.clone())).collect();
	Space { name: "mixed-jars", cases }
}

fn corpus_space(ctx: &Ctx, groups: &[&str], slice: Option<usize>) -> Space {
	let all = cfmodel::corpus::vendored(&vcore::verif_root());
	let mut cases = Vec::new();
	for g in groups {
		let prefix = format!("{g}/");
		let entries: Vec<Entry> = all.iter().filter(|(n, _)| n.starts_with(&prefix)).map(|(_, b)| Entry::Class(b.clone())).collect();
		if entries.is_empty() {
			ctx.note(format!("corpus group {g} is empty"));
			continue;
		}
		let mut entries = entries;
		entries.push(Entry::Other { name: "META-INF/MANIFEST.MF".into(), bytes: b"Manifest-Version: 1.0\r\n\r\n".to_vec(), deflate: true });
		let p = prepare_case(Case { label: format!("corpus/{g}"), entries, second_pass: true });
		let mut specs = specs_for(&p);
		if let Some(n) = slice {
			// the quick tier runs a fixed slice of the derived remappers on the secondary groups
			specs.truncate(n);
		}
		cases.push((p, specs));
	}
	Space { name: "javac-corpus", cases }
}

fn jdk_space(ctx: &Ctx) -> Space {
	let jdk = cfmodel::corpus::jdk_java_base(&vcore::verif_root().join("harness").join("target").join("tmp-jdk-c07"));
	let mut cases = Vec::new();
	if jdk.is_empty() {
		ctx.note("no JDK image available: the optional java.base sweep was skipped");
	} else {
		// packages of java.base as separate jars
		let mut by_pkg: BTreeMap<String, Vec<Entry>> = BTreeMap::new();
		for (name, bytes) in &jdk {
			let pkg = name.trim_start_matches("java.base/").rsplit_once('/').map(|(p, _)| p.to_owned()).unwrap_or_default();
			by_pkg.entry(pkg).or_default().push(Entry::Class(bytes.clone()));
		}
		for (pkg, entries) in by_pkg {
			let p = prepare_case(Case { label: format!("jdk/{pkg}"), entries, second_pass: false });
			let specs: Vec<Spec> = specs_for(&p).into_iter().filter(|s| ["shrink-all", "package-move-all", "rotate-table"].contains(&s.name.as_str())).collect();
			cases.push((p, specs));
		}
	}
	Space { name: "jdk-java.base (optional breadth)", cases }
}

fn run_space(ctx: &'static Ctx, space: &Space) -> (Stats, Tally) {
	let jobs: Vec<(&Prepared, &Spec)> = space.cases.iter().flat_map(|(p, specs)| specs.iter().map(move |s| (p, s))).collect();
	jobs.into_par_iter().fold(|| (Stats::new(), Tally::default()), |(mut st, mut tally), (p, s)| {
		run_case(ctx, &mut st, &mut tally, p, s);
		(st, tally)
	}).reduce(|| (Stats::new(), Tally::default()), |(a, ta), (b, tb)| (a.merge(b), ta.merge(tb)))
}

fn space_for_label(ctx: &'static Ctx, label: &str) -> Space {
	match label.split('/').next().unwrap_or("") {
		"matrix" => matrix_space(false).0,
		"sink" => sink_space(false),
		"shift" => shift_space(),
		"mix" => mix_space(),
		"corpus" => corpus_space(ctx, &["main", "main8", "main11", "mod", "openmod"], None),
		"jdk" => jdk_space(ctx),
		"versions" => extra::versions_space(),
		"vmatrix" => extra::versions_matrix_space(),
		"odd" => extra::odd_names_space(false),
		"pairs" => extra::pairs_space(false),
		"depth" => extra::depth_space(),
		"limit" => extra::limit_space(),
		"failing" => extra::failing_space(),
		other => fail(&format!("replay: unknown space {other:?}")),
	}
}

fn replay(ctx: &'static Ctx, path: &std::path::Path) -> ! {
	let body = vcore::replay_body(path);
	let _ = silence_stderr();
	let get = |k: &str| body.lines().find_map(|l| l.strip_prefix(k)).map(|s| s.to_owned()).unwrap_or_else(|| fail(&format!("replay: no {k} line")));
	let (label, remapper) = (get("label="), get("remapper="));
	let remapper = remapper.split(' ').next().unwrap_or("").to_owned();
	let space = space_for_label(ctx, &label);
	let Some((p, specs)) = space.cases.iter().find(|(p, _)| p.label == label) else { fail(&format!("replay: no case {label:?}")) };
	let Some(spec) = specs.iter().find(|s| s.name == remapper) else { fail(&format!("replay: no remapper {remapper:?} for {label:?}")) };
	let mut counts = Vec::new();
	for _ in 0..2 {
		let before = ctx.violation_count();
		let mut st = Stats::new();
		run_case(ctx, &mut st, &mut Tally::default(), p, spec);
		counts.push(ctx.violation_count() - before);
	}
	if counts[0] != counts[1] {
		fail(&format!("replay: two runs of the same case differ: {counts:?} unlisted differences"));
	}
	ctx.finish(json!({"evaluations": 2, "distinct_nontrivial": 2, "rule": "replay of one jar × remapper, twice", "samples": [label, remapper]}), &[]);
}

static SAVED_STDERR: std::sync::atomic::AtomicI32 = std::sync::atomic::AtomicI32::new(-1);

/// a machinery failure (exit 2); stderr is given back first so that the message is seen
pub fn fail(msg: &str) -> ! {
	let fd = SAVED_STDERR.swap(-1, std::sync::atomic::Ordering::SeqCst);
	if fd >= 0 {
		restore_stderr(Some(fd));
	}
	vcore::machinery_fail(msg)
}

/// dukebox reports every `// TODO` it passes on stderr (one line per Signature attribute and per
/// non-class entry); the sweep silences stderr unless C07_STDERR is set
fn silence_stderr() -> Option<i32> {
	if std::env::var_os("C07_STDERR").is_some() {
		return None;
	}
	// SAFETY: plain file-descriptor calls on descriptors this process owns
	unsafe {
		let saved = libc::dup(2);
		let null = libc::open(c"/dev/null".as_ptr(), libc::O_WRONLY);
		if saved < 0 || null < 0 {
			return None;
		}
		libc::dup2(null, 2);
		libc::close(null);
		SAVED_STDERR.store(saved, std::sync::atomic::Ordering::SeqCst);
		Some(saved)
	}
}

fn restore_stderr(saved: Option<i32>) {
	SAVED_STDERR.store(-1, std::sync::atomic::Ordering::SeqCst);
	if let Some(fd) = saved {
		// SAFETY: as above
		unsafe {
			libc::dup2(fd, 2);
			libc::close(fd);
		}
	}
}

fn main() {
	let ctx: &'static Ctx = Box::leak(Box::new(Ctx::new("C07", "exploration")));
	if let Some(path) = ctx.replay.clone() {
		replay(ctx, &path);
	}
	let quick = ctx.tier == Tier::Quick;
	vcore::set_case_budget_ms(120_000);

	let (matrix, cell_ids) = matrix_space(quick);
	// development aid: C07_ONLY=<part of a space name>[,…] runs only these spaces (the floors of the others are then
	// unmet: such a run can report differences, it can never pass)
	let only = std::env::var("C07_ONLY").ok();
	let want = |n: &str| only.as_deref().is_none_or(|o| o.split(',').any(|x| n.contains(x)));
	let mut spaces: Vec<Space> = Vec::new();
	if want("matrix") {
		spaces.push(matrix);
	}
	let makers: Vec<(&str, Box<dyn Fn() -> Space>)> = vec![
		("kitchen-sink", Box::new(move || sink_space(quick))),
		("constant-pool-shift", Box::new(shift_space)),
		("mixed-jars", Box::new(mix_space)),
		("class-file-versions", Box::new(extra::versions_space)),
		("odd-names", Box::new(move || extra::odd_names_space(quick))),
		("pairs-of-references", Box::new(move || extra::pairs_space(quick))),
		("nesting-depth", Box::new(extra::depth_space)),
		("strings-that-grow-to-the-limit", Box::new(extra::limit_space)),
		("failing-remapper", Box::new(extra::failing_space)),
	];
	for (name, make) in makers {
		if want(name) {
			spaces.push(make());
		}
	}
	if !quick && want("matrix-in-every-version") {
		spaces.push(extra::versions_matrix_space());
	}
	if want("javac-corpus") {
		if quick {
			spaces.push(corpus_space(ctx, &["main", "mod", "openmod"], None));
			spaces.push(corpus_space(ctx, &["main8", "main11"], Some(3)));
		} else {
			spaces.push(corpus_space(ctx, &["main", "main8", "main11", "mod", "openmod"], None));
		}
	}
	if !quick && want("jdk") {
		spaces.push(jdk_space(ctx));
	}
	if only.is_some() {
		ctx.note("C07_ONLY is set: only a part of the tier ran");
	}

	let saved = silence_stderr();
	let mut total = Stats::new();
	let mut tally = Tally::default();
	let mut per_space = serde_json::Map::new();
	let mut corpus_classes = 0u64;
	let mut jdk_classes = 0u64;
	let mut cells_run: BTreeSet<String> = BTreeSet::new();
	let mut by_space: BTreeMap<String, BTreeMap<String, u64>> = BTreeMap::new();
	for space in &spaces {
		let t0 = ctx.elapsed_s();
		let (st, t) = run_space(ctx, space);
		let jars = space.cases.len();
		let classes: usize = space.cases.iter().map(|(p, _)| p.pres.iter().flatten().count()).sum();
		if space.name == "javac-corpus" {
			corpus_classes += classes as u64;
		}
		if space.name.starts_with("jdk") {
			jdk_classes += classes as u64;
		}
		if space.name == "matrix" {
			for (p, specs) in &space.cases {
				if !specs.is_empty() {
					cells_run.insert(p.label.rsplit_once('/').map(|(a, _)| a.to_owned()).unwrap_or_default());
				}
			}
		}
		let entry = json!({"jars": jars, "classes_in_jars": classes, "remappers_per_jar": space.cases.first().map(|(_, s)| s.len()).unwrap_or(0), "jar_remaps": st.evaluations, "outcomes": st.outcomes, "wall_s": ((ctx.elapsed_s() - t0) * 10.0).round() / 10.0});
		let name = if per_space.contains_key(space.name) { format!("{} (secondary groups, slice of the remappers)", space.name) } else { space.name.to_owned() };
		per_space.insert(name, entry);
		let numbers = by_space.entry(space.name.to_owned()).or_default();
		*numbers.entry("jar_remaps".into()).or_insert(0) += st.evaluations;
		for (k, v) in &st.outcomes {
			*numbers.entry(k.clone()).or_insert(0) += v;
		}
		total = total.merge(st);
		tally = tally.merge(t);
	}
	restore_stderr(saved);

	// --- vacuity floors
	let cells_expected = cell_ids.len() as u64;
	ctx.floor("matrix cells (position × reference kind) executed", cells_expected, cells_run.len() as u64);
	ctx.floor("matrix cells: at least 300", 300, cells_expected);
	// the name of a method of an array class (`[Lp/M;.clone`) has no answer other than itself: judged (must stay), never renamed
	let renameable: Vec<&String> = tally.judged_positions.keys().filter(|k| !k.ends_with("-on-array-class.name")).collect();
	let never_renamed: Vec<&String> = renameable.iter().filter(|k| !tally.renamed_positions.contains_key(**k)).copied().collect();
	ctx.floor("judged position keys", 90, tally.judged_positions.len() as u64);
	ctx.floor("judged position keys at which a remapper's answer differed from the original at least once", renameable.len() as u64, (renameable.len() - never_renamed.len()) as u64);
	if !never_renamed.is_empty() {
		ctx.note(format!("positions never exercised with a renaming answer: {never_renamed:?}"));
	}
	ctx.floor("classes whose written output differs from the input", ctx.tier.pick(5_000, 20_000), total.get("class:output-differs-from-input"));
	ctx.floor("classes the reference renaming changes", ctx.tier.pick(5_000, 20_000), total.get("class:renaming-changes-the-class"));
	ctx.floor("class entries stored under a new name", 1_000, total.get("entry:class:stored-under-new-name"));
	ctx.floor("member references/declarations renamed through a super type", 200, total.get("member:renamed-through-a-super-type"));
	ctx.floor("… in matrix cells 'member inherited from a super type inside the jar'", 50, total.get("member:renamed-through-a-super-type:matrix-cells-inherited-inside-jar"));
	ctx.floor("… in matrix cells 'member inherited from a super type outside the jar'", 50, total.get("member:renamed-through-a-super-type:matrix-cells-inherited-outside-jar"));
	ctx.floor("remapped jars remapped once more as ParsedJar", 100, total.get("remap:second-pass-through-parsed-jar"));
	ctx.floor("resources and directories carried through", 500, total.get("entry:resource") + total.get("entry:directory"));
	ctx.floor("jars re-opened", ctx.tier.pick(5_000, 10_000), total.get("jar:reopened"));
	ctx.floor("vendored corpus classes in jars", 300, corpus_classes);

	// --- the spaces added for what the first spaces could not see
	let of = |space: &str, key: &str| by_space.get(space).and_then(|m| m.get(key)).copied().unwrap_or(0);
	let labels_of = |space: &str| -> Vec<&str> { spaces.iter().filter(|s| s.name == space).flat_map(|s| s.cases.iter().filter(|(_, specs)| !specs.is_empty()).map(|(p, _)| p.label.as_str())).collect() };
	let versions_run: BTreeSet<&str> = labels_of("class-file-versions").into_iter().filter_map(|l| l.split('/').nth(1)).collect();
	ctx.floor("class-file versions in which the kitchen-sink classes were remapped (45.0, 45.3, 45.65535, 46.0 … 67.0, 52.3, preview 56 … 66)", extra::all_versions().len() as u64, versions_run.len() as u64);
	ctx.floor("… at least 37 versions", 37, extra::all_versions().len() as u64);
	ctx.floor("… classes of these jars written and parsed back", 1_500, of("class-file-versions", "class:output-well-formed"));
	let universes: BTreeSet<&str> = labels_of("odd-names").into_iter().filter_map(|l| l.split('/').nth(1)).collect();
	ctx.floor("universes of odd names (multi-byte, descriptor letters, prefixes and `$`, not a string)", 4, universes.len() as u64);
	ctx.floor("… matrix cells remapped in them", 3 * cells_expected, labels_of("odd-names").len() as u64);
	ctx.floor("… class entries stored under a new name", 50_000, of("odd-names", "entry:class:stored-under-new-name"));
	ctx.floor("ordered pairs of reference-carrying instructions in one method", 900, labels_of("pairs-of-references").len() as u64);
	let deepest = |kind: &str| labels_of("nesting-depth").into_iter().filter_map(|l| { let mut it = l.split('/'); (it.nth(1) == Some(kind)).then(|| it.next().and_then(|d| d.parse::<u64>().ok())).flatten() }).max().unwrap_or(0);
	ctx.floor("deepest nesting of arrays in element values", 58, deepest("arrays"));
	ctx.floor("deepest nesting of annotations in element values", 28, deepest("annotations"));
	ctx.floor("deepest alternating nesting in element values", 36, deepest("alternating"));
	ctx.floor("deepest nesting of dynamic constants as bootstrap arguments", 28, deepest("dynamic-constants"));
	ctx.floor("jars whose renamed strings have exactly 65534 or 65535 bytes, written and compared", 80, of("strings-that-grow-to-the-limit", "jar:reopened"));
	ctx.floor("jars whose renamed strings have 65536 or 65537 bytes, refused", 80, of("strings-that-grow-to-the-limit", "jar:write-refused-because-the-renamed-jar-cannot-be-encoded") + of("strings-that-grow-to-the-limit", "remap:refused-because-the-renamed-jar-cannot-be-encoded"));
	ctx.floor("remaps in which the remapper failed at one question and the error came back", 3_000, of("failing-remapper", "failing-remapper:error-comes-back"));
	ctx.floor("… jars of which every question has failed once", cells_expected + 6, labels_of("failing-remapper").len() as u64);
	ctx.floor("questions put to the remappers themselves", 500_000, total.get("audit:questions-put-to-the-remapper"));
	ctx.floor("… members the real engine must find through a super type of the jar", 10_000, total.get("audit:engine:member-through-a-super-type"));
	ctx.floor("… members the real engine must find in the entry of the owner", 100_000, total.get("audit:engine:member-with-an-entry"));
	ctx.floor("… members without answer that keep their name and get the mapped descriptor", 100_000, total.get("audit:provided:member-without-an-answer-keeps-its-name"));
	ctx.floor("… super types stated by the classes of the jars, compared with the provider's", 50_000, total.get("audit:provider:super-types-stated"));
	ctx.floor("remapped jars remapped once more with a remapper that renames everything", 100, total.get("remap:second-pass-that-renames-everything"));

	let specs = matrix::specs();
	let coverage = json!({
		"evaluations": total.evaluations,
		"distinct_nontrivial": total.distinct.len(),
		"rule": "every jar × remapper is one execution of the real dukebox::remap::remap + ParsedJar::to_mem; each class entry of the result is parsed by the independent strict parser and compared position by position with the input's description renamed by asking the same remapper object; distinct_nontrivial = distinct (class description, remapper) pairs whose renaming differs from the input",
		"exhaustive": true,
		"samples": total.samples,
		"outcomes": total.outcomes,
		"spaces": per_space,
		"bounds": {
			"matrix_positions": matrix::positions().len(),
			"matrix_reference_kinds": matrix::KINDS,
			"matrix_cells": cells_expected,
			"matrix_remappers": specs.iter().map(|s| format!("{} ({:?})", s.name, s.engine)).collect::<Vec<_>>(),
			"matrix_encodings": encodings(quick).len(),
			"derived_remappers": ["identity", "package-move-all", "shrink-all", "shrink-all-table", "grow-all", "members-only", "every-second-no-provider", "referenced-outside-table", "rotate-table", "inner-only"],
			"kitchen_sink_variants": 6,
			"module_descriptors": 6,
			"constant_pool_shift": "236..=262 leading string constants",
			"jar_layouts": 7,
			"class_file_versions": versions_run,
			"odd_name_universes": extra::translits().iter().map(|t| t.name).collect::<Vec<_>>(),
			"pairs_alphabet": 30,
			"nesting_depth": {"arrays": 58, "annotations": 28, "alternating": 36, "dynamic_constants": 28, "note": "the independent parser reads element values 64 and dynamic constants 32 levels deep; duke's own limit of 256 is beyond it"},
			"string_limit": "65534, 65535, 65536, 65537 bytes × last character of 1, 2, 3, 6 bytes × class name, field descriptor, array class name, method descriptor, field name × table and quill engine",
			"audit": "every class, descriptor and member question the classes of a jar put (matrix, odd names, diagonal of the pairs: every member key of the table asked of every class) answered by the remapper's provided methods, its primitive methods and the table it was built from",
			"corpus_classes_in_jars": corpus_classes,
			"corpus_quick": "groups main, mod, openmod × all derived remappers; main8, main11 × the first 3",
			"jdk_classes_in_jars": jdk_classes,
		},
		"positions_judged": tally.judged_positions,
		"positions_renamed": tally.renamed_positions,
	});
	ctx.finish(coverage, &[
		"cfmodel's strict parser is the independent reading of JVMS ch. 4 (self-check parse(assemble(m)) == m on every generated class)",
		"expected = the remapper's own answers: map_class / map_class_any for CONSTANT_Class names, map_field_desc / map_method_desc / map_return_desc for descriptors, map_field / map_method with the ORIGINAL owner for member references and with the class itself for declarations and record components; the owner of a member reference is renamed by map_class",
		"annotation enum constants are field references (owner and descriptor = the enum type); the simple name of an InnerClasses record is judged only for member classes Outer$Name whose renamed name still starts with the renamed outer class + '$'",
		"not judged, only counted (the remapper cannot be asked, or the statement does not list them): Signature attributes incl. LocalVariableTypeTable, names of local variables and parameters, invokedynamic / dynamic-constant names, annotation element names, SourceFile, SourceDebugExtension, module/package names of a module descriptor",
		"array-class owners occur only with `clone()Ljava/lang/Object;`",
		"classes duke's reader refuses are left out of the jars (C01 reports them); losses of duke's reader and writer are reported under their own keys (plain / writer:) and are C01's / C02's business",
		"remappers are injective on the class names of the jar (a jar cannot hold two entries of one name)",
		"zip metadata (timestamps, compression method, entry order) is not part of the statement and is not compared",
		"a refusal of remap or to_mem is accepted only when cfmodel's assembler cannot encode the reference renaming either (a constant-pool string of more than 65535 bytes of modified UTF-8) or an entry name exceeds 65535 bytes",
		"audit of the remapper: a descriptor is read by JVMS 4.3 (outside a class name `L` starts a class name that ends at the next `;`); when several super types of an owner have different entries for a member any of their answers is accepted; names that are no UTF-16 strings (lone surrogates) cannot have entries in a mapping table",
		"the second pass that renames everything is judged against the reference renaming of the trees the first pass produced (a loss of the first pass is charged once)",
	]);
}
