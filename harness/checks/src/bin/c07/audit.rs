//! The remapper under audit: dukebox is judged against "what the remapper answers" (`refs.rs`), and the remapper
//! itself — quill's provided trait methods, `Mappings::remapper_b` and the super-type provider dukebox builds from
//! the jar, all anchored code of this property — is judged here against the data it was built from.
//!
//! Three layers, each with its own keys:
//! * `provided:<method>` — the provided ("do not implement this yourself") methods of `ARemapper` / `BRemapper`
//!   against their documented composition of the primitive answers: `map_class` = `map_class_fail` or the name
//!   itself; `map_*_desc` / `map_class_any` = the descriptor with every class name in it (JVMS 4.3 grammar, read by
//!   the harness' own scanner) replaced by `map_class`; `map_field` / `map_method` = the `_fail` answer, or the old
//!   name with the mapped descriptor.
//! * `engine:<method>` — the primitive answers of the real `remapper_b` engines against the table the remapper was
//!   built from: a class has the target name of its entry; a member has the target name of the entry of its owner,
//!   otherwise of the entry found through the super types the jar states (when several super types answer
//!   differently any of those answers is accepted: the statement does not order them), otherwise none; the
//!   descriptor answered with a member is the member's descriptor with the class table applied.
//! * `provider:<what>` — `Jar::get_super_classes_provider` against the super class and interfaces the class files
//!   of the jar state (independent parser's reading).

use std::collections::{BTreeMap, BTreeSet};
use cfmodel::model::*;
use quill::remapper::{BRemapper, JarSuperProv};
use vcore::{Ctx, Stats};
use super::refs::{self, from_java, to_java, Site};
use super::remappers::{Engine, Spec};

type R<T> = Result<T, String>;

fn e<T>(r: anyhow::Result<T>) -> R<T> {
	r.map_err(|e| format!("{e:#}"))
}

/// The descriptor (field, method, return descriptor or array class name) with `f` applied to every class name in
/// it. JVMS 4.3.2/4.3.3: scanning from the left, outside a class name, `L` starts a class name that ends at the
/// next `;`; every other unit is a base type, `[`, `(`, `)` or `V` and is copied.
pub fn map_desc(d: &JS, f: &mut dyn FnMut(&JS) -> R<JS>) -> R<JS> {
	let v = &d.0;
	let mut out = Vec::with_capacity(v.len());
	let mut i = 0;
	while i < v.len() {
		out.push(v[i]);
		if v[i] == b'L' as u16 {
			let Some(len) = v[i + 1..].iter().position(|u| *u == b';' as u16) else {
				return Err(format!("descriptor {:?} has an unterminated class name", d.to_string_lossy()));
			};
			out.extend_from_slice(&f(&JS(v[i + 1..i + 1 + len].to_vec()))?.0);
			out.push(b';' as u16);
			i += len + 2;
		} else {
			i += 1;
		}
	}
	Ok(JS(out))
}

/// the class names a descriptor mentions
pub fn classes_of_desc(d: &JS) -> Vec<JS> {
	let mut v = Vec::new();
	let _ = map_desc(d, &mut |c| {
		v.push(c.clone());
		Ok(c.clone())
	});
	v
}

// ---------------------------------------------------------------------------------------------
// the questions

/// every question the classes of a jar put to a remapper
#[derive(Default)]
pub struct Questions {
	pub classes: BTreeSet<JS>,
	/// (descriptor, kind): kind 0 = field, 1 = method, 2 = return descriptor, 3 = array class name
	pub descs: BTreeSet<(JS, u8)>,
	pub fields: BTreeSet<(JS, JS, JS)>,
	pub methods: BTreeSet<(JS, JS, JS)>,
}

impl Questions {
	fn desc(&mut self, d: &JS, kind: u8) {
		for c in classes_of_desc(d) {
			self.classes.insert(c);
		}
		self.descs.insert((d.clone(), kind));
	}
	fn class(&mut self, c: &JS) {
		if refs::is_array(c) {
			self.desc(c, 3);
		} else {
			self.classes.insert(c.clone());
		}
	}
	fn member(&mut self, field: bool, owner: &JS, name: &JS, desc: &JS) {
		self.class(owner);
		self.desc(desc, if field { 0 } else { 1 });
		if !refs::is_array(owner) {
			if field {
				self.fields.insert((owner.clone(), name.clone(), desc.clone()));
			} else {
				self.methods.insert((owner.clone(), name.clone(), desc.clone()));
			}
		}
	}

	pub fn of_classes<'a>(classes: impl Iterator<Item = &'a SClass>) -> Questions {
		let mut q = Questions::default();
		for c in classes {
			let this = c.this_class.clone();
			let mut copy = c.clone();
			refs::walk(&mut copy, &mut |_, site| match site {
				Site::Class(n) => q.class(n),
				Site::FieldDesc(d) => q.desc(d, 0),
				Site::MethodDesc(d) => q.desc(d, 1),
				Site::ReturnDesc(d) => q.desc(d, 2),
				Site::FieldRef(m) => q.member(true, &m.owner, &m.name, &m.desc),
				Site::MethodRef(m) => q.member(false, &m.owner, &m.name, &m.desc),
				Site::FieldDecl { name, desc } | Site::RecordComponent { name, desc } => q.member(true, &this, name, desc),
				Site::MethodDecl { name, desc } => q.member(false, &this, name, desc),
				Site::EnclosingMethod { class, method } => match method {
					Some((n, d)) => q.member(false, class, n, d),
					None => q.class(class),
				},
				Site::EnumConst { ty, name } => match refs::class_of_desc(ty) {
					Some(class) => q.member(true, &class, name, ty),
					None => q.desc(ty, 0),
				},
				Site::InnerClass(ic) => {
					q.class(&ic.inner);
					if let Some(o) = &ic.outer {
						q.class(o);
					}
				},
				Site::Free(_) => {},
			});
		}
		q
	}

	/// the complete question space of a small universe: every class the jar or the table names, and every member
	/// key of the table asked of every such class
	pub fn add_table_space(&mut self, spec: &Spec) {
		let js = cfmodel::gen::js;
		for (c, to) in &spec.classes {
			self.classes.insert(js(c));
			if let Some(to) = to {
				// the target names are names like all others (chains, swaps)
				self.classes.insert(js(to));
			}
		}
		let owners: Vec<JS> = self.classes.iter().cloned().collect();
		for (table, field) in [(&spec.fields, true), (&spec.methods, false)] {
			for (_, n, d) in table.keys() {
				for o in &owners {
					self.member(field, o, &js(n), &js(d));
				}
			}
		}
	}
}

// ---------------------------------------------------------------------------------------------
// the table model of an engine

pub struct Model<'a> {
	pub spec: &'a Spec,
	/// class → super types the jar states (empty when the engine was given no provider)
	pub supers: BTreeMap<String, Vec<String>>,
}

pub enum Expect {
	Exactly(Option<String>),
	AnyOf(BTreeSet<String>),
}

impl Model<'_> {
	fn class(&self, c: &JS) -> JS {
		match self.spec.classes.get(&c.to_string_lossy()) {
			Some(Some(to)) => cfmodel::gen::js(to),
			_ => c.clone(),
		}
	}
	fn class_fail(&self, c: &JS) -> Option<JS> {
		self.spec.classes.get(&c.to_string_lossy()).cloned().flatten().map(|s| cfmodel::gen::js(&s))
	}
	fn desc(&self, d: &JS) -> R<JS> {
		map_desc(d, &mut |c| Ok(self.class(c)))
	}
	fn member(&self, table: &BTreeMap<(String, String, String), String>, owner: &JS, name: &JS, desc: &JS) -> Expect {
		let (n, d) = (name.to_string_lossy(), desc.to_string_lossy());
		if let Some(t) = table.get(&(owner.to_string_lossy(), n.clone(), d.clone())) {
			return Expect::Exactly(Some(t.clone()));
		}
		let mut seen: BTreeSet<String> = BTreeSet::new();
		let mut todo: Vec<String> = self.supers.get(&owner.to_string_lossy()).cloned().unwrap_or_default();
		let mut answers = BTreeSet::new();
		while let Some(c) = todo.pop() {
			if !seen.insert(c.clone()) {
				continue;
			}
			if let Some(t) = table.get(&(c.clone(), n.clone(), d.clone())) {
				answers.insert(t.clone());
			}
			todo.extend(self.supers.get(&c).cloned().unwrap_or_default());
		}
		match answers.len() {
			0 => Expect::Exactly(None),
			1 => Expect::Exactly(answers.into_iter().next()),
			_ => Expect::AnyOf(answers),
		}
	}
}

// ---------------------------------------------------------------------------------------------
// the audit

pub struct Audit<'a> {
	pub ctx: &'a Ctx,
	pub replay: &'a dyn Fn(&str) -> String,
	pub asked: u64,
	/// reports about the provided methods: the remapper has two answers for one question
	pub inconsistent: u64,
}

impl Audit<'_> {
	fn report(&mut self, key: &str, what: String) {
		if key.starts_with("provided:") {
			self.inconsistent += 1;
		}
		self.ctx.diff(key, &what, || (self.replay)("(the remapper itself)"));
	}
}

/// the provided methods of the remapper against their composition of the primitive answers
pub fn provided(a: &mut Audit, st: &mut Stats, r: &dyn BRemapper, q: &Questions) {
	let ask_fail = |c: &JS| -> R<Option<JS>> { Ok(e(r.map_class_fail(refs::obj(&to_java(c))))?.map(|n| from_java(n.as_inner()))) };
	let composed_class = |c: &JS| -> R<JS> { Ok(ask_fail(c)?.unwrap_or_else(|| c.clone())) };
	for c in &q.classes {
		a.asked += 1;
		match (e(r.map_class(refs::obj(&to_java(c)))).map(|n| from_java(n.as_inner())), composed_class(c)) {
			(Ok(got), Ok(want)) if got == want => {},
			(Ok(got), Ok(want)) => a.report("provided:map_class:wrong", format!("map_class({:?}) answers {:?}; map_class_fail answers {:?}", refs::show(c), refs::show(&got), refs::show(&want))),
			(Err(x), Ok(_)) => a.report("provided:map_class:refused", format!("map_class({:?}) fails: {x}", refs::show(c))),
			(_, Err(x)) => crate::fail(&format!("map_class_fail({:?}) fails: {x}", refs::show(c))),
		}
	}
	for (d, kind) in &q.descs {
		a.asked += 1;
		let j = to_java(d);
		let (method, got) = match kind {
			0 => ("map_field_desc", e(r.map_field_desc(refs::fdesc(&j))).map(|x| from_java(x.as_inner()))),
			1 => ("map_method_desc", e(r.map_method_desc(refs::mdesc(&j))).map(|x| from_java(x.as_inner()))),
			2 => ("map_return_desc", e(r.map_return_desc(refs::rdesc(&j))).map(|x| from_java(x.as_inner()))),
			_ => ("map_class_any", e(r.map_class_any(refs::any(&j))).map(|x| from_java(x.as_inner()))),
		};
		let want = match map_desc(d, &mut |c| composed_class(c)) {
			Ok(w) => w,
			Err(x) => crate::fail(&format!("audit: {x}")),
		};
		match got {
			Ok(got) if got == want => {},
			Ok(got) => a.report(&format!("provided:{method}:wrong"), format!("{method}({:?}) answers {:?}; with every class name in it mapped by map_class it is {:?}", refs::show(d), refs::show(&got), refs::show(&want))),
			Err(x) => a.report(&format!("provided:{method}:refused"), format!("{method}({:?}) fails: {x}", refs::show(d))),
		}
	}
	for (field, set) in [(true, &q.fields), (false, &q.methods)] {
		let method = if field { "map_field" } else { "map_method" };
		for (o, n, d) in set {
			a.asked += 1;
			let (oj, nj, dj) = (to_java(o), to_java(n), to_java(d));
			let (got, fail) = if field {
				(
					e(r.map_field(refs::obj(&oj), refs::fname(&nj), refs::fdesc(&dj))).map(|x| (from_java(x.name.as_inner()), from_java(x.desc.as_inner()))),
					e(r.map_field_fail(refs::obj(&oj), refs::fname(&nj), refs::fdesc(&dj))).map(|x| x.map(|x| (from_java(x.name.as_inner()), from_java(x.desc.as_inner())))),
				)
			} else {
				(
					e(r.map_method(refs::obj(&oj), refs::mname(&nj), refs::mdesc(&dj))).map(|x| (from_java(x.name.as_inner()), from_java(x.desc.as_inner()))),
					e(r.map_method_fail(refs::obj(&oj), refs::mname(&nj), refs::mdesc(&dj))).map(|x| x.map(|x| (from_java(x.name.as_inner()), from_java(x.desc.as_inner())))),
				)
			};
			let fail = match fail {
				Ok(f) => f,
				Err(x) => crate::fail(&format!("{method}_fail({:?}, {:?}, {:?}) fails: {x}", refs::show(o), refs::show(n), refs::show(d))),
			};
			let want = match fail.clone() {
				Some(x) => x,
				None => match map_desc(d, &mut |c| composed_class(c)) {
					Ok(w) => (n.clone(), w),
					Err(x) => crate::fail(&format!("audit: {x}")),
				},
			};
			if fail.is_none() {
				st.outcome("audit:provided:member-without-an-answer-keeps-its-name");
			}
			match got {
				Ok(got) if got == want => {},
				Ok(got) => a.report(&format!("provided:{method}:wrong"), format!("{method}({:?}, {:?}, {:?}) answers {:?} {:?}; {method}_fail and the mapped descriptor give {:?} {:?}", refs::show(o), refs::show(n), refs::show(d), refs::show(&got.0), refs::show(&got.1), refs::show(&want.0), refs::show(&want.1))),
				Err(x) => a.report(&format!("provided:{method}:refused"), format!("{method}({:?}, {:?}, {:?}) fails: {x}", refs::show(o), refs::show(n), refs::show(d))),
			}
		}
	}
}

/// the primitive answers of a `remapper_b` engine against the table it was built from
pub fn engine(a: &mut Audit, st: &mut Stats, r: &dyn BRemapper, q: &Questions, model: &Model) {
	for c in &q.classes {
		a.asked += 1;
		let got = match e(r.map_class_fail(refs::obj(&to_java(c)))) {
			Ok(g) => g.map(|n| from_java(n.as_inner())),
			Err(x) => {
				a.report("engine:map_class_fail:refused", format!("map_class_fail({:?}) fails: {x}", refs::show(c)));
				continue;
			},
		};
		let want = model.class_fail(c);
		if want.is_some() {
			st.outcome("audit:engine:class-with-a-target-name");
		}
		if got != want {
			a.report("engine:map_class_fail:wrong", format!("map_class_fail({:?}) answers {:?}; the mappings say {:?}", refs::show(c), got.as_ref().map(refs::show), want.as_ref().map(refs::show)));
		}
	}
	for (field, set) in [(true, &q.fields), (false, &q.methods)] {
		let method = if field { "map_field_fail" } else { "map_method_fail" };
		let table = if field { &model.spec.fields } else { &model.spec.methods };
		for (o, n, d) in set {
			a.asked += 1;
			let (oj, nj, dj) = (to_java(o), to_java(n), to_java(d));
			let got = if field {
				e(r.map_field_fail(refs::obj(&oj), refs::fname(&nj), refs::fdesc(&dj))).map(|x| x.map(|x| (from_java(x.name.as_inner()), from_java(x.desc.as_inner()))))
			} else {
				e(r.map_method_fail(refs::obj(&oj), refs::mname(&nj), refs::mdesc(&dj))).map(|x| x.map(|x| (from_java(x.name.as_inner()), from_java(x.desc.as_inner()))))
			};
			let got = match got {
				Ok(g) => g,
				Err(x) => {
					a.report(&format!("engine:{method}:refused"), format!("{method}({:?}, {:?}, {:?}) fails: {x}", refs::show(o), refs::show(n), refs::show(d)));
					continue;
				},
			};
			let asked = format!("{method}({:?}, {:?}, {:?})", refs::show(o), refs::show(n), refs::show(d));
			let direct = table.contains_key(&(o.to_string_lossy(), n.to_string_lossy(), d.to_string_lossy()));
			match model.member(table, o, n, d) {
				Expect::Exactly(None) => {
					if let Some((gn, _)) = &got {
						a.report(&format!("engine:{method}:answers-without-an-entry"), format!("{asked} answers {:?}; neither the owner nor a super type the jar states has an entry for it", refs::show(gn)));
					}
				},
				Expect::Exactly(Some(want)) => {
					st.outcome(if direct { "audit:engine:member-with-an-entry" } else { "audit:engine:member-through-a-super-type" });
					match &got {
						Some((gn, _)) if gn.to_string_lossy() == want => {},
						Some((gn, _)) => a.report(&format!("engine:{method}:wrong-name"), format!("{asked} answers {:?}; the mappings say {want:?} ({})", refs::show(gn), if direct { "entry of the owner" } else { "entry of a super type" })),
						None => a.report(&format!("engine:{method}:{}", if direct { "entry-not-found" } else { "super-type-entry-not-found" }), format!("{asked} has no answer; the mappings say {want:?} ({})", if direct { "entry of the owner" } else { "entry of a super type the jar states" })),
					}
				},
				Expect::AnyOf(set) => {
					st.outcome("audit:engine:member-through-several-super-types");
					match &got {
						Some((gn, _)) if set.contains(&gn.to_string_lossy()) => {},
						Some((gn, _)) => a.report(&format!("engine:{method}:wrong-name"), format!("{asked} answers {:?}; the super types say one of {set:?}", refs::show(gn))),
						None => a.report(&format!("engine:{method}:super-type-entry-not-found"), format!("{asked} has no answer; the super types say one of {set:?}")),
					}
				},
			}
			if let Some((_, gd)) = &got {
				match model.desc(d) {
					Ok(want) if &want == gd => {},
					Ok(want) => a.report(&format!("engine:{method}:wrong-descriptor"), format!("{asked} answers the descriptor {:?}; with the class table applied it is {:?}", refs::show(gd), refs::show(&want))),
					Err(x) => crate::fail(&format!("audit: {x}")),
				}
			}
		}
	}
}

/// the provider the real code builds from the jar against the super types the class files state
pub fn provider(a: &mut Audit, st: &mut Stats, prov: &JarSuperProv, stated: &[(JS, Vec<JS>)]) {
	let got: BTreeMap<JS, Vec<JS>> = prov.super_classes.iter().map(|(k, v)| (from_java(k.as_inner()), v.iter().map(|s| from_java(s.as_inner())).collect())).collect();
	let mut want: BTreeMap<JS, Vec<JS>> = BTreeMap::new();
	for (c, supers) in stated {
		let mut v: Vec<JS> = Vec::new();
		for s in supers {
			if !v.contains(s) {
				v.push(s.clone());
			}
		}
		want.insert(c.clone(), v);
	}
	a.asked += want.len() as u64;
	for (c, w) in &want {
		st.outcome_n("audit:provider:super-types-stated", w.len() as u64);
		match got.get(c) {
			None => a.report("provider:class-missing", format!("the provider knows nothing about class {:?} of the jar (super types {:?})", refs::show(c), w.iter().map(refs::show).collect::<Vec<_>>())),
			Some(g) if g == w => {},
			Some(g) => a.report("provider:super-types:wrong", format!("class {:?} states the super types {:?}; the provider answers {:?}", refs::show(c), w.iter().map(refs::show).collect::<Vec<_>>(), g.iter().map(refs::show).collect::<Vec<_>>())),
		}
	}
	for c in got.keys() {
		if !want.contains_key(c) {
			a.report("provider:class-invented", format!("the provider answers for {:?}, which is no class of the jar", refs::show(c)));
		}
	}
}

pub fn is_quill(engine: Engine) -> bool {
	matches!(engine, Engine::QuillJarProvider | Engine::QuillNoProvider)
}
