//! Remappers derived from the content of a jar (kitchen-sink and corpus jars): deterministic functions of
//! the declared and referenced classes and members.

use std::collections::{BTreeMap, BTreeSet};
use cfmodel::model::*;
use super::refs::{walk, Site};
use super::remappers::{Engine, Spec};

pub struct Inventory {
	/// declared classes in jar order
	pub declared: Vec<String>,
	/// (owner, name, descriptor) of declared fields / methods (constructors and initialisers excluded)
	pub fields: Vec<(String, String, String)>,
	pub methods: Vec<(String, String, String)>,
	/// classes named somewhere but not declared in the jar, outside `java/`
	pub referenced: Vec<String>,
	/// members referenced on classes that are not declared in the jar, outside `java/`
	pub ref_fields: Vec<(String, String, String)>,
	pub ref_methods: Vec<(String, String, String)>,
}

fn classes_in_desc(d: &str, out: &mut BTreeSet<String>) {
	let b = d.as_bytes();
	let mut i = 0;
	while i < b.len() {
		if b[i] == b'L' {
			if let Some(end) = d[i..].find(';') {
				out.insert(d[i + 1..i + end].to_owned());
				i += end;
			}
		}
		i += 1;
	}
}

fn special(name: &str) -> bool {
	name.starts_with('<')
}

pub fn inventory(classes: &[&SClass]) -> Inventory {
	let declared: Vec<String> = classes.iter().map(|c| c.this_class.to_string_lossy()).collect();
	let dset: BTreeSet<&String> = declared.iter().collect();
	let mut fields = Vec::new();
	let mut methods = Vec::new();
	let mut named = BTreeSet::new();
	let mut ref_fields = BTreeSet::new();
	let mut ref_methods = BTreeSet::new();
	for c in classes {
		let this = c.this_class.to_string_lossy();
		for f in &c.fields {
			fields.push((this.clone(), f.name.to_string_lossy(), f.desc.to_string_lossy()));
		}
		for m in &c.methods {
			let n = m.name.to_string_lossy();
			if !special(&n) {
				methods.push((this.clone(), n, m.desc.to_string_lossy()));
			}
		}
		let mut copy = (*c).clone();
		walk(&mut copy, &mut |_, site| match site {
			Site::Class(n) => {
				let s = n.to_string_lossy();
				if s.starts_with('[') { classes_in_desc(&s, &mut named) } else { named.insert(s); }
			},
			Site::FieldDesc(d) | Site::MethodDesc(d) | Site::ReturnDesc(d) => classes_in_desc(&d.to_string_lossy(), &mut named),
			Site::FieldRef(m) => {
				named.insert(m.owner.to_string_lossy());
				classes_in_desc(&m.desc.to_string_lossy(), &mut named);
				ref_fields.insert((m.owner.to_string_lossy(), m.name.to_string_lossy(), m.desc.to_string_lossy()));
			},
			Site::MethodRef(m) => {
				let o = m.owner.to_string_lossy();
				classes_in_desc(&m.desc.to_string_lossy(), &mut named);
				if o.starts_with('[') {
					classes_in_desc(&o, &mut named);
				} else {
					named.insert(o.clone());
					if !special(&m.name.to_string_lossy()) {
						ref_methods.insert((o, m.name.to_string_lossy(), m.desc.to_string_lossy()));
					}
				}
			},
			Site::EnumConst { ty, .. } => classes_in_desc(&ty.to_string_lossy(), &mut named),
			Site::InnerClass(ic) => {
				named.insert(ic.inner.to_string_lossy());
				if let Some(o) = &ic.outer {
					named.insert(o.to_string_lossy());
				}
			},
			Site::EnclosingMethod { class, .. } => {
				named.insert(class.to_string_lossy());
			},
			_ => {},
		});
	}
	let outside = |c: &String| !dset.contains(c) && !c.starts_with("java/") && !c.is_empty();
	Inventory {
		referenced: named.iter().filter(|c| outside(c)).cloned().collect(),
		ref_fields: ref_fields.into_iter().filter(|(o, ..)| outside(o)).collect(),
		ref_methods: ref_methods.into_iter().filter(|(o, ..)| outside(o)).collect(),
		declared,
		fields,
		methods,
	}
}

/// new names for the declared classes: top-level classes by `top(index, old)`, a member class `Outer$X`
/// whose outer class is declared follows its outer class: `new(Outer)$inner(index, X)`
fn class_names(inv: &Inventory, top: &dyn Fn(usize, &str) -> String, inner: &dyn Fn(usize, &str) -> String) -> BTreeMap<String, String> {
	let dset: BTreeSet<&String> = inv.declared.iter().collect();
	let mut out: BTreeMap<String, String> = BTreeMap::new();
	// outer classes first (shorter names first makes every outer precede its inner classes)
	let mut order: Vec<(usize, &String)> = inv.declared.iter().enumerate().collect();
	order.sort_by_key(|(_, n)| n.len());
	for (i, name) in order {
		let new = match name.rsplit_once('$') {
			Some((outer, simple)) if dset.contains(&outer.to_owned()) && !simple.is_empty() => format!("{}${}", out.get(outer).cloned().unwrap_or_else(|| outer.to_owned()), inner(i, simple)),
			_ => top(i, name),
		};
		out.insert(name.clone(), new);
	}
	out
}

pub fn specs(classes: &[&SClass]) -> Vec<Spec> {
	let inv = inventory(classes);
	let mut out = Vec::new();
	out.push(Spec::new("identity", Engine::QuillJarProvider));

	let add_classes = |s: &mut Spec, names: &BTreeMap<String, String>, keep: &dyn Fn(usize) -> bool| {
		for (i, c) in inv.declared.iter().enumerate() {
			if keep(i) {
				s.class(c, &names[c]);
			}
		}
	};
	let add_members = |s: &mut Spec, f: &dyn Fn(usize, &str, &str) -> String, m: &dyn Fn(usize, &str, &str) -> String, keep: &dyn Fn(usize) -> bool| {
		for (i, (o, n, d)) in inv.fields.iter().enumerate() {
			if keep(i) {
				s.field(o, n, d, &f(i, o, n));
			}
		}
		for (i, (o, n, d)) in inv.methods.iter().enumerate() {
			if keep(i) {
				s.method(o, n, d, &m(i, o, n));
			}
		}
	};
	let all = |_: usize| true;

	let prefixed = class_names(&inv, &|_, n| format!("r/{n}"), &|_, s| s.to_owned());
	let mut s = Spec::new("package-move-all", Engine::QuillJarProvider);
	add_classes(&mut s, &prefixed, &all);
	out.push(s);

	let short = class_names(&inv, &|i, _| format!("c{i}"), &|i, _| format!("i{i}"));
	let mut s = Spec::new("shrink-all", Engine::QuillJarProvider);
	add_classes(&mut s, &short, &all);
	add_members(&mut s, &|i, _, _| format!("f{i}"), &|i, _, _| format!("m{i}"), &all);
	out.push(s.clone());
	s.name = "shrink-all-table".into();
	s.engine = Engine::Table { inherit: true };
	out.push(s);

	let long = class_names(&inv, &|_, n| format!("{n}_{}", "x".repeat(50)), &|_, s| format!("{s}_{}", "y".repeat(30)));
	let mut s = Spec::new("grow-all", Engine::QuillJarProvider);
	add_classes(&mut s, &long, &all);
	add_members(&mut s, &|_, _, n| format!("{n}_renamed_with_a_long_suffix"), &|_, _, n| format!("{n}_renamed_with_a_long_suffix"), &all);
	out.push(s);

	let mut s = Spec::new("members-only", Engine::QuillJarProvider);
	add_members(&mut s, &|i, _, _| format!("f{i}"), &|i, _, _| format!("m{i}"), &all);
	out.push(s);

	let mut s = Spec::new("every-second-no-provider", Engine::QuillNoProvider);
	add_classes(&mut s, &prefixed, &|i| i % 2 == 0);
	add_members(&mut s, &|i, _, _| format!("f{i}"), &|i, _, _| format!("m{i}"), &|i| i % 3 == 0);
	out.push(s);

	// classes and members of classes outside the jar
	let mut s = Spec::new("referenced-outside-table", Engine::Table { inherit: false });
	for c in &inv.referenced {
		s.class(c, &format!("ref/{c}"));
	}
	for (o, n, d) in &inv.ref_fields {
		s.field(o, n, d, &format!("{n}_r"));
	}
	for (o, n, d) in &inv.ref_methods {
		s.method(o, n, d, &format!("{n}_r"));
	}
	out.push(s);

	// every top-level class takes the name of the next one (a permutation: an already renamed name has a different answer)
	let tops: Vec<&String> = inv.declared.iter().filter(|n| !n.rsplit_once('$').is_some_and(|(o, s)| !s.is_empty() && inv.declared.contains(&o.to_owned()))).collect();
	let next: BTreeMap<&String, &String> = tops.iter().enumerate().map(|(i, n)| (*n, tops[(i + 1) % tops.len()])).collect();
	let rotated = class_names(&inv, &|_, n| next.get(&n.to_owned()).map(|s| (*s).clone()).unwrap_or_else(|| n.to_owned()), &|_, s| s.to_owned());
	let mut s = Spec::new("rotate-table", Engine::Table { inherit: true });
	if rotated.values().collect::<BTreeSet<_>>().len() == rotated.len() {
		add_classes(&mut s, &rotated, &all);
	}
	let owner_index: BTreeMap<&String, usize> = inv.declared.iter().enumerate().map(|(i, n)| (n, i)).collect();
	add_members(&mut s, &|_, o, n| format!("{n}_{}", owner_index.get(&o.to_owned()).copied().unwrap_or(0)), &|_, o, n| format!("{n}_{}", owner_index.get(&o.to_owned()).copied().unwrap_or(0)), &all);
	out.push(s);

	let inner_only = class_names(&inv, &|_, n| n.to_owned(), &|_, s| format!("{s}_in"));
	let mut s = Spec::new("inner-only", Engine::QuillJarProvider);
	for (i, c) in inv.declared.iter().enumerate() {
		if inner_only[c] != *c {
			let _ = i;
			s.class(c, &inner_only[c]);
		}
	}
	out.push(s);
	out
}
