//! Spaces added for the families of slips the first spaces could not see: class-file versions, odd-but-legal names,
//! second-order combinations of references, nesting depth, names and descriptors that grow to the limit of a
//! constant-pool string.

use std::collections::BTreeMap;
use cfmodel::asm::Encoding;
use cfmodel::gen::{js, kitchen_sink, method_with, module_class, mref, normalize, skeleton, RETURN};
use cfmodel::model::*;
use rayon::prelude::*;
use super::audit;
use super::jar::{prepare_case, Case, Entry};
use super::matrix::{self, Slot};
use super::refs::{self, Site};
use super::remappers::{Engine, Spec};
use crate::{bytes_of, specs_for, Space};

// ---------------------------------------------------------------------------------------------
// class-file versions

/// every class-file version the reader takes (45.0, 45.3, every n.0 up to 67.0, the preview minors 56..=66) — each
/// carried by the kitchen-sink class (every attribute at every level, every kind of instruction and constant) and by
/// a module descriptor. Nothing a class states depends on its version for duke, dukebox or quill.
pub fn all_versions() -> Vec<(u16, u16)> {
	let mut versions = cfmodel::gen::versions();
	versions.extend([(45, 65535), (52, 3), (67, 0)]);
	versions.sort();
	versions.dedup();
	versions
}

pub fn versions_space() -> Space {
	let enc = Encoding::default();
	let cases = all_versions().into_par_iter().flat_map_iter(|(major, minor)| {
		let mut cases = Vec::new();
		for variant in 0..6usize {
			let mut s = kitchen_sink(variant);
			s.version = (major, minor);
			normalize(&mut s);
			let label = format!("versions/{major}.{minor}/sink{variant}");
			let mut own = skeleton("p/Own");
			own.version = (major, minor);
			own.nest_members = Some(vec![js("p/Sink")]);
			own.permitted_subclasses = Some(vec![js("p/Sink$In0")]);
			own.fields.push(SField { access: 1, name: js("f"), desc: js("I"), ..Default::default() });
			own.methods.push(method_with("v", "(IJ)V", vec![RETURN]));
			let mut inner = skeleton("p/Sink$In0");
			inner.version = (major, minor);
			inner.super_class = Some(js("p/Own"));
			inner.nest_host = Some(js("p/Own"));
			let entries = vec![Entry::Class(bytes_of(&label, &own, &enc)), Entry::Class(bytes_of(&label, &s, &enc)), Entry::Class(bytes_of(&label, &inner, &enc))];
			let p = prepare_case(Case { label, entries, second_pass: false });
			let specs: Vec<Spec> = specs_for(&p).into_iter().filter(|s| ["identity", "shrink-all", "grow-all"].contains(&s.name.as_str())).collect();
			cases.push((p, specs));
		}
		let label = format!("versions/{major}.{minor}/module");
		let mut m = module_class(false, 2);
		m.version = (major, minor);
		let entries = vec![Entry::Class(bytes_of(&label, &m, &enc)), Entry::Class(bytes_of(&label, &skeleton("p/Main"), &enc))];
		let p = prepare_case(Case { label, entries, second_pass: false });
		let specs: Vec<Spec> = specs_for(&p).into_iter().filter(|s| ["identity", "shrink-all"].contains(&s.name.as_str())).collect();
		cases.push((p, specs));
		cases
	}).collect();
	Space { name: "class-file-versions", cases }
}

/// thorough: every matrix cell in every version, one total remapper
pub fn versions_matrix_space() -> Space {
	let enc = Encoding::default();
	let specs: Vec<Spec> = matrix::specs().into_iter().filter(|s| s.name == "total-same-length").collect();
	let cells = matrix::cells();
	let cases = cfmodel::gen::versions().into_par_iter().flat_map_iter(|(major, minor)| {
		cells.iter().map(|cell| {
			let label = format!("vmatrix/{major}.{minor}/{}/{}", cell.position, matrix::KINDS[cell.kind]);
			let entries = cell.classes.iter().map(|c| {
				let mut c = c.clone();
				c.version = (major, minor);
				Entry::Class(bytes_of(&label, &c, &enc))
			}).collect();
			(prepare_case(Case { label, entries, second_pass: false }), specs.clone())
		}).collect::<Vec<_>>()
	}).collect();
	Space { name: "matrix-in-every-version", cases }
}

// ---------------------------------------------------------------------------------------------
// odd-but-legal names

/// A renaming of the matrix universe done by the harness on the class descriptions (no code of /repo involved):
/// every class name and member name of the universe gets another spelling.
pub struct Translit {
	pub name: &'static str,
	classes: BTreeMap<JS, JS>,
	members: BTreeMap<JS, JS>,
}

fn utf16(s: &JS) -> Option<String> {
	String::from_utf16(&s.0).ok()
}

impl Translit {
	fn new(name: &'static str, classes: &[(&str, JS)], members: &[(&str, &str)]) -> Translit {
		let t = Translit { name, classes: classes.iter().map(|(a, b)| (js(a), b.clone())).collect(), members: members.iter().map(|(a, b)| (js(a), js(b))).collect() };
		let mut targets: Vec<&JS> = t.classes.values().collect();
		targets.sort();
		targets.dedup();
		if targets.len() != t.classes.len() {
			crate::fail(&format!("transliteration {name}: two classes get one name"));
		}
		t
	}
	pub fn class(&self, c: &JS) -> JS {
		if refs::is_array(c) {
			self.desc(c)
		} else {
			self.classes.get(c).cloned().unwrap_or_else(|| c.clone())
		}
	}
	pub fn desc(&self, d: &JS) -> JS {
		audit::map_desc(d, &mut |c| Ok(self.class(c))).unwrap_or_else(|e| crate::fail(&format!("transliteration: {e}")))
	}
	pub fn member(&self, n: &JS) -> JS {
		self.members.get(n).cloned().unwrap_or_else(|| n.clone())
	}

	pub fn model(&self, c: &SClass) -> SClass {
		let mut out = c.clone();
		refs::walk(&mut out, &mut |_, site| match site {
			Site::Class(n) => *n = self.class(n),
			Site::FieldDesc(d) | Site::MethodDesc(d) | Site::ReturnDesc(d) => *d = self.desc(d),
			Site::FieldRef(m) | Site::MethodRef(m) => {
				m.owner = self.class(&m.owner);
				m.name = self.member(&m.name);
				m.desc = self.desc(&m.desc);
			},
			Site::FieldDecl { name, desc } | Site::MethodDecl { name, desc } | Site::RecordComponent { name, desc } => {
				*name = self.member(name);
				*desc = self.desc(desc);
			},
			Site::EnclosingMethod { class, method } => {
				*class = self.class(class);
				if let Some((n, d)) = method {
					*n = self.member(n);
					*d = self.desc(d);
				}
			},
			Site::EnumConst { ty, name } => {
				*ty = self.desc(ty);
				*name = self.member(name);
			},
			Site::InnerClass(ic) => {
				ic.inner = self.class(&ic.inner);
				if let Some(o) = &mut ic.outer {
					*o = self.class(o);
				}
			},
			Site::Free(_) => {},
		});
		normalize(&mut out);
		out
	}

	/// the remapper for the transliterated universe: the source names get their new spelling, the target names stay;
	/// entries whose source name cannot be written in a mapping file (lone surrogates) are left out
	pub fn spec(&self, s: &Spec) -> Spec {
		let mut out = Spec::new(&s.name, s.engine);
		let st = |j: JS| utf16(&j);
		for (c, to) in &s.classes {
			if let Some(c) = st(self.class(&js(c))) {
				out.classes.insert(c, to.clone());
			}
		}
		for (from, to) in [(&s.fields, &mut out.fields), (&s.methods, &mut out.methods)] {
			for ((o, n, d), t) in from {
				if let (Some(o), Some(n), Some(d)) = (st(self.class(&js(o))), st(self.member(&js(n))), st(self.desc(&js(d)))) {
					to.insert((o, n, d), t.clone());
				}
			}
		}
		out
	}
}

const UNIVERSE: [&str; 13] = [matrix::HOST, matrix::M, matrix::SUB, matrix::SUBEXT, matrix::U, matrix::V, matrix::IN, matrix::ITF, matrix::SUBITF, matrix::E, matrix::ANN, matrix::EXT, matrix::EXTITF];
const MEMBERS: [&str; 12] = ["f", "g", "m", "n", "i", "K", "v", "x", "xi", "xf", "zz", "ZZ"];

fn translit_of(name: &'static str, classes: [&str; 13], extra: &[(&str, &str)], members: [&str; 12]) -> Translit {
	let mut c: Vec<(&str, JS)> = UNIVERSE.iter().zip(classes).map(|(a, b)| (*a, js(b))).collect();
	c.extend(extra.iter().map(|(a, b)| (*a, js(b))));
	let m: Vec<(&str, &str)> = MEMBERS.iter().zip(members).map(|(a, b)| (*a, b)).collect();
	Translit::new(name, &c, &m)
}

pub fn translits() -> Vec<Translit> {
	let mut v = vec![
		// characters of 2, 3 and 4 bytes (6 in the class file) at the first, a middle and the last place of packages and names
		translit_of("multibyte",
			["π/Höst", "π/Ünï€𝄞", "π/ΣSub", "π/SubExtΩ", "𝄞", "€/V", "π/Ünï€𝄞$Ñ", "é/é", "é/éé", "é/E€", "𝄞/𝄞𝄞", "ext/L𝄞b", "ext/Ïtf"],
			&[("p/Host$Q", "π/Höst$Q"), ("p/Host$1", "π/Höst$1"), ("p/Impl", "π/Ïmpl"), ("p/Svc", "π/Svc€"), ("p/Other", "é/Öther")],
			["ƒ", "g€", "µ", "ñ𝄞", "ı", "Κ", "ν", "×", "ξı", "×ƒ", "žž", "ŽŽ"]),
		// names that are descriptor letters, in the default package, starting with the class tag, with parentheses
		translit_of("tag-letters",
			["LHost", "L", "B", "p/(S)", "I", "LL", "L$L", "Z", "ZZ", "V", "J", "ext/LL", "ext/L"],
			&[("p/Host$Q", "LHost$Q"), ("p/Host$1", "LHost$1"), ("p/Impl", "S"), ("p/Svc", "C"), ("p/Other", "D")],
			["I", "L", "V", "LL", "Z", "B", "J", "D", "LI", "II", "LLL", "VV"]),
		// names that are prefixes of one another, end with `$`, differ by package or by case only; a field and a method of one name
		translit_of("prefixes-and-dollars",
			["p/A$", "p/A", "p/A$$", "p/$", "p/Ab$c", "p/Ab", "p/A$b", "q/A", "q/A$", "A", "p/a", "p/A/B", "p/A/b"],
			&[("p/Host$Q", "p/A$$Q"), ("p/Host$1", "p/A$$1"), ("p/Impl", "p/A$Impl"), ("p/Svc", "p/AbSvc"), ("p/Other", "p/Ab$")],
			["bc", "b", "bc", "c", "b", "A", "a", "$", "$$", "$", "zz", "ZZ"]),
	];
	// names only a class outside the jar can have (a zip entry name is a string): a lone surrogate, an encoded NUL, a surrogate pair
	let mut t = translit_of("not-a-string",
		["p/Host", "p/M", "p/Sub", "p/SubExt", "p/U", "p/V", "p/M$In", "p/Itf", "p/SubItf", "p/E", "p/Ann", "ext/Lib", "ext/Itf"], &[], MEMBERS);
	t.classes.insert(js(matrix::EXT), JS(vec![b'e' as u16, b'/' as u16, 0xD800, b'x' as u16]));
	t.classes.insert(js(matrix::EXTITF), JS(vec![b'e' as u16, b'/' as u16, 0xDC00, 0xD800]));
	t.classes.insert(js("p/Other"), JS(vec![b'o' as u16, b'/' as u16, 0xD83D, 0xDE00, 0xDFFF]));
	t.members.insert(js("x"), JS(vec![0xD800]));
	t.members.insert(js("xf"), JS(vec![b'x' as u16, 0xDFFF, b'f' as u16]));
	v.push(t);
	v
}

/// every class of the universe takes the (odd) name of the next one, every member the (odd) name of the next member:
/// the target names are odd as well (entry names of the result, names the writer encodes)
fn rotate_spec(t: &Translit) -> Spec {
	let mut s = Spec::new("rotate-odd-names", Engine::Table { inherit: true });
	let ring = [matrix::HOST, matrix::M, matrix::SUB, matrix::SUBEXT, matrix::V, matrix::ITF, matrix::SUBITF, matrix::E, matrix::ANN];
	let odd = |c: &str| t.class(&js(c)).to_string_lossy();
	for (i, c) in ring.iter().enumerate() {
		s.class(&odd(c), &odd(ring[(i + 1) % ring.len()]));
	}
	s.class(&odd(matrix::IN), &format!("{}${}", odd(matrix::SUB), t.member(&js("K")).to_string_lossy()));
	let m = |n: &str| t.member(&js(n)).to_string_lossy();
	let d = |x: &str| t.desc(&js(x)).to_string_lossy();
	for (o, n, de, to) in [(matrix::M, "f", "I", "g"), (matrix::M, "g", "Lp/M;", "f"), (matrix::E, "K", "Lp/E;", "v")] {
		s.field(&odd(o), &m(n), &d(de), &m(to));
	}
	for (o, n, de, to) in [(matrix::M, "m", "()V", "n"), (matrix::M, "n", "(Lp/M;)Lp/V;", "m"), (matrix::ITF, "i", "()V", "xi"), (matrix::ANN, "v", "()Lp/E;", "K")] {
		s.method(&odd(o), &m(n), &d(de), &m(to));
	}
	s
}

pub fn odd_names_space(quick: bool) -> Space {
	let enc = Encoding::default();
	let chosen = ["identity-quill", "total-shrinking", "total-table", "total-no-provider", "members-only", "package-move", "classes-only", "swap-quill"];
	let base: Vec<Spec> = matrix::specs().into_iter().filter(|s| chosen.contains(&s.name.as_str())).collect();
	let cells = matrix::cells();
	let mut cases = Vec::new();
	for t in translits() {
		let not_a_string = t.name == "not-a-string";
		let mut specs: Vec<Spec> = base.iter().map(|s| t.spec(s)).collect();
		if !not_a_string {
			specs.push(rotate_spec(&t));
		} else if quick {
			specs.truncate(4);
		}
		// names no jar entry can have are names of classes outside the jar: only the cells that refer to such classes
		let wanted: Vec<&matrix::Cell> = cells.iter().filter(|cell| !not_a_string || cell.kind == 7 || ["class.super", "class.interfaces", "annotation.value.enum-in-nested-annotation"].contains(&cell.position)).collect();
		cases.extend(wanted.into_par_iter().map(|cell| {
			let label = format!("odd/{}/{}/{}", t.name, cell.position, matrix::KINDS[cell.kind]);
			let entries = cell.classes.iter().map(|c| Entry::Class(bytes_of(&label, &t.model(c), &enc))).collect();
			let mut p = prepare_case(Case { label, entries, second_pass: false });
			p.audit_full = true;
			(p, specs.clone())
		}).collect::<Vec<_>>());
	}
	Space { name: "odd-names", cases }
}

// ---------------------------------------------------------------------------------------------
// second order: two references in one method, in both orders

/// the reference-carrying instructions of the pairs: (matrix position, kind)
const PAIR_ALPHABET: [(&str, usize); 28] = [
	("insn.getstatic", 5), ("insn.getstatic", 6), ("insn.getstatic", 7), ("insn.getstatic", 9), ("insn.putfield", 5), ("insn.putfield", 0),
	("insn.invokevirtual", 5), ("insn.invokevirtual", 6), ("insn.invokevirtual", 7), ("insn.invokevirtual", 9), ("insn.invokevirtual", 2),
	("insn.invokeinterface", 5), ("insn.invokeinterface", 6), ("insn.invokestatic", 0),
	("insn.new", 0), ("insn.new", 3), ("insn.new", 4), ("insn.new", 1), ("insn.checkcast", 2), ("insn.anewarray", 0),
	("constant.class", 0), ("constant.methodtype", 0), ("constant.handle.getfield", 5), ("constant.handle.invokevirtual", 5),
	("constant.dynamic.descriptor", 0), ("insn.invokedynamic.bootstrap.handle", 5), ("insn.invokedynamic.bootstrap.argument.class", 3), ("insn.invokedynamic.descriptor", 4),
];

fn pair_alphabet() -> Vec<(String, SInsn)> {
	let positions = matrix::positions();
	let mut out = Vec::new();
	for (name, kind) in PAIR_ALPHABET {
		let Some(pos) = positions.iter().find(|p| p.name == name) else { crate::fail(&format!("pairs: no position {name}")) };
		let Some(r) = matrix::refval_of(pos.slot, kind) else { crate::fail(&format!("pairs: {name} has no kind {kind}")) };
		let host = pos.host(&r);
		let Some(insn) = host.methods.first().and_then(|m| m.code.as_ref()).and_then(|c| c.insns.first()) else { crate::fail(&format!("pairs: {name} is no instruction position")) };
		out.push((format!("{name}:{}", matrix::KINDS[kind]), insn.clone()));
	}
	// the same member names in another class, with other answers (remapper `swap-quill`)
	out.push(("insn.getstatic:same-name-in-another-class".into(), SInsn::Field(op::GETSTATIC, mref(matrix::V, "f", "I"))));
	out.push(("insn.invokevirtual:same-name-in-another-class".into(), SInsn::Invoke(op::INVOKEVIRTUAL, mref(matrix::V, "m", "()V"), false)));
	let _ = Slot::This;
	out
}

pub fn pairs_space(quick: bool) -> Space {
	let enc = Encoding::default();
	let chosen: &[&str] = if quick { &["total-same-length", "swap-quill", "chain-table", "members-only"] } else { &["total-same-length", "swap-quill", "chain-table", "members-only", "total-table-no-inheritance", "total-growing", "package-move", "identity-entries"] };
	let specs: Vec<Spec> = matrix::specs().into_iter().filter(|s| chosen.contains(&s.name.as_str())).collect();
	let alphabet = pair_alphabet();
	let support: Vec<Vec<u8>> = matrix::support_classes().iter().map(|c| bytes_of("pairs", c, &enc)).collect();
	let cases = (0..alphabet.len()).into_par_iter().flat_map_iter(|i| {
		let (na, a) = &alphabet[i];
		let mut cases = Vec::new();
		for (j, (nb, b)) in alphabet.iter().enumerate() {
			let label = format!("pairs/{i}-{j}/{na}/{nb}");
			let mut host = skeleton(matrix::HOST);
			host.methods.push(method_with("first", "()V", vec![a.clone(), b.clone(), RETURN]));
			// ... and the same two references in two methods (a per-method state would be reset in between)
			host.methods.push(method_with("second", "()V", vec![b.clone(), RETURN]));
			let mut entries: Vec<Entry> = support.iter().map(|b| Entry::Class(b.clone())).collect();
			entries.insert(entries.len() / 2, Entry::Class(bytes_of(&label, &host, &enc)));
			let mut p = prepare_case(Case { label, entries, second_pass: false });
			p.audit_full = i == j;
			cases.push((p, specs.clone()));
		}
		cases
	}).collect();
	Space { name: "pairs-of-references", cases }
}

// ---------------------------------------------------------------------------------------------
// nesting depth

fn nested_value(shape: usize, depth: usize) -> SElementValue {
	let mut v = SElementValue::Array(vec![
		SElementValue::Enum { type_name: js("Lp/E;"), const_name: js("K") },
		SElementValue::Class(js("[Lp/M;")),
		SElementValue::Annotation(SAnnotation { type_name: js("Lp/Ann;"), pairs: vec![(js("v"), SElementValue::Enum { type_name: js("Lp/E;"), const_name: js("K") })] }),
	]);
	for level in 0..depth {
		let array = match shape {
			0 => true,
			1 => false,
			_ => level % 2 == 0,
		};
		v = if array {
			SElementValue::Array(vec![SElementValue::Const(b'I', SConst::Int(level as i32)), v])
		} else {
			SElementValue::Annotation(SAnnotation { type_name: js(if level % 3 == 0 { "Lp/Ann;" } else { "Lp/Other;" }), pairs: vec![(js("v"), v)] })
		};
	}
	v
}

fn nested_condy(depth: usize) -> SConst {
	let handle = |m: &str| SHandle { kind: 6, member: mref(matrix::M, m, "(Lp/M;)Lp/V;"), interface: false };
	let mut c = SConst::Dynamic(Box::new(SDynamic { bootstrap: SBootstrap { handle: handle("n"), args: vec![SConst::Class(js(matrix::M)), SConst::MethodType(js("(Lp/M;)Lp/V;"))] }, name: js("k"), desc: js("Lp/M;") }));
	for level in 0..depth {
		c = SConst::Dynamic(Box::new(SDynamic { bootstrap: SBootstrap { handle: handle("n"), args: vec![SConst::Int(level as i32), c, SConst::Class(js("[Lp/V;"))] }, name: js("k"), desc: js(if level % 2 == 0 { "Lp/V;" } else { "[Lp/M;" }) }));
	}
	c
}

/// element values nested up to the depth the independent parser reads (arrays 60, annotations 30, alternating 38
/// levels) and dynamic constants as bootstrap arguments of dynamic constants (30 levels), every reference kind at the bottom
pub fn depth_space() -> Space {
	let enc = Encoding::default();
	let specs: Vec<Spec> = matrix::specs().into_iter().filter(|s| ["identity-quill", "total-same-length", "total-growing", "chain-table"].contains(&s.name.as_str())).collect();
	let support: Vec<Vec<u8>> = matrix::support_classes().iter().map(|c| bytes_of("depth", c, &enc)).collect();
	let mut cases = Vec::new();
	let mut add = |label: String, host: SClass| {
		let mut entries: Vec<Entry> = support.iter().map(|b| Entry::Class(b.clone())).collect();
		entries.push(Entry::Class(bytes_of(&label, &host, &enc)));
		cases.push((prepare_case(Case { label, entries, second_pass: true }), specs.clone()));
	};
	for (shape, name, max) in [(0usize, "arrays", 58usize), (1, "annotations", 28), (2, "alternating", 36)] {
		for depth in 0..=max {
			let mut host = skeleton(matrix::HOST);
			host.annotations.visible = vec![SAnnotation { type_name: js("Lp/Ann;"), pairs: vec![(js("v"), nested_value(shape, depth))] }];
			host.access = 0x2601;
			host.interfaces = vec![js("java/lang/annotation/Annotation")];
			host.methods.push(SMethod { access: 0x0401, name: js("d"), desc: js("()Ljava/lang/Object;"), annotation_default: Some(nested_value(shape, depth)), ..Default::default() });
			add(format!("depth/{name}/{depth}"), host);
		}
	}
	for depth in 0..=28usize {
		let mut host = skeleton(matrix::HOST);
		host.methods.push(method_with("run", "()V", vec![SInsn::Ldc(nested_condy(depth)), SInsn::Simple(0x57), RETURN]));
		host.methods.push(method_with("indy", "()V", vec![SInsn::InvokeDynamic(SDynamic { bootstrap: SBootstrap { handle: SHandle { kind: 6, member: mref(matrix::M, "n", "(Lp/M;)Lp/V;"), interface: false }, args: vec![nested_condy(depth)] }, name: js("run"), desc: js("()Lp/M;") }), SInsn::Simple(0x57), RETURN]));
		add(format!("depth/dynamic-constants/{depth}"), host);
	}
	Space { name: "nesting-depth", cases }
}

// ---------------------------------------------------------------------------------------------
// strings that grow to the limit

/// bytes of a string in the class file (modified UTF-8: NUL has 2, a character beyond the BMP 6)
fn mutf8_len(s: &str) -> usize {
	s.encode_utf16().map(|u| match u {
		0x0001..=0x007F => 1,
		0x0000 | 0x0080..=0x07FF => 2,
		_ => 3,
	}).sum()
}

/// A name of exactly `bytes` bytes in the class file: `x/aaa…` and the tail.
fn name_of(bytes: usize, tail: &str) -> String {
	let fixed = 2 + mutf8_len(tail);
	let s = format!("x/{}{tail}", "a".repeat(bytes - fixed));
	debug_assert_eq!(mutf8_len(&s), bytes);
	s
}

/// A class outside the jar (and a field of a class of the jar) is renamed to a name with which a string of the class
/// file has 65534, 65535 (the longest a class file can hold), 65536 and 65537 bytes — as a class name, inside a field
/// descriptor, an array class name and a method descriptor; the last character has 1, 2, 3 or 6 bytes. What can be
/// encoded must be written right; what cannot must be refused (not a panic, not a jar with a wrong class in it).
pub fn limit_space() -> Space {
	let enc = Encoding::default();
	let support: Vec<Vec<u8>> = matrix::support_classes().iter().map(|c| bytes_of("limit", c, &enc)).collect();
	let positions: [(&str, usize, SInsn); 5] = [
		("class-name", 0, SInsn::New(js(matrix::EXT))),
		("field-descriptor", 2, SInsn::Field(op::GETSTATIC, mref(matrix::U, "zz", "Lext/Lib;"))),
		("array-class-name", 3, SInsn::CheckCast(js("[Lext/Lib;"))),
		("method-descriptor", 5, SInsn::Ldc(SConst::MethodType(js("(Lext/Lib;)V")))),
		("field-name", 0, SInsn::Field(op::GETSTATIC, mref(matrix::M, "f", "I"))),
	];
	let mut cases = Vec::new();
	for (pname, overhead, insn) in &positions {
		let mut host = skeleton(matrix::HOST);
		host.methods.push(method_with("run", "()V", vec![insn.clone(), SInsn::Simple(0x57), RETURN]));
		let label = format!("limit/{pname}");
		let mut entries: Vec<Entry> = support.iter().map(|b| Entry::Class(b.clone())).collect();
		entries.push(Entry::Class(bytes_of(&label, &host, &enc)));
		let p = prepare_case(Case { label, entries, second_pass: false });
		let mut specs = Vec::new();
		for total in [65534usize, 65535, 65536, 65537] {
			for (tname, tail) in [("ascii", "z"), ("2-byte", "é"), ("3-byte", "€"), ("6-byte", "𝄞")] {
				for (ename, engine) in [("table", Engine::Table { inherit: true }), ("quill", Engine::QuillJarProvider)] {
					let mut s = Spec::new(&format!("{total}-bytes-{tname}-{ename}"), engine);
					if *pname == "field-name" {
						let fixed = mutf8_len(tail);
						s.field(matrix::M, "f", "I", &format!("{}{tail}", "a".repeat(total - fixed)));
					} else {
						s.class(matrix::EXT, &name_of(total - overhead, tail));
					}
					specs.push(s);
				}
			}
		}
		cases.push((p, specs));
	}
	Space { name: "strings-that-grow-to-the-limit", cases }
}

// ---------------------------------------------------------------------------------------------
// error paths

/// every one-position class of the matrix alone in a jar, and the kitchen-sink classes: remapped once per question the
/// code under test puts, the remapper failing at that question
pub fn failing_space() -> Space {
	let enc = Encoding::default();
	let mut spec = matrix::specs().into_iter().find(|s| s.name == "total-table").unwrap_or_else(|| crate::fail("no total-table"));
	spec.name = "total-table-failing-at-every-question".into();
	spec.failing = true;
	let mut cases: Vec<_> = matrix::cells().par_iter().map(|cell| {
		let label = format!("failing/{}/{}", cell.position, matrix::KINDS[cell.kind]);
		let entries = vec![Entry::Class(bytes_of(&label, &cell.classes[cell.host], &enc)), Entry::Other { name: "res.txt".into(), bytes: b"r".to_vec(), deflate: false }];
		(prepare_case(Case { label, entries, second_pass: false }), vec![spec.clone()])
	}).collect();
	for variant in 0..6usize {
		let mut s = kitchen_sink(variant);
		normalize(&mut s);
		let label = format!("failing/sink{variant}");
		let p = prepare_case(Case { label: label.clone(), entries: vec![Entry::Class(bytes_of(&label, &s, &enc))], second_pass: false });
		let mut sp = specs_for(&p).into_iter().find(|s| s.name == "shrink-all-table").unwrap_or_else(|| crate::fail("no shrink-all-table"));
		sp.name = "shrink-all-table-failing-at-every-question".into();
		sp.failing = true;
		cases.push((p, vec![sp]));
	}
	Space { name: "failing-remapper", cases }
}
