//! One case = one jar × one remapper: build the jar in memory, run the real `dukebox::remap::remap`,
//! observe the result at three places (the remapped trees, the written jar reopened with `zip`, the
//! classes parsed by the independent parser) and compare with the reference renaming.

use std::collections::{BTreeMap, BTreeSet};
use std::io::{Cursor, Read, Write};
use cfmodel::model::*;
use dukebox::storage::{ClassRepr, Jar, JarEntryEnum, UnnamedMemJar};
use quill::remapper::{BRemapper, JarSuperProv, NoSuperClassProvider};
use quill::tree::mappings::Mappings;
use quill::tree::names::Namespace;
use vcore::{json, Ctx, Stats};
use super::audit::{self, Audit, Model, Questions};
use super::refs::{self, compare, rename, Comparison};
use super::remappers::{ByRef, Engine, Spec, Table};

#[derive(Clone, Debug)]
pub enum Entry {
	Dir(String),
	/// (class bytes; the entry is stored under `<this_class>.class`)
	Class(Vec<u8>),
	Other { name: String, bytes: Vec<u8>, deflate: bool },
}

pub struct Case {
	pub label: String,
	pub entries: Vec<Entry>,
	pub second_pass: bool,
}

/// counters shared by all cases of a worker
#[derive(Default)]
pub struct Tally {
	pub renamed_positions: BTreeMap<String, u64>,
	pub judged_positions: BTreeMap<String, u64>,
}

impl Tally {
	pub fn merge(mut self, o: Tally) -> Tally {
		for (k, v) in o.renamed_positions {
			*self.renamed_positions.entry(k).or_insert(0) += v;
		}
		for (k, v) in o.judged_positions {
			*self.judged_positions.entry(k).or_insert(0) += v;
		}
		self
	}
}

fn zip_options(deflate: bool) -> zip::write::SimpleFileOptions {
	zip::write::SimpleFileOptions::default()
		.compression_method(if deflate { zip::CompressionMethod::Deflated } else { zip::CompressionMethod::Stored })
		.last_modified_time(zip::DateTime::default())
}

/// `(jar bytes, entry names)`
pub fn build_jar(entries: &[Entry], class_names: &[Option<String>]) -> Vec<u8> {
	let fail = |e: zip::result::ZipError| -> ! { crate::fail(&format!("building the input jar: {e}")) };
	let mut w = zip::ZipWriter::new(Cursor::new(Vec::new()));
	for (i, e) in entries.iter().enumerate() {
		match e {
			Entry::Dir(name) => w.add_directory(name.as_str(), zip_options(false)).unwrap_or_else(|e| fail(e)),
			Entry::Class(bytes) => {
				let name = class_names[i].clone().unwrap_or_else(|| crate::fail("class entry without name"));
				w.start_file(name, zip_options(i % 2 == 0)).unwrap_or_else(|e| fail(e));
				w.write_all(bytes).unwrap_or_else(|e| crate::fail(&format!("building the input jar: {e}")));
			},
			Entry::Other { name, bytes, deflate } => {
				w.start_file(name.as_str(), zip_options(*deflate)).unwrap_or_else(|e| fail(e));
				w.write_all(bytes).unwrap_or_else(|e| crate::fail(&format!("building the input jar: {e}")));
			},
		}
	}
	w.finish().unwrap_or_else(|e| fail(e)).into_inner()
}

#[derive(Debug, Clone, PartialEq, Eq)]
pub struct OutEntry {
	pub name: String,
	pub dir: bool,
	pub bytes: Vec<u8>,
}

pub fn read_jar(bytes: &[u8]) -> Result<Vec<OutEntry>, String> {
	let mut z = zip::ZipArchive::new(Cursor::new(bytes)).map_err(|e| format!("{e}"))?;
	let mut out = Vec::new();
	for i in 0..z.len() {
		let mut f = z.by_index(i).map_err(|e| format!("entry {i}: {e}"))?;
		let mut b = Vec::new();
		f.read_to_end(&mut b).map_err(|e| format!("entry {i} ({}): {e}", f.name()))?;
		out.push(OutEntry { name: f.name().to_owned(), dir: f.is_dir(), bytes: b });
	}
	Ok(out)
}

/// what is known about a class of the input before the code under test runs
pub struct Pre {
	/// the independent parser's reading
	pub s0: SClass,
	/// projection of the tree duke's reader builds (what dukebox works on)
	pub s1: SClass,
	/// differences reader-vs-parser (the reader's own losses; C01's business, listed as known findings)
	pub reader_keys: Vec<(String, String)>,
}

/// `Err(reason)` when duke's reader does not take the class (not C07's business: such a class is left out of jars)
pub fn prepare(bytes: &[u8]) -> Result<Pre, String> {
	let s0 = match cfmodel::parse(bytes) {
		Ok(p) => p.class,
		Err(e) => crate::fail(&format!("the reference parser rejects an input class: {e}")),
	};
	let tree = match vcore::guard(|| duke::read_class(&mut Cursor::new(bytes))) {
		Ok(Ok(t)) => t,
		Ok(Err(e)) => return Err(format!("refused: {e:#}")),
		Err(p) => return Err(format!("panic at {}", p.site)),
	};
	let s1 = cfmodel::duke_proj::project(&tree).map_err(|e| format!("inconsistent tree: {e}"))?;
	let reader_keys = cfmodel::sdiff::diff(&s0, &s1).0;
	Ok(Pre { s0, s1, reader_keys })
}

fn supers_of(pres: &[Option<Pre>]) -> BTreeMap<String, Vec<String>> {
	let mut m = BTreeMap::new();
	for p in pres.iter().flatten() {
		let mut v: Vec<String> = p.s0.super_class.iter().map(|s| s.to_string_lossy()).collect();
		v.extend(p.s0.interfaces.iter().map(|s| s.to_string_lossy()));
		m.insert(p.s0.this_class.to_string_lossy(), v);
	}
	m
}

/// Builds the remapper the spec describes (for this jar) and hands it to `f`.
/// `Err((key, what))`: the real code that builds the provider of the jar failed (a difference, not a machinery problem:
/// the jar is made of classes duke reads).
pub fn with_remapper<T>(spec: &Spec, jar: &[u8], pres: &[Option<Pre>], f: impl FnOnce(&dyn BRemapper, Option<&JarSuperProv>) -> T) -> Result<T, (String, String)> {
	Ok(match spec.engine {
		Engine::Table { .. } => f(&Table { spec: spec.clone(), supers: supers_of(pres) }, None),
		Engine::QuillJarProvider | Engine::QuillNoProvider => {
			let q: Mappings<2, ()> = mapmodel::to_quill(&spec.to_mset()).unwrap_or_else(|e| crate::fail(&format!("remapper {}: {e:#}", spec.name)));
			let (a, b) = match (Namespace::new(0), Namespace::new(1)) {
				(Ok(a), Ok(b)) => (a, b),
				_ => crate::fail("namespaces"),
			};
			if spec.engine == Engine::QuillJarProvider {
				// the provider is built by the real code from the input jar, as feather-build does
				let prov = match vcore::guard(|| UnnamedMemJar { data: jar.to_vec() }.get_super_classes_provider()) {
					Ok(Ok(p)) => p,
					Ok(Err(e)) => return Err(("provider:refused".into(), format!("Jar::get_super_classes_provider refuses a jar of well-formed classes: {e:#}"))),
					Err(p) => return Err((format!("panic@{}", p.file()), format!("Jar::get_super_classes_provider panicked at {}: {}", p.site, p.msg))),
				};
				let r = match vcore::guard(|| q.remapper_b(a, b, &prov)) {
					Ok(Ok(r)) => r,
					Ok(Err(e)) => return Err(("engine:remapper_b:refused".into(), format!("Mappings::remapper_b refuses the mappings: {e:#}"))),
					Err(p) => return Err((format!("panic@{}", p.file()), format!("Mappings::remapper_b panicked at {}: {}", p.site, p.msg))),
				};
				f(&r, Some(&prov))
			} else {
				let r = match vcore::guard(|| q.remapper_b(a, b, NoSuperClassProvider::new())) {
					Ok(Ok(r)) => r,
					Ok(Err(e)) => return Err(("engine:remapper_b:refused".into(), format!("Mappings::remapper_b refuses the mappings: {e:#}"))),
					Err(p) => return Err((format!("panic@{}", p.file()), format!("Mappings::remapper_b panicked at {}: {}", p.site, p.msg))),
				};
				f(&r, None)
			}
		},
	})
}

/// member references and declarations whose name the remapper changes although the spec has no entry for
/// (owner, name, descriptor) itself: renamed through a super type
fn inherited_renames(s: &SClass, spec: &Spec, r: &dyn BRemapper) -> u64 {
	if spec.fields.is_empty() && spec.methods.is_empty() {
		return 0;
	}
	let expected = match rename(s, r) {
		Ok(e) => refs::collect(&e),
		Err(_) => return 0,
	};
	let this = s.this_class.to_string_lossy();
	let mut n = 0;
	let mut c = s.clone();
	refs::walk(&mut c, &mut |p, site| {
		let (owner, name, desc, field) = match site {
			refs::Site::FieldRef(m) => (m.owner.to_string_lossy(), m.name.clone(), m.desc.to_string_lossy(), true),
			refs::Site::MethodRef(m) => (m.owner.to_string_lossy(), m.name.clone(), m.desc.to_string_lossy(), false),
			refs::Site::FieldDecl { name, desc } => (this.clone(), name.clone(), desc.to_string_lossy(), true),
			refs::Site::MethodDecl { name, desc } => (this.clone(), name.clone(), desc.to_string_lossy(), false),
			_ => return,
		};
		let key = (owner, name.to_string_lossy(), desc);
		let direct = if field { spec.fields.contains_key(&key) } else { spec.methods.contains_key(&key) };
		if !direct && expected.get(&format!("{}.name", p.id)).is_some_and(|e| e.value != name) {
			n += 1;
		}
	});
	n
}

fn trimmed_hex(b: &[u8]) -> String {
	if b.len() > 40_000 {
		format!("({} bytes, not shown; the case is rebuilt from its label)", b.len())
	} else {
		vcore::hex(b)
	}
}

/// a case with everything that does not depend on the remapper computed once
pub struct Prepared {
	pub label: String,
	pub entries: Vec<Entry>,
	pub pres: Vec<Option<Pre>>,
	pub in_names: Vec<String>,
	pub jar: Vec<u8>,
	/// classes duke's reader does not take (left out of the jar; C01's business)
	pub left_out: u64,
	/// also remap the result once more (as a `ParsedJar`), with a remapper that knows no name and with one that
	/// renames every class of the remapped jar
	pub second_pass: bool,
	/// small universes: the remapper is asked the complete question space of its table (every member key of every
	/// class), not only the questions the classes of the jar put
	pub audit_full: bool,
	/// the questions the classes of the jar put to a remapper
	pub questions: Questions,
}

pub fn prepare_case(case: Case) -> Prepared {
	let mut pres: Vec<Option<Pre>> = Vec::new();
	let mut names: Vec<Option<String>> = Vec::new();
	let mut entries: Vec<Entry> = Vec::new();
	let mut left_out = 0;
	for e in case.entries {
		match &e {
			Entry::Class(bytes) => match prepare(bytes) {
				Ok(p) => {
					names.push(Some(format!("{}.class", p.s0.this_class.to_string_lossy())));
					pres.push(Some(p));
					entries.push(e);
				},
				Err(_) => left_out += 1,
			},
			_ => {
				names.push(None);
				pres.push(None);
				entries.push(e);
			},
		}
	}
	let jar = build_jar(&entries, &names);
	let in_names: Vec<String> = entries.iter().zip(&names).map(|(e, n)| match e {
		Entry::Dir(d) => if d.ends_with('/') { d.clone() } else { format!("{d}/") },
		Entry::Class(_) => n.clone().unwrap_or_default(),
		Entry::Other { name, .. } => name.clone(),
	}).collect();
	let questions = Questions::of_classes(pres.iter().flatten().map(|p| &p.s0));
	Prepared { label: case.label, entries, pres, in_names, jar, left_out, second_pass: case.second_pass, audit_full: false, questions }
}

/// Runs one case. Every difference is reported through `ctx.diff`.
pub fn run_case(ctx: &Ctx, st: &mut Stats, tally: &mut Tally, case: &Prepared, spec: &Spec) {
	let replay = |focus: &str| format!("label={}\nremapper={}\nfocus={focus}\n{}entries={:?}\ninput jar (hex):\n{}", case.label, spec.name, spec.describe(), case.in_names, trimmed_hex(&case.jar));
	if case.left_out > 0 {
		st.outcome_n("input-class-left-out:duke-reader-does-not-take-it", case.left_out);
	}
	vcore::watched(|| replay("(whole case)"), || {
		if spec.failing {
			let done = with_remapper(spec, &case.jar, &case.pres, |r, _| judge_failing(ctx, st, case, r, &replay));
			if done.is_err() {
				crate::fail("a failing remapper is a table remapper");
			}
			return;
		}
		let done = with_remapper(spec, &case.jar, &case.pres, |r, prov| {
			if audit_remapper(ctx, st, case, spec, r, prov, &replay) {
				judge(ctx, st, tally, case, spec, r, &replay)
			} else {
				st.eval();
				st.outcome("remapper:contradicts-itself:jar-not-judged");
			}
		});
		if let Err((key, what)) = done {
			st.eval();
			st.outcome("remapper:could-not-be-built");
			ctx.diff(&key, &what, || replay("(the remapper itself)"));
		}
	});
}

/// `s` cut to at most `n` bytes at a character boundary
fn cut(s: &str, n: usize) -> &str {
	let mut n = n.min(s.len());
	while !s.is_char_boundary(n) {
		n -= 1;
	}
	&s[..n]
}

/// A refusal is the right answer when the renamed jar cannot exist: a class of the reference renaming cannot be
/// encoded as a class file (a name or descriptor of more than 65535 bytes of modified UTF-8, ...) or an entry name
/// does not fit the 16-bit length field of a zip entry.
fn expected_unencodable(case: &Prepared, r: &dyn BRemapper, expected_names: &[String]) -> Option<String> {
	if let Some(n) = expected_names.iter().find(|n| n.len() > 65535) {
		return Some(format!("an entry name of {} bytes", n.len()));
	}
	for p in case.pres.iter().flatten() {
		let Ok(e) = rename(&p.s0, r) else { continue };
		if let Err(cfmodel::asm::AsmError::Unencodable(why)) = cfmodel::asm::assemble(&e, &cfmodel::asm::Encoding::default()) {
			return Some(format!("{}: {why}", p.s0.this_class.to_string_lossy()));
		}
	}
	None
}

/// the remapper of the second pass that changes something: every class of the remapped jar gets a suffix, every
/// member the remapped classes declare (constructors and initialisers excluded) too
fn second_spec(s2s: &[Option<SClass>]) -> Spec {
	let mut s = Spec::new("everything-once-more", Engine::Table { inherit: false });
	for c in s2s.iter().flatten() {
		let this = c.this_class.to_string_lossy();
		s.class(&this, &format!("{this}_2"));
		for f in &c.fields {
			s.field(&this, &f.name.to_string_lossy(), &f.desc.to_string_lossy(), &format!("{}_2", f.name.to_string_lossy()));
		}
		for m in &c.methods {
			let n = m.name.to_string_lossy();
			if !n.starts_with('<') {
				s.method(&this, &n, &m.desc.to_string_lossy(), &format!("{n}_2"));
			}
		}
	}
	s
}

/// Error paths: the jar is remapped once per question the code under test puts to the remapper, with the remapper
/// failing at exactly that question. A remapper that cannot answer leaves no renamed jar that satisfies the statement:
/// the error must come back (no panic, no jar in which the unanswered reference is silently kept or invented).
fn judge_failing(ctx: &Ctx, st: &mut Stats, case: &Prepared, r: &dyn BRemapper, replay: &dyn Fn(&str) -> String) {
	use super::remappers::failing;
	let mut k = 0u64;
	loop {
		failing::arm(Some(k));
		let result = vcore::guard(|| dukebox::remap::remap(UnnamedMemJar { data: case.jar.clone() }, ByRef(r)));
		let (asked, hit) = failing::disarm();
		st.eval();
		let at = || replay(&format!("(the remapper fails at its question number {k})"));
		match result {
			Err(p) => {
				st.outcome("failing-remapper:panic");
				ctx.diff(&format!("panic@{}", p.file()), &format!("the remapper fails at question {k}: dukebox::remap::remap panicked at {}: {}", p.site, p.msg), at);
			},
			Ok(Err(_)) if hit => st.outcome("failing-remapper:error-comes-back"),
			Ok(Err(e)) => {
				st.outcome("failing-remapper:refused-without-a-failure");
				ctx.diff("remap:refused", &format!("dukebox::remap::remap refuses a jar of well-formed classes although the remapper answered all {asked} questions: {}", cut(&format!("{e:#}"), 300)), at);
			},
			Ok(Ok(_)) if hit => {
				st.outcome("failing-remapper:error-swallowed");
				ctx.diff("remap:error-of-the-remapper-swallowed", &format!("the remapper failed at question {k} of {asked} and dukebox::remap::remap returned a jar all the same"), at);
			},
			Ok(Ok(_)) => {
				// the failing question is beyond the last one: every question of this jar has failed once
				st.outcome_n("failing-remapper:questions-of-completed-jars", asked);
				return;
			},
		}
		k += 1;
		if k > 100_000 {
			crate::fail(&format!("{}: more than 100000 questions", case.label));
		}
	}
}

/// the remapper itself (quill's provided methods, the `remapper_b` engine, the provider built from the jar)
/// `false`: the provided methods of the remapper contradict its primitive answers (or it panicked): there is no single
/// "what the remapper answers" to judge dukebox against
fn audit_remapper(ctx: &Ctx, st: &mut Stats, case: &Prepared, spec: &Spec, r: &dyn BRemapper, prov: Option<&JarSuperProv>, replay: &dyn Fn(&str) -> String) -> bool {
	let mut a = Audit { ctx, replay, asked: 0, inconsistent: 0 };
	let full;
	let q = if case.audit_full {
		let mut q = Questions::of_classes(case.pres.iter().flatten().map(|p| &p.s0));
		q.add_table_space(spec);
		full = q;
		&full
	} else {
		&case.questions
	};
	let guarded = vcore::guard(|| {
		audit::provided(&mut a, st, r, q);
		if audit::is_quill(spec.engine) {
			let supers = if spec.engine == Engine::QuillJarProvider { supers_of(&case.pres) } else { BTreeMap::new() };
			audit::engine(&mut a, st, r, q, &Model { spec, supers });
		}
		if let Some(prov) = prov {
			let stated: Vec<(JS, Vec<JS>)> = case.pres.iter().flatten().map(|p| (p.s0.this_class.clone(), p.s0.super_class.iter().chain(&p.s0.interfaces).cloned().collect())).collect();
			audit::provider(&mut a, st, prov, &stated);
		}
		(a.asked, a.inconsistent)
	});
	match guarded {
		Ok((n, inconsistent)) => {
			st.outcome_n("audit:questions-put-to-the-remapper", n);
			inconsistent == 0
		},
		Err(p) => {
			ctx.diff(&format!("panic@{}", p.file()), &format!("the remapper panicked at {}: {}", p.site, p.msg), || replay("(the remapper itself)"));
			false
		},
	}
}

#[allow(clippy::too_many_arguments)]
fn judge(ctx: &Ctx, st: &mut Stats, tally: &mut Tally, case: &Prepared, spec: &Spec, r: &dyn BRemapper, replay: &dyn Fn(&str) -> String) {
	let (entries, pres, in_names, jar) = (&case.entries, &case.pres, &case.in_names, &case.jar);
	st.eval();
	// reader losses are reported under their plain keys (open known findings name C07)
	for p in pres.iter().flatten() {
		for (k, d) in &p.reader_keys {
			ctx.diff(k, d, || replay(&p.s0.this_class.to_string_lossy()));
		}
	}
	// what the remapper answers, asked by the harness
	let mut expected_names: Vec<String> = Vec::new();
	for (i, p) in pres.iter().enumerate() {
		match p {
			Some(p) => match refs::ask_class(r, &p.s0.this_class) {
				Ok(n) => expected_names.push(format!("{}.class", n.to_string_lossy())),
				Err(e) => crate::fail(&format!("{}: the remapper fails on a class name: {e}", case.label)),
			},
			None => expected_names.push(in_names[i].clone()),
		}
	}
	if expected_names.iter().collect::<BTreeSet<_>>().len() != expected_names.len() {
		crate::fail(&format!("{} × {}: the remapper is not injective on the entry names of the jar", case.label, spec.name));
	}

	// --- the code under test
	let result = vcore::guard(|| dukebox::remap::remap(UnnamedMemJar { data: jar.to_vec() }, ByRef(r)));
	let parsed = match result {
		Err(p) => {
			st.outcome("remap:panic");
			ctx.diff(&format!("panic@{}", p.file()), &format!("dukebox::remap::remap panicked at {}: {}", p.site, p.msg), || replay("(whole case)"));
			return;
		},
		Ok(Err(e)) => {
			if let Some(why) = expected_unencodable(case, r, &expected_names) {
				st.outcome("remap:refused-because-the-renamed-jar-cannot-be-encoded");
				let _ = why;
				return;
			}
			st.outcome("remap:refused");
			let m = format!("{e:#}");
			ctx.diff("remap:refused", &format!("dukebox::remap::remap refuses a jar of well-formed classes: {}", cut(&m, 300)), || replay("(whole case)"));
			return;
		},
		Ok(Ok(j)) => j,
	};
	st.outcome("remap:ok");

	// observation 1: the remapped trees (before duke's writer)
	let mut s2s: Vec<Option<SClass>> = vec![None; entries.len()];
	if parsed.entries.len() != entries.len() {
		ctx.diff("jar:entry-count:changed", &format!("{} entries in, {} entries in the remapped jar", entries.len(), parsed.entries.len()), || replay("(whole case)"));
	} else {
		for (i, (_, e)) in parsed.entries.iter().enumerate() {
			if let (Some(_), JarEntryEnum::Class(ClassRepr::Parsed { class })) = (&pres[i], &e.content) {
				match cfmodel::duke_proj::project(class) {
					Ok(s) => s2s[i] = Some(s),
					Err(e) => ctx.diff("remap:inconsistent-tree", &format!("the remapped tree refers to a position that does not exist: {e}"), || replay(&in_names[i])),
				}
			}
		}
	}

	// the result is itself a jar (`ParsedJar`, classes held as trees): remapping it once more with a remapper
	// that knows no name must leave every tree as it is (exercises the parsed-class storage as input)
	if case.second_pass {
		let nothing = Table { spec: Spec::new("nothing", Engine::Table { inherit: false }), supers: BTreeMap::new() };
		let again = vcore::guard(|| dukebox::remap::remap(dukebox::remap::remap(UnnamedMemJar { data: jar.to_vec() }, ByRef(r))?, ByRef(&nothing)));
		st.eval();
		match again {
			Err(p) => ctx.diff(&format!("panic@{}", p.file()), &format!("remapping the remapped jar panicked at {}: {}", p.site, p.msg), || replay("(whole case)")),
			Ok(Err(e)) => ctx.diff("remap:second-pass:refused", &format!("the remapped jar cannot be remapped again: {e:#}"), || replay("(whole case)")),
			Ok(Ok(j2)) => {
				st.outcome("remap:second-pass-through-parsed-jar");
				let names1: Vec<&String> = parsed.entries.keys().collect();
				let names2: Vec<&String> = j2.entries.keys().collect();
				if names1 != names2 {
					ctx.diff("remap:second-pass:entry-names-changed", &format!("entry names {names1:?} became {names2:?} under a remapper that knows no name"), || replay("(whole case)"));
				}
				for (i, (_, e)) in j2.entries.iter().enumerate() {
					if let (Some(Some(s2)), JarEntryEnum::Class(ClassRepr::Parsed { class })) = (s2s.get(i), &e.content) {
						match cfmodel::duke_proj::project(class) {
							Ok(again) if &again == s2 => {},
							Ok(again) => {
								for (k, d) in cfmodel::sdiff::diff(s2, &again).0 {
									ctx.diff(&format!("remap:second-pass:{k}"), &format!("(remapped again with a remapper that knows no name) {d}"), || replay(&in_names[i]));
								}
							},
							Err(e) => ctx.diff("remap:inconsistent-tree", &format!("second pass: {e}"), || replay(&in_names[i])),
						}
					}
				}
			},
		}
	}

	// ... and with a remapper that renames every class and member of the remapped jar once more: the trees held by the
	// `ParsedJar` are the input, their entry names the keys
	if case.second_pass && s2s.iter().all(|s| s.as_ref().is_none_or(|c| c.this_class.0.iter().all(|u| !(0xD800..0xE000).contains(u)))) {
		let spec2 = second_spec(&s2s);
		let r2 = Table { spec: spec2, supers: BTreeMap::new() };
		let again = vcore::guard(|| dukebox::remap::remap(dukebox::remap::remap(UnnamedMemJar { data: jar.to_vec() }, ByRef(r))?, ByRef(&r2)));
		st.eval();
		match again {
			Err(p) => ctx.diff(&format!("panic@{}", p.file()), &format!("remapping the remapped jar panicked at {}: {}", p.site, p.msg), || replay("(whole case)")),
			Ok(Err(e)) => ctx.diff("remap:second-pass:refused", &format!("the remapped jar cannot be remapped again: {e:#}"), || replay("(whole case)")),
			Ok(Ok(j2)) => {
				st.outcome("remap:second-pass-that-renames-everything");
				for (i, ((name1, _), (name2, e))) in parsed.entries.iter().zip(&j2.entries).enumerate() {
					let Some(Some(s2)) = s2s.get(i) else {
						if name1 != name2 {
							ctx.diff("remap:second-pass:entry-names-changed", &format!("the entry {name1:?}, which is no class, became {name2:?}"), || replay("(whole case)"));
						}
						continue;
					};
					let want = match rename(s2, &r2) {
						Ok(w) => w,
						Err(e) => crate::fail(&format!("second pass: {e}")),
					};
					let want_name = format!("{}.class", want.this_class.to_string_lossy());
					if name2 != &want_name {
						ctx.diff("remap:second-pass:class-entry-name:wrong", &format!("the entry {name1:?} of the remapped jar must become {want_name:?} and became {name2:?}"), || replay(&in_names[i]));
					}
					if let JarEntryEnum::Class(ClassRepr::Parsed { class }) = &e.content {
						match cfmodel::duke_proj::project(class) {
							Ok(again) if again == want => st.outcome("class:second-pass-as-expected"),
							Ok(again) => {
								for (k, d) in compare(&want, &again, s2, None).diffs {
									// what the first pass loses (open findings) is lost again; a second report under another key adds nothing
									if !ctx.is_known(&format!("remap:{k}")) {
										ctx.diff(&format!("remap:second-pass:{k}"), &format!("(the remapped jar remapped once more) {d}"), || replay(&in_names[i]));
									}
								}
							},
							Err(e) => ctx.diff("remap:inconsistent-tree", &format!("second pass: {e}"), || replay(&in_names[i])),
						}
					}
				}
				if parsed.entries.len() != j2.entries.len() {
					ctx.diff("remap:second-pass:entry-count:changed", &format!("{} entries became {}", parsed.entries.len(), j2.entries.len()), || replay("(whole case)"));
				}
			},
		}
	}

	// observation 2: the written jar
	let out_bytes = match vcore::guard(|| parsed.to_mem()) {
		Err(p) => {
			ctx.diff(&format!("panic@{}", p.file()), &format!("writing the remapped jar panicked at {}: {}", p.site, p.msg), || replay("(whole case)"));
			return;
		},
		Ok(Err(e)) => {
			if expected_unencodable(case, r, &expected_names).is_some() {
				st.outcome("jar:write-refused-because-the-renamed-jar-cannot-be-encoded");
				return;
			}
			let m = format!("{e:#}");
			ctx.diff("jar:write-refused", &format!("the remapped jar cannot be written: {}", cut(&m, 300)), || replay("(whole case)"));
			return;
		},
		Ok(Ok(j)) => j.data,
	};
	let out = match read_jar(&out_bytes) {
		Ok(o) => o,
		Err(e) => {
			ctx.diff("jar:not-a-valid-zip", &format!("the result does not re-open as a jar: {e}"), || replay("(whole case)"));
			return;
		},
	};
	st.outcome("jar:reopened");
	let mut seen = BTreeSet::new();
	for o in &out {
		if !seen.insert(o.name.clone()) {
			ctx.diff("jar:duplicate-entry-name", &format!("two entries are called {:?}", o.name), || replay("(whole case)"));
		}
	}
	if out.len() != entries.len() {
		ctx.diff("jar:entry-count:changed", &format!("{} entries in, {} entries out", entries.len(), out.len()), || replay("(whole case)"));
		return;
	}
	let order_kept = out.iter().zip(&expected_names).all(|(o, n)| &o.name == n);
	st.outcome(if order_kept { "jar:entry-order-kept" } else { "jar:entry-order-or-names-differ" });
	for (i, e) in entries.iter().enumerate() {
		// the entry expected under `expected_names[i]`; if it is not there, the entry at the same index
		let o = out.iter().find(|o| o.name == expected_names[i]).unwrap_or(&out[i]);
		match e {
			Entry::Dir(_) => {
				st.outcome("entry:directory");
				if o.name != expected_names[i] || !o.dir {
					ctx.diff("jar:non-class-entry:changed", &format!("directory entry {:?} became {:?} (directory: {})", in_names[i], o.name, o.dir), || replay(&in_names[i]));
				}
			},
			Entry::Other { bytes, .. } => {
				st.outcome("entry:resource");
				if o.name != expected_names[i] || o.dir {
					ctx.diff("jar:non-class-entry:changed", &format!("entry {:?} became {:?} (directory: {})", in_names[i], o.name, o.dir), || replay(&in_names[i]));
				} else if &o.bytes != bytes {
					ctx.diff("jar:non-class-entry-content:changed", &format!("entry {:?}: {} bytes in, {} bytes out, content differs", in_names[i], bytes.len(), o.bytes.len()), || replay(&in_names[i]));
				}
			},
			Entry::Class(in_bytes) => {
				let Some(pre) = &pres[i] else { continue };
				st.outcome("entry:class");
				if o.name != expected_names[i] {
					let kind = if o.name == in_names[i] { "not-remapped" } else { "wrong" };
					ctx.diff(&format!("jar:class-entry-name:{kind}"), &format!("class {:?} becomes {:?} and must be stored under {:?}, but is stored under {:?}", in_names[i], expected_names[i].trim_end_matches(".class"), expected_names[i], o.name), || replay(&in_names[i]));
				} else if expected_names[i] != in_names[i] {
					st.outcome("entry:class:stored-under-new-name");
				}
				judge_class(ctx, st, tally, &case.label, spec, r, pre, s2s[i].as_ref(), in_bytes, &o.bytes, &|| replay(&in_names[i]));
			},
		}
	}
}

#[allow(clippy::too_many_arguments)]
fn judge_class(ctx: &Ctx, st: &mut Stats, tally: &mut Tally, label: &str, spec: &Spec, r: &dyn BRemapper, pre: &Pre, s2: Option<&SClass>, in_bytes: &[u8], out_bytes: &[u8], replay: &dyn Fn() -> String) {
	let absorb = |tally: &mut Tally, st: &mut Stats, c: &Comparison| {
		for (k, v) in &c.renamed {
			*tally.renamed_positions.entry(k.clone()).or_insert(0) += v;
		}
		for (k, v) in &c.judged {
			*tally.judged_positions.entry(k.clone()).or_insert(0) += v;
		}
		for (k, v) in &c.info {
			st.outcome_n(k, *v);
		}
	};
	let mut explained: BTreeSet<String> = pre.reader_keys.iter().map(|(k, _)| k.clone()).collect();

	// stage "remap": tree in → tree out, judged against the renaming of the tree that went in
	let e2 = match rename(&pre.s1, r) {
		Ok(e) => e,
		Err(e) => crate::fail(&format!("the remapper fails where dukebox did not: {e}")),
	};
	if let Some(s2) = s2 {
		let c = compare(&e2, s2, &pre.s1, Some(r));
		absorb(tally, st, &c);
		st.outcome(if c.diffs.is_empty() { "class:remapped-tree-as-expected" } else { "class:remapped-tree-differs" });
		for (k, d) in &c.diffs {
			explained.insert(k.clone());
			ctx.diff(&format!("remap:{k}"), d, replay);
		}
		if e2 != pre.s1 {
			st.outcome("class:renaming-changes-the-class");
			st.distinct.add(&(&pre.s1, &spec.name));
		}
		let n = inherited_renames(&pre.s1, spec, r);
		if n > 0 {
			st.outcome_n("member:renamed-through-a-super-type", n);
			if label.contains("member-inherited-inside-jar") {
				st.outcome_n("member:renamed-through-a-super-type:matrix-cells-inherited-inside-jar", n);
			}
			if label.contains("member-inherited-outside-jar") {
				st.outcome_n("member:renamed-through-a-super-type:matrix-cells-inherited-outside-jar", n);
			}
		}
	}

	// stage "writer": tree out → bytes out (C02's business; keys prefixed `writer:`)
	let s3 = match cfmodel::parse(out_bytes) {
		Ok(p) => p.class,
		Err(e) => {
			// is the class the writer makes of the *unremapped* tree well-formed?
			let plain_ok = vcore::guard(|| -> Option<bool> {
				let t = duke::read_class(&mut Cursor::new(in_bytes)).ok()?;
				let mut b = Vec::new();
				duke::write_class(&mut b, &t).ok()?;
				Some(cfmodel::parse(&b).is_ok())
			});
			let key = if plain_ok == Ok(Some(true)) { "remap:output-class-not-well-formed" } else { "writer:output-class-not-well-formed" };
			ctx.diff(key, &format!("class {:?}: the written class is not a well-formed class file: {e}", pre.s0.this_class), || format!("{}\noutput class (hex):\n{}", replay(), trimmed_hex(out_bytes)));
			st.outcome("class:output-not-well-formed");
			return;
		},
	};
	st.outcome("class:output-well-formed");
	if let Some(s2) = s2 {
		for (k, d) in cfmodel::sdiff::diff(s2, &s3).0 {
			explained.insert(k.clone());
			ctx.diff(&format!("writer:{k}"), &format!("(duke's writer, after remapping) {d}"), replay);
		}
	}

	// end to end: bytes in → bytes out against the renaming of the parser's reading; everything seen here
	// must have been seen at one of the stages
	let e3 = match rename(&pre.s0, r) {
		Ok(e) => e,
		Err(e) => crate::fail(&format!("the remapper fails where dukebox did not: {e}")),
	};
	let c = compare(&e3, &s3, &pre.s0, None);
	st.outcome(if c.diffs.is_empty() { "class:end-to-end-as-expected" } else { "class:end-to-end-differs" });
	for (k, d) in &c.diffs {
		if !explained.contains(k) {
			ctx.diff(&format!("e2e:{k}"), &format!("(seen only end to end) {d}"), replay);
		}
	}
	if s3 != pre.s0 {
		st.outcome("class:output-differs-from-input");
	}
	st.sample(&spec.name, || json!({"remapper": spec.name, "class": pre.s0.this_class.to_string_lossy(), "becomes": e3.this_class.to_string_lossy(), "input_bytes": in_bytes.len(), "output_bytes": out_bytes.len(), "judged_positions": c.judged.values().sum::<u64>(), "renamed_positions": c.renamed.values().sum::<u64>(), "input_class_hex": vcore::hex(&in_bytes[..in_bytes.len().min(120)])}));
}
