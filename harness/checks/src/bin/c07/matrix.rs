//! The position × reference-kind matrix: for every reference-carrying position a one-position class per
//! kind of reference, in a jar with the small universe of support classes the references point to.

use cfmodel::gen::{js, method_with, mref, skeleton, RETURN};
use cfmodel::model::*;
use super::remappers::{Engine, Spec};

pub const HOST: &str = "p/Host";
pub const M: &str = "p/M";
pub const SUB: &str = "p/Sub";
pub const SUBEXT: &str = "p/SubExt";
pub const U: &str = "p/U";
pub const V: &str = "p/V";
pub const IN: &str = "p/M$In";
pub const ITF: &str = "p/Itf";
pub const SUBITF: &str = "p/SubItf";
pub const E: &str = "p/E";
pub const ANN: &str = "p/Ann";
pub const EXT: &str = "ext/Lib";
pub const EXTITF: &str = "ext/Itf";

pub const KINDS: [&str; 10] = [
	"mapped-class", "unmapped-class", "array-of-mapped", "package-moved-class", "inner-class",
	"member-declared-in-owner", "member-inherited-inside-jar", "member-inherited-outside-jar", "unmapped-member", "member-with-mapped-descriptor",
];

const CLASS_OF_KIND: [&str; 5] = [M, U, "[Lp/M;", V, IN];
const DESC_OF_KIND: [&str; 5] = ["Lp/M;", "Lp/U;", "[Lp/M;", "Lp/V;", "Lp/M$In;"];

/// The classes every matrix jar contains besides the host.
pub fn support_classes() -> Vec<SClass> {
	let mut out = Vec::new();
	let mut m = skeleton(M);
	m.fields.push(SField { access: 0x0001, name: js("f"), desc: js("I"), ..Default::default() });
	m.fields.push(SField { access: 0x0001, name: js("g"), desc: js("Lp/M;"), ..Default::default() });
	m.methods.push(method_with("<init>", "()V", vec![SInsn::Load(LvKind::A, 0), SInsn::Invoke(op::INVOKESPECIAL, mref("java/lang/Object", "<init>", "()V"), false), RETURN]));
	m.methods.push(method_with("m", "()V", vec![RETURN]));
	m.methods.push(method_with("n", "(Lp/M;)Lp/V;", vec![SInsn::Simple(0x01), SInsn::Simple(0xb0)]));
	m.inner_classes = Some(vec![SInnerClass { inner: js(IN), outer: Some(js(M)), name: Some(js("In")), flags: 0x0009 }]);
	m.nest_members = Some(vec![js(IN)]);
	out.push(m);
	let mut sub = skeleton(SUB);
	sub.super_class = Some(js(M));
	out.push(sub);
	let mut subext = skeleton(SUBEXT);
	subext.super_class = Some(js(EXT));
	subext.interfaces = vec![js(EXTITF)];
	out.push(subext);
	out.push(skeleton(U));
	out.push(skeleton(V));
	let mut inn = skeleton(IN);
	inn.inner_classes = Some(vec![SInnerClass { inner: js(IN), outer: Some(js(M)), name: Some(js("In")), flags: 0x0009 }]);
	inn.nest_host = Some(js(M));
	out.push(inn);
	let mut itf = skeleton(ITF);
	itf.access = 0x0601;
	itf.methods.push(SMethod { access: 0x0401, name: js("i"), desc: js("()V"), ..Default::default() });
	out.push(itf);
	let mut subitf = skeleton(SUBITF);
	subitf.access = 0x0601;
	subitf.interfaces = vec![js(ITF)];
	out.push(subitf);
	let mut e = skeleton(E);
	e.access = 0x4031;
	e.super_class = Some(js("java/lang/Enum"));
	e.fields.push(SField { access: 0x4019, name: js("K"), desc: js("Lp/E;"), ..Default::default() });
	out.push(e);
	let mut ann = skeleton(ANN);
	ann.access = 0x2601;
	ann.interfaces = vec![js("java/lang/annotation/Annotation")];
	ann.methods.push(SMethod { access: 0x0401, name: js("v"), desc: js("()Lp/E;"), ..Default::default() });
	out.push(ann);
	out
}

/// The reference a cell puts at its position.
#[derive(Clone, Debug)]
pub enum RefVal {
	Class(String),
	Desc(String),
	Member(String, String, String),
}

impl RefVal {
	fn class(&self) -> JS {
		match self {
			RefVal::Class(c) => js(c),
			other => crate::fail(&format!("matrix: expected a class reference, got {other:?}")),
		}
	}
	fn desc(&self) -> JS {
		match self {
			RefVal::Desc(d) => js(d),
			other => crate::fail(&format!("matrix: expected a descriptor, got {other:?}")),
		}
	}
	fn member(&self) -> SMemberRef {
		match self {
			RefVal::Member(o, n, d) => mref(o, n, d),
			other => crate::fail(&format!("matrix: expected a member reference, got {other:?}")),
		}
	}
}

#[derive(Clone, Copy, Debug, PartialEq, Eq)]
pub enum Slot {
	/// the class itself
	This,
	/// a CONSTANT_Class that names an object class
	ObjClass,
	/// a CONSTANT_Class that may name an array class
	AnyClass,
	/// `multianewarray`: an array class of at least two dimensions
	ArrayClass,
	/// only the inner-class kind: the (inner, outer, simple name) triple of a member class
	InnerTriple,
	FieldDesc,
	MethodDesc,
	FieldRef,
	/// `array`: an array class may be the owner (`[Lp/M;.clone()`)
	MethodRef { interface: bool, array: bool },
	/// a reference to a constructor (`<init>` is never renamed: only the class kinds)
	CtorRef,
	FieldDecl,
	MethodDecl,
	RecordComponent,
	/// annotation enum constant: (type descriptor, constant name)
	EnumConst,
}

pub struct Position {
	pub name: &'static str,
	pub slot: Slot,
	build: Box<dyn Fn(&RefVal) -> SClass + Send + Sync>,
}

impl Position {
	/// the one-position class of this position for the reference `r`
	pub fn host(&self, r: &RefVal) -> SClass {
		(self.build)(r)
	}
}

/// the reference of a kind for a slot (`None`: the kind does not apply to the slot)
pub fn refval_of(slot: Slot, kind: usize) -> Option<RefVal> {
	refval(slot, kind)
}

fn refval(slot: Slot, kind: usize) -> Option<RefVal> {
	let class_kind = kind < 5;
	let d = |k: usize| DESC_OF_KIND[k].to_owned();
	Some(match slot {
		Slot::This | Slot::ObjClass => match kind {
			0 | 1 | 3 | 4 => RefVal::Class(CLASS_OF_KIND[kind].to_owned()),
			_ => return None,
		},
		Slot::AnyClass if class_kind => RefVal::Class(CLASS_OF_KIND[kind].to_owned()),
		Slot::ArrayClass if class_kind => RefVal::Class(format!("[[{}", d(kind))),
		Slot::InnerTriple if kind == 4 => RefVal::Class(IN.to_owned()),
		Slot::FieldDesc if class_kind => RefVal::Desc(d(kind)),
		Slot::MethodDesc if class_kind => RefVal::Desc(format!("({}I){}", d(kind), d(kind))),
		Slot::FieldRef | Slot::FieldDecl | Slot::RecordComponent => {
			let decl = slot != Slot::FieldRef;
			match kind {
				0..=4 => RefVal::Member(if decl { HOST.to_owned() } else if kind == 2 { U.to_owned() } else { CLASS_OF_KIND[kind].to_owned() }, "zz".into(), d(kind)),
				5 => RefVal::Member(M.into(), "f".into(), "I".into()),
				6 => RefVal::Member(SUB.into(), "f".into(), "I".into()),
				7 => RefVal::Member(SUBEXT.into(), "xf".into(), "I".into()),
				8 => RefVal::Member(M.into(), "zz".into(), "I".into()),
				9 => RefVal::Member(M.into(), "g".into(), "Lp/M;".into()),
				_ => return None,
			}
		},
		Slot::MethodRef { interface, array } => match kind {
			2 if array => RefVal::Member("[Lp/M;".into(), "clone".into(), "()Ljava/lang/Object;".into()),
			0..=4 => RefVal::Member(if kind == 2 { U.to_owned() } else { CLASS_OF_KIND[kind].to_owned() }, "zz".into(), format!("({}){}", d(kind), d(kind))),
			5 => RefVal::Member(if interface { ITF } else { M }.into(), if interface { "i" } else { "m" }.into(), "()V".into()),
			6 => RefVal::Member(if interface { SUBITF } else { SUB }.into(), if interface { "i" } else { "m" }.into(), "()V".into()),
			7 => RefVal::Member(SUBEXT.into(), if interface { "xi" } else { "x" }.into(), "()V".into()),
			8 => RefVal::Member(if interface { ITF } else { M }.into(), "zz".into(), "()V".into()),
			9 if !interface => RefVal::Member(M.into(), "n".into(), "(Lp/M;)Lp/V;".into()),
			_ => return None,
		},
		Slot::MethodDecl => match kind {
			0..=4 => RefVal::Member(HOST.into(), "zz".into(), format!("({}){}", d(kind), d(kind))),
			5 => RefVal::Member(M.into(), "m".into(), "()V".into()),
			6 => RefVal::Member(SUB.into(), "m".into(), "()V".into()),
			7 => RefVal::Member(SUBEXT.into(), "x".into(), "()V".into()),
			8 => RefVal::Member(M.into(), "zz".into(), "()V".into()),
			9 => RefVal::Member(M.into(), "n".into(), "(Lp/M;)Lp/V;".into()),
			_ => return None,
		},
		Slot::CtorRef => match kind {
			0 | 1 | 3 | 4 => RefVal::Member(CLASS_OF_KIND[kind].into(), "<init>".into(), format!("({})V", d(kind))),
			2 => RefVal::Member(U.into(), "<init>".into(), format!("({})V", d(kind))),
			_ => return None,
		},
		Slot::EnumConst => match kind {
			0 | 1 | 3 | 4 => RefVal::Member(String::new(), "ZZ".into(), d(kind)),
			5 => RefVal::Member(String::new(), "K".into(), "Lp/E;".into()),
			8 => RefVal::Member(String::new(), "ZZ".into(), "Lp/E;".into()),
			_ => return None,
		},
		_ => return None,
	})
}

fn host() -> SClass {
	skeleton(HOST)
}

fn with_insns(insns: Vec<SInsn>) -> SClass {
	let mut c = host();
	c.methods.push(method_with("run", "()V", insns));
	c
}

fn with_insn(i: SInsn) -> SClass {
	with_insns(vec![i, RETURN])
}

fn with_frame(f: SFrame) -> SClass {
	let mut c = with_insns(vec![SInsn::Simple(op::NOP), SInsn::Simple(op::NOP), RETURN]);
	if let Some(code) = &mut c.methods[0].code {
		code.frames = vec![(1, f)];
	}
	c
}

fn ann(type_desc: &str, value: Option<SElementValue>) -> SAnnotation {
	SAnnotation { type_name: js(type_desc), pairs: value.into_iter().map(|v| (js("v"), v)).collect() }
}

fn tann(target: STarget, a: SAnnotation) -> STypeAnnotation {
	STypeAnnotation { target, path: vec![], annotation: a }
}

fn bsm_handle() -> SHandle {
	SHandle { kind: 6, member: mref("java/lang/invoke/LambdaMetafactory", "metafactory", "(Ljava/lang/invoke/MethodHandles$Lookup;Ljava/lang/String;Ljava/lang/invoke/MethodType;)Ljava/lang/invoke/CallSite;"), interface: false }
}

fn indy(handle: SHandle, args: Vec<SConst>, desc: &str) -> SInsn {
	SInsn::InvokeDynamic(SDynamic { bootstrap: SBootstrap { handle, args }, name: js("run"), desc: js(desc) })
}

fn condy(handle: SHandle, args: Vec<SConst>, desc: &str) -> SConst {
	SConst::Dynamic(Box::new(SDynamic { bootstrap: SBootstrap { handle, args }, name: js("k"), desc: js(desc) }))
}

fn handle_of(kind: u8, r: &RefVal, interface: bool) -> SHandle {
	SHandle { kind, member: r.member(), interface }
}

fn module_host() -> SClass {
	let mut c = SClass { version: (61, 0), access: 0x8000, this_class: js("module-info"), super_class: None, ..Default::default() };
	c.module = Some(SModule { name: js("m.main"), flags: 0, version: None, requires: vec![(js("java.base"), 0x8000, None)], ..Default::default() });
	c
}

fn enum_value(r: &RefVal) -> SElementValue {
	match r {
		RefVal::Member(_, name, desc) => SElementValue::Enum { type_name: js(desc), const_name: js(name) },
		other => crate::fail(&format!("matrix: expected an enum constant, got {other:?}")),
	}
}

fn class_ann_with(v: SElementValue) -> SClass {
	let mut c = host();
	c.annotations.visible = vec![ann("Lp/Ann;", Some(v))];
	c
}

fn default_with(v: SElementValue) -> SClass {
	let mut c = host();
	c.access = 0x2601;
	c.interfaces = vec![js("java/lang/annotation/Annotation")];
	c.methods.push(SMethod { access: 0x0401, name: js("d"), desc: js("()Ljava/lang/Object;"), annotation_default: Some(v), ..Default::default() });
	c
}

fn host_field() -> SClass {
	let mut c = host();
	c.fields.push(SField { access: 0x0002, name: js("hf"), desc: js("I"), ..Default::default() });
	c
}

fn host_method() -> SClass {
	with_insns(vec![SInsn::New(js("java/lang/Object")), SInsn::Simple(0x57), RETURN])
}

pub fn positions() -> Vec<Position> {
	let mut v: Vec<Position> = Vec::new();
	let mut add = |name: &'static str, slot: Slot, build: Box<dyn Fn(&RefVal) -> SClass + Send + Sync>| v.push(Position { name, slot, build });

	// --- class level
	add("class.this", Slot::This, Box::new(|r| skeleton(&r.class().to_string_lossy())));
	add("class.super", Slot::ObjClass, Box::new(|r| { let mut c = host(); c.super_class = Some(r.class()); c }));
	add("class.interfaces", Slot::ObjClass, Box::new(|r| { let mut c = host(); c.interfaces = vec![js("java/lang/Runnable"), r.class()]; c }));
	add("class.inner_classes.inner", Slot::ObjClass, Box::new(|r| { let mut c = host(); c.inner_classes = Some(vec![SInnerClass { inner: r.class(), outer: None, name: None, flags: 0x0008 }]); c }));
	add("class.inner_classes.outer", Slot::ObjClass, Box::new(|r| { let mut c = host(); c.inner_classes = Some(vec![SInnerClass { inner: js("p/Host$Q"), outer: Some(r.class()), name: Some(js("Q")), flags: 0x0001 }]); c }));
	add("class.inner_classes.member-triple", Slot::InnerTriple, Box::new(|r| { let mut c = host(); c.inner_classes = Some(vec![SInnerClass { inner: r.class(), outer: Some(js(M)), name: Some(js("In")), flags: 0x0009 }]); c }));
	add("class.enclosing_method.class-only", Slot::ObjClass, Box::new(|r| { let mut c = host(); c.enclosing_method = Some((r.class(), None)); c }));
	add("class.enclosing_method", Slot::MethodRef { interface: false, array: false }, Box::new(|r| { let m = r.member(); let mut c = host(); c.enclosing_method = Some((m.owner, Some((m.name, m.desc)))); c }));
	add("class.nest_host", Slot::ObjClass, Box::new(|r| { let mut c = host(); c.nest_host = Some(r.class()); c }));
	add("class.nest_members", Slot::ObjClass, Box::new(|r| { let mut c = host(); c.nest_members = Some(vec![js("p/Host$1"), r.class()]); c }));
	add("class.permitted_subclasses", Slot::ObjClass, Box::new(|r| { let mut c = host(); c.permitted_subclasses = Some(vec![r.class()]); c }));
	add("class.record.component", Slot::RecordComponent, Box::new(|r| {
		let m = r.member();
		let mut c = skeleton(&m.owner.to_string_lossy());
		c.record = Some(vec![SRecordComponent { name: m.name.clone(), desc: m.desc.clone(), ..Default::default() }]);
		c.fields.push(SField { access: 0x0012, name: m.name, desc: m.desc, ..Default::default() });
		c
	}));
	add("class.record.component.annotation", Slot::FieldDesc, Box::new(|r| {
		let mut c = host();
		c.record = Some(vec![SRecordComponent { name: js("rc"), desc: js("I"), annotations: SAnnotations { visible: vec![ann(&r.desc().to_string_lossy(), None)], ..Default::default() }, ..Default::default() }]);
		c
	}));
	add("class.module.uses", Slot::ObjClass, Box::new(|r| { let mut c = module_host(); if let Some(m) = &mut c.module { m.uses = vec![r.class()]; } c }));
	add("class.module.provides.service", Slot::ObjClass, Box::new(|r| { let mut c = module_host(); if let Some(m) = &mut c.module { m.provides = vec![(r.class(), vec![js("p/Impl")])]; } c }));
	add("class.module.provides.implementation", Slot::ObjClass, Box::new(|r| { let mut c = module_host(); if let Some(m) = &mut c.module { m.provides = vec![(js("p/Svc"), vec![r.class()])]; } c }));
	add("class.module_main_class", Slot::ObjClass, Box::new(|r| { let mut c = module_host(); c.module_main_class = Some(r.class()); c }));

	// --- annotation types per container
	macro_rules! ann_pos {
		($name:expr, $c:ident, $r:ident, $body:block) => {
			add($name, Slot::FieldDesc, Box::new(|$r| { let mut $c = host_field(); $c.methods = host_method().methods; $body; $c }));
		};
	}
	ann_pos!("class.visible_annotations.type", c, r, { c.annotations.visible = vec![ann(&r.desc().to_string_lossy(), None)] });
	ann_pos!("class.invisible_annotations.type", c, r, { c.annotations.invisible = vec![ann(&r.desc().to_string_lossy(), None)] });
	ann_pos!("class.visible_type_annotations.type", c, r, { c.annotations.visible_type = vec![tann(STarget::Supertype(65535), ann(&r.desc().to_string_lossy(), None))] });
	ann_pos!("class.invisible_type_annotations.type", c, r, { c.annotations.invisible_type = vec![tann(STarget::TypeParameter { target_type: 0, index: 0 }, ann(&r.desc().to_string_lossy(), None))] });
	ann_pos!("field.visible_annotations.type", c, r, { c.fields[0].annotations.visible = vec![ann(&r.desc().to_string_lossy(), None)] });
	ann_pos!("field.invisible_annotations.type", c, r, { c.fields[0].annotations.invisible = vec![ann(&r.desc().to_string_lossy(), None)] });
	ann_pos!("field.visible_type_annotations.type", c, r, { c.fields[0].annotations.visible_type = vec![tann(STarget::Empty(0x13), ann(&r.desc().to_string_lossy(), None))] });
	ann_pos!("field.invisible_type_annotations.type", c, r, { c.fields[0].annotations.invisible_type = vec![tann(STarget::Empty(0x13), ann(&r.desc().to_string_lossy(), None))] });
	ann_pos!("method.visible_annotations.type", c, r, { c.methods[0].annotations.visible = vec![ann(&r.desc().to_string_lossy(), None)] });
	ann_pos!("method.invisible_annotations.type", c, r, { c.methods[0].annotations.invisible = vec![ann(&r.desc().to_string_lossy(), None)] });
	ann_pos!("method.visible_type_annotations.type", c, r, { c.methods[0].annotations.visible_type = vec![tann(STarget::Empty(0x14), ann(&r.desc().to_string_lossy(), None))] });
	ann_pos!("method.invisible_type_annotations.type", c, r, { c.methods[0].annotations.invisible_type = vec![tann(STarget::Throws(0), ann(&r.desc().to_string_lossy(), None))] });
	ann_pos!("method.code.visible_type_annotations.type", c, r, { if let Some(code) = &mut c.methods[0].code { code.visible_type = vec![tann(STarget::Offset { target_type: 0x44, at: 0 }, ann(&r.desc().to_string_lossy(), None))] } });
	ann_pos!("method.code.invisible_type_annotations.type", c, r, { if let Some(code) = &mut c.methods[0].code { code.invisible_type = vec![tann(STarget::Catch(0), ann(&r.desc().to_string_lossy(), None))] } });
	ann_pos!("method.parameter.visible_parameter_annotations.type", c, r, {
		c.methods.push(method_with("withp", "(I)V", vec![RETURN]));
		c.methods[1].visible_param_annotations = Some(vec![vec![ann(&r.desc().to_string_lossy(), None)]]);
	});
	ann_pos!("method.parameter.invisible_parameter_annotations.type", c, r, {
		c.methods.push(method_with("withp", "(I)V", vec![RETURN]));
		c.methods[1].invisible_param_annotations = Some(vec![vec![ann(&r.desc().to_string_lossy(), None)]]);
	});

	// --- annotation values
	add("annotation.value.enum", Slot::EnumConst, Box::new(|r| class_ann_with(enum_value(r))));
	add("annotation.value.enum-in-array", Slot::EnumConst, Box::new(|r| class_ann_with(SElementValue::Array(vec![SElementValue::Const(b'I', SConst::Int(1)), enum_value(r)]))));
	add("annotation.value.enum-in-nested-annotation", Slot::EnumConst, Box::new(|r| class_ann_with(SElementValue::Annotation(ann("Lp/Other;", Some(enum_value(r)))))));
	// an enum constant of an array type does not exist; the type descriptor is a descriptor like all others and the name stays
	add("annotation.value.enum-of-any-type", Slot::FieldDesc, Box::new(|r| class_ann_with(SElementValue::Enum { type_name: r.desc(), const_name: js("ZZ") })));
	add("annotation.value.class", Slot::FieldDesc, Box::new(|r| class_ann_with(SElementValue::Class(r.desc()))));
	add("annotation.value.class-in-array", Slot::FieldDesc, Box::new(|r| class_ann_with(SElementValue::Array(vec![SElementValue::Class(js("V")), SElementValue::Class(r.desc())]))));
	add("annotation.value.annotation.type", Slot::FieldDesc, Box::new(|r| class_ann_with(SElementValue::Annotation(ann(&r.desc().to_string_lossy(), None)))));
	add("annotation.value.annotation.type-in-array", Slot::FieldDesc, Box::new(|r| class_ann_with(SElementValue::Array(vec![SElementValue::Annotation(ann(&r.desc().to_string_lossy(), None))]))));
	add("method.annotation_default.enum", Slot::EnumConst, Box::new(|r| default_with(enum_value(r))));
	add("method.annotation_default.class", Slot::FieldDesc, Box::new(|r| default_with(SElementValue::Class(r.desc()))));
	add("method.annotation_default.annotation.type", Slot::FieldDesc, Box::new(|r| default_with(SElementValue::Annotation(ann(&r.desc().to_string_lossy(), None)))));

	// --- members
	add("field.declaration", Slot::FieldDecl, Box::new(|r| { let m = r.member(); let mut c = skeleton(&m.owner.to_string_lossy()); c.fields.push(SField { access: 0x0001, name: m.name, desc: m.desc, ..Default::default() }); c }));
	add("method.declaration", Slot::MethodDecl, Box::new(|r| { let m = r.member(); let mut c = skeleton(&m.owner.to_string_lossy()); c.methods.push(SMethod { access: 0x0401, name: m.name, desc: m.desc, ..Default::default() }); c.access = 0x0421; c }));
	add("method.exceptions", Slot::ObjClass, Box::new(|r| { let mut c = host_method(); c.methods[0].exceptions = Some(vec![js("java/io/IOException"), r.class()]); c }));

	// --- code
	for (name, o) in [("insn.getstatic", op::GETSTATIC), ("insn.putstatic", op::PUTSTATIC), ("insn.getfield", op::GETFIELD), ("insn.putfield", op::PUTFIELD)] {
		add(name, Slot::FieldRef, Box::new(move |r| with_insn(SInsn::Field(o, r.member()))));
	}
	add("insn.invokevirtual", Slot::MethodRef { interface: false, array: true }, Box::new(|r| with_insn(SInsn::Invoke(op::INVOKEVIRTUAL, r.member(), false))));
	add("insn.invokespecial", Slot::MethodRef { interface: false, array: false }, Box::new(|r| with_insn(SInsn::Invoke(op::INVOKESPECIAL, r.member(), false))));
	add("insn.invokespecial-constructor", Slot::CtorRef, Box::new(|r| with_insn(SInsn::Invoke(op::INVOKESPECIAL, r.member(), false))));
	add("insn.invokespecial-on-interface", Slot::MethodRef { interface: true, array: false }, Box::new(|r| with_insn(SInsn::Invoke(op::INVOKESPECIAL, r.member(), true))));
	add("insn.invokestatic", Slot::MethodRef { interface: false, array: false }, Box::new(|r| with_insn(SInsn::Invoke(op::INVOKESTATIC, r.member(), false))));
	add("insn.invokestatic-on-interface", Slot::MethodRef { interface: true, array: false }, Box::new(|r| with_insn(SInsn::Invoke(op::INVOKESTATIC, r.member(), true))));
	add("insn.invokeinterface", Slot::MethodRef { interface: true, array: false }, Box::new(|r| with_insn(SInsn::Invoke(op::INVOKEINTERFACE, r.member(), true))));
	add("insn.new", Slot::ObjClass, Box::new(|r| with_insn(SInsn::New(r.class()))));
	add("insn.anewarray", Slot::AnyClass, Box::new(|r| with_insn(SInsn::ANewArray(r.class()))));
	add("insn.checkcast", Slot::AnyClass, Box::new(|r| with_insn(SInsn::CheckCast(r.class()))));
	add("insn.instanceof", Slot::AnyClass, Box::new(|r| with_insn(SInsn::InstanceOf(r.class()))));
	add("insn.multianewarray", Slot::ArrayClass, Box::new(|r| with_insn(SInsn::MultiANewArray(r.class(), 2))));
	add("constant.class", Slot::AnyClass, Box::new(|r| with_insn(SInsn::Ldc(SConst::Class(r.class())))));
	add("constant.methodtype", Slot::MethodDesc, Box::new(|r| with_insn(SInsn::Ldc(SConst::MethodType(r.desc())))));
	for k in 1..=4u8 {
		let name = ["constant.handle.getfield", "constant.handle.getstatic", "constant.handle.putfield", "constant.handle.putstatic"][k as usize - 1];
		add(name, Slot::FieldRef, Box::new(move |r| with_insn(SInsn::Ldc(SConst::Handle(handle_of(k, r, false))))));
	}
	add("constant.handle.invokevirtual", Slot::MethodRef { interface: false, array: false }, Box::new(|r| with_insn(SInsn::Ldc(SConst::Handle(handle_of(5, r, false))))));
	add("constant.handle.invokestatic", Slot::MethodRef { interface: false, array: false }, Box::new(|r| with_insn(SInsn::Ldc(SConst::Handle(handle_of(6, r, false))))));
	add("constant.handle.invokestatic-on-interface", Slot::MethodRef { interface: true, array: false }, Box::new(|r| with_insn(SInsn::Ldc(SConst::Handle(handle_of(6, r, true))))));
	add("constant.handle.invokespecial", Slot::MethodRef { interface: false, array: false }, Box::new(|r| with_insn(SInsn::Ldc(SConst::Handle(handle_of(7, r, false))))));
	add("constant.handle.invokespecial-on-interface", Slot::MethodRef { interface: true, array: false }, Box::new(|r| with_insn(SInsn::Ldc(SConst::Handle(handle_of(7, r, true))))));
	add("constant.handle.newinvokespecial", Slot::CtorRef, Box::new(|r| with_insn(SInsn::Ldc(SConst::Handle(handle_of(8, r, false))))));
	add("constant.handle.invokeinterface", Slot::MethodRef { interface: true, array: false }, Box::new(|r| with_insn(SInsn::Ldc(SConst::Handle(handle_of(9, r, true))))));
	add("constant.dynamic.descriptor", Slot::FieldDesc, Box::new(|r| with_insn(SInsn::Ldc(condy(bsm_handle(), vec![], &r.desc().to_string_lossy())))));
	add("constant.dynamic.bootstrap.handle", Slot::MethodRef { interface: false, array: false }, Box::new(|r| with_insn(SInsn::Ldc(condy(handle_of(6, r, false), vec![], "I")))));
	add("constant.dynamic.bootstrap.argument.class", Slot::AnyClass, Box::new(|r| with_insn(SInsn::Ldc(condy(bsm_handle(), vec![SConst::Int(1), SConst::Class(r.class())], "I")))));
	add("constant.dynamic.bootstrap.argument.dynamic.descriptor", Slot::FieldDesc, Box::new(|r| with_insn(SInsn::Ldc(condy(bsm_handle(), vec![condy(bsm_handle(), vec![], &r.desc().to_string_lossy())], "I")))));
	add("insn.invokedynamic.descriptor", Slot::MethodDesc, Box::new(|r| with_insn(indy(bsm_handle(), vec![], &r.desc().to_string_lossy()))));
	add("insn.invokedynamic.bootstrap.handle", Slot::MethodRef { interface: false, array: false }, Box::new(|r| with_insn(indy(handle_of(6, r, false), vec![], "()V"))));
	add("insn.invokedynamic.bootstrap.argument.class", Slot::AnyClass, Box::new(|r| with_insn(indy(bsm_handle(), vec![SConst::Str(js("s")), SConst::Class(r.class())], "()V"))));
	add("insn.invokedynamic.bootstrap.argument.methodtype", Slot::MethodDesc, Box::new(|r| with_insn(indy(bsm_handle(), vec![SConst::MethodType(r.desc())], "()V"))));
	add("insn.invokedynamic.bootstrap.argument.handle.method", Slot::MethodRef { interface: false, array: false }, Box::new(|r| with_insn(indy(bsm_handle(), vec![SConst::Handle(handle_of(5, r, false))], "()V"))));
	add("insn.invokedynamic.bootstrap.argument.handle.field", Slot::FieldRef, Box::new(|r| with_insn(indy(bsm_handle(), vec![SConst::Handle(handle_of(1, r, false))], "()V"))));
	add("insn.invokedynamic.bootstrap.argument.dynamic.descriptor", Slot::FieldDesc, Box::new(|r| with_insn(indy(bsm_handle(), vec![condy(bsm_handle(), vec![], &r.desc().to_string_lossy())], "()V"))));
	add("insn.invokedynamic.bootstrap.argument.dynamic.argument.class", Slot::AnyClass, Box::new(|r| with_insn(indy(bsm_handle(), vec![condy(bsm_handle(), vec![SConst::Class(r.class())], "I")], "()V"))));
	add("method.code.exception_table.catch", Slot::ObjClass, Box::new(|r| {
		let mut c = with_insns(vec![SInsn::Simple(op::NOP), SInsn::Simple(op::ATHROW), RETURN]);
		if let Some(code) = &mut c.methods[0].code {
			code.exceptions = vec![SExceptionEntry { start: 0, end: 1, handler: 1, catch: None }, SExceptionEntry { start: 0, end: 2, handler: 1, catch: Some(r.class()) }];
		}
		c
	}));
	add("method.code.frames.same_locals_1_stack_item", Slot::AnyClass, Box::new(|r| with_frame(SFrame::SameLocals1(SVType::Object(r.class())))));
	add("method.code.frames.append", Slot::AnyClass, Box::new(|r| with_frame(SFrame::Append(vec![SVType::Integer, SVType::Object(r.class())]))));
	add("method.code.frames.full.locals", Slot::AnyClass, Box::new(|r| with_frame(SFrame::Full { locals: vec![SVType::Object(r.class()), SVType::Top], stack: vec![] })));
	add("method.code.frames.full.stack", Slot::AnyClass, Box::new(|r| with_frame(SFrame::Full { locals: vec![], stack: vec![SVType::Null, SVType::Object(r.class())] })));
	add("method.code.local_variables.descriptor", Slot::FieldDesc, Box::new(|r| {
		let mut c = with_insns(vec![SInsn::Simple(op::NOP), RETURN]);
		if let Some(code) = &mut c.methods[0].code {
			code.local_vars = vec![SLocalVar { start: 0, end: 2, name: js("x"), ty: r.desc(), index: 1 }];
		}
		c
	}));
	add("method.code.local_variables.descriptor-with-signature", Slot::FieldDesc, Box::new(|r| {
		let mut c = with_insns(vec![SInsn::Simple(op::NOP), RETURN]);
		if let Some(code) = &mut c.methods[0].code {
			code.local_vars = vec![SLocalVar { start: 0, end: 2, name: js("x"), ty: r.desc(), index: 1 }];
			code.local_var_types = vec![SLocalVar { start: 0, end: 2, name: js("x"), ty: js("Ljava/util/List<Lp/M;>;"), index: 1 }];
		}
		c
	}));
	drop(add);
	v
}

pub struct Cell {
	pub position: &'static str,
	pub kind: usize,
	/// classes of the jar; `host` indexes the one-position class
	pub classes: Vec<SClass>,
	pub host: usize,
}

/// every applicable (position, kind) cell
pub fn cells() -> Vec<Cell> {
	let support = support_classes();
	let mut out = Vec::new();
	for pos in positions() {
		for kind in 0..KINDS.len() {
			let Some(r) = refval(pos.slot, kind) else { continue };
			let mut h = (pos.build)(&r);
			let mut classes: Vec<SClass> = Vec::new();
			for s in &support {
				if s.this_class == h.this_class {
					// the host takes the place (and the super types) of the support class of the same name
					h.super_class = s.super_class.clone();
					if h.interfaces.is_empty() {
						h.interfaces = s.interfaces.clone();
					}
				} else {
					classes.push(s.clone());
				}
			}
			cfmodel::gen::normalize(&mut h);
			let at = classes.len() / 2;
			classes.insert(at, h);
			out.push(Cell { position: pos.name, kind, classes, host: at });
		}
	}
	out
}

fn member_names(s: &mut Spec, f: &dyn Fn(&str) -> String) {
	for (o, n, d) in [(M, "f", "I"), (M, "g", "Lp/M;"), (E, "K", "Lp/E;"), (EXT, "xf", "I")] {
		s.field(o, n, d, &f(n));
	}
	for (o, n, d) in [(M, "m", "()V"), (M, "n", "(Lp/M;)Lp/V;"), (ITF, "i", "()V"), (ANN, "v", "()Lp/E;"), (EXT, "x", "()V"), (EXTITF, "xi", "()V")] {
		s.method(o, n, d, &f(n));
	}
}

/// the remappers of the matrix universe (`p/U` and members called `zz`/`ZZ` are never mapped)
pub fn specs() -> Vec<Spec> {
	let mut out = Vec::new();
	out.push(Spec::new("identity-table", Engine::Table { inherit: true }));
	out.push(Spec::new("identity-quill", Engine::QuillJarProvider));

	let total = |name: &str, engine: Engine, cls: &dyn Fn(&str) -> String, mem: &dyn Fn(&str) -> String| {
		let mut s = Spec::new(name, engine);
		for c in [HOST, M, SUB, SUBEXT, V, ITF, SUBITF, E, ANN, EXT, EXTITF] {
			s.class(c, &cls(c));
		}
		let m2 = cls(M);
		s.class(IN, &format!("{m2}$In{}", mem("")));
		member_names(&mut s, mem);
		s
	};
	// same length: the last character of the simple name is replaced
	let bump = |s: &str| { let mut s = s.to_owned(); if let Some(c) = s.pop() { s.push((c as u8 + 1) as char); } s };
	let same_len = |c: &str| bump(c);
	let same_len_m = |n: &str| bump(n);
	out.push(total("total-same-length", Engine::QuillJarProvider, &same_len, &same_len_m));
	let grow = |c: &str| format!("{c}_{}", "grown".repeat(12));
	let grow_m = |n: &str| format!("{n}_{}", "longer".repeat(8));
	out.push(total("total-growing", Engine::QuillJarProvider, &grow, &grow_m));
	let shrink = |c: &str| {
		let i = [HOST, M, SUB, SUBEXT, V, ITF, SUBITF, E, ANN, EXT, EXTITF].iter().position(|x| *x == c).unwrap_or(25);
		((b'a' + i as u8) as char).to_string()
	};
	let shrink_m = |n: &str| n.chars().next().map(|c| c.to_ascii_uppercase().to_string()).unwrap_or_default();
	out.push(total("total-shrinking", Engine::QuillJarProvider, &shrink, &shrink_m));
	out.push(total("total-no-provider", Engine::QuillNoProvider, &same_len, &same_len_m));
	out.push(total("total-table", Engine::Table { inherit: true }, &grow, &same_len_m));
	out.push(total("total-table-no-inheritance", Engine::Table { inherit: false }, &same_len, &grow_m));

	let mut s = total("classes-only", Engine::QuillJarProvider, &same_len, &same_len_m);
	s.fields.clear();
	s.methods.clear();
	out.push(s);

	let mut s = Spec::new("members-only", Engine::QuillJarProvider);
	member_names(&mut s, &grow_m);
	out.push(s);

	let mut s = Spec::new("package-move", Engine::QuillJarProvider);
	s.class(M, "q/r/M").class(V, "other/pkg/V").class(IN, "q/r/M$In").class(HOST, "q/Host").class(E, "E").class(ANN, "a/b/c/d/Ann");
	out.push(s);

	let mut s = Spec::new("inner-only", Engine::QuillJarProvider);
	s.class(IN, "p/M$Renamed");
	out.push(s);

	let mut s = Spec::new("inner-moved", Engine::QuillJarProvider);
	s.class(M, "p/N").class(IN, "z/Other$Q");
	out.push(s);

	// a chain: the answer for an already renamed name differs from the answer for the original one
	let mut s = Spec::new("chain-table", Engine::Table { inherit: true });
	s.class(M, "p/V").class(V, "p/W").class(IN, "p/V$In").class(HOST, "p/Host2").class("p/Host2", "p/Host3").class(ITF, "p/SubItf").class(SUBITF, "p/SubItf2");
	s.field(M, "f", "I", "a1").field("p/V", "f", "I", "a2").field(M, "g", "Lp/M;", "g1").field(M, "g", "Lp/V;", "g2").field(E, "K", "Lp/E;", "K1");
	s.method(M, "m", "()V", "b1").method("p/V", "m", "()V", "b2").method(M, "n", "(Lp/M;)Lp/V;", "n1").method(M, "n", "(Lp/V;)Lp/W;", "n2").method(ITF, "i", "()V", "i1").method(SUBITF, "i", "()V", "i2");
	s.method(EXT, "x", "()V", "x1").method(EXTITF, "xi", "()V", "xi1").field(EXT, "xf", "I", "xf1");
	out.push(s);

	let mut s = Spec::new("swap-quill", Engine::QuillJarProvider);
	s.class(M, V).class(V, M).class(IN, "p/V$In");
	s.field(M, "f", "I", "f1").field(V, "f", "I", "f2").method(M, "m", "()V", "m1").method(V, "m", "()V", "m2");
	out.push(s);

	// names of the JDK are names like all others
	let mut s = Spec::new("jdk-names-table", Engine::Table { inherit: true });
	s.class("java/lang/Object", "j/l/Obj").class("java/lang/Enum", "j/l/En").class("java/lang/annotation/Annotation", "j/l/a/Ann").class(M, "p/N").class(IN, "p/N$In");
	s.method("java/lang/Object", "clone", "()Ljava/lang/Object;", "copy").method("java/lang/Object", "<init>", "()V", "<init>");
	out.push(s);

	// entries that say "stays as it is": a class mapped to its own name, members mapped to their own names while the
	// classes in their descriptors are renamed
	for (name, engine) in [("identity-entries", Engine::QuillJarProvider), ("identity-entries-table", Engine::Table { inherit: true })] {
		let mut s = Spec::new(name, engine);
		s.class(M, M).class(IN, IN).class(HOST, HOST).class(E, E).class(V, "p/W").class(ITF, "p/Jtf").class(EXT, EXT);
		s.field(M, "f", "I", "f").field(M, "g", "Lp/M;", "g").field(E, "K", "Lp/E;", "K").field(EXT, "xf", "I", "xf2");
		s.method(M, "m", "()V", "m").method(M, "n", "(Lp/M;)Lp/V;", "n").method(ITF, "i", "()V", "i").method(EXT, "x", "()V", "x");
		out.push(s);
	}

	let mut s = Spec::new("unicode", Engine::QuillJarProvider);
	s.class(M, "p/Ünï").class(IN, "p/Ünï$Ñ").class(V, "π/V");
	s.field(M, "f", "I", "é").method(M, "m", "()V", "ß");
	out.push(s);
	out
}
