//! Reference-carrying positions of a class description: one walker, used three ways.
//!
//! * `rename(class, remapper)` — the reference renaming: the input's `SClass` with the remapper asked at
//!   every position that carries a class, field or method reference (JVMS ch. 4: CONSTANT_Class names,
//!   field/method/return descriptors, Fieldref/Methodref triples with their owner, declarations with the
//!   declaring class as owner, ...). Written from the property statement and the JVMS, it shares no code
//!   with dukebox.
//! * `collect(class)` — every position as `(id, key, value)`; `id` is the path with indices (unique in
//!   the class), `key` the path without indices (the stable name of the position).
//! * `compare(expected, actual, original)` — position-by-position differences with narrow keys
//!   (`insn.invokedynamic.descriptor:not-remapped`), then everything else (`cfmodel::sdiff`) on a copy of
//!   `actual` in which the already reported positions are set right, so that each fact is reported once.

use std::collections::BTreeMap;
use cfmodel::model::*;
use duke::tree::class::{ClassNameSlice, ObjClassNameSlice};
use duke::tree::descriptor::ReturnDescriptorSlice;
use duke::tree::field::{FieldDescriptorSlice, FieldNameSlice};
use duke::tree::method::{MethodDescriptorSlice, MethodNameSlice};
use java_string::{JavaCodePoint, JavaStr, JavaString};
use quill::remapper::BRemapper;

// ---------------------------------------------------------------------------------------------
// strings

pub fn to_java(s: &JS) -> JavaString {
	let mut out = JavaString::with_capacity(s.0.len());
	let mut i = 0;
	while i < s.0.len() {
		let u = s.0[i] as u32;
		let cp = if (0xD800..0xDC00).contains(&u) && i + 1 < s.0.len() && (0xDC00..0xE000).contains(&(s.0[i + 1] as u32)) {
			i += 1;
			0x10000 + ((u - 0xD800) << 10) + (s.0[i] as u32 - 0xDC00)
		} else {
			u
		};
		i += 1;
		match JavaCodePoint::from_u32(cp) {
			Some(c) => out.push_java(c),
			None => crate::fail("to_java: impossible code point"),
		}
	}
	out
}

pub fn from_java(s: &JavaStr) -> JS {
	cfmodel::duke_proj::js(s)
}

pub fn show(s: &JS) -> String {
	s.to_string_lossy()
}

// ---------------------------------------------------------------------------------------------
// the walker

/// Position of a site: `key` has no indices, `id` has.
pub struct P {
	pub key: String,
	pub id: String,
}

#[derive(Clone, Copy)]
pub struct Saved(usize, usize);

impl P {
	fn new() -> P {
		P { key: String::new(), id: String::new() }
	}
	fn push(&mut self, seg: &str) -> Saved {
		let s = Saved(self.key.len(), self.id.len());
		if !self.key.is_empty() {
			self.key.push('.');
		}
		self.key.push_str(seg);
		self.id.push('/');
		self.id.push_str(seg);
		s
	}
	fn push_i(&mut self, seg: &str, i: usize) -> Saved {
		let s = self.push(seg);
		self.id.push_str(&format!("[{i}]"));
		s
	}
	/// constants and annotation values have container-independent keys: the key restarts, the id goes on
	fn rekey(&mut self, key: &str, id_seg: &str) -> (Saved, String) {
		let old = std::mem::replace(&mut self.key, key.to_owned());
		let s = Saved(0, self.id.len());
		self.id.push('/');
		self.id.push_str(id_seg);
		(s, old)
	}
	fn unkey(&mut self, saved: (Saved, String)) {
		self.id.truncate(saved.0 .1);
		self.key = saved.1;
	}
	fn pop(&mut self, s: Saved) {
		self.key.truncate(s.0);
		self.id.truncate(s.1);
	}
}

pub enum Site<'a> {
	/// the name in a CONSTANT_Class (object class, or array class written as a descriptor)
	Class(&'a mut JS),
	FieldDesc(&'a mut JS),
	MethodDesc(&'a mut JS),
	/// a field descriptor or `V` (class literal in an annotation)
	ReturnDesc(&'a mut JS),
	FieldRef(&'a mut SMemberRef),
	MethodRef(&'a mut SMemberRef),
	/// declarations: the owner is the class itself
	FieldDecl { name: &'a mut JS, desc: &'a mut JS },
	MethodDecl { name: &'a mut JS, desc: &'a mut JS },
	/// a record component is the field of the same name and descriptor of the class itself
	RecordComponent { name: &'a mut JS, desc: &'a mut JS },
	EnclosingMethod { class: &'a mut JS, method: Option<&'a mut (JS, JS)> },
	/// enum constant in an annotation: the field `name` with descriptor `ty` of the class named in `ty`
	EnumConst { ty: &'a mut JS, name: &'a mut JS },
	InnerClass(&'a mut SInnerClass),
	/// a string that is not a class/field/method reference the remapper can be asked about (Signature
	/// attributes, names of locals and parameters, invokedynamic/condy names, annotation element names,
	/// SourceFile): never judged, changes are only counted
	Free(&'a mut JS),
}

type F<'f> = &'f mut dyn FnMut(&P, Site<'_>);

const OPS: [(u8, &str); 8] = [
	(op::GETSTATIC, "getstatic"), (op::PUTSTATIC, "putstatic"), (op::GETFIELD, "getfield"), (op::PUTFIELD, "putfield"),
	(op::INVOKEVIRTUAL, "invokevirtual"), (op::INVOKESPECIAL, "invokespecial"), (op::INVOKESTATIC, "invokestatic"), (op::INVOKEINTERFACE, "invokeinterface"),
];

fn op_name(o: u8) -> &'static str {
	OPS.iter().find(|(c, _)| *c == o).map(|(_, n)| *n).unwrap_or("op")
}

fn at(p: &mut P, seg: &str, f: F, site: Site<'_>) {
	let s = p.push(seg);
	f(p, site);
	p.pop(s);
}

fn handle(p: &mut P, h: &mut SHandle, f: F) {
	let s = p.push(if is_array(&h.member.owner) { "handle-on-array-class" } else { "handle" });
	if (1..=4).contains(&h.kind) {
		f(p, Site::FieldRef(&mut h.member));
	} else {
		f(p, Site::MethodRef(&mut h.member));
	}
	p.pop(s);
}

fn bootstrap(p: &mut P, b: &mut SBootstrap, f: F) {
	let s = p.push("bootstrap");
	handle(p, &mut b.handle, f);
	for (i, a) in b.args.iter_mut().enumerate() {
		let k = p.rekey("constant", &format!("arg[{i}]"));
		constant(p, a, f);
		p.unkey(k);
	}
	p.pop(s);
}

/// a loadable constant; the caller has set the key to `constant`
fn constant(p: &mut P, c: &mut SConst, f: F) {
	match c {
		SConst::Class(n) => at(p, "class", f, Site::Class(n)),
		SConst::MethodType(d) => at(p, "methodtype", f, Site::MethodDesc(d)),
		SConst::Handle(h) => handle(p, h, f),
		SConst::Dynamic(d) => {
			let s = p.push("dynamic");
			at(p, "name", f, Site::Free(&mut d.name));
			at(p, "descriptor", f, Site::FieldDesc(&mut d.desc));
			bootstrap(p, &mut d.bootstrap, f);
			p.pop(s);
		},
		SConst::Int(_) | SConst::Float(_) | SConst::Long(_) | SConst::Double(_) | SConst::Str(_) => {},
	}
}

/// an element value; the caller has set the key to `annotation.value`
fn element_value(p: &mut P, v: &mut SElementValue, f: F) {
	match v {
		SElementValue::Const(..) | SElementValue::Str(_) => {},
		SElementValue::Enum { type_name, const_name } => at(p, "enum", f, Site::EnumConst { ty: type_name, name: const_name }),
		SElementValue::Class(d) => at(p, "class", f, Site::ReturnDesc(d)),
		SElementValue::Annotation(a) => {
			let s = p.push("annotation");
			annotation(p, a, f);
			p.pop(s);
		},
		SElementValue::Array(items) => {
			for (i, it) in items.iter_mut().enumerate() {
				let s = Saved(p.key.len(), p.id.len());
				p.id.push_str(&format!("[{i}]"));
				element_value(p, it, f);
				p.pop(s);
			}
		},
	}
}

/// an annotation at the current position: `.type` is keyed by the container, the values are not
fn annotation(p: &mut P, a: &mut SAnnotation, f: F) {
	at(p, "type", f, Site::FieldDesc(&mut a.type_name));
	for (i, (name, value)) in a.pairs.iter_mut().enumerate() {
		let k = p.rekey("annotation", &format!("pair[{i}]"));
		at(p, "element_name", f, Site::Free(name));
		let s = p.push("value");
		element_value(p, value, f);
		p.pop(s);
		p.unkey(k);
	}
}

fn annotation_list(p: &mut P, seg: &str, list: &mut [SAnnotation], f: F) {
	for (i, a) in list.iter_mut().enumerate() {
		let s = p.push_i(seg, i);
		annotation(p, a, f);
		p.pop(s);
	}
}

fn type_annotation_list(p: &mut P, seg: &str, list: &mut [STypeAnnotation], f: F) {
	for (i, a) in list.iter_mut().enumerate() {
		let s = p.push_i(seg, i);
		annotation(p, &mut a.annotation, f);
		p.pop(s);
	}
}

fn annotations(p: &mut P, a: &mut SAnnotations, f: F) {
	annotation_list(p, "visible_annotations", &mut a.visible, f);
	annotation_list(p, "invisible_annotations", &mut a.invisible, f);
	type_annotation_list(p, "visible_type_annotations", &mut a.visible_type, f);
	type_annotation_list(p, "invisible_type_annotations", &mut a.invisible_type, f);
}

fn class_list(p: &mut P, seg: &str, list: &mut [JS], f: F) {
	for (i, c) in list.iter_mut().enumerate() {
		let s = p.push_i(seg, i);
		f(p, Site::Class(c));
		p.pop(s);
	}
}

fn vtypes(p: &mut P, seg: &str, list: &mut [SVType], f: F) {
	for (i, v) in list.iter_mut().enumerate() {
		if let SVType::Object(c) = v {
			let s = p.push_i(seg, i);
			at(p, "object", f, Site::Class(c));
			p.pop(s);
		}
	}
}

fn code(p: &mut P, c: &mut SCode, f: F) {
	for (i, insn) in c.insns.iter_mut().enumerate() {
		let k = p.rekey("insn", &format!("insn[{i}]"));
		match insn {
			SInsn::Field(o, m) => at(p, op_name(*o), f, Site::FieldRef(m)),
			// a method of an array class (`[Lp/M;.clone()`) is its own position: there is no member to ask about
			SInsn::Invoke(o, m, _) if is_array(&m.owner) => at(p, &format!("{}-on-array-class", op_name(*o)), f, Site::MethodRef(m)),
			SInsn::Invoke(o, m, _) => at(p, op_name(*o), f, Site::MethodRef(m)),
			SInsn::InvokeDynamic(d) => {
				let s = p.push("invokedynamic");
				at(p, "name", f, Site::Free(&mut d.name));
				at(p, "descriptor", f, Site::MethodDesc(&mut d.desc));
				bootstrap(p, &mut d.bootstrap, f);
				p.pop(s);
			},
			SInsn::New(c) => at(p, "new", f, Site::Class(c)),
			SInsn::ANewArray(c) => at(p, "anewarray", f, Site::Class(c)),
			SInsn::CheckCast(c) => at(p, "checkcast", f, Site::Class(c)),
			SInsn::InstanceOf(c) => at(p, "instanceof", f, Site::Class(c)),
			SInsn::MultiANewArray(c, _) => at(p, "multianewarray", f, Site::Class(c)),
			SInsn::Ldc(c) => {
				let k2 = p.rekey("constant", "ldc");
				constant(p, c, f);
				p.unkey(k2);
			},
			_ => {},
		}
		p.unkey(k);
	}
	for (i, e) in c.exceptions.iter_mut().enumerate() {
		if let Some(catch) = &mut e.catch {
			let s = p.push_i("exception_table", i);
			at(p, "catch", f, Site::Class(catch));
			p.pop(s);
		}
	}
	for (i, (_, frame)) in c.frames.iter_mut().enumerate() {
		let s = p.push_i("frames", i);
		match frame {
			SFrame::Same | SFrame::Chop(_) => {},
			SFrame::SameLocals1(v) => vtypes(p, "same_locals_1_stack_item", std::slice::from_mut(v), f),
			SFrame::Append(l) => vtypes(p, "append", l, f),
			SFrame::Full { locals, stack } => {
				vtypes(p, "full.locals", locals, f);
				vtypes(p, "full.stack", stack, f);
			},
		}
		p.pop(s);
	}
	for (i, lv) in c.local_vars.iter_mut().enumerate() {
		let s = p.push_i("local_variables", i);
		at(p, "name", f, Site::Free(&mut lv.name));
		at(p, "descriptor", f, Site::FieldDesc(&mut lv.ty));
		p.pop(s);
	}
	for (i, lv) in c.local_var_types.iter_mut().enumerate() {
		let s = p.push_i("local_variable_types", i);
		at(p, "name", f, Site::Free(&mut lv.name));
		at(p, "signature", f, Site::Free(&mut lv.ty));
		p.pop(s);
	}
	type_annotation_list(p, "visible_type_annotations", &mut c.visible_type, f);
	type_annotation_list(p, "invisible_type_annotations", &mut c.invisible_type, f);
}

pub fn walk(c: &mut SClass, f: F) {
	let p = &mut P::new();
	let top = p.push("class");
	at(p, "this", f, Site::Class(&mut c.this_class));
	if let Some(s) = &mut c.super_class {
		at(p, "super", f, Site::Class(s));
	}
	class_list(p, "interfaces", &mut c.interfaces, f);
	if let Some(s) = &mut c.signature {
		at(p, "signature", f, Site::Free(s));
	}
	if let Some(s) = &mut c.source_file {
		at(p, "source_file", f, Site::Free(s));
	}
	if let Some(s) = &mut c.source_debug_extension {
		at(p, "source_debug_extension", f, Site::Free(s));
	}
	if let Some(list) = &mut c.inner_classes {
		for (i, ic) in list.iter_mut().enumerate() {
			let s = p.push_i("inner_classes", i);
			f(p, Site::InnerClass(ic));
			p.pop(s);
		}
	}
	if let Some((class, method)) = &mut c.enclosing_method {
		at(p, "enclosing_method", f, Site::EnclosingMethod { class, method: method.as_mut() });
	}
	if let Some(h) = &mut c.nest_host {
		at(p, "nest_host", f, Site::Class(h));
	}
	if let Some(l) = &mut c.nest_members {
		class_list(p, "nest_members", l, f);
	}
	if let Some(l) = &mut c.permitted_subclasses {
		class_list(p, "permitted_subclasses", l, f);
	}
	if let Some(rcs) = &mut c.record {
		for (i, rc) in rcs.iter_mut().enumerate() {
			let s = p.push_i("record.component", i);
			f(p, Site::RecordComponent { name: &mut rc.name, desc: &mut rc.desc });
			if let Some(sg) = &mut rc.signature {
				at(p, "signature", f, Site::Free(sg));
			}
			annotations(p, &mut rc.annotations, f);
			p.pop(s);
		}
	}
	if let Some(m) = &mut c.module {
		let s = p.push("module");
		class_list(p, "uses", &mut m.uses, f);
		for (i, (service, impls)) in m.provides.iter_mut().enumerate() {
			let s2 = p.push_i("provides", i);
			at(p, "service", f, Site::Class(service));
			class_list(p, "implementation", impls, f);
			p.pop(s2);
		}
		p.pop(s);
	}
	if let Some(m) = &mut c.module_main_class {
		at(p, "module_main_class", f, Site::Class(m));
	}
	annotations(p, &mut c.annotations, f);
	p.pop(top);

	for (i, fl) in c.fields.iter_mut().enumerate() {
		let s = p.push_i("field", i);
		f(p, Site::FieldDecl { name: &mut fl.name, desc: &mut fl.desc });
		if let Some(sg) = &mut fl.signature {
			at(p, "signature", f, Site::Free(sg));
		}
		annotations(p, &mut fl.annotations, f);
		p.pop(s);
	}
	for (i, m) in c.methods.iter_mut().enumerate() {
		let s = p.push_i("method", i);
		f(p, Site::MethodDecl { name: &mut m.name, desc: &mut m.desc });
		if let Some(l) = &mut m.exceptions {
			class_list(p, "exceptions", l, f);
		}
		if let Some(sg) = &mut m.signature {
			at(p, "signature", f, Site::Free(sg));
		}
		annotations(p, &mut m.annotations, f);
		for (seg, pa) in [("visible_parameter_annotations", &mut m.visible_param_annotations), ("invisible_parameter_annotations", &mut m.invisible_param_annotations)] {
			if let Some(per_param) = pa {
				for (j, list) in per_param.iter_mut().enumerate() {
					let s2 = p.push_i("parameter", j);
					annotation_list(p, seg, list, f);
					p.pop(s2);
				}
			}
		}
		if let Some(d) = &mut m.annotation_default {
			let k = p.rekey("annotation.value", "annotation_default");
			element_value(p, d, f);
			p.unkey(k);
		}
		if let Some(params) = &mut m.parameters {
			for (j, (name, _)) in params.iter_mut().enumerate() {
				if let Some(n) = name {
					let s2 = p.push_i("parameters", j);
					at(p, "name", f, Site::Free(n));
					p.pop(s2);
				}
			}
		}
		if let Some(c) = &mut m.code {
			let s2 = p.push("code");
			code(p, c, f);
			p.pop(s2);
		}
		p.pop(s);
	}
}

/// the named string parts of a site: `(part, free, value)`
fn parts<'a>(site: Site<'a>) -> Vec<(&'static str, bool, &'a mut JS)> {
	match site {
		Site::Class(s) | Site::FieldDesc(s) | Site::MethodDesc(s) | Site::ReturnDesc(s) => vec![("", false, s)],
		Site::Free(s) => vec![("", true, s)],
		Site::FieldRef(m) | Site::MethodRef(m) => vec![("owner", false, &mut m.owner), ("name", false, &mut m.name), ("descriptor", false, &mut m.desc)],
		Site::FieldDecl { name, desc } | Site::MethodDecl { name, desc } | Site::RecordComponent { name, desc } => vec![("name", false, name), ("descriptor", false, desc)],
		Site::EnclosingMethod { class, method } => {
			let mut v = vec![("class", false, class)];
			if let Some((n, d)) = method {
				v.push(("name", false, n));
				v.push(("descriptor", false, d));
			}
			v
		},
		Site::EnumConst { ty, name } => vec![("type", false, ty), ("const_name", false, name)],
		Site::InnerClass(ic) => {
			let mut v = vec![("inner", false, &mut ic.inner)];
			if let Some(o) = &mut ic.outer {
				v.push(("outer", false, o));
			}
			if let Some(n) = &mut ic.name {
				// The simple name in an InnerClasses record is not a class, field or method reference and the
				// remapper cannot be asked for it; the statement demands references to be "what the remapper
				// answers", so whether it follows the renamed inner class is information only (free).
				v.push(("inner_name", true, n));
			}
			v
		},
	}
}

fn join(a: &str, b: &str) -> String {
	if b.is_empty() { a.to_owned() } else { format!("{a}.{b}") }
}

#[derive(Clone, Debug)]
pub struct Part {
	pub key: String,
	pub free: bool,
	pub value: JS,
}

/// every string of every site: id → part
pub fn collect(c: &SClass) -> BTreeMap<String, Part> {
	let mut c = c.clone();
	let mut out = BTreeMap::new();
	walk(&mut c, &mut |p, site| {
		for (part, free, value) in parts(site) {
			let prev = out.insert(join(&p.id, part), Part { key: join(&p.key, part), free, value: value.clone() });
			if prev.is_some() {
				crate::fail(&format!("walker: duplicate id {}", join(&p.id, part)));
			}
		}
	});
	out
}

// ---------------------------------------------------------------------------------------------
// asking the remapper

pub fn obj(s: &JavaStr) -> &ObjClassNameSlice {
	// SAFETY: a transparent wrapper; the string is exactly the reference the class file states
	unsafe { ObjClassNameSlice::from_inner_unchecked(s) }
}
pub fn any(s: &JavaStr) -> &ClassNameSlice {
	// SAFETY: as above
	unsafe { ClassNameSlice::from_inner_unchecked(s) }
}
pub fn fdesc(s: &JavaStr) -> &FieldDescriptorSlice {
	// SAFETY: as above
	unsafe { FieldDescriptorSlice::from_inner_unchecked(s) }
}
pub fn mdesc(s: &JavaStr) -> &MethodDescriptorSlice {
	// SAFETY: as above
	unsafe { MethodDescriptorSlice::from_inner_unchecked(s) }
}
pub fn rdesc(s: &JavaStr) -> &ReturnDescriptorSlice {
	// SAFETY: as above
	unsafe { ReturnDescriptorSlice::from_inner_unchecked(s) }
}
pub fn fname(s: &JavaStr) -> &FieldNameSlice {
	// SAFETY: as above
	unsafe { FieldNameSlice::from_inner_unchecked(s) }
}
pub fn mname(s: &JavaStr) -> &MethodNameSlice {
	// SAFETY: as above
	unsafe { MethodNameSlice::from_inner_unchecked(s) }
}

pub fn is_array(s: &JS) -> bool {
	s.0.first() == Some(&(b'[' as u16))
}

type R<T> = Result<T, String>;

fn e<T>(r: anyhow::Result<T>) -> R<T> {
	r.map_err(|e| format!("{e:#}"))
}

/// what the remapper answers for the name in a CONSTANT_Class
pub fn ask_class(r: &dyn BRemapper, name: &JS) -> R<JS> {
	let j = to_java(name);
	if is_array(name) {
		Ok(from_java(e(r.map_class_any(any(&j)))?.as_inner()))
	} else {
		Ok(from_java(e(r.map_class(obj(&j)))?.as_inner()))
	}
}

fn ask_field(r: &dyn BRemapper, owner: &JS, name: &JS, desc: &JS) -> R<(JS, JS)> {
	let (o, n, d) = (to_java(owner), to_java(name), to_java(desc));
	let a = e(r.map_field(obj(&o), fname(&n), fdesc(&d)))?;
	Ok((from_java(a.name.as_inner()), from_java(a.desc.as_inner())))
}

fn ask_method(r: &dyn BRemapper, owner: &JS, name: &JS, desc: &JS) -> R<(JS, JS)> {
	let (o, n, d) = (to_java(owner), to_java(name), to_java(desc));
	let a = e(r.map_method(obj(&o), mname(&n), mdesc(&d)))?;
	Ok((from_java(a.name.as_inner()), from_java(a.desc.as_inner())))
}

fn ask_field_desc(r: &dyn BRemapper, d: &JS) -> R<JS> {
	Ok(from_java(e(r.map_field_desc(fdesc(&to_java(d))))?.as_inner()))
}

fn ask_method_desc(r: &dyn BRemapper, d: &JS) -> R<JS> {
	Ok(from_java(e(r.map_method_desc(mdesc(&to_java(d))))?.as_inner()))
}

fn ask_return_desc(r: &dyn BRemapper, d: &JS) -> R<JS> {
	Ok(from_java(e(r.map_return_desc(rdesc(&to_java(d))))?.as_inner()))
}

/// `Lx/Y;` → `x/Y`
pub fn class_of_desc(d: &JS) -> Option<JS> {
	let n = d.0.len();
	if n >= 3 && d.0[0] == b'L' as u16 && d.0[n - 1] == b';' as u16 {
		Some(JS(d.0[1..n - 1].to_vec()))
	} else {
		None
	}
}

pub fn concat(a: &JS, sep: char, b: &JS) -> JS {
	let mut v = a.0.clone();
	v.push(sep as u16);
	v.extend_from_slice(&b.0);
	JS(v)
}

/// The simple name the InnerClasses record should carry after renaming, where it is determined:
/// a member class `Outer$Name` (record says outer = `Outer`, name = `Name`) whose renamed binary name is
/// `Outer'$X` with `Outer'` the renamed outer class has the simple name `X`. Everything else
/// (anonymous and local classes, names that do not follow the `$` convention) is left as it is.
fn inner_simple_name(orig: &SInnerClass, new_inner: &JS, new_outer: Option<&JS>) -> Option<JS> {
	let (outer, name, new_outer) = (orig.outer.as_ref()?, orig.name.as_ref()?, new_outer?);
	if orig.inner != concat(outer, '$', name) {
		return None;
	}
	let prefix = concat(new_outer, '$', &JS(vec![]));
	if new_inner.0.len() > prefix.0.len() && new_inner.0.starts_with(&prefix.0) {
		Some(JS(new_inner.0[prefix.0.len()..].to_vec()))
	} else {
		None
	}
}

fn apply(r: &dyn BRemapper, this: &JS, site: Site<'_>) -> R<()> {
	match site {
		Site::Free(_) => {},
		Site::Class(c) => *c = ask_class(r, c)?,
		Site::FieldDesc(d) => *d = ask_field_desc(r, d)?,
		Site::MethodDesc(d) => *d = ask_method_desc(r, d)?,
		Site::ReturnDesc(d) => *d = ask_return_desc(r, d)?,
		Site::FieldRef(m) => {
			let (n, d) = ask_field(r, &m.owner, &m.name, &m.desc)?;
			m.owner = ask_class(r, &m.owner)?;
			m.name = n;
			m.desc = d;
		},
		Site::MethodRef(m) => {
			if is_array(&m.owner) {
				// methods of array classes are those of java/lang/Object; there is no member to ask about
				m.desc = ask_method_desc(r, &m.desc)?;
			} else {
				let (n, d) = ask_method(r, &m.owner, &m.name, &m.desc)?;
				m.name = n;
				m.desc = d;
			}
			m.owner = ask_class(r, &m.owner)?;
		},
		Site::FieldDecl { name, desc } | Site::RecordComponent { name, desc } => {
			let (n, d) = ask_field(r, this, name, desc)?;
			*name = n;
			*desc = d;
		},
		Site::MethodDecl { name, desc } => {
			let (n, d) = ask_method(r, this, name, desc)?;
			*name = n;
			*desc = d;
		},
		Site::EnclosingMethod { class, method } => {
			if let Some((n, d)) = method {
				if is_array(class) {
					*d = ask_method_desc(r, d)?;
				} else {
					let (n2, d2) = ask_method(r, class, n, d)?;
					*n = n2;
					*d = d2;
				}
			}
			*class = ask_class(r, class)?;
		},
		Site::EnumConst { ty, name } => {
			if let Some(class) = class_of_desc(ty) {
				*name = ask_field(r, &class, name, ty)?.0;
			}
			*ty = ask_field_desc(r, ty)?;
		},
		Site::InnerClass(ic) => {
			let orig = ic.clone();
			ic.inner = ask_class(r, &ic.inner)?;
			if let Some(o) = &mut ic.outer {
				*o = ask_class(r, o)?;
			}
			if let Some(n) = inner_simple_name(&orig, &ic.inner, ic.outer.as_ref()) {
				ic.name = Some(n);
			}
		},
	}
	Ok(())
}

/// The reference renaming: `c` with the remapper asked at every reference-carrying position.
pub fn rename(c: &SClass, r: &dyn BRemapper) -> R<SClass> {
	let this = c.this_class.clone();
	let mut out = c.clone();
	let mut err = None;
	walk(&mut out, &mut |p, site| {
		if err.is_none() {
			if let Err(e) = apply(r, &this, site) {
				err = Some(format!("{}: {e}", p.id));
			}
		}
	});
	if let Some(e) = err {
		return Err(e);
	}
	cfmodel::gen::normalize(&mut out);
	Ok(out)
}

// ---------------------------------------------------------------------------------------------
// comparison

#[derive(Default)]
pub struct Comparison {
	/// (key, detail), one per distinct key
	pub diffs: Vec<(String, String)>,
	/// judged positions whose expected value differs from the original one (key → count)
	pub renamed: BTreeMap<String, u64>,
	/// judged positions (key → count)
	pub judged: BTreeMap<String, u64>,
	/// information only: free positions that changed, signatures that name a renamed class and were left alone
	pub info: BTreeMap<String, u64>,
}

/// Does the generic signature / free string mention (as `L<name>` up to `<`, `;` or `.`) a class the remapper renames?
fn signature_mentions_renamed(r: &dyn BRemapper, s: &JS) -> bool {
	let v = &s.0;
	let mut i = 0;
	while i < v.len() {
		if v[i] == b'L' as u16 {
			let start = i + 1;
			let mut j = start;
			while j < v.len() && ![b'<' as u16, b';' as u16, b'.' as u16].contains(&v[j]) {
				j += 1;
			}
			if j > start && j < v.len() {
				let name = JS(v[start..j].to_vec());
				if let Ok(n) = ask_class(r, &name) {
					if n != name {
						return true;
					}
				}
			}
			i = j;
		} else {
			i += 1;
		}
	}
	false
}

/// `expected` = `rename(original)`, `actual` = what the code under test produced.
pub fn compare(expected: &SClass, actual: &SClass, original: &SClass, r: Option<&dyn BRemapper>) -> Comparison {
	let mut out = Comparison::default();
	let exp = collect(expected);
	let orig = collect(original);
	let mut seen_keys: BTreeMap<String, ()> = BTreeMap::new();
	for (id, part) in &exp {
		if part.free {
			continue;
		}
		*out.judged.entry(part.key.clone()).or_insert(0) += 1;
		if orig.get(id).is_some_and(|o| o.value != part.value) {
			*out.renamed.entry(part.key.clone()).or_insert(0) += 1;
		}
	}
	let mut patched = actual.clone();
	let ctx = format!("class {:?}", original.this_class);
	walk(&mut patched, &mut |p, site| {
		for (part, free, value) in parts(site) {
			let id = join(&p.id, part);
			let Some(want) = exp.get(&id) else { continue };
			let was = orig.get(&id).map(|o| &o.value);
			if free {
				let key = join(&p.key, part);
				if *value != want.value {
					*out.info.entry(format!("info:{key}:changed")).or_insert(0) += 1;
					*value = want.value.clone();
				} else if key.ends_with("signature") {
					if let Some(r) = r {
						if signature_mentions_renamed(r, value) {
							*out.info.entry(format!("info:{key}:names-a-renamed-class-and-was-left-alone")).or_insert(0) += 1;
						}
					}
				}
				continue;
			}
			if *value != want.value {
				let kind = if Some(&*value) == was { "not-remapped" } else { "wrong" };
				let key = format!("{}:{kind}", want.key);
				if seen_keys.insert(key.clone(), ()).is_none() {
					out.diffs.push((key, format!("{ctx}: at {id}: the original reference is {}, the remapper answers {}, the result has {}", was.map(show).unwrap_or_else(|| "?".into()), show(&want.value), show(value))));
				}
				*value = want.value.clone();
			}
		}
	});
	for (key, detail) in cfmodel::sdiff::diff(expected, &patched).0 {
		if seen_keys.insert(key.clone(), ()).is_none() {
			out.diffs.push((key, detail));
		}
	}
	out
}
