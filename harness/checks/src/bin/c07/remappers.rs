//! Remappers used by C07: a table remapper written in the harness (own inheritance walk) and the real
//! `Mappings::remapper_b` with the real `JarSuperProv` of the jar. The oracle asks the very same object
//! dukebox is given, so any deterministic remapper is a valid one.

use std::collections::BTreeMap;
use anyhow::Result;
use duke::tree::class::{ClassName, ClassNameSlice, ObjClassName, ObjClassNameSlice};
use duke::tree::descriptor::{ReturnDescriptor, ReturnDescriptorSlice};
use duke::tree::field::{FieldDescriptor, FieldDescriptorSlice, FieldName, FieldNameAndDesc, FieldNameSlice};
use duke::tree::method::{MethodDescriptor, MethodDescriptorSlice, MethodName, MethodNameAndDesc, MethodNameSlice};
use java_string::JavaString;
use quill::remapper::{ARemapper, BRemapper};

#[derive(Clone, Copy, Debug, PartialEq, Eq)]
pub enum Engine {
	/// the harness' table remapper; members are looked up in the owner and then depth-first in the super types the table knows
	Table { inherit: bool },
	/// `quill::Mappings::remapper_b` with the provider `Jar::get_super_classes_provider` builds from the input jar
	QuillJarProvider,
	/// `quill::Mappings::remapper_b` with `NoSuperClassProvider`
	QuillNoProvider,
}

/// A remapper as data. All names are plain strings (the universes use names without lone surrogates).
#[derive(Clone, Debug)]
pub struct Spec {
	pub name: String,
	pub engine: Engine,
	/// from → to; `None` = the class has an entry (members can be named) but no target name
	pub classes: BTreeMap<String, Option<String>>,
	/// (owner, name, descriptor) → new name
	pub fields: BTreeMap<(String, String, String), String>,
	pub methods: BTreeMap<(String, String, String), String>,
	/// error-path exploration: the case is run once per question the code under test puts, with the remapper failing
	/// at that question (table engine only; see `failing`)
	pub failing: bool,
}

pub mod failing {
	//! A table remapper can be told to fail at its n-th primitive question (per thread: `dukebox::remap::remap`
	//! runs on the thread that calls it).
	use std::cell::Cell;
	thread_local! {
		static QUESTIONS: Cell<u64> = const { Cell::new(0) };
		static FAIL_AT: Cell<Option<u64>> = const { Cell::new(None) };
		static HIT: Cell<bool> = const { Cell::new(false) };
	}
	/// starts a run: the question counter is reset, the remapper fails at question `at`
	pub fn arm(at: Option<u64>) {
		QUESTIONS.set(0);
		FAIL_AT.set(at);
		HIT.set(false);
	}
	/// `(questions put since `arm`, whether the failing question was put)`; disarms
	pub fn disarm() -> (u64, bool) {
		FAIL_AT.set(None);
		(QUESTIONS.get(), HIT.get())
	}
	pub fn tick(what: &str) -> anyhow::Result<()> {
		let n = QUESTIONS.get();
		QUESTIONS.set(n + 1);
		if FAIL_AT.get() == Some(n) {
			HIT.set(true);
			anyhow::bail!("the remapper has no answer for question {n} ({what}): its source could not be read");
		}
		Ok(())
	}
}

impl Spec {
	pub fn new(name: &str, engine: Engine) -> Spec {
		Spec { name: name.to_owned(), engine, classes: BTreeMap::new(), fields: BTreeMap::new(), methods: BTreeMap::new(), failing: false }
	}
	pub fn class(&mut self, from: &str, to: &str) -> &mut Spec {
		self.classes.insert(from.to_owned(), Some(to.to_owned()));
		self
	}
	pub fn field(&mut self, owner: &str, name: &str, desc: &str, to: &str) -> &mut Spec {
		self.classes.entry(owner.to_owned()).or_insert(None);
		self.fields.insert((owner.to_owned(), name.to_owned(), desc.to_owned()), to.to_owned());
		self
	}
	pub fn method(&mut self, owner: &str, name: &str, desc: &str, to: &str) -> &mut Spec {
		self.classes.entry(owner.to_owned()).or_insert(None);
		self.methods.insert((owner.to_owned(), name.to_owned(), desc.to_owned()), to.to_owned());
		self
	}
	pub fn describe(&self) -> String {
		let mut s = format!("remapper={} engine={:?}\n", self.name, self.engine);
		for (f, t) in &self.classes {
			s.push_str(&format!("  class {f} -> {}\n", t.as_deref().unwrap_or("(no target name)")));
		}
		for ((o, n, d), t) in &self.fields {
			s.push_str(&format!("  field {o}.{n}:{d} -> {t}\n"));
		}
		for ((o, n, d), t) in &self.methods {
			s.push_str(&format!("  method {o}.{n}{d} -> {t}\n"));
		}
		s
	}

	/// the mapping set for `remapper_b` (two namespaces, descriptors in the first)
	pub fn to_mset(&self) -> mapmodel::MSet {
		let mut set = mapmodel::MSet::new(&["a", "b"]);
		for (from, to) in &self.classes {
			set.classes.insert(from.clone(), mapmodel::MClass { names: vec![Some(from.clone()), to.clone()], ..Default::default() });
		}
		for ((o, n, d), t) in &self.fields {
			if let Some(c) = set.classes.get_mut(o) {
				c.fields.insert((n.clone(), d.clone()), mapmodel::MField { names: vec![Some(n.clone()), Some(t.clone())], doc: None });
			}
		}
		for ((o, n, d), t) in &self.methods {
			if let Some(c) = set.classes.get_mut(o) {
				c.methods.insert((n.clone(), d.clone()), mapmodel::MMethod { names: vec![Some(n.clone()), Some(t.clone())], ..Default::default() });
			}
		}
		set
	}
}

/// The harness' own remapper: plain tables.
pub struct Table {
	pub spec: Spec,
	/// class → super types (super class first, then interfaces), for the classes of the jar
	pub supers: BTreeMap<String, Vec<String>>,
}

fn s(x: &java_string::JavaStr) -> String {
	x.to_string()
}

impl Table {
	fn find<'a>(&'a self, table: &'a BTreeMap<(String, String, String), String>, owner: &str, name: &str, desc: &str, depth: usize) -> Option<&'a String> {
		if let Some(t) = table.get(&(owner.to_owned(), name.to_owned(), desc.to_owned())) {
			return Some(t);
		}
		if let Engine::Table { inherit: true } = self.spec.engine {
			if depth < 32 {
				for sup in self.supers.get(owner).into_iter().flatten() {
					if let Some(t) = self.find(table, sup, name, desc, depth + 1) {
						return Some(t);
					}
				}
			}
		}
		None
	}
}

impl ARemapper for Table {
	fn map_class_fail(&self, class: &ObjClassNameSlice) -> Result<Option<ObjClassName>> {
		failing::tick("map_class_fail")?;
		match self.spec.classes.get(&s(class.as_inner())) {
			Some(Some(to)) => Ok(Some(ObjClassName::try_from(JavaString::from(to.as_str()))?)),
			_ => Ok(None),
		}
	}
}

impl BRemapper for Table {
	fn map_field_fail(&self, owner: &ObjClassNameSlice, name: &FieldNameSlice, desc: &FieldDescriptorSlice) -> Result<Option<FieldNameAndDesc>> {
		failing::tick("map_field_fail")?;
		match self.find(&self.spec.fields, &s(owner.as_inner()), &s(name.as_inner()), &s(desc.as_inner()), 0) {
			Some(to) => Ok(Some(FieldNameAndDesc { name: FieldName::try_from(JavaString::from(to.as_str()))?, desc: self.map_field_desc(desc)? })),
			None => Ok(None),
		}
	}
	fn map_method_fail(&self, owner: &ObjClassNameSlice, name: &MethodNameSlice, desc: &MethodDescriptorSlice) -> Result<Option<MethodNameAndDesc>> {
		failing::tick("map_method_fail")?;
		match self.find(&self.spec.methods, &s(owner.as_inner()), &s(name.as_inner()), &s(desc.as_inner()), 0) {
			Some(to) => Ok(Some(MethodNameAndDesc { name: MethodName::try_from(JavaString::from(to.as_str()))?, desc: self.map_method_desc(desc)? })),
			None => Ok(None),
		}
	}
}

/// Hands a borrowed remapper to `dukebox::remap::remap`, which takes its remapper by value. Every
/// method — also the provided ones — is forwarded, so the object answering is the one the oracle asks.
pub struct ByRef<'a>(pub &'a (dyn BRemapper + 'a));

impl ARemapper for ByRef<'_> {
	fn map_class_fail(&self, class: &ObjClassNameSlice) -> Result<Option<ObjClassName>> {
		self.0.map_class_fail(class)
	}
	fn map_class(&self, class: &ObjClassNameSlice) -> Result<ObjClassName> {
		self.0.map_class(class)
	}
	fn map_class_any(&self, class: &ClassNameSlice) -> Result<ClassName> {
		self.0.map_class_any(class)
	}
	fn map_field_desc(&self, desc: &FieldDescriptorSlice) -> Result<FieldDescriptor> {
		self.0.map_field_desc(desc)
	}
	fn map_method_desc(&self, desc: &MethodDescriptorSlice) -> Result<MethodDescriptor> {
		self.0.map_method_desc(desc)
	}
	fn map_return_desc(&self, desc: &ReturnDescriptorSlice) -> Result<ReturnDescriptor> {
		self.0.map_return_desc(desc)
	}
}

impl BRemapper for ByRef<'_> {
	fn map_field_fail(&self, owner: &ObjClassNameSlice, name: &FieldNameSlice, desc: &FieldDescriptorSlice) -> Result<Option<FieldNameAndDesc>> {
		self.0.map_field_fail(owner, name, desc)
	}
	fn map_field(&self, class: &ObjClassNameSlice, name: &FieldNameSlice, desc: &FieldDescriptorSlice) -> Result<FieldNameAndDesc> {
		self.0.map_field(class, name, desc)
	}
	fn map_field_ref(&self, field_ref: &duke::tree::field::FieldRef) -> Result<duke::tree::field::FieldRef> {
		self.0.map_field_ref(field_ref)
	}
	fn map_method_fail(&self, owner: &ObjClassNameSlice, name: &MethodNameSlice, desc: &MethodDescriptorSlice) -> Result<Option<MethodNameAndDesc>> {
		self.0.map_method_fail(owner, name, desc)
	}
	fn map_method(&self, class: &ObjClassNameSlice, name: &MethodNameSlice, desc: &MethodDescriptorSlice) -> Result<MethodNameAndDesc> {
		self.0.map_method(class, name, desc)
	}
	fn map_method_name_and_desc(&self, class: &ObjClassNameSlice, m: &MethodNameAndDesc) -> Result<MethodNameAndDesc> {
		self.0.map_method_name_and_desc(class, m)
	}
	fn map_method_ref(&self, method_ref: &duke::tree::method::MethodRef) -> Result<duke::tree::method::MethodRef> {
		self.0.map_method_ref(method_ref)
	}
	fn map_method_ref_obj(&self, method_ref: &duke::tree::method::MethodRefObj) -> Result<duke::tree::method::MethodRefObj> {
		self.0.map_method_ref_obj(method_ref)
	}
}
