//! C08 — Reordering namespaces is a faithful permutation.
//!
//! Engine: explicit-state exploration (stateright BFS) of the Cayley graph of S_N. A state is
//! (initial mapping set, permutation applied so far, the mapping set the real code produced); an
//! action is `reorder(σ)` for σ in a generating set of S_N (quick: adjacent transpositions + one
//! rotation; thorough: also the transpositions (0 k) and the other rotation, so that every position
//! is made the first namespace from every state).
//! Every transition rebuilds a real `quill::tree::mappings::Mappings<N, ()>` from the state's set,
//! calls the real `Mappings::reorder` and projects the result back. In lock-step a reference
//! written from the property statement says what the result must be (or that the call must fail).
//!
//! Laws checked without an expected value: path independence (every word for the same permutation
//! gives the same set as one direct reorder), `reorder(σ⁻¹)∘reorder(σ) = id`, identity changes
//! nothing, the result does not depend on the insertion order of the input (reversed, rotated), and
//! the chain replayed on the real objects themselves (no rebuilding in between) gives the same set.
//!
//! Clause table (statement → where it is decided; over which space)
//!
//! | clause | decided in | space |
//! |---|---|---|
//! | "yields the same entries" | `judge`: `ref_reorder` vs the real result (`classify`: class/field/method count, parameter.index) | every judged transition and every direct reorder (all N! permutations from every initial set), all universes |
//! | "every name row permuted accordingly" (header, classes, fields, methods, parameters) | `judge` (`classify`: namespaces, *.names); universes `rows`, `cross` (every subset of names missing), `shared` (namesakes in other classes/methods with other rows), `wide` (12+12 members, 36 parameters), `ns-names` (namespace names that are prefixes / case variants of each other) | N = 2, 3, 4 |
//! | "keys … re-expressed in the new first namespace" | `judge` + `mapmodel::from_quill` (stored key vs the entry's own first name and descriptor → `reorder:mis-keyed-entry`); universe `overloads` (the new key of an entry is the old key of its sibling / of another class) | N = 2, 3, 4 |
//! | "descriptors re-expressed in the new first namespace" (mapped, unmapped, array classes) | `judge` with `walk_descriptor`; universes `descriptors`, `cross` (plain, array, parameter, return position; inner, packaged, swapped names), `names-jdk`, `names-unicode`, `names-all` (mapped classes in a `java/` package on the old and the new side, `java/lang/Object`, a class called `L`, non-ASCII names, namesakes in two packages, owners / members / mentioned classes with one name in every namespace), `overloads` | N = 2, 3, 4 (`descriptors`, `rows`, `cross` with N = 4: thorough) |
//! | "comments … untouched" | `judge` (`classify`: *.comment); universes `comments` (set, class, field, method, parameter; multi-line, empty), `shared`, `wide` (empty comments at every level) | N = 2, 3, 4 |
//! | "parameter indices untouched" | `judge` (`classify`: parameter.index) + `from_quill` (stored index vs own index); indices 0, 1, 2, 7 and 0, 3, 256; parameters without any name | N = 2, 3, 4 |
//! | "a permutation and then its inverse returns the original" | `law:inverse` after every successful transition, `law:inverse-of-chain` at every non-initial state | all states |
//! | "the identity permutation changes nothing" | `law:identity` at every state, and σ = id among the direct reorders | all states |
//! | "fails instead of dropping or mis-keying" when the new first namespace lacks a name | `judge`: `Expect::Refuse` vs the real outcome (keys `reorder:missing-name:{not-refused,entry-dropped,mis-keyed}`), class / field / method level alone and combined; also two entries with one key (`reorder:collision:*`) | `rows`, `cross`, `collisions`, `wide` (each of 24 members in turn), `ns-names` |
//! | quantifier "2..4 namespaces × all permutations" | floors: all N! permutations reached per N; every universe contributes judged transitions | |
//! | every clause, on texts whose bytes are not characters | `judge` as above; universe `long-text` (k = 0..=300 [thorough 600] ASCII characters + a last character of 1 / 2 / 3 / 4 UTF-8 bytes as the second namespace's name, class / field / method / parameter name, every comment, an unmapped class in two descriptors; accepted, and refused at class / field / method level for a missing name and for a collision, so that the messages — which quote rows and keys — are built too; unknown target namespaces with such names in the non-permutation sweep) | N = 3 (thorough: 3, 4) |
//! | every clause, on odd but legal values | `judge`; universe `odd-values` (classes `A$`, `Long` → `LLong;`, `x()V`, 3- and 4-byte names, `O1$I` / `O2$I`, each mapped or not; unmapped `B$`, `A$$`; 255 array dimensions; 255 parameters of a mapped class; a field, a method and parameters called like a class of the set; a method `m(`; parameter indices 255, 256, 65535, 65536, 2^32, usize::MAX) | N = 2, 3, 4 |
//! | every clause, on names that are not UTF-8 | `judge` through `c08/jtext.rs` (builder and projection for lone surrogates U+D800, U+DBFF, U+DC00, U+DFFF; self-checked against `mapmodel`); universe `surrogates` (two mapped classes and one unmapped class that differ in the surrogate only; holder, field, method and parameter names with a surrogate first / last) | N = 2, 3, 4 |
//! | "yields the same entries": nothing of one entry shows up in its neighbour | `judge`; universe `placement` (two classes × every arrangement of a field, a method without / with a parameter, a second method without / with a commented parameter; classes without members between and after them) | N = 2, 3, 4 |
//! | "the identity permutation changes nothing … comments untouched" for the set without classes | `comments` (the class may be absent; floor: the set without classes keeps its comment) | N = 2, 3, 4 |
//! | the target names the namespaces exactly | universes `ns-names` (prefixes, case variants), `ns-names-suffix` (suffixes), `ns-names-blank` (blanks around a name) | N = 2, 3, 4 |
//!
//! Not judged (the statement is silent): the order of the entries inside the result, which error is
//! returned, targets that are not permutations, sets in which a class without entry shares a name
//! with an entry (`Domain`); these are explored for panics only. (A class without entry that is named like
//! an inner class of an entry is an unmapped class and keeps its whole name — judged since session 5.)

use std::collections::{BTreeMap, BTreeSet, VecDeque};
use std::sync::{Arc, Mutex};
use mapmodel::gen::{self, ClassU, FieldU, MethodU, ParamU, Space};
use mapmodel::{tiny, MClass, MField, MMethod, MParam, MSet, Order, Row};
use quill::tree::mappings::Mappings;
use rayon::prelude::*;
use stateright::{Checker, Model, Property};
use vcore::{json, Ctx, Stats, Value};

#[path = "c08/jtext.rs"]
mod jtext;

// ---------------------------------------------------------------------------------------------
// permutations: `p[i]` = old position of the namespace that stands at new position `i`

type Perm = Vec<u8>;

fn identity(n: usize) -> Perm {
	(0..n as u8).collect()
}

/// first `p`, then `s` (on the result of `p`)
fn compose(p: &[u8], s: &[u8]) -> Perm {
	s.iter().map(|&i| p[i as usize]).collect()
}

fn inverse(s: &[u8]) -> Perm {
	let mut inv = vec![0u8; s.len()];
	for (i, &x) in s.iter().enumerate() {
		inv[x as usize] = i as u8;
	}
	inv
}

/// adjacent transpositions (0 1), (1 2), … and the rotation (1 2 … n-1 0): they make position 1 the
/// first namespace; `extended` adds the opposite rotation and the transpositions (0 k), which make
/// every other position the first one. The extended list starts with the basic one, so a word
/// means the same in both.
fn generators(n: usize, extended: bool) -> Vec<Perm> {
	let mut out: Vec<Perm> = Vec::new();
	for i in 0..n - 1 {
		let mut p = identity(n);
		p.swap(i, i + 1);
		out.push(p);
	}
	let mut rot = identity(n);
	rot.rotate_left(1);
	if !out.contains(&rot) {
		out.push(rot);
	}
	if extended {
		let mut rot = identity(n);
		rot.rotate_right(1);
		if !out.contains(&rot) {
			out.push(rot);
		}
		for k in 2..n {
			let mut p = identity(n);
			p.swap(0, k);
			if !out.contains(&p) {
				out.push(p);
			}
		}
	}
	out
}

fn permuted<T: Clone>(v: &[T], s: &[u8]) -> Vec<T> {
	s.iter().map(|&i| v[i as usize].clone()).collect()
}

/// a shortest word over the generators for every permutation (own BFS, generator order breaks ties)
fn shortest_words(n: usize, gens: &[Perm]) -> BTreeMap<Perm, Vec<u8>> {
	let mut words: BTreeMap<Perm, Vec<u8>> = BTreeMap::new();
	let mut queue = VecDeque::new();
	words.insert(identity(n), Vec::new());
	queue.push_back(identity(n));
	while let Some(p) = queue.pop_front() {
		let w = words[&p].clone();
		for (g, s) in gens.iter().enumerate() {
			let q = compose(&p, s);
			if !words.contains_key(&q) {
				let mut w2 = w.clone();
				w2.push(g as u8);
				words.insert(q.clone(), w2);
				queue.push_back(q);
			}
		}
	}
	words
}

// ---------------------------------------------------------------------------------------------
// the real code

#[derive(Clone, Debug, PartialEq, Eq)]
enum Real {
	Ok(MSet),
	Refused(String),
	/// the result stores an entry under a key that is not its first name / descriptor
	MisKeyed(String),
}

impl Real {
	fn kind(&self) -> &'static str {
		match self {
			Real::Ok(_) => "ok",
			Real::Refused(_) => "refused",
			Real::MisKeyed(_) => "mis-keyed",
		}
	}
	fn render(&self) -> String {
		match self {
			Real::Ok(m) => format!("Ok:\n{}", tiny::print(m)),
			Real::Refused(e) => format!("Err: {e}"),
			Real::MisKeyed(e) => format!("Ok, but mis-keyed: {e}"),
		}
	}
}

/// The real object for a set of the model. Sets whose names hold stand-ins for lone surrogates (universe
/// `surrogates`) are built and projected by `jtext`, all others by `mapmodel` as ever.
fn build<const N: usize>(set: &MSet, order: Order, java_text: bool) -> Mappings<N, ()> {
	let q = if java_text { jtext::to_quill(set, order) } else { mapmodel::to_quill_ordered(set, order) };
	q.unwrap_or_else(|e| vcore::machinery_fail(&format!("cannot build the real object: {e:#}\n{}", tiny::print(set))))
}

fn project<const N: usize>(q: &Mappings<N, ()>, java_text: bool) -> Real {
	let m = if java_text { jtext::from_quill(q) } else { mapmodel::from_quill(q) };
	match m {
		Ok(m) => Real::Ok(m),
		Err(k) => Real::MisKeyed(k.0),
	}
}

fn real_n<const N: usize>(set: &MSet, target: &[String], order: Order) -> Real {
	let java_text = jtext::uses_stand_ins(set);
	let q: Mappings<N, ()> = build(set, order, java_text);
	let t: Vec<&str> = target.iter().map(|s| s.as_str()).collect();
	let t: [&str; N] = t.try_into().unwrap_or_else(|_| vcore::machinery_fail("target namespace count"));
	match q.reorder::<()>(t) {
		Ok(r) => project(&r, java_text),
		Err(e) => Real::Refused(format!("{e:#}")),
	}
}

/// One execution of the real `Mappings::reorder` (counted in `st.evaluations`).
fn real(st: &mut Stats, set: &MSet, target: &[String], order: Order) -> Result<Real, vcore::Panic> {
	st.eval();
	vcore::guard(|| match set.n() {
		2 => real_n::<2>(set, target, order),
		3 => real_n::<3>(set, target, order),
		4 => real_n::<4>(set, target, order),
		n => vcore::machinery_fail(&format!("unsupported namespace count {n}")),
	})
}

fn real_chain_n<const N: usize>(set: &MSet, targets: &[Vec<String>]) -> Real {
	let java_text = jtext::uses_stand_ins(set);
	let mut q: Mappings<N, ()> = build(set, Order::Sorted, java_text);
	for target in targets {
		let t: Vec<&str> = target.iter().map(|s| s.as_str()).collect();
		let t: [&str; N] = t.try_into().unwrap_or_else(|_| vcore::machinery_fail("target namespace count"));
		q = match q.reorder::<()>(t) {
			Ok(r) => r,
			Err(e) => return Real::Refused(format!("{e:#}")),
		};
	}
	project(&q, java_text)
}

/// The real `Mappings::reorder` called on its own result, once per target, without rebuilding the
/// object in between (one counted execution per target).
fn real_chain(st: &mut Stats, set: &MSet, targets: &[Vec<String>]) -> Result<Real, vcore::Panic> {
	st.evaluations += targets.len() as u64;
	vcore::guard(|| match set.n() {
		2 => real_chain_n::<2>(set, targets),
		3 => real_chain_n::<3>(set, targets),
		4 => real_chain_n::<4>(set, targets),
		n => vcore::machinery_fail(&format!("unsupported namespace count {n}")),
	})
}

// ---------------------------------------------------------------------------------------------
// the reference, written from the statement

#[derive(Clone, Copy, Debug, PartialEq, Eq, PartialOrd, Ord)]
enum Reason {
	ClassWithoutName,
	FieldWithoutName,
	MethodWithoutName,
	ClassCollision,
	FieldCollision,
	MethodCollision,
}

impl Reason {
	fn name(self) -> &'static str {
		match self {
			Reason::ClassWithoutName => "class-without-name",
			Reason::FieldWithoutName => "field-without-name",
			Reason::MethodWithoutName => "method-without-name",
			Reason::ClassCollision => "class-collision",
			Reason::FieldCollision => "field-collision",
			Reason::MethodCollision => "method-collision",
		}
	}
	fn is_missing(self) -> bool {
		matches!(self, Reason::ClassWithoutName | Reason::FieldWithoutName | Reason::MethodWithoutName)
	}
}

#[derive(Clone, Debug, PartialEq, Eq)]
enum Expect {
	Ok(MSet),
	/// the statement does not allow an `Ok` here: an entry has no name in the new first namespace
	/// (must fail), or two entries get the same key (one of them could not be kept)
	Refuse(BTreeSet<Reason>),
}

fn reasons_text(r: &BTreeSet<Reason>) -> String {
	r.iter().map(|x| x.name()).collect::<Vec<_>>().join("+")
}

/// Walks a field or method descriptor (JVMS 4.3: base types, `L<class>;`, `[`, `(`…`)`) and
/// replaces every class name through `class_name`.
fn walk_descriptor(desc: &str, class_name: &mut dyn FnMut(&str) -> String) -> String {
	let mut out = String::with_capacity(desc.len());
	let mut rest = desc;
	while let Some(c) = rest.chars().next() {
		match c {
			'L' => {
				let end = rest.find(';').unwrap_or_else(|| vcore::machinery_fail(&format!("generator produced descriptor {desc:?}")));
				out.push('L');
				out.push_str(&class_name(&rest[1..end]));
				out.push(';');
				rest = &rest[end + 1..];
			},
			'(' | ')' | '[' | 'B' | 'C' | 'D' | 'F' | 'I' | 'J' | 'S' | 'Z' | 'V' => {
				out.push(c);
				rest = &rest[1..];
			},
			_ => vcore::machinery_fail(&format!("generator produced descriptor {desc:?}")),
		}
	}
	out
}

fn mentioned_classes(desc: &str) -> Vec<String> {
	let mut v = Vec::new();
	walk_descriptor(desc, &mut |n| {
		v.push(n.to_owned());
		n.to_owned()
	});
	v
}

/// `s` reordered so that new position `i` shows old namespace `sigma[i]`.
fn ref_reorder(s: &MSet, sigma: &[u8]) -> Expect {
	let first = sigma[0] as usize;
	// every class of the set: its name in the old first namespace → its name in the new first namespace
	let class_names: BTreeMap<&str, &str> = s.classes.iter().filter_map(|(k, c)| c.names[first].as_deref().map(|n| (k.as_str(), n))).collect();
	let translate = |desc: &str| walk_descriptor(desc, &mut |n| class_names.get(n).copied().unwrap_or(n).to_owned());
	let mut reasons = BTreeSet::new();
	let mut out = MSet { ns: permuted(&s.ns, sigma), doc: s.doc.clone(), classes: BTreeMap::new() };
	for c in s.classes.values() {
		let names: Row = permuted(&c.names, sigma);
		let mut nc = MClass { names: names.clone(), doc: c.doc.clone(), fields: BTreeMap::new(), methods: BTreeMap::new() };
		for ((_, desc), f) in &c.fields {
			let fnames: Row = permuted(&f.names, sigma);
			match fnames[0].clone() {
				None => {
					reasons.insert(Reason::FieldWithoutName);
				},
				Some(n) => {
					if nc.fields.insert((n, translate(desc)), MField { names: fnames, doc: f.doc.clone() }).is_some() {
						reasons.insert(Reason::FieldCollision);
					}
				},
			}
		}
		for ((_, desc), m) in &c.methods {
			let mnames: Row = permuted(&m.names, sigma);
			let params: BTreeMap<usize, MParam> = m.params.iter().map(|(i, p)| (*i, MParam { names: permuted(&p.names, sigma), doc: p.doc.clone() })).collect();
			match mnames[0].clone() {
				None => {
					reasons.insert(Reason::MethodWithoutName);
				},
				Some(n) => {
					if nc.methods.insert((n, translate(desc)), MMethod { names: mnames, doc: m.doc.clone(), params }).is_some() {
						reasons.insert(Reason::MethodCollision);
					}
				},
			}
		}
		match names[0].clone() {
			None => {
				reasons.insert(Reason::ClassWithoutName);
			},
			Some(k) => {
				if out.classes.insert(k, nc).is_some() {
					reasons.insert(Reason::ClassCollision);
				}
			},
		}
	}
	if reasons.is_empty() {
		Expect::Ok(out)
	} else {
		Expect::Refuse(reasons)
	}
}

/// Is the statement's expectation defined for this set?
///
/// A class that a descriptor mentions and that has no entry keeps its name in every namespace.
/// * If that name is also the name of an entry of the set in some namespace, two classes share a
///   name there: the set is not a one-to-one renaming, `reorder` cannot be undone, and the statement
///   cannot be meant for it.
/// * If it is an inner class (`X$Y`) of a name of an entry it is still a class without entry: unmapped, it keeps
///   its whole name (judged; until session 5 such sets were explored for "no panic" only, which let a
///   "the inner class follows its outer class" fallback in the class table through).
///
/// Sets of the first kind are explored for "no panic" only.
#[derive(Clone, Copy, Debug, PartialEq, Eq)]
enum Domain {
	In,
	UnmappedNameClash,
}

impl Domain {
	fn name(self) -> &'static str {
		match self {
			Domain::In => "in",
			Domain::UnmappedNameClash => "unmapped-name-clash",
		}
	}
}

fn domain(s: &MSet) -> Domain {
	let cells: BTreeSet<&str> = s.classes.values().flat_map(|c| c.names.iter().filter_map(|x| x.as_deref())).collect();
	let result = Domain::In;
	let mut inner_of_mapped = false;
	for c in s.classes.values() {
		let descs = c.fields.keys().map(|k| &k.1).chain(c.methods.keys().map(|k| &k.1));
		for d in descs {
			for u in mentioned_classes(d) {
				if s.classes.contains_key(&u) {
					continue;
				}
				if cells.contains(u.as_str()) {
					return Domain::UnmappedNameClash;
				}
				if u.char_indices().any(|(i, ch)| ch == '$' && cells.contains(&u[..i])) {
					// judged since session 5: a class without an entry is an unmapped class whatever its name looks like
					// (the quantifier names "mapped, unmapped and array classes"; C06 states "leaves it unchanged when
					// unmapped" for the very remapper reorder uses), so it keeps its whole name
					inner_of_mapped = true;
				}
			}
		}
	}
	let _ = inner_of_mapped;
	result
}

/// does a descriptor mention a class without entry whose name is `X$…` for a name `X` of an entry?
fn mentions_inner_of_mapped(s: &MSet) -> bool {
	let cells: BTreeSet<&str> = s.classes.values().flat_map(|c| c.names.iter().filter_map(|x| x.as_deref())).collect();
	s.classes.values().any(|c| {
		c.fields.keys().map(|k| &k.1).chain(c.methods.keys().map(|k| &k.1)).any(|d| {
			mentioned_classes(d).iter().any(|u| !s.classes.contains_key(u) && u.char_indices().any(|(i, ch)| ch == '$' && cells.contains(&u[..i])))
		})
	})
}

fn all_descriptors(s: &MSet) -> Vec<&str> {
	let mut v: Vec<&str> = Vec::new();
	for c in s.classes.values() {
		v.extend(c.fields.keys().map(|k| k.1.as_str()));
		v.extend(c.methods.keys().map(|k| k.1.as_str()));
	}
	v.sort();
	v
}

/// Which of the mechanisms the universes aim at does a reorder of `s` by `sigma` exercise? Measured on
/// the input with the reference's own translation; used for the vacuity floors only, never for a verdict.
fn features(s: &MSet, sigma: &[u8]) -> BTreeSet<&'static str> {
	let mut out = BTreeSet::new();
	let first = sigma[0] as usize;
	if first == 0 {
		return out;
	}
	let class_names: BTreeMap<&str, &str> = s.classes.iter().filter_map(|(k, c)| c.names[first].as_deref().map(|n| (k.as_str(), n))).collect();
	let translate = |desc: &str| walk_descriptor(desc, &mut |n| class_names.get(n).copied().unwrap_or(n).to_owned());
	let mut key_rows: BTreeMap<(&str, &str, &str), BTreeSet<&Row>> = BTreeMap::new();
	for (k, c) in &s.classes {
		let owner_unchanged = c.names[first].as_deref() == Some(k.as_str());
		if let Some(nk) = c.names[first].as_deref() {
			if nk != k && s.classes.contains_key(nk) {
				out.insert("rekey:class-takes-the-old-key-of-another-class");
			}
		}
		if c.fields.len() >= WIDE && c.methods.len() >= WIDE {
			out.insert("wide-class");
		}
		let members = c.fields.iter().map(|(key, f)| ("field", key, &f.names)).chain(c.methods.iter().map(|(key, m)| ("method", key, &m.names)));
		for (kind, (name, desc), names) in members {
			key_rows.entry((kind, name.as_str(), desc.as_str())).or_default().insert(names);
			let translated = translate(desc);
			let changed = &translated != desc;
			if changed && owner_unchanged {
				out.insert("descriptor-changes:owner-keeps-its-name");
			}
			if changed && names[first].as_deref() == Some(name.as_str()) {
				out.insert("descriptor-changes:member-keeps-its-name");
			}
			if let Some(new_name) = names[first].as_deref() {
				let new_key = (new_name.to_owned(), translated);
				let taken = if kind == "field" { c.fields.contains_key(&new_key) } else { c.methods.contains_key(&new_key) };
				if (&new_key.0, &new_key.1) != (name, desc) && taken {
					out.insert("rekey:member-takes-the-old-key-of-a-sibling");
				}
			}
			if s.classes.contains_key(name.as_str()) {
				out.insert("odd:member-called-like-a-class-of-the-set");
			}
			if name.contains('(') {
				out.insert("odd:method-name-with-a-parenthesis");
			}
			let mentioned = mentioned_classes(desc);
			let mut simple: BTreeMap<&str, &str> = BTreeMap::new();
			let mut inner: BTreeMap<&str, &str> = BTreeMap::new();
			for (at, u) in mentioned.iter().enumerate() {
				let Some(new) = class_names.get(u.as_str()).copied() else {
					if u.starts_with("java/") {
						out.insert("unmapped-mention:java-package");
					}
					if u.ends_with('$') {
						out.insert("unmapped-mention:trailing-dollar");
					}
					if u.chars().any(|c| jtext::STAND_INS.iter().any(|(p, _)| *p == c)) {
						out.insert("unmapped-mention:lone-surrogate");
					}
					continue;
				};
				if new == u {
					out.insert("mapped-mention:one-name-in-both-namespaces");
					continue;
				}
				if u.ends_with('$') {
					out.insert("mapped-mention:trailing-dollar");
				}
				if u.starts_with('L') && u.len() > 1 {
					out.insert("mapped-mention:name-starts-with-the-tag-letter");
				}
				if u.contains('(') && u.contains(')') {
					out.insert("mapped-mention:parentheses-inside-the-name");
				}
				if u.chars().any(|c| c.len_utf8() == 3 && !jtext::STAND_INS.iter().any(|(p, _)| *p == c)) && at + 1 < mentioned.len() {
					out.insert("mapped-mention:three-byte-character-before-another-class");
				}
				if u.chars().any(|c| c.len_utf8() == 4) && at + 1 < mentioned.len() {
					out.insert("mapped-mention:four-byte-character-before-another-class");
				}
				if u.chars().any(|c| jtext::STAND_INS.iter().any(|(p, _)| *p == c)) {
					out.insert("mapped-mention:lone-surrogate");
				}
				if desc.contains(&format!("{}L{u};", "[".repeat(255))) {
					out.insert("mapped-mention:255-array-dimensions");
				}
				if mentioned.len() == 255 {
					out.insert("mapped-mention:255-parameters");
				}
				if u.starts_with("java/") {
					out.insert("mapped-mention:java-package");
				}
				if u == "java/lang/Object" {
					out.insert("mapped-mention:java-lang-object");
				}
				if new.starts_with("java/") {
					out.insert("mapped-mention:new-name-in-java-package");
				}
				if u.len() == 1 && "BCDFIJSZVL".contains(u.as_str()) {
					out.insert("mapped-mention:named-like-a-descriptor-letter");
				}
				if !u.is_ascii() && at + 1 < mentioned.len() {
					out.insert("mapped-mention:non-ascii-before-another-class");
				}
				let simple_name = u.rsplit('/').next().unwrap_or(u);
				if simple.insert(simple_name, u.as_str()).is_some_and(|other| other != u.as_str()) {
					out.insert("mapped-mention:one-simple-name-in-two-packages");
				}
				if let Some((_, inner_name)) = u.rsplit_once('$') {
					if !inner_name.is_empty() && inner.insert(inner_name, u.as_str()).is_some_and(|other| other != u.as_str()) {
						out.insert("mapped-mention:one-inner-name-in-two-outer-classes");
					}
				}
			}
		}
		let mut index_rows: BTreeMap<usize, BTreeSet<&Row>> = BTreeMap::new();
		for m in c.methods.values() {
			for (i, p) in &m.params {
				index_rows.entry(*i).or_default().insert(&p.names);
			}
		}
		if index_rows.values().any(|rows| rows.len() > 1) {
			out.insert("shared:parameter-index-in-two-methods");
		}
		if index_rows.keys().any(|i| *i > 65535) {
			out.insert("odd:parameter-index-above-65535");
		}
		if index_rows.contains_key(&usize::MAX) {
			out.insert("odd:largest-parameter-index");
		}
		// (in the order of the keys, which is the order the real object is built in)
		let with_parameters: Vec<bool> = c.methods.values().map(|m| !m.params.is_empty()).collect();
		if with_parameters.windows(2).any(|w| w[0] && !w[1]) {
			out.insert("placement:method-without-parameters-after-one-with");
		}
	}
	let with_members: Vec<bool> = s.classes.values().map(|c| !c.fields.is_empty() || !c.methods.is_empty()).collect();
	if with_members.windows(2).any(|w| w[0] && !w[1]) {
		out.insert("placement:class-without-members-after-one-with");
	}
	if key_rows.values().any(|rows| rows.len() > 1) {
		out.insert("shared:member-key-in-two-classes");
	}
	out
}

/// every feature `features` can report; each must be seen on a judged, successful reorder
const FEATURES: [&str; 32] = [
	"descriptor-changes:member-keeps-its-name",
	"descriptor-changes:owner-keeps-its-name",
	"mapped-mention:255-array-dimensions",
	"mapped-mention:255-parameters",
	"mapped-mention:four-byte-character-before-another-class",
	"mapped-mention:lone-surrogate",
	"mapped-mention:name-starts-with-the-tag-letter",
	"mapped-mention:parentheses-inside-the-name",
	"mapped-mention:three-byte-character-before-another-class",
	"mapped-mention:trailing-dollar",
	"odd:largest-parameter-index",
	"odd:member-called-like-a-class-of-the-set",
	"odd:method-name-with-a-parenthesis",
	"odd:parameter-index-above-65535",
	"placement:class-without-members-after-one-with",
	"placement:method-without-parameters-after-one-with",
	"unmapped-mention:lone-surrogate",
	"unmapped-mention:trailing-dollar",
	"mapped-mention:java-lang-object",
	"mapped-mention:java-package",
	"mapped-mention:named-like-a-descriptor-letter",
	"mapped-mention:new-name-in-java-package",
	"mapped-mention:non-ascii-before-another-class",
	"mapped-mention:one-inner-name-in-two-outer-classes",
	"mapped-mention:one-name-in-both-namespaces",
	"mapped-mention:one-simple-name-in-two-packages",
	"rekey:class-takes-the-old-key-of-another-class",
	"rekey:member-takes-the-old-key-of-a-sibling",
	"shared:member-key-in-two-classes",
	"shared:parameter-index-in-two-methods",
	"unmapped-mention:java-package",
	"wide-class",
];

/// names the first place where the real result differs from the expected one
fn classify(e: &MSet, a: &MSet) -> (String, String) {
	if e.ns != a.ns {
		return ("namespaces".into(), format!("expected namespaces {:?}, got {:?}", e.ns, a.ns));
	}
	if e.doc != a.doc {
		return ("mappings.comment".into(), format!("expected comment {:?}, got {:?}", e.doc, a.doc));
	}
	if e.classes.len() != a.classes.len() {
		return ("class.count".into(), format!("expected {} classes, got {}", e.classes.len(), a.classes.len()));
	}
	if !e.classes.keys().eq(a.classes.keys()) {
		return ("class.names".into(), format!("expected class keys {:?}, got {:?}", e.classes.keys().collect::<Vec<_>>(), a.classes.keys().collect::<Vec<_>>()));
	}
	for (k, ec) in &e.classes {
		let ac = &a.classes[k];
		if ec.names != ac.names {
			return ("class.names".into(), format!("class {k:?}: expected names {:?}, got {:?}", ec.names, ac.names));
		}
		if ec.doc != ac.doc {
			return ("class.comment".into(), format!("class {k:?}: expected comment {:?}, got {:?}", ec.doc, ac.doc));
		}
		if !ec.fields.keys().eq(ac.fields.keys()) {
			let what = format!("class {k:?}: expected field keys {:?}, got {:?}", ec.fields.keys().collect::<Vec<_>>(), ac.fields.keys().collect::<Vec<_>>());
			let en: BTreeSet<&Row> = ec.fields.values().map(|f| &f.names).collect();
			let an: BTreeSet<&Row> = ac.fields.values().map(|f| &f.names).collect();
			let key = if ec.fields.len() != ac.fields.len() { "field.count" } else if en == an { "field.descriptor" } else { "field.names" };
			return (key.into(), what);
		}
		if !ec.methods.keys().eq(ac.methods.keys()) {
			let what = format!("class {k:?}: expected method keys {:?}, got {:?}", ec.methods.keys().collect::<Vec<_>>(), ac.methods.keys().collect::<Vec<_>>());
			let en: BTreeSet<&Row> = ec.methods.values().map(|m| &m.names).collect();
			let an: BTreeSet<&Row> = ac.methods.values().map(|m| &m.names).collect();
			let key = if ec.methods.len() != ac.methods.len() { "method.count" } else if en == an { "method.descriptor" } else { "method.names" };
			return (key.into(), what);
		}
		for (fk, ef) in &ec.fields {
			let af = &ac.fields[fk];
			if ef.names != af.names {
				return ("field.names".into(), format!("field {fk:?} of {k:?}: expected names {:?}, got {:?}", ef.names, af.names));
			}
			if ef.doc != af.doc {
				return ("field.comment".into(), format!("field {fk:?} of {k:?}: expected comment {:?}, got {:?}", ef.doc, af.doc));
			}
		}
		for (mk, em) in &ec.methods {
			let am = &ac.methods[mk];
			if em.names != am.names {
				return ("method.names".into(), format!("method {mk:?} of {k:?}: expected names {:?}, got {:?}", em.names, am.names));
			}
			if em.doc != am.doc {
				return ("method.comment".into(), format!("method {mk:?} of {k:?}: expected comment {:?}, got {:?}", em.doc, am.doc));
			}
			if !em.params.keys().eq(am.params.keys()) {
				return ("parameter.index".into(), format!("method {mk:?} of {k:?}: expected parameter indices {:?}, got {:?}", em.params.keys().collect::<Vec<_>>(), am.params.keys().collect::<Vec<_>>()));
			}
			for (pk, ep) in &em.params {
				let ap = &am.params[pk];
				if ep.names != ap.names {
					return ("parameter.names".into(), format!("parameter {pk} of {mk:?} of {k:?}: expected names {:?}, got {:?}", ep.names, ap.names));
				}
				if ep.doc != ap.doc {
					return ("parameter.comment".into(), format!("parameter {pk} of {mk:?} of {k:?}: expected comment {:?}, got {:?}", ep.doc, ap.doc));
				}
			}
		}
	}
	("other".into(), "sets differ".into())
}

// ---------------------------------------------------------------------------------------------
// universes

/// where the initial sets of a universe come from
enum Source {
	/// the product of the class variants (`mapmodel::gen`)
	Product(Space),
	/// `len` sets made one by one from their index (the index means the same in both tiers)
	Listed { len: u64, make: Box<dyn Fn(u64) -> MSet + Send + Sync>, what: String },
}

struct Uni {
	label: String,
	n: usize,
	source: Source,
	top_doc: Option<String>,
	gens: Vec<Perm>,
	words: BTreeMap<Perm, Vec<u8>>,
}

impl Uni {
	fn new(label: &str, n: usize, classes: Vec<ClassU>, top_doc: Option<&str>) -> Uni {
		Uni::with_namespaces(label, &["official", "intermediary", "named", "extra"][..n], classes, top_doc)
	}
	fn with_namespaces(label: &str, ns: &[&str], classes: Vec<ClassU>, top_doc: Option<&str>) -> Uni {
		let ns: Vec<String> = ns.iter().map(|s| s.to_string()).collect();
		Uni::with_space(label, Space::new(&gen::Universe { ns, classes }), top_doc)
	}
	/// a space whose class variants were listed by hand (`Space`'s fields are public); the
	/// generating set is the basic one until `extend_generators` is called
	fn with_space(label: &str, space: Space, top_doc: Option<&str>) -> Uni {
		let n = space.ns.len();
		let gens = generators(n, false);
		let words = shortest_words(n, &gens);
		Uni { label: format!("{label}/N={n}"), n, source: Source::Product(space), top_doc: top_doc.map(|s| s.to_owned()), gens, words }
	}
	/// sets made one by one (they bring their own comment of the whole set)
	fn listed(label: &str, n: usize, len: u64, what: &str, make: Box<dyn Fn(u64) -> MSet + Send + Sync>) -> Uni {
		let gens = generators(n, false);
		let words = shortest_words(n, &gens);
		Uni { label: format!("{label}/N={n}"), n, source: Source::Listed { len, make, what: what.to_owned() }, top_doc: None, gens, words }
	}
	fn extend_generators(&mut self) {
		self.gens = generators(self.n, true);
		self.words = shortest_words(self.n, &self.gens);
	}
	fn len(&self) -> u64 {
		match &self.source {
			Source::Product(space) => space.len(),
			Source::Listed { len, .. } => *len,
		}
	}
	fn init(&self, idx: u64) -> MSet {
		match &self.source {
			Source::Product(space) => {
				let mut s = space.nth(idx);
				s.doc = self.top_doc.clone();
				s
			},
			Source::Listed { make, .. } => make(idx),
		}
	}
	/// the short label (without the namespace count)
	fn family(&self) -> &str {
		self.label.split('/').next().unwrap_or("")
	}
	fn describe(&self) -> Value {
		match &self.source {
			Source::Product(space) => json!({"label": self.label, "initial_sets": self.len(), "class_variants": space.dims(), "generators": self.gens}),
			Source::Listed { len, what, .. } => json!({"label": self.label, "initial_sets": len, "listed": what, "generators": self.gens}),
		}
	}
}

/// the one tail (namespaces 1..n) in which namespace j has the name `f(j)`
fn tail_full(n: usize, f: &dyn Fn(usize) -> String) -> Row {
	(1..n).map(|j| Some(f(j))).collect()
}

/// every tail in which each namespace 1..n has the name `f(j)` or none
fn tails_all(n: usize, f: &dyn Fn(usize) -> String) -> Vec<Row> {
	(0..(1u32 << (n - 1))).map(|mask| (1..n).map(|j| if mask & (1 << (j - 1)) != 0 { None } else { Some(f(j)) }).collect()).collect()
}

/// every full row (namespaces 0..n) in which each namespace has the name `f(j)` or none
fn rows_all(n: usize, f: &dyn Fn(usize) -> String) -> Vec<Row> {
	(0..(1u32 << n)).map(|mask| (0..n).map(|j| if mask & (1 << j) != 0 { None } else { Some(f(j)) }).collect()).collect()
}

fn with_cell(mut r: Row, ns: usize, name: &str) -> Row {
	// `r` is a tail: namespace `ns` (≥1) is cell `ns-1`
	r[ns - 1] = Some(name.to_owned());
	r
}

/// drops repeated rows (two variants coincide when there are only two namespaces)
fn uniq(rows: Vec<Row>) -> Vec<Row> {
	let mut out: Vec<Row> = Vec::new();
	for r in rows {
		if !out.contains(&r) {
			out.push(r);
		}
	}
	out
}

fn no_doc() -> Vec<Option<String>> {
	gen::docs(&[None])
}

fn field(name: &str, desc: &str, rows: Vec<Row>, docs: Vec<Option<String>>) -> FieldU {
	FieldU { name: name.into(), desc: desc.into(), rows: uniq(rows), docs }
}

fn method(name: &str, desc: &str, rows: Vec<Row>, docs: Vec<Option<String>>, params: Vec<ParamU>) -> MethodU {
	MethodU { name: name.into(), desc: desc.into(), rows: uniq(rows), docs, params }
}

fn class(key: &str, optional: bool, rows: Vec<Row>, docs: Vec<Option<String>>, fields: Vec<FieldU>, methods: Vec<MethodU>) -> ClassU {
	ClassU { key: key.into(), rows: uniq(rows), docs, fields, methods, optional }
}

fn universes(n: usize, long_k: usize) -> Vec<Uni> {
	let mut out = Vec::new();
	let a = |j: usize| format!("a{j}");
	let ab = |j: usize| format!("a{j}$b{j}");
	let b = |j: usize| format!("b{j}");
	let pc = |j: usize| format!("q{j}/c{j}");
	let nm = |base: &'static str| move |j: usize| format!("{base}{j}");

	// (a) partial rows at every level: every subset of names missing, for a class, a field, a method
	//     and a parameter; descriptors mention the class itself and an inner class that may be absent
	out.push(Uni::new("rows", n, vec![
		class("A", false, tails_all(n, &a), no_doc(),
			vec![field("f", "LA$B;", tails_all(n, &nm("f")), no_doc())],
			vec![method("m", "(LA;)[LA$B;", tails_all(n, &nm("m")), no_doc(), vec![ParamU { index: 0, rows: rows_all(n, &nm("p")), docs: no_doc() }])]),
		class("A$B", true, tails_all(n, &ab), no_doc(), vec![], vec![]),
	], None));

	// (b) descriptor shapes: mapped / unmapped (class absent or never an entry) / array / inner /
	//     packaged classes; names that are swapped between two classes across namespaces
	out.push(Uni::new("descriptors", n, vec![
		class("A", true, vec![tail_full(n, &a), with_cell(tail_full(n, &a), 1, "B")], no_doc(),
			vec![
				field("f", "LA;", vec![tail_full(n, &nm("f"))], no_doc()),
				field("g", "[[LA$B;", vec![tail_full(n, &nm("g"))], no_doc()),
			],
			vec![
				method("m", "(LA;[Lp/C;I)LA$B;", vec![tail_full(n, &nm("m"))], no_doc(), vec![ParamU { index: 1, rows: vec![(0..n).map(|j| Some(format!("arg{j}"))).collect()], docs: no_doc() }]),
				method("k", "(Ljava/lang/Object;LB;J)[LA;", vec![tail_full(n, &nm("k"))], no_doc(), vec![]),
			]),
		class("A$B", true, vec![tail_full(n, &ab), with_cell(tail_full(n, &ab), 1, "z1")], no_doc(),
			vec![field("f", "Lp/C;", vec![tail_full(n, &nm("f"))], no_doc())],
			vec![]),
		class("B", true, vec![tail_full(n, &b), with_cell(tail_full(n, &b), 1, "A")], no_doc(),
			vec![field("f", "[LB;", vec![tail_full(n, &nm("f"))], no_doc())],
			vec![method("<init>", "(LA$B;D)V", vec![tail_full(n, &|_| "<init>".to_owned())], no_doc(), vec![])]),
		class("p/C", true, vec![tail_full(n, &pc)], no_doc(),
			vec![field("f", "[I", vec![tail_full(n, &nm("f"))], no_doc())],
			vec![method("m", "(Lp/C;Lp/C;)Lp/C;", vec![tail_full(n, &nm("m"))], no_doc(), vec![])]),
	], None));

	// (a') three classes with partial rows whose members mention each other: the class a descriptor
	//      mentions may lack the name the owner has (N = 4: the members' rows are thinned out)
	let member_rows = |f: &dyn Fn(usize) -> String| -> Vec<Row> {
		if n < 4 {
			tails_all(n, f)
		} else {
			let full = tail_full(n, f);
			let mut no_first = full.clone();
			no_first[0] = None;
			let mut no_last = full.clone();
			no_last[n - 2] = None;
			vec![full, no_first, no_last, vec![None; n - 1]]
		}
	};
	out.push(Uni::new("cross", n, vec![
		class("A", true, tails_all(n, &a), no_doc(), vec![field("f", "[LA$B;", member_rows(&nm("f")), no_doc())], vec![]),
		class("A$B", true, tails_all(n, &ab), no_doc(), vec![], vec![method("m", "(Lp/C;I)LA;", member_rows(&nm("m")), no_doc(), vec![])]),
		class("p/C", true, tails_all(n, &pc), no_doc(), vec![field("f", "Lp/C;", member_rows(&nm("f")), no_doc())], vec![]),
	], None));

	// (c) entries that get the same key in some namespace
	let last = n - 1;
	out.push(Uni::new("collisions", n, vec![
		class("A", false, vec![tail_full(n, &a)], no_doc(),
			vec![
				field("f", "LA;", vec![tail_full(n, &nm("g"))], no_doc()),
				field("h", "LA;", vec![tail_full(n, &nm("h")), with_cell(tail_full(n, &nm("h")), 1, "g1"), with_cell(tail_full(n, &nm("h")), last, &format!("g{last}"))], no_doc()),
				field("i", "[LA;", vec![with_cell(tail_full(n, &nm("i")), 1, "g1")], no_doc()),
			],
			vec![
				method("m", "(LB;)V", vec![tail_full(n, &nm("n"))], no_doc(), vec![]),
				method("o", "(LB;)V", vec![tail_full(n, &nm("o")), with_cell(tail_full(n, &nm("o")), 1, "n1"), with_cell(tail_full(n, &nm("o")), last, &format!("n{last}"))], no_doc(), vec![]),
			]),
		class("B", true, vec![tail_full(n, &b), with_cell(tail_full(n, &b), 1, "a1"), with_cell(tail_full(n, &b), last, &format!("a{last}"))], no_doc(), vec![], vec![]),
	], None));

	// (d) comments at every level, parameters with and without names, parameter indices; the set without any class
	//     has a comment of its own too
	let mut last_only: Row = vec![None; n];
	last_only[n - 1] = Some("q".to_owned());
	let mut first_only: Row = vec![None; n];
	first_only[0] = Some("p".to_owned());
	let cls_doc = gen::docs(&[None, Some("class comment"), Some("two\nlines \\n ü")]);
	out.push(Uni::new("comments", n, vec![
		class("p/C", true, vec![tail_full(n, &pc), { let mut t = tail_full(n, &pc); t[n - 2] = None; t }], cls_doc,
			vec![field("f", "Lp/C;", vec![tail_full(n, &nm("f"))], gen::docs(&[None, Some("field comment")]))],
			vec![method("m", "(ILp/C;)V", vec![tail_full(n, &nm("m"))], gen::docs(&[None, Some("method comment")]), vec![
				ParamU { index: 0, rows: vec![vec![None; n], first_only, (0..n).map(|j| Some(format!("p{j}"))).collect()], docs: gen::docs(&[None, Some("parameter comment")]) },
				ParamU { index: 1, rows: vec![last_only], docs: gen::docs(&[None, Some("")]) },
				ParamU { index: 7, rows: vec![(0..n).map(|j| Some(format!("r{j}"))).collect()], docs: no_doc() },
			])]),
	], Some("comment of the whole set")));

	// (e) sets for which the statement's expectation is not defined (see `Domain`): no panic only
	out.push(Uni::new("edge", n, vec![
		class("A", false, vec![with_cell(tail_full(n, &a), 1, "B")], no_doc(),
			vec![
				field("f", "LB;", vec![tail_full(n, &nm("f"))], no_doc()),
				field("g", "LA$Q;", vec![tail_full(n, &nm("g"))], no_doc()),
			],
			vec![method("m", "([LB;)LA$Q;", tails_all(n, &nm("m")), no_doc(), vec![])]),
		class("B", true, vec![tail_full(n, &b)], no_doc(), vec![], vec![]),
	], None));

	// (f) shapes of class names: the set itself maps classes that live in a `java/` package (old-first
	//     and new-first side), a class called like the descriptor tag `L` whose other names contain
	//     descriptor letters, a non-ASCII name in front of other classes of the same descriptor, two
	//     classes with one simple name in different packages, a class with one name in every namespace;
	//     the owner and the members may have one name in every namespace while the descriptor changes
	let same = |s: &'static str| move |_: usize| s.to_owned();
	let l_names = ["L", "LI", "IL", "V/L"];
	let name_classes = |which: &[&str]| -> Vec<ClassU> {
		let mut v = vec![
			class("java/lang/Shim", true, vec![tail_full(n, &nm("x")), with_cell(tail_full(n, &nm("x")), 1, "java/util/Shim")], no_doc(), vec![], vec![]),
			class("java/lang/Object", true, vec![tail_full(n, &nm("o")), tail_full(n, &same("java/lang/Object"))], no_doc(), vec![], vec![]),
			class("L", true, vec![tail_full(n, &|j| l_names[j].to_owned())], no_doc(), vec![], vec![]),
			class("é/Ü", true, vec![tail_full(n, &|j| format!("ü{j}/É"))], no_doc(), vec![], vec![]),
			class("p/C", true, vec![tail_full(n, &|j| format!("r{j}/D"))], no_doc(), vec![], vec![]),
			class("q/C", true, vec![tail_full(n, &|j| format!("s{j}/D"))], no_doc(), vec![], vec![]),
		];
		v.retain(|c| which.contains(&c.key.as_str()));
		v
	};
	let holder = |field_f: &str, field_g: &str, method_m: &str| -> ClassU {
		class("H", false, vec![tail_full(n, &nm("h")), tail_full(n, &same("H"))], no_doc(),
			vec![
				field("f", field_f, vec![tail_full(n, &nm("f")), tail_full(n, &same("f"))], no_doc()),
				field("g", field_g, vec![tail_full(n, &nm("g"))], no_doc()),
			],
			vec![
				method("m", method_m, vec![tail_full(n, &nm("m")), tail_full(n, &same("m"))], no_doc(), vec![]),
				method("z", "()V", vec![tail_full(n, &nm("z"))], no_doc(), vec![]),
			])
	};
	// JDK-like and letter-like names
	let mut classes = vec![holder("[Ljava/lang/Shim;", "LL;", "(LL;Ljava/lang/String;[Ljava/lang/Object;)Ljava/lang/Shim;")];
	classes.extend(name_classes(&["java/lang/Shim", "java/lang/Object", "L"]));
	out.push(Uni::new("names-jdk", n, classes, None));
	// non-ASCII names and namesakes in two packages
	let mut classes = vec![holder("[Lq/C;", "Lé/Ü;", "([[Lé/Ü;Lp/C;ILq/C;)Lé/Ü;")];
	classes.extend(name_classes(&["é/Ü", "p/C", "q/C"]));
	out.push(Uni::new("names-unicode", n, classes, None));
	// all of them together
	let mut classes = vec![holder("[Ljava/lang/Shim;", "LL;", "(LL;[[Lé/Ü;Lp/C;ILq/C;Ljava/lang/String;Ljava/lang/Object;)Ljava/lang/Shim;")];
	classes.extend(name_classes(&["java/lang/Shim", "java/lang/Object", "L", "é/Ü", "p/C", "q/C"]));
	out.push(Uni::new("names-all", n, classes, None));

	// (g) members that differ in the descriptor only (overloads), with one name in every namespace,
	//     while the classes they mention swap names: the new key of one entry is the old key of its
	//     sibling; the same member key in two classes with different rows
	out.push(Uni::new("overloads", n, vec![
		class("A", true, vec![tail_full(n, &a), with_cell(tail_full(n, &a), 1, "B")], no_doc(),
			vec![field("f", "LA;", vec![tail_full(n, &nm("fa"))], no_doc())], vec![]),
		class("B", true, vec![tail_full(n, &b), with_cell(tail_full(n, &b), 1, "A")], no_doc(), vec![], vec![]),
		class("H", false, vec![tail_full(n, &same("H"))], no_doc(),
			vec![
				field("f", "LA;", vec![tail_full(n, &same("f")), tail_full(n, &nm("g"))], no_doc()),
				field("f", "LB;", vec![tail_full(n, &same("f")), tail_full(n, &nm("k"))], no_doc()),
			],
			vec![
				method("m", "(LA;)V", vec![tail_full(n, &same("m")), tail_full(n, &nm("n"))], no_doc(), vec![]),
				method("m", "(LB;)V", vec![tail_full(n, &same("m")), tail_full(n, &nm("o"))], no_doc(), vec![]),
			]),
	], None));

	// (h) the same member keys and parameter indices in two classes and in two methods of one class,
	//     with different rows and comments (nothing may be taken from the namesake)
	let shared_class = |key: &'static str, t: &'static str| -> ClassU {
		let r = move |base: &'static str| move |j: usize| format!("{base}{t}{j}");
		class(key, true, vec![tail_full(n, &r("c"))], no_doc(),
			vec![field("f", "I", vec![tail_full(n, &r("f"))], gen::docs(&[Some(t)]))],
			vec![
				method("m", "(I)V", vec![tail_full(n, &r("m"))], gen::docs(&[Some(t)]), vec![
					ParamU { index: 0, rows: vec![(0..n).map(|j| Some(format!("p{t}{j}"))).collect()], docs: gen::docs(&[Some(t)]) },
				]),
				method("n", "(I)V", vec![tail_full(n, &r("n"))], no_doc(), vec![
					ParamU { index: 0, rows: vec![(0..n).map(|j| Some(format!("q{t}{j}"))).collect()], docs: no_doc() },
				]),
			])
	};
	out.push(Uni::new("shared", n, vec![shared_class("A", "a"), shared_class("B", "b")], None));

	// (i) a class with a dozen fields and methods (three parameters each); one member at a time lacks
	//     its name in the last namespace, or gets the key of another one there
	out.push(Uni::with_space("wide", wide_space(n), Some(" \twide\n")));

	// (j) namespace names that are prefixes and case variants of each other; that are suffixes of each other; that differ
	//     in blanks around them only (a namespace is found by its exact name)
	for (label, names) in [("ns-names", ["ab", "a", "AB", "abc"]), ("ns-names-suffix", ["xa", "a", "Xa", "bxa"]), ("ns-names-blank", [" a", "a", "a ", " a "])] {
		out.push(Uni::with_namespaces(label, &names[..n], vec![
			class("A", false, tails_all(n, &a), no_doc(),
				vec![field("f", "[LA;", vec![tail_full(n, &nm("f"))], no_doc())],
				vec![method("m", "(LA;)LA;", vec![tail_full(n, &nm("m"))], no_doc(), vec![ParamU { index: 2, rows: rows_all(n, &nm("p")), docs: no_doc() }])]),
		], None));
	}

	// (k) members and classes called like the names other parts of the tool chain treat specially (constructors, static
	//     initialisers, the placeholder names of the dummy filters): every subset of their names missing — a reorder
	//     has no rule of its own for them: a missing name in the new first namespace is refused, nothing is filled in
	let same_m = |s: &'static str| move |_: usize| s.to_owned();
	out.push(Uni::new("special-names", n, vec![
		class("A", false, vec![tail_full(n, &a)], no_doc(),
			vec![field("f_1", "LA;", member_rows(&same_m("f_1")), no_doc())],
			vec![
				method("<init>", "(LA;)V", member_rows(&same_m("<init>")), no_doc(), vec![ParamU { index: 1, rows: vec![vec![None; n], (0..n).map(|_| Some("p_1".to_owned())).collect()], docs: no_doc() }]),
				method("<clinit>", "()V", member_rows(&same_m("<clinit>")), no_doc(), vec![]),
				method("m_1", "()LA;", vec![tail_full(n, &same_m("m_1")), vec![None; n - 1]], no_doc(), vec![]),
			]),
		class("C_1", true, vec![tail_full(n, &same_m("C_1")), vec![None; n - 1]], no_doc(), vec![], vec![]),
	], None));

	// (l) odd but legal values (hand-listed): see `odd_space`
	out.push(Uni::with_space("odd-values", odd_space(n), None));

	// (m) names that are not UTF-8: lone surrogates (written as stand-ins inside the model, see c08/jtext.rs) in class,
	//     field, method and parameter names and inside descriptors; two mapped classes and one unmapped class differ
	//     in the surrogate only
	let hi = jtext::STAND_INS[0].0;
	let hi_last = jtext::STAND_INS[1].0;
	let lo = jtext::STAND_INS[2].0;
	let lo_last = jtext::STAND_INS[3].0;
	out.push(Uni::new("surrogates", n, vec![
		class(&format!("s{hi}"), true, vec![tail_full(n, &|j| format!("t{j}{hi}")), tail_full(n, &|j| format!("{lo}t{j}"))], no_doc(), vec![], vec![]),
		class(&format!("s{lo}"), true, vec![tail_full(n, &|j| format!("t{j}{lo}"))], no_doc(), vec![], vec![]),
		class(&format!("H{lo_last}"), false, vec![tail_full(n, &|j| format!("h{j}{lo_last}")), tail_full(n, &|_| format!("H{lo_last}"))], no_doc(),
			vec![
				field(&format!("f{hi}"), &format!("Ls{hi};"), vec![tail_full(n, &|j| format!("f{j}{lo}"))], no_doc()),
				field("g", &format!("[Ls{lo};"), vec![tail_full(n, &nm("g"))], no_doc()),
			],
			vec![method(&format!("m{hi_last}"), &format!("(Ls{hi};Ls{hi_last};Ls{lo};)Lu{lo_last}v;"), vec![tail_full(n, &|j| format!("m{j}{hi_last}")), tail_full(n, &|_| format!("m{hi_last}"))], no_doc(),
				vec![ParamU { index: 0, rows: vec![(0..n).map(|j| Some(format!("p{j}{lo_last}"))).collect(), (0..n).map(|j| if j == 0 { None } else { Some(format!("{hi}p{j}")) }).collect()], docs: no_doc() }])]),
	], None));

	// (n) placement: in two classes every arrangement of a field, a method without and with a parameter, a second method
	//     without and with parameters; a third class without members before / after them (nothing of one entry may show
	//     up in its neighbour, whatever is built first)
	let placed = |key: &'static str, t: &'static str| -> ClassU {
		let r = move |base: &'static str| move |j: usize| format!("{base}{t}{j}");
		class(key, true, vec![tail_full(n, &r("c"))], no_doc(),
			vec![field("f", "I", vec![tail_full(n, &r("f"))], no_doc())],
			vec![
				method("m1", "()V", vec![tail_full(n, &r("m"))], no_doc(), vec![ParamU { index: 0, rows: vec![(0..n).map(|j| Some(format!("p{t}{j}"))).collect()], docs: no_doc() }]),
				method("m2", "(IJ)V", vec![tail_full(n, &r("n"))], no_doc(), vec![ParamU { index: 1, rows: vec![(0..n).map(|j| Some(format!("q{t}{j}"))).collect()], docs: gen::docs(&[Some(t)]) }]),
			])
	};
	out.push(Uni::new("placement", n, vec![
		placed("K1", "a"),
		placed("K3", "b"),
		class("K2", true, vec![tail_full(n, &nm("k"))], gen::docs(&[Some("between")]), vec![], vec![]),
		class("K4", true, vec![tail_full(n, &nm("l"))], no_doc(), vec![], vec![]),
	], None));

	// (o) long texts with a last character of 1, 2, 3 and 4 bytes at every length, in accepted and in refused sets
	if n >= 3 {
		out.push(long_text_universe(n, long_k));
	}
	out
}

/// lengths of the ASCII run in front of the last character of the long texts: 0..=this
const LONG_K_QUICK: usize = 300;
const LONG_K_THOROUGH: usize = 600;
const LONG_CHARS: [char; 4] = ['a', 'é', '€', '😀'];
const LONG_SITUATIONS: [&str; 7] = ["accepted", "class-without-name", "field-without-name", "method-without-name", "class-collision", "field-collision", "method-collision"];

/// Universe (o). The text T = k times `x` and one character of 1 / 2 / 3 / 4 bytes is the name of the second namespace
/// (`i` + T), the name of a class (`q/` + T), of a field, of a method and of a parameter there, every comment, and the
/// name of an unmapped class (`u/` + T) that two descriptors mention. Situations: everything has every name; the class /
/// the field / the method has no name in the last namespace (making it the first one must fail: the message shows the
/// row); a second class / field / method has the same name T in the second namespace (making that the first one must
/// fail: the message shows the key). A message that is cut, padded or quoted at a byte position meets every position of
/// the last character up to `k_max` + the length of what stands in front.
fn long_text_universe(n: usize, k_max: usize) -> Uni {
	let len = ((k_max + 1) * LONG_CHARS.len() * LONG_SITUATIONS.len()) as u64;
	let what = format!("index = (k * {} + character) * {} + situation; k in 0..={k_max}; characters {:?}; situations {:?}", LONG_CHARS.len(), LONG_SITUATIONS.len(), LONG_CHARS, LONG_SITUATIONS);
	Uni::listed("long-text", n, len, &what, Box::new(move |idx| long_text_set(n, idx)))
}

fn long_text_parts(idx: u64) -> (usize, char, usize) {
	let sit = (idx % LONG_SITUATIONS.len() as u64) as usize;
	let rest = idx / LONG_SITUATIONS.len() as u64;
	(( rest / LONG_CHARS.len() as u64) as usize, LONG_CHARS[(rest % LONG_CHARS.len() as u64) as usize], sit)
}

fn long_text_set(n: usize, idx: u64) -> MSet {
	let (k, ch, sit) = long_text_parts(idx);
	let t = format!("{}{ch}", "x".repeat(k));
	let last = n - 1;
	// T in the second namespace, short names elsewhere; `hole`: no name in the last namespace
	let row = |first: &str, hole: bool, prefix: &str| -> Row {
		(0..n).map(|j| match j {
			0 => Some(first.to_owned()),
			1 => Some(format!("{prefix}{t}")),
			_ if j == last && hole => None,
			_ => Some(format!("{first}{j}")),
		}).collect()
	};
	let mut ns: Vec<String> = ["official", "intermediary", "named", "extra"][..n].iter().map(|s| s.to_string()).collect();
	ns[1] = format!("i{t}");
	let doc = Some(t.clone());
	let method_desc = format!("(Lp/K;Lu/{t};)V");
	let mut k_class = MClass { names: row("p/K", sit == 1, "q/"), doc: doc.clone(), fields: BTreeMap::new(), methods: BTreeMap::new() };
	k_class.fields.insert(("f".to_owned(), "Lp/K;".to_owned()), MField { names: row("f", sit == 2, ""), doc: doc.clone() });
	k_class.fields.insert(("g".to_owned(), format!("[Lu/{t};")), MField { names: (0..n).map(|j| Some(if j == 0 { "g".to_owned() } else { format!("g{j}") })).collect(), doc: None });
	let mut params = BTreeMap::new();
	params.insert(0, MParam { names: (0..n).map(|j| match j { 0 => None, 1 => Some(t.clone()), _ => Some(format!("p{j}")) }).collect(), doc: doc.clone() });
	params.insert(1, MParam { names: vec![None; n], doc: doc.clone() });
	k_class.methods.insert(("m".to_owned(), method_desc.clone()), MMethod { names: row("m", sit == 3, ""), doc: doc.clone(), params });
	if sit == 5 {
		k_class.fields.insert(("h".to_owned(), "Lp/K;".to_owned()), MField { names: row("h", false, ""), doc: None });
	}
	if sit == 6 {
		k_class.methods.insert(("o".to_owned(), method_desc), MMethod { names: row("o", false, ""), doc: None, params: BTreeMap::new() });
	}
	let mut set = MSet { ns, doc, classes: BTreeMap::new() };
	set.classes.insert("p/K".to_owned(), k_class);
	if sit == 4 {
		set.classes.insert("p/M".to_owned(), MClass { names: row("p/M", false, "q/"), doc: None, fields: BTreeMap::new(), methods: BTreeMap::new() });
	}
	set
}

/// Universe (l), hand-listed: classes called `A$` (trailing dollar), `Long` (its descriptor `LLong;` starts with two tag
/// letters), `x()V` (parentheses and a return letter inside a name), a name of 3-byte and one of 4-byte characters —
/// each with or without an entry (mapped / unmapped); descriptors with 255 array dimensions and with 255 parameters of a
/// mapped class; unmapped classes `B$` and `A$$`; a field, a method and parameters called like a class of the set; a
/// method called `m(`; parameter indices 255, 256, 65535, 65536, 2^32 and the largest one; two inner classes with one
/// simple name in two outer classes (`O1$I`, `O2$I`); an unmapped class `long` next to the mapped `Long`; names with
/// blanks in front and behind.
fn odd_space(n: usize) -> Space {
	let ns: Vec<String> = ["official", "intermediary", "named", "extra"][..n].iter().map(|s| s.to_string()).collect();
	let full = |f: &dyn Fn(usize) -> String| -> Row { (0..n).map(|j| Some(f(j))).collect() };
	let entry = |key: &str, f: &dyn Fn(usize) -> String| -> Vec<Option<MClass>> {
		let key = key.to_owned();
		vec![None, Some(MClass { names: full(&|j| if j == 0 { key.clone() } else { f(j) }), doc: None, fields: BTreeMap::new(), methods: BTreeMap::new() })]
	};
	let l_names = ["Long", "LLong", "Lo", "LL"];
	let keys: Vec<String> = ["A$", "Long", "x()V", "€/Ω€", "😀", "O1$I", "O2$I", "H"].iter().map(|s| s.to_string()).collect();
	let mut variants = vec![
		entry("A$", &|j| format!("a{j}$")),
		entry("Long", &|j| l_names[j].to_owned()),
		entry("x()V", &|j| format!(" y{j}()V ")),
		entry("€/Ω€", &|j| format!("€{j}/€")),
		entry("😀", &|j| format!("😀{j}😀")),
		entry("O1$I", &|j| format!("o{j}$I")),
		entry("O2$I", &|j| format!("r{j}$I")),
	];
	let indices: [usize; 6] = [255, 256, 65535, 65536, 1 << 32, usize::MAX];
	let mut holders = Vec::new();
	for holder_same in [false, true] {
		for members_same in [false, true] {
			let member = |name: &str, base: &str| -> Row { full(&|j| if j == 0 || members_same { name.to_owned() } else { format!("{base}{j}") }) };
			let mut h = MClass { names: full(&|j| if j == 0 || holder_same { "H".to_owned() } else { format!("h{j}") }), doc: None, fields: BTreeMap::new(), methods: BTreeMap::new() };
			for (name, desc, base) in [
				("Long", "LLong;".to_owned(), "f"),
				("d255", format!("{}LA$;", "[".repeat(255)), "d"),
				("u", "[LB$;".to_owned(), "u"),
				("v", "LA$$;".to_owned(), "v"),
				("w", "L😀;".to_owned(), "w"),
				("x", "[LO2$I;".to_owned(), "x"),
				("y", "Llong;".to_owned(), "y "),
			] {
				h.fields.insert((name.to_owned(), desc), MField { names: member(name, base), doc: None });
			}
			let params = |named_like_a_class: bool| -> BTreeMap<usize, MParam> {
				indices.iter().enumerate().map(|(at, i)| (*i, MParam { names: full(&|j| if named_like_a_class && at % 2 == 0 { "Long".to_owned() } else { format!("p{at}x{j}") }), doc: None })).collect()
			};
			h.methods.insert(("i".to_owned(), "(LO1$I;LO2$I;)LO1$I;".to_owned()), MMethod { names: member("i", "i"), doc: None, params: BTreeMap::new() });
			h.methods.insert(("m(".to_owned(), "(L😀;L€/Ω€;LA$;I)Lx()V;".to_owned()), MMethod { names: member("m(", "m("), doc: None, params: params(false) });
			h.methods.insert(("Long".to_owned(), "(LLong;[[LLong;)V".to_owned()), MMethod { names: member("Long", "n"), doc: None, params: params(true) });
			h.methods.insert(("k255".to_owned(), format!("({})V", "LA$;".repeat(255))), MMethod { names: member("k255", "k"), doc: None, params: BTreeMap::new() });
			holders.push(Some(h));
		}
	}
	variants.push(holders);
	Space { ns, keys, variants }
}

const WIDE: usize = 12;

/// the hand-listed space of universe (i)
fn wide_space(n: usize) -> Space {
	let ns: Vec<String> = ["official", "intermediary", "named", "extra"][..n].iter().map(|s| s.to_string()).collect();
	let full = |base: String| -> Row { (0..n).map(|j| Some(if j == 0 { base.clone() } else { format!("{base}_{j}") })).collect() };
	let field_desc = |i: usize| ["I", "LW;", "[LW;", "Lu/U;"][i % 4].to_owned();
	let method_desc = |i: usize| ["(IJ)V", "(LW;I)LW;", "([LW;Lu/U;)V", "(Lu/U;D)[Lu/U;"][i % 4].to_owned();
	let mut base = MClass { names: full("W".to_owned()), doc: Some("\twide class \n".to_owned()), fields: BTreeMap::new(), methods: BTreeMap::new() };
	for i in 0..WIDE {
		// comments: none, a text (plain, with blanks / tabs / line breaks in front or behind: nothing is trimmed), the empty
		// text; parameter indices 0, 3 and 256
		let doc = |k: usize, text: String| match k % 3 {
			0 => None,
			1 => Some(match (k / 3) % 4 { 0 => text, 1 => format!(" \t{text}"), 2 => format!("{text} \t"), _ => format!("\n{text}\n\n") }),
			_ => Some(String::new()),
		};
		base.fields.insert((format!("f{i}"), field_desc(i)), MField { names: full(format!("f{i}")), doc: doc(i + 1, format!("field {i}")) });
		let params = (0..3).map(|p| ([0, 3, 256][p], MParam { names: full(format!("p{i}x{p}")), doc: doc(p, format!("parameter {p} of {i}")) })).collect();
		base.methods.insert((format!("m{i}"), method_desc(i)), MMethod { names: full(format!("m{i}")), doc: doc(i, format!("method {i}")), params });
	}
	let last = n - 1;
	let mut w: Vec<Option<MClass>> = vec![Some(base.clone())];
	for i in 0..WIDE {
		let mut c = base.clone();
		c.fields.get_mut(&(format!("f{i}"), field_desc(i))).unwrap().names[last] = None;
		w.push(Some(c));
		let mut c = base.clone();
		c.methods.get_mut(&(format!("m{i}"), method_desc(i))).unwrap().names[last] = None;
		w.push(Some(c));
	}
	// members 3, 7 and 11 have one descriptor: 11 gets the name of 3 (a collision), 10 the name of 3 (none: other descriptor)
	for (i, other) in [(11, 3), (10, 3)] {
		let mut c = base.clone();
		c.fields.get_mut(&(format!("f{i}"), field_desc(i))).unwrap().names[last] = base.fields[&(format!("f{other}"), field_desc(other))].names[last].clone();
		w.push(Some(c));
		let mut c = base.clone();
		c.methods.get_mut(&(format!("m{i}"), method_desc(i))).unwrap().names[last] = base.methods[&(format!("m{other}"), method_desc(other))].names[last].clone();
		w.push(Some(c));
	}
	let u = MClass { names: full("u/U".to_owned()), doc: None, fields: BTreeMap::new(), methods: BTreeMap::new() };
	Space { ns, keys: vec!["W".to_owned(), "u/U".to_owned()], variants: vec![w, vec![None, Some(u)]] }
}

/// thorough: everything; quick: without the largest universes with 4 namespaces and with shorter long texts
fn all_universes(tier: vcore::Tier) -> Vec<Uni> {
	let long_k = tier.pick(LONG_K_QUICK, LONG_K_THOROUGH);
	let mut out: Vec<Uni> = [2, 3, 4].iter().flat_map(|&n| universes(n, long_k)).collect();
	out.retain(|u| namespace_counts(u.family(), tier).contains(&u.n));
	if tier == vcore::Tier::Thorough {
		out.iter_mut().for_each(|u| u.extend_generators());
	}
	out
}

fn namespace_counts(label: &str, tier: vcore::Tier) -> &'static [usize] {
	match (label, tier) {
		("long-text", vcore::Tier::Quick) => &[3],
		("long-text", vcore::Tier::Thorough) => &[3, 4],
		("rows" | "cross" | "names-all", vcore::Tier::Quick) => &[2, 3],
		_ => &[2, 3, 4],
	}
}

/// labels of the universes, in the order of `universes`
const UNIVERSE_LABELS: [&str; 20] = [
	"rows", "descriptors", "cross", "collisions", "comments", "edge", "names-jdk", "names-unicode", "names-all", "overloads", "shared", "wide", "ns-names",
	"ns-names-suffix", "ns-names-blank", "special-names", "odd-values", "surrogates", "placement", "long-text",
];

// ---------------------------------------------------------------------------------------------
// judging

fn replay_text(uni: &Uni, init: u64, word: &[u8], direct: Option<&[u8]>, extra: &str) -> String {
	let initial = uni.init(init);
	let mut s = format!("universe={}\ninit={}\nword={:?}\n", uni.label, init, word);
	if let Some(d) = direct {
		s.push_str(&format!("direct={d:?}\n"));
	}
	let mut p = identity(uni.n);
	let mut steps = Vec::new();
	for &g in word {
		p = compose(&p, &uni.gens[g as usize]);
		steps.push(format!("reorder({:?})", permuted(&initial.ns, &p)));
	}
	if let Some(d) = direct {
		steps.push(format!("reorder({:?})", permuted(&permuted(&initial.ns, &p), d)));
	}
	s.push_str(&format!("calls, in order: {}\ninitial set:\n{}", steps.join(" then "), tiny::print(&initial)));
	s.push_str(extra);
	s
}

struct Env<'a> {
	uni: &'a Uni,
	ctx: &'a Ctx,
	/// thorough: every permutation is judged from every state, not only from the initial sets
	deep: bool,
}

/// Lock-step comparison of one real `reorder` with the reference. Returns the result if it is the
/// expected one.
fn judge(env: &Env, st: &mut Stats, tag: &str, cur: &MSet, sigma: &[u8], replay: &dyn Fn(&str) -> String) -> Option<MSet> {
	let target = permuted(&cur.ns, sigma);
	let real = match real(st, cur, &target, Order::Sorted) {
		Ok(r) => r,
		Err(p) => {
			st.outcome(&format!("{tag}:panic"));
			env.ctx.diff(&format!("panic@{}", p.file()), &format!("reorder panicked at {}: {}", p.site, p.msg), || replay(""));
			return None;
		},
	};
	let expect = ref_reorder(cur, sigma);
	let render = |e: &Expect, r: &Real| {
		let e = match e {
			Expect::Ok(m) => format!("Ok:\n{}", tiny::print(m)),
			Expect::Refuse(r) => format!("Err ({})", reasons_text(r)),
		};
		format!("input of the last call:\n{}expected {}\nactual {}\n", tiny::print(cur), e, r.render())
	};
	match (&expect, &real) {
		(Expect::Refuse(reasons), Real::Refused(message)) => {
			st.outcome(&format!("{tag}:refused:{}", reasons_text(reasons)));
			st.outcome(&format!("refused-in:{}:{}", env.uni.family(), reasons_text(reasons)));
			if message.len() >= 150 {
				st.outcome(&format!("refused-in:{}:message-of-150-bytes-or-more", env.uni.family()));
			}
			let tag = if reasons.len() == 1 { format!("refused:{}", reasons_text(reasons)) } else { "refused:several-reasons".to_owned() };
			st.sample(&tag, || json!({"kind": "refusal", "input": tiny::print(cur), "target_namespaces": target, "reasons": reasons_text(reasons), "real": real.render()}));
			None
		},
		(Expect::Refuse(reasons), other) => {
			let missing = reasons.iter().any(|r| r.is_missing());
			let class = if missing { "missing-name" } else { "collision" };
			let how = match other {
				Real::MisKeyed(_) => "mis-keyed",
				Real::Ok(r) if r.entries() < cur.entries() => "entry-dropped",
				_ => "not-refused",
			};
			st.outcome(&format!("{tag}:violation"));
			let what = if missing {
				format!("an entry has no name in the new first namespace ({}) but reorder returned Ok ({how})", reasons_text(reasons))
			} else {
				format!("two entries get the same key in the new first namespace ({}) but reorder returned Ok ({how})", reasons_text(reasons))
			};
			env.ctx.diff(&format!("reorder:{class}:{how}"), &what, || replay(&render(&expect, &real)));
			None
		},
		(Expect::Ok(_), Real::Refused(e)) => {
			st.outcome(&format!("{tag}:violation"));
			env.ctx.diff("reorder:refused-valid-input", &format!("every entry has a name in the new first namespace and no keys collide, but reorder failed: {e}"), || replay(&render(&expect, &real)));
			None
		},
		(Expect::Ok(_), Real::MisKeyed(m)) => {
			st.outcome(&format!("{tag}:violation"));
			env.ctx.diff("reorder:mis-keyed-entry", &format!("result stores an entry under a key that is not its first name: {m}"), || replay(&render(&expect, &real)));
			None
		},
		(Expect::Ok(e), Real::Ok(r)) => {
			if e != r {
				st.outcome(&format!("{tag}:violation"));
				let (k, what) = classify(e, r);
				env.ctx.diff(&format!("reorder:{k}"), &format!("result differs from the faithful permutation: {what}"), || replay(&render(&expect, &real)));
				return None;
			}
			if r.classes.is_empty() && cur.doc.is_some() && r.doc == cur.doc {
				st.outcome("ok:set-without-classes-keeps-its-comment");
			}
			Some(r.clone())
		},
	}
}

/// a real call whose result must be exactly `want`; anything else is the difference `key`
fn law(env: &Env, st: &mut Stats, key: &str, what: &str, input: &MSet, target: &[String], order: Order, want: &MSet, replay: &dyn Fn(&str) -> String) {
	let extra = |r: &str| format!("law: {what}\ninput of the last call:\n{}target namespaces: {:?}\nexpected Ok:\n{}actual {}\n", tiny::print(input), target, tiny::print(want), r);
	match real(st, input, target, order) {
		Err(p) => env.ctx.diff(&format!("panic@{}", p.file()), &format!("reorder panicked at {}: {}", p.site, p.msg), || replay(&extra("panic"))),
		Ok(Real::Ok(r)) if &r == want => st.outcome(&format!("{key}:holds")),
		Ok(other) => {
			st.outcome(&format!("{key}:violation"));
			env.ctx.diff(key, what, || replay(&extra(&other.render())));
		},
	}
}

#[derive(Clone, Debug, PartialEq, Eq, Hash)]
struct St {
	init: u64,
	perm: Perm,
	set: MSet,
}

/// one transition: `reorder(gens[g])` on the state's set
fn step(env: &Env, st: &mut Stats, last: &St, g: usize) -> Option<St> {
	let uni = env.uni;
	let sigma = &uni.gens[g];
	let initial = uni.init(last.init);
	let mut word = uni.words[&last.perm].clone();
	word.push(g as u8);
	let replay = |extra: &str| replay_text(uni, last.init, &word, None, extra);
	let dom = domain(&initial);
	if dom != Domain::In {
		// outside the statement's domain: the call must not panic, nothing else is judged
		let target = permuted(&last.set.ns, sigma);
		match real(st, &last.set, &target, Order::Sorted) {
			Ok(r) => st.outcome(&format!("outside-domain:{}:{}", dom.name(), r.kind())),
			Err(p) => env.ctx.diff(&format!("panic@{}", p.file()), &format!("reorder panicked at {}: {}", p.site, p.msg), || replay("")),
		}
		return None;
	}
	st.outcome("step:judged");
	st.outcome(&format!("judged-transitions:{}", uni.label));
	if mentions_inner_of_mapped(&last.set) {
		st.outcome("step:judged:descriptor-mentions-an-unmapped-inner-class-of-a-mapped-class");
	}
	let r = judge(env, st, "step", &last.set, sigma, &replay)?;
	st.outcome(&format!("ok-in:{}", uni.family()));
	for f in features(&last.set, sigma) {
		st.outcome(&format!("feature:{f}"));
	}
	let perm = compose(&last.perm, sigma);
	// cross-check of the oracle itself: the reference is compositional
	match ref_reorder(&initial, &perm) {
		Expect::Ok(e) if e == r => {},
		_ => vcore::machinery_fail(&format!("reference model is not compositional:\n{}", replay(""))),
	}
	if all_descriptors(&r) != all_descriptors(&last.set) {
		st.outcome("step:ok:descriptors-changed");
		st.sample(&format!("ok:N={}", uni.n), || json!({"kind": "transition", "universe": uni.label, "init": last.init, "word": word, "input": tiny::print(&last.set), "result": tiny::print(&r)}));
	} else {
		st.outcome("step:ok:descriptors-unchanged");
	}
	st.distinct.add(&r);
	// reorder(σ⁻¹) ∘ reorder(σ) = id
	law(env, st, "law:inverse", "reorder(σ) followed by reorder(σ⁻¹) does not return the original", &r, &permuted(&r.ns, &inverse(sigma)), Order::Sorted, &last.set, &replay);
	Some(St { init: last.init, perm, set: r })
}

/// per-state laws
fn check_state(env: &Env, st: &mut Stats, s: &St) {
	let uni = env.uni;
	st.outcome("state:evaluated");
	let initial = uni.init(s.init);
	if domain(&initial) != Domain::In {
		st.outcome("state:outside-domain");
		return;
	}
	let word = uni.words[&s.perm].clone();
	let replay = |extra: &str| replay_text(uni, s.init, &word, None, extra);
	st.outcome(&format!("reached:N={}:{:?}", uni.n, s.perm));
	// the identity permutation changes nothing
	law(env, st, "law:identity", "reorder to the current order changes the set", &s.set, &s.set.ns, Order::Sorted, &s.set, &replay);
	if s.perm == identity(uni.n) {
		// every permutation directly from the initial set, each against the reference
		for p in vcore::enumerate::permutations(uni.n) {
			let p: Perm = p.into_iter().map(|x| x as u8).collect();
			let replay = |extra: &str| replay_text(uni, s.init, &[], Some(&p), extra);
			st.outcome("direct:judged");
			if judge(env, st, "direct", &s.set, &p, &replay).is_some() {
				st.outcome("direct:ok");
			}
		}
	} else {
		// path independence: one direct reorder by the composed permutation gives this very set,
		// whatever the insertion order of the real input object
		let target = permuted(&initial.ns, &s.perm);
		law(env, st, "law:path-independence", "a chain of reorders and one direct reorder to the same order give different sets", &initial, &target, Order::Sorted, &s.set, &replay);
		law(env, st, "law:insertion-order", "the result depends on the insertion order of the input's entries", &initial, &target, Order::Reversed, &s.set, &replay);
		law(env, st, "law:insertion-order", "the result depends on the insertion order of the input's entries", &initial, &target, Order::Rotated(1), &s.set, &replay);
		// the same chain on the real objects themselves: every reorder is called on the object the
		// previous one returned (the state graph rebuilds the object from its projection at every step)
		let mut p = identity(uni.n);
		let targets: Vec<Vec<String>> = word.iter().map(|&g| {
			p = compose(&p, &uni.gens[g as usize]);
			permuted(&initial.ns, &p)
		}).collect();
		if env.deep {
			// every permutation directly from this state, each against the reference
			for p in vcore::enumerate::permutations(uni.n) {
				let p: Perm = p.into_iter().map(|x| x as u8).collect();
				let replay = |extra: &str| replay_text(uni, s.init, &word, Some(&p), extra);
				st.outcome("direct-from-state:judged");
				if judge(env, st, "direct-from-state", &s.set, &p, &replay).is_some() {
					st.outcome("direct-from-state:ok");
				}
			}
		}
		let what = "reorder called on its own results gives another set than the chain through rebuilt objects";
		match real_chain(st, &initial, &targets) {
			Err(p) => env.ctx.diff(&format!("panic@{}", p.file()), &format!("reorder panicked at {}: {}", p.site, p.msg), || replay("law: live chain\n")),
			Ok(Real::Ok(r)) if r == s.set => st.outcome("law:live-chain:holds"),
			// the state was reached along another word: this one passes through an order that must be refused
			Ok(Real::Refused(_)) if targets.iter().any(|t| {
				let sigma: Perm = t.iter().map(|x| initial.ns.iter().position(|y| y == x).unwrap() as u8).collect();
				matches!(ref_reorder(&initial, &sigma), Expect::Refuse(_))
			}) => st.outcome("law:live-chain:word-passes-through-a-refused-order"),
			Ok(other) => {
				st.outcome("law:live-chain:violation");
				env.ctx.diff("law:live-chain", what, || replay(&format!("law: {what}\nexpected Ok:\n{}actual {}\n", tiny::print(&s.set), other.render())));
			},
		}
		// and the inverse of the whole chain returns the initial set
		law(env, st, "law:inverse-of-chain", "reorder by the inverse of the composed permutation does not return the initial set", &s.set, &permuted(&s.set.ns, &inverse(&s.perm)), Order::Sorted, &initial, &replay);
	}
}

struct CayleyModel {
	uni: Arc<Uni>,
	from: u64,
	to: u64,
	ctx: &'static Ctx,
	stats: Mutex<Stats>,
}

impl CayleyModel {
	fn env(&self) -> Env<'_> {
		Env { uni: &self.uni, ctx: self.ctx, deep: self.ctx.tier == vcore::Tier::Thorough }
	}
}

impl Model for CayleyModel {
	type State = St;
	type Action = u8;

	fn init_states(&self) -> Vec<St> {
		(self.from..self.to).map(|i| St { init: i, perm: identity(self.uni.n), set: self.uni.init(i) }).collect()
	}

	fn actions(&self, _state: &St, actions: &mut Vec<u8>) {
		actions.extend(0..self.uni.gens.len() as u8);
	}

	fn next_state(&self, last: &St, g: u8) -> Option<St> {
		vcore::watched(
			|| format!("universe={}\ninit={}\nword={:?} then generator {}", self.uni.label, last.init, self.uni.words.get(&last.perm), g),
			|| step(&self.env(), &mut self.stats.lock().unwrap(), last, g as usize),
		)
	}

	fn properties(&self) -> Vec<Property<Self>> {
		// the oracle runs as a side effect and reports every difference through the Ctx, so the
		// invariant never stops the exploration (as in c03)
		vec![Property::always("oracles evaluated", |m: &CayleyModel, s: &St| {
			vcore::watched(
				|| format!("universe={}\ninit={}\nword={:?}", m.uni.label, s.init, m.uni.words.get(&s.perm)),
				|| check_state(&m.env(), &mut m.stats.lock().unwrap(), s),
			);
			true
		})]
	}
}

struct ChunkResult {
	stats: Stats,
	states: u64,
	transitions: u64,
	max_depth: usize,
}

fn run_chunk(ctx: &'static Ctx, uni: &Arc<Uni>, from: u64, to: u64) -> ChunkResult {
	let n = uni.n;
	let depth_bound = n * (n - 1) / 2 + 3;
	let model = CayleyModel { uni: Arc::clone(uni), from, to, ctx, stats: Mutex::new(Stats::new()) };
	let checker = model.checker().threads(1).target_max_depth(depth_bound).spawn_bfs().join();
	if !checker.is_done() {
		vcore::machinery_fail("stateright did not finish the state space");
	}
	if checker.max_depth() >= depth_bound && ctx.violation_count() == 0 {
		vcore::machinery_fail("the state graph is deeper than the Cayley graph can be");
	}
	let stats = std::mem::take(&mut *checker.model().stats.lock().unwrap());
	ChunkResult { stats, states: checker.unique_state_count() as u64, transitions: checker.state_count() as u64 - (to - from), max_depth: checker.max_depth() }
}

/// Targets that are not permutations of the set's namespaces (a namespace twice, an unknown one) are
/// outside the statement; the call must not panic.
fn non_permutation_sweep(ctx: &Ctx, uni: &Uni) -> Stats {
	let n = uni.n;
	let total = (n as u64 + 1).pow(n as u32);
	let long_text = uni.family() == "long-text";
	(0..uni.len()).into_par_iter().fold(Stats::new, |mut st, idx| {
		if long_text && long_text_parts(idx).2 != 0 {
			// the message about an unknown namespace shows the namespaces only: one situation is enough
			return st;
		}
		let set = uni.init(idx);
		// (long texts: the unknown name is long too and ends in the same character)
		let unknown = if long_text { format!("?{}", set.ns[1]) } else { "unknown".to_owned() };
		vcore::watched(|| format!("universe={}\ninit={}\nnon-permutation targets", uni.label, idx), || {
			for t in 0..total {
				let digits = vcore::enumerate::product_nth(&vec![n + 1; n], t);
				let mut seen = BTreeSet::new();
				if digits.iter().all(|d| *d < n && seen.insert(*d)) {
					continue;
				}
				let target: Vec<String> = digits.iter().map(|&d| if d < n { set.ns[d].clone() } else { unknown.clone() }).collect();
				match real(&mut st, &set, &target, Order::Sorted) {
					Ok(r) => {
						st.outcome(&format!("non-permutation:{}", r.kind()));
						st.outcome(&format!("non-permutation-in:{}", uni.family()));
					},
					Err(p) => ctx.diff(&format!("panic@{}", p.file()), &format!("reorder panicked at {}: {}", p.site, p.msg), || format!("universe={}\ninit={}\ntarget={:?}\ninitial set:\n{}", uni.label, idx, target, tiny::print(&set))),
				}
			}
		});
		st
	}).reduce(Stats::new, Stats::merge)
}

fn factorial(n: usize) -> u64 {
	(1..=n as u64).product()
}

fn main() {
	let ctx: &'static Ctx = Box::leak(Box::new(Ctx::new("C08", "model_checking")));
	if let Some(path) = ctx.replay.clone() {
		replay(ctx, &path);
	}
	let unis: Vec<Arc<Uni>> = all_universes(ctx.tier).into_iter().map(Arc::new).collect();
	// machinery self-check of the builder for names that are not UTF-8 (exit 2 on failure)
	let mut not_utf8 = 0u64;
	for u in unis.iter().filter(|u| u.family() == "surrogates") {
		let plain = unis.iter().find(|p| p.family() == "shared" && p.n == u.n).unwrap_or_else(|| vcore::machinery_fail("no universe `shared` for the self-check"));
		let (a, b) = (plain.init(plain.len() - 1), u.init(u.len() - 1));
		not_utf8 += match u.n {
			2 => jtext::self_check::<2>(&a, &b),
			3 => jtext::self_check::<3>(&a, &b),
			4 => jtext::self_check::<4>(&a, &b),
			n => vcore::machinery_fail(&format!("unsupported namespace count {n}")),
		};
	}
	const CHUNK: u64 = 128;
	let mut jobs: Vec<(usize, u64, u64)> = Vec::new();
	for (ui, u) in unis.iter().enumerate() {
		let mut from = 0;
		while from < u.len() {
			let to = (from + CHUNK).min(u.len());
			jobs.push((ui, from, to));
			from = to;
		}
	}
	let results: Vec<ChunkResult> = jobs.par_iter().map(|&(ui, from, to)| run_chunk(ctx, &unis[ui], from, to)).collect();
	let mut stats = Stats::new();
	let (mut states, mut transitions, mut max_depth) = (0u64, 0u64, 0usize);
	for r in results {
		states += r.states;
		transitions += r.transitions;
		max_depth = max_depth.max(r.max_depth);
		stats = stats.merge(r.stats);
	}
	let mut sweep = Stats::new();
	for u in unis.iter().filter(|u| matches!(u.family(), "edge" | "collisions" | "long-text" | "surrogates")) {
		sweep = sweep.merge(non_permutation_sweep(ctx, u));
	}

	let sum = |pred: &dyn Fn(&str) -> bool| -> u64 { stats.outcomes.iter().filter(|(k, _)| pred(k)).map(|(_, v)| *v).sum() };
	let ns: Vec<usize> = vec![2, 3, 4];
	let mut reached = BTreeMap::new();
	for &n in &ns {
		let count = stats.outcomes.keys().filter(|k| k.starts_with(&format!("reached:N={n}:"))).count() as u64;
		ctx.floor(&format!("permutations of {n} namespaces reached in the state graph"), factorial(n), count);
		reached.insert(n.to_string(), count);
	}
	for level in ["class", "field", "method"] {
		let only = format!(":refused:{level}-without-name");
		ctx.floor(&format!("refusals solely because a {level} has no name in the new first namespace"), 1, sum(&|k| k.ends_with(&only)));
	}
	ctx.floor("refusals because two entries get the same key", 1, sum(&|k| k.contains(":refused:") && k.contains("collision")));
	ctx.floor("judged transitions on sets whose descriptors mention an unmapped inner class of a mapped class", 100, stats.get("step:judged:descriptor-mentions-an-unmapped-inner-class-of-a-mapped-class"));
	ctx.floor("transitions whose descriptors changed", *ns.last().unwrap() as u64, stats.get("step:ok:descriptors-changed"));
	ctx.floor("every state evaluated by the oracle", states, stats.get("state:evaluated"));
	ctx.floor("every judged transition is a real execution compared with the reference", stats.get("step:judged"), sum(&|k| k.starts_with("step:ok:") || k.starts_with("step:refused:") || k == "step:violation" || k == "step:panic"));
	ctx.floor("inverse law evaluated on every successful transition", sum(&|k| k.starts_with("step:ok:")), sum(&|k| k.starts_with("law:inverse:")));
	ctx.floor("sets outside the statement's domain explored for panics", 1, sum(&|k| k.starts_with("outside-domain:")));
	ctx.floor("non-permutation targets explored for panics", 1, sweep.evaluations);
	// every universe of the tier contributed transitions that were compared with the reference
	for u in unis.iter() {
		ctx.floor(&format!("judged transitions in universe {}", u.label), 1, stats.get(&format!("judged-transitions:{}", u.label)));
	}
	for label in UNIVERSE_LABELS {
		ctx.floor(&format!("namespace counts explored with universe {label}"), namespace_counts(label, ctx.tier).len() as u64, unis.iter().filter(|u| u.family() == label).count() as u64);
	}
	// the mechanisms the universes (f)-(j) aim at were met by successful, judged reorders that change the first namespace
	for f in FEATURES {
		ctx.floor(&format!("successful judged transitions with feature {f}"), 1, stats.get(&format!("feature:{f}")));
	}
	ctx.floor("chains replayed on the real objects without rebuilding them", 1, stats.get("law:live-chain:holds"));
	// long texts: every (length, last character) was accepted and was refused for every reason; the refusal quotes the text
	let long_k = ctx.tier.pick(LONG_K_QUICK, LONG_K_THOROUGH);
	let long_texts = ((long_k + 1) * LONG_CHARS.len()) as u64;
	ctx.floor("successful judged transitions on sets with long texts", long_texts, stats.get("ok-in:long-text"));
	for reason in &LONG_SITUATIONS[1..] {
		ctx.floor(&format!("refusals of sets with long texts solely because of {reason}"), long_texts, stats.get(&format!("refused-in:long-text:{reason}")));
	}
	ctx.floor("refusals of sets with long texts whose message has 150 bytes or more", long_texts, stats.get("refused-in:long-text:message-of-150-bytes-or-more"));
	ctx.floor("non-permutation targets on sets with long namespace names", long_texts, sweep.get("non-permutation-in:long-text"));
	ctx.floor("non-permutation targets on sets with names that are not UTF-8", 1, sweep.get("non-permutation-in:surrogates"));
	ctx.floor("names that are not UTF-8 in the real objects of the builder's self-check", 1, not_utf8);
	ctx.floor("sets without classes that keep their comment", 1, stats.get("ok:set-without-classes-keeps-its-comment"));
	if ctx.tier == vcore::Tier::Thorough {
		ctx.floor("every permutation judged from every non-initial state", sum(&|k| k.starts_with("law:path-independence:")) * 2, stats.get("direct-from-state:judged"));
	}
	ctx.floor("every non-initial state was put to the live chain", sum(&|k| k.starts_with("law:path-independence:")), sum(&|k| k.starts_with("law:live-chain:")));

	let outcomes: BTreeMap<&String, &u64> = stats.outcomes.iter().filter(|(k, _)| !k.starts_with("reached:") && !k.starts_with("feature:") && !k.starts_with("judged-transitions:") && !k.starts_with("ok-in:") && !k.starts_with("refused-in:")).collect();
	let per_universe = |prefix: &str| -> BTreeMap<String, u64> { stats.outcomes.iter().filter_map(|(k, v)| k.strip_prefix(prefix).map(|k| (k.to_owned(), *v))).collect() };
	let features_seen: BTreeMap<&str, u64> = FEATURES.iter().map(|f| (*f, stats.get(&format!("feature:{f}")))).collect();
	let judged_per_universe: BTreeMap<&str, u64> = unis.iter().map(|u| (u.label.as_str(), stats.get(&format!("judged-transitions:{}", u.label)))).collect();
	let universes_json: Vec<Value> = unis.iter().map(|u| u.describe()).collect();
	let coverage = json!({
		"states": states,
		"transitions": transitions,
		"traces_validated_against_impl": stats.get("step:judged"),
		"max_depth": max_depth,
		"evaluations": stats.evaluations + sweep.evaluations,
		"distinct_nontrivial": stats.distinct.len(),
		"rule": "a state is (initial mapping set, permutation applied so far, the set the real code produced); a transition rebuilds a real quill Mappings from the state's set, calls the real Mappings::reorder with one generator of S_N and is compared with the reference; evaluations counts every call of the real reorder (transitions, direct reorders by every permutation, law checks, non-permutation targets). distinct_nontrivial = distinct result sets of successful transitions",
		"exhaustive": true,
		"samples": stats.samples,
		"bounds": {
			"namespace_counts": ns,
			"universes": universes_json,
			"generating_set": ctx.tier.pick("adjacent transpositions and one rotation", "adjacent transpositions, the transpositions (0 k) and both rotations"),
			"insertion_orders": ["sorted", "reversed", "rotated by one"],
			"permutations_judged_directly": ctx.tier.pick("all N! from every initial set", "all N! from every state"),
			"live_chain": "for every non-initial state the shortest word is replayed on the real objects themselves (each reorder on the result of the previous one)",
			"class_name_shapes": ["one letter", "inner (A$B)", "packaged", "java/ package (old and new first namespace)", "java/lang/Object", "named L / containing descriptor letters", "non-ASCII", "one simple name in two packages", "one name in every namespace"],
			"wide_class": {"fields": WIDE, "methods": WIDE, "parameters_per_method": 3},
			"long_texts": {"ascii_run_lengths": format!("0..={long_k}"), "last_characters": LONG_CHARS, "utf8_bytes_of_the_last_character": [1, 2, 3, 4], "situations": LONG_SITUATIONS, "slots": ["second namespace name", "class name", "field name", "method name", "parameter name", "every comment", "unmapped class in two descriptors", "unknown target namespace"]},
			"odd_values": {"parameter_indices": ["255", "256", "65535", "65536", "2^32", "usize::MAX"], "array_dimensions": 255, "parameters_of_a_mapped_class": 255, "class_names": ["A$", "Long", "x()V (other names with blanks around)", "€/Ω€", "😀", "O1$I and O2$I", "unmapped B$", "unmapped A$$", "unmapped long"], "member_names": ["Long (a class of the set)", "m("]},
			"lone_surrogates": ["U+D800", "U+DBFF", "U+DC00", "U+DFFF"],
			"namespace_name_lists": [["ab", "a", "AB", "abc"], ["xa", "a", "Xa", "bxa"], [" a", "a", "a ", " a "]],
		},
		"outcomes": outcomes,
		"permutations_reached": reached,
		"features_on_successful_judged_transitions": features_seen,
		"judged_transitions_per_universe": judged_per_universe,
		"successful_transitions_per_universe_family": per_universe("ok-in:"),
		"refusals_per_universe_family": per_universe("refused-in:"),
		"names_not_utf8_in_self_check": not_utf8,
		"non_permutation_sweep": {"evaluations": sweep.evaluations, "outcomes": sweep.outcomes},
	});
	ctx.finish(coverage, &[
		"a class that a descriptor mentions without being an entry keeps its name in every namespace (also when it is named like an inner class of an entry); sets where such a name equals a name of an entry (two classes with one name) are outside the statement and explored for panics only",
		"a Java name may hold a lone surrogate (modified UTF-8 of class files, JavaString in quill); inside the reference model four private-use characters stand for four lone surrogates and are translated at the border to the real objects",
		"two entries that get the same key cannot both be kept, so Ok is not accepted there; which error is returned is not judged",
		"the order of the entries inside the result is not judged (the statement does not mention it); the result must not depend on the insertion order of the input",
		"parameters are keyed by index: a parameter without a name in the new first namespace is not a reason to fail",
		"stateright's BFS visits every reachable state (its exhaustiveness is trusted)",
	]);
}

fn replay(ctx: &'static Ctx, path: &std::path::Path) -> ! {
	let body = vcore::replay_body(path);
	let line = |key: &str| body.lines().find_map(|l| l.strip_prefix(key)).map(|s| s.to_owned());
	let list = |s: &str| -> Vec<u8> { s.trim().trim_matches(|c| c == '[' || c == ']').split(',').filter(|x| !x.trim().is_empty()).map(|x| x.trim().parse().unwrap_or_else(|_| vcore::machinery_fail("bad list in replay"))).collect() };
	let label = line("universe=").unwrap_or_else(|| vcore::machinery_fail("no universe in replay"));
	let init: u64 = line("init=").and_then(|s| s.trim().parse().ok()).unwrap_or_else(|| vcore::machinery_fail("no init in replay"));
	let uni = all_universes(vcore::Tier::Thorough).into_iter().find(|u| u.label == label).unwrap_or_else(|| vcore::machinery_fail("unknown universe"));
	if init >= uni.len() {
		vcore::machinery_fail("init out of range");
	}
	let env = Env { uni: &uni, ctx, deep: true };
	let mut observations = Vec::new();
	for _ in 0..2 {
		let mut st = Stats::new();
		let mut s = St { init, perm: identity(uni.n), set: uni.init(init) };
		if let Some(target) = line("target=") {
			// a non-permutation case
			let target: Vec<String> = target.trim().trim_matches(|c| c == '[' || c == ']').split(',').map(|x| x.trim().trim_matches('"').to_owned()).collect();
			match real(&mut st, &s.set, &target, Order::Sorted) {
				Ok(r) => observations.push(r.render()),
				Err(p) => {
					ctx.diff(&format!("panic@{}", p.file()), &format!("reorder panicked at {}: {}", p.site, p.msg), || body.clone());
					observations.push(p.site);
				},
			}
			continue;
		}
		check_state(&env, &mut st, &s);
		let mut alive = true;
		for g in line("word=").map(|w| list(&w)).unwrap_or_default() {
			if g as usize >= uni.gens.len() {
				vcore::machinery_fail("bad generator in replay");
			}
			match step(&env, &mut st, &s, g as usize) {
				Some(next) => {
					s = next;
					check_state(&env, &mut st, &s);
				},
				None => {
					alive = false;
					break;
				},
			}
		}
		let _ = alive;
		observations.push(format!("{:?} {:?}", s, st.outcomes));
	}
	if observations[0] != observations[1] {
		vcore::machinery_fail("replay is not deterministic");
	}
	println!("{}", observations[0]);
	ctx.finish(json!({"states": 1, "transitions": 1, "traces_validated_against_impl": 1, "samples": ["replay"]}), &[]);
}
