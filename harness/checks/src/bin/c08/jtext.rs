//! Names that are not UTF-8: a Java name (modified UTF-8 in class files, `JavaString` in quill) may hold a lone
//! surrogate. The reference model of the checker works on `String`s, so four private-use characters stand for four
//! lone surrogates inside the model; the builder and the projection of this module translate them at the border to
//! the real objects (a bijection as long as no real name uses the four characters, which the generators never do).
//!
//! Everything else is the plain builder / projection of `mapmodel` (public API of quill only); `self_check` compares
//! the two on ordinary sets before any verdict depends on this module.

use std::collections::BTreeMap;
use anyhow::{anyhow, bail, Result};
use java_string::{JavaCodePoint, JavaStr, JavaString};
use duke::tree::class::ObjClassName;
use duke::tree::field::{FieldDescriptor, FieldName, FieldNameAndDesc};
use duke::tree::method::{MethodDescriptor, MethodName, MethodNameAndDesc, ParameterName};
use mapmodel::{KeyMismatch, MClass, MField, MMethod, MParam, MSet, Order, Row};
use quill::tree::mappings::{
	ClassMapping, ClassNowodeMapping, FieldMapping, FieldNowodeMapping, JavadocMapping, Mappings, MethodMapping, MethodNowodeMapping, ParameterKey,
	ParameterMapping, ParameterNowodeMapping,
};
use quill::tree::names::Names;
use quill::tree::NodeInfo;

/// (stand-in inside the model, the surrogate it stands for): the first and the last high surrogate, the first and
/// the last low surrogate
pub const STAND_INS: [(char, u32); 4] = [('\u{E000}', 0xD800), ('\u{E001}', 0xDBFF), ('\u{E002}', 0xDC00), ('\u{E003}', 0xDFFF)];

pub fn to_java(s: &str) -> JavaString {
	let mut out = JavaString::with_capacity(s.len());
	for c in s.chars() {
		match STAND_INS.iter().find(|(p, _)| *p == c) {
			Some((_, surrogate)) => out.push_java(JavaCodePoint::from_u32(*surrogate).unwrap_or_else(|| vcore::machinery_fail("surrogate code point"))),
			None => out.push(c),
		}
	}
	out
}

pub fn from_java(s: &JavaStr) -> String {
	let mut out = String::with_capacity(s.len());
	for c in s.chars() {
		match c.as_char() {
			Some(c) => out.push(c),
			None => match STAND_INS.iter().find(|(_, u)| *u == c.as_u32()) {
				Some((p, _)) => out.push(*p),
				// a surrogate the generators never produce: shown as itself would be impossible, so as a marker that equals nothing
				None => out.push_str(&format!("<surrogate {:04X}>", c.as_u32())),
			},
		}
	}
	out
}

fn has_stand_in(s: &str) -> bool {
	s.chars().any(|c| STAND_INS.iter().any(|(p, _)| *p == c))
}

fn row_has(r: &Row) -> bool {
	r.iter().flatten().any(|s| has_stand_in(s))
}

/// does any name or descriptor of the set hold a stand-in (then the real object is built by this module)?
pub fn uses_stand_ins(m: &MSet) -> bool {
	m.classes.values().any(|c| {
		row_has(&c.names)
			|| c.fields.iter().any(|((_, d), f)| has_stand_in(d) || row_has(&f.names))
			|| c.methods.iter().any(|((_, d), me)| has_stand_in(d) || row_has(&me.names) || me.params.values().any(|p| row_has(&p.names)))
	})
}

fn cls(s: &str) -> Result<ObjClassName> {
	ObjClassName::try_from(to_java(s))
}
fn fname(s: &str) -> Result<FieldName> {
	FieldName::try_from(to_java(s))
}
fn fdesc(s: &str) -> Result<FieldDescriptor> {
	FieldDescriptor::try_from(to_java(s))
}
fn mname(s: &str) -> Result<MethodName> {
	MethodName::try_from(to_java(s))
}
fn mdesc(s: &str) -> Result<MethodDescriptor> {
	MethodDescriptor::try_from(to_java(s))
}
fn pname(s: &str) -> Result<ParameterName> {
	ParameterName::try_from(to_java(s))
}

fn names_to<const N: usize, T>(row: &Row, f: impl Fn(&str) -> Result<T>) -> Result<Names<N, T>>
where
	T: AsRef<JavaStr> + std::fmt::Debug,
{
	if row.len() != N {
		bail!("row {row:?} has not {N} cells");
	}
	let v: Vec<Option<T>> = row.iter().map(|c| c.as_deref().map(&f).transpose()).collect::<Result<_>>()?;
	let arr: [Option<T>; N] = v.try_into().map_err(|_| anyhow!("length"))?;
	Names::try_from(arr)
}

fn names_from<const N: usize, T>(names: &Names<N, T>) -> Row
where
	T: AsRef<JavaStr>,
{
	let arr: &[Option<T>; N] = names.into();
	arr.iter().map(|c| c.as_ref().map(|t| from_java(t.as_ref()))).collect()
}

fn ordered<'a, K, V>(m: &'a BTreeMap<K, V>, o: Order) -> Vec<(&'a K, &'a V)> {
	let mut v: Vec<_> = m.iter().collect();
	match o {
		Order::Sorted => {},
		Order::Reversed => v.reverse(),
		Order::Rotated(k) => {
			if !v.is_empty() {
				let k = k % v.len();
				v.rotate_left(k);
			}
		},
	}
	v
}

pub fn to_quill<const N: usize, Ns>(m: &MSet, o: Order) -> Result<Mappings<N, Ns>> {
	if m.ns.len() != N {
		bail!("model has {} namespaces, expected {N}", m.ns.len());
	}
	m.check()?;
	let ns: Vec<&str> = m.ns.iter().map(|s| s.as_str()).collect();
	let ns: [&str; N] = ns.try_into().map_err(|_| anyhow!("length"))?;
	let mut q: Mappings<N, Ns> = Mappings::from_namespaces(ns)?;
	q.javadoc = m.doc.clone().map(JavadocMapping);
	for (k, c) in ordered(&m.classes, o) {
		let mut qc: ClassNowodeMapping<N> = ClassNowodeMapping::new(ClassMapping { names: names_to(&c.names, cls)? });
		qc.javadoc = c.doc.clone().map(JavadocMapping);
		for ((name, desc), f) in ordered(&c.fields, o) {
			let mut qf: FieldNowodeMapping<N> = FieldNowodeMapping::new(FieldMapping { desc: fdesc(desc)?, names: names_to(&f.names, fname)? });
			qf.javadoc = f.doc.clone().map(JavadocMapping);
			if qc.fields.insert(FieldNameAndDesc { name: fname(name)?, desc: fdesc(desc)? }, qf).is_some() {
				bail!("duplicate field");
			}
		}
		for ((name, desc), me) in ordered(&c.methods, o) {
			let mut qm: MethodNowodeMapping<N> = MethodNowodeMapping::new(MethodMapping { desc: mdesc(desc)?, names: names_to(&me.names, mname)? });
			qm.javadoc = me.doc.clone().map(JavadocMapping);
			for (idx, p) in ordered(&me.params, o) {
				let mut qp: ParameterNowodeMapping<N> = ParameterNowodeMapping::new(ParameterMapping { index: *idx, names: names_to(&p.names, pname)? });
				qp.javadoc = p.doc.clone().map(JavadocMapping);
				qm.parameters.insert(ParameterKey { index: *idx }, qp);
			}
			if qc.methods.insert(MethodNameAndDesc { name: mname(name)?, desc: mdesc(desc)? }, qm).is_some() {
				bail!("duplicate method");
			}
		}
		if q.classes.insert(cls(k)?, qc).is_some() {
			bail!("duplicate class");
		}
	}
	Ok(q)
}

pub fn from_quill<const N: usize, Ns>(q: &Mappings<N, Ns>) -> std::result::Result<MSet, KeyMismatch> {
	let ns: &[String; N] = (&q.info.namespaces).into();
	let mut m = MSet { ns: ns.to_vec(), doc: q.javadoc.as_ref().map(|j| j.0.clone()), classes: BTreeMap::new() };
	for (k, c) in &q.classes {
		let key = from_java(k.as_inner());
		let names = names_from(&c.info.names);
		if names[0].as_deref() != Some(key.as_str()) {
			return Err(KeyMismatch(format!("class stored under key {key:?} has first name {:?}", names[0])));
		}
		let mut mc = MClass { names, doc: c.javadoc.as_ref().map(|j| j.0.clone()), fields: BTreeMap::new(), methods: BTreeMap::new() };
		for (fk, f) in &c.fields {
			let fkey = (from_java(fk.name.as_inner()), from_java(fk.desc.as_inner()));
			let names = names_from(&f.info.names);
			if names[0].as_deref() != Some(fkey.0.as_str()) || from_java(f.info.desc.as_inner()) != fkey.1 {
				return Err(KeyMismatch(format!("field stored under key {fkey:?} in class {key:?} has first name {:?} and descriptor {:?}", names[0], f.info.desc)));
			}
			if mc.fields.insert(fkey.clone(), MField { names, doc: f.javadoc.as_ref().map(|j| j.0.clone()) }).is_some() {
				return Err(KeyMismatch(format!("two fields under key {fkey:?} in class {key:?}")));
			}
		}
		for (mk, me) in &c.methods {
			let mkey = (from_java(mk.name.as_inner()), from_java(mk.desc.as_inner()));
			let names = names_from(&me.info.names);
			if names[0].as_deref() != Some(mkey.0.as_str()) || from_java(me.info.desc.as_inner()) != mkey.1 {
				return Err(KeyMismatch(format!("method stored under key {mkey:?} in class {key:?} has first name {:?} and descriptor {:?}", names[0], me.info.desc)));
			}
			let mut mm = MMethod { names, doc: me.javadoc.as_ref().map(|j| j.0.clone()), params: BTreeMap::new() };
			for (pk, p) in &me.parameters {
				if pk.index != p.info.index {
					return Err(KeyMismatch(format!("parameter stored under index {} in {mkey:?} of {key:?} has index {}", pk.index, p.info.index)));
				}
				mm.params.insert(pk.index, MParam { names: names_from(&p.info.names), doc: p.javadoc.as_ref().map(|j| j.0.clone()) });
			}
			if mc.methods.insert(mkey.clone(), mm).is_some() {
				return Err(KeyMismatch(format!("two methods under key {mkey:?} in class {key:?}")));
			}
		}
		if m.classes.insert(key.clone(), mc).is_some() {
			return Err(KeyMismatch(format!("two classes under key {key:?}")));
		}
	}
	Ok(m)
}

/// how many names of the real object are not UTF-8 (class, field, method and parameter names)
pub fn names_that_are_not_utf8<const N: usize, Ns>(q: &Mappings<N, Ns>) -> u64 {
	fn count<const N: usize, T: AsRef<JavaStr>>(names: &Names<N, T>) -> u64 {
		let arr: &[Option<T>; N] = names.into();
		arr.iter().flatten().filter(|t| t.as_ref().as_str().is_err()).count() as u64
	}
	q.classes.values().map(|c| {
		count(&c.info.names)
			+ c.fields.values().map(|f| count(&f.info.names)).sum::<u64>()
			+ c.methods.values().map(|m| count(&m.info.names) + m.parameters.values().map(|p| count(&p.info.names)).sum::<u64>()).sum::<u64>()
	}).sum()
}

/// Machinery self-check (exit 2 on failure, never a verdict): on a set without stand-ins this module builds the
/// very object `mapmodel` builds (compared through both projections), a set with stand-ins comes back as it went
/// in, and its real names are really not UTF-8.
pub fn self_check<const N: usize>(plain: &MSet, with_stand_ins: &MSet) -> u64 {
	for o in [Order::Sorted, Order::Reversed, Order::Rotated(1)] {
		let mine: Mappings<N, ()> = to_quill(plain, o).unwrap_or_else(|e| vcore::machinery_fail(&format!("jtext builder: {e:#}")));
		let theirs: Mappings<N, ()> = mapmodel::to_quill_ordered(plain, o).unwrap_or_else(|e| vcore::machinery_fail(&format!("mapmodel builder: {e:#}")));
		let views = [from_quill(&mine), mapmodel::from_quill(&mine), from_quill(&theirs), mapmodel::from_quill(&theirs)];
		if views.iter().any(|v| v.as_ref().ok() != Some(plain)) {
			vcore::machinery_fail("jtext and mapmodel build or project different objects for a set without stand-ins");
		}
		let order_of = |q: &Mappings<N, ()>| -> Vec<String> { q.classes.keys().map(|k| from_java(k.as_inner())).collect() };
		if order_of(&mine) != order_of(&theirs) {
			vcore::machinery_fail("jtext and mapmodel insert the classes in different orders");
		}
	}
	let q: Mappings<N, ()> = to_quill(with_stand_ins, Order::Sorted).unwrap_or_else(|e| vcore::machinery_fail(&format!("jtext builder (stand-ins): {e:#}")));
	if from_quill(&q).as_ref().ok() != Some(with_stand_ins) {
		vcore::machinery_fail("a set with stand-ins does not come back from the real object as it went in");
	}
	let n = names_that_are_not_utf8(&q);
	if n == 0 {
		vcore::machinery_fail("the stand-ins did not become lone surrogates in the real object");
	}
	n
}
