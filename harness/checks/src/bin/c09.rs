//! C09 — merging two mapping sets is a faithful join on the shared namespace.
//!
//! Engine: exhaustive enumeration (rayon) of every pair (A, B) of two-namespace mapping sets drawn
//! independently from two generators over the same small universe of entries: at every level (class,
//! field, method, parameter) every entry is absent or present on each side (only A / only B / both /
//! neither), with the target name present or absent per side, and a comment from a per-side alphabet
//! (none / A only / B only / equal / different). Every pair is converted into *real*
//! `quill::tree::mappings::Mappings<2, _>` objects, the real `Mappings::merge` is called, and the
//! three-namespace result is projected back into the model.
//!
//! Oracle (from the statement): the result is over (s, a, b); its entries are the union of the keys
//! at every level; column a holds A's name, column b holds B's name (absent where that side lacks the
//! entry); the comment is the one a side has (equal comments: that comment; different comments: the
//! merge must be refused); the projection law, phrased on the (s,a) and (s,b) projections of the
//! *actual* result; the stated conflicts (descriptors, parameter indices, comments, first namespaces)
//! must be `Err`. Inserting the entries of A / B in another order must not change the result as a set.

use std::collections::{BTreeMap, BTreeSet};
use duke::tree::class::ObjClassName;
use duke::tree::field::{FieldName, FieldNameAndDesc};
use duke::tree::method::{MethodName, MethodNameAndDesc};
use mapmodel::gen::{ClassU, FieldU, MethodU, ParamU, Space, Universe};
use mapmodel::{MClass, MField, MMethod, MParam, MSet, Order, Row};
use quill::tree::mappings::{Mappings, ParameterKey};
use quill::tree::names::Names;
use rayon::prelude::*;
use vcore::{json, Ctx, Stats, Value};

// namespace markers of the real objects
struct NsS;
struct NsA;
struct NsB;

// ---------------------------------------------------------------------------------------------
// universes

struct ShapeMethod {
	name: &'static str,
	desc: &'static str,
	params: &'static [usize],
}

struct ShapeClass {
	key: &'static str,
	fields: &'static [(&'static str, &'static str)],
	methods: &'static [ShapeMethod],
}

/// one class, one field, one method, one parameter: every per-entry option of both sides
const DEEP: &[ShapeClass] = &[ShapeClass { key: "p/K", fields: &[("f", "I")], methods: &[ShapeMethod { name: "m", desc: "(I)V", params: &[0] }] }];

/// several entries per level (same name with different descriptors, two parameters, two classes):
/// key union over more than one key and insertion orders
const WIDE: &[ShapeClass] = &[
	ShapeClass {
		key: "K",
		fields: &[("f", "I"), ("f", "J")],
		methods: &[ShapeMethod { name: "m", desc: "()V", params: &[] }, ShapeMethod { name: "m", desc: "(II)V", params: &[0, 1] }],
	},
	ShapeClass { key: "L", fields: &[("g", "LK;")], methods: &[] },
];

/// WIDE without the second class (room for absent target names in the thorough tier)
const WIDE1: &[ShapeClass] = &[ShapeClass {
	key: "K",
	fields: &[("f", "I"), ("f", "J")],
	methods: &[ShapeMethod { name: "m", desc: "()V", params: &[] }, ShapeMethod { name: "m", desc: "(II)V", params: &[0, 1] }],
}];

/// three entries in one map (three classes, three fields, three parameters): rotations of the insertion order
const WIDE3: &[ShapeClass] = &[
	ShapeClass { key: "K", fields: &[("f", "I"), ("f", "J"), ("g", "I")], methods: &[ShapeMethod { name: "m", desc: "(III)V", params: &[0, 1, 2] }] },
	ShapeClass { key: "L", fields: &[], methods: &[] },
	ShapeClass { key: "M", fields: &[], methods: &[] },
];

fn shape_by_name(n: &str) -> &'static [ShapeClass] {
	match n {
		"deep" => DEEP,
		"wide" => WIDE,
		"wide1" => WIDE1,
		"wide3" => WIDE3,
		_ => vcore::machinery_fail("unknown shape"),
	}
}

#[derive(Clone, Copy, PartialEq, Eq, Debug)]
enum Side {
	A,
	B,
}

impl Side {
	fn letter(self) -> &'static str {
		match self {
			Side::A => "a",
			Side::B => "b",
		}
	}
}

/// what one side may say about an entry
#[derive(Clone, Debug)]
struct SideOpts {
	/// target name (second namespace of the side): `false` = absent, `true` = present
	targets: &'static [bool],
	docs: &'static [Option<&'static str>],
	/// first-namespace name of a parameter: absent or this prefix + index
	param_src: &'static [Option<&'static str>],
}

const DOCS3: &[Option<&str>] = &[None, Some("d1"), Some("d2")];
const DOCS2: &[Option<&str>] = &[None, Some("d1")];
const DOCS0: &[Option<&str>] = &[None];

fn universe(shape: &[ShapeClass], side: Side, o: &SideOpts) -> Universe {
	let l = side.letter();
	let tails = |base: &str| -> Vec<Row> { o.targets.iter().map(|t| vec![if *t { Some(format!("{base}_{l}")) } else { None }]).collect() };
	let docs: Vec<Option<String>> = o.docs.iter().map(|d| d.map(|s| s.to_owned())).collect();
	Universe {
		ns: vec!["s".into(), l.into()],
		classes: shape.iter().map(|c| ClassU {
			key: c.key.into(),
			rows: tails(c.key),
			docs: docs.clone(),
			fields: c.fields.iter().map(|(n, d)| FieldU { name: n.to_string(), desc: d.to_string(), rows: tails(n), docs: docs.clone() }).collect(),
			methods: c.methods.iter().map(|m| MethodU {
				name: m.name.into(),
				desc: m.desc.into(),
				rows: tails(m.name),
				docs: docs.clone(),
				params: m.params.iter().map(|i| ParamU {
					index: *i,
					rows: o.param_src.iter().flat_map(|src| {
						o.targets.iter().map(move |t| vec![src.map(|s| format!("{s}{i}")), if *t { Some(format!("q{i}_{l}")) } else { None }])
					}).collect(),
					docs: docs.clone(),
				}).collect(),
			}).collect(),
			optional: true,
		}).collect(),
	}
}

// ---------------------------------------------------------------------------------------------
// sweeps

#[derive(Clone, Copy, PartialEq, Eq, Debug)]
enum Mutation {
	FieldDesc,
	MethodDesc,
	ParamIndex,
	ClassFirstName,
	FieldFirstName,
	MethodFirstName,
}

const MUTATIONS: &[Mutation] = &[Mutation::FieldDesc, Mutation::MethodDesc, Mutation::ParamIndex, Mutation::ClassFirstName, Mutation::FieldFirstName, Mutation::MethodFirstName];

impl Mutation {
	/// the error class of the statement this conflict belongs to (None: the statement is silent)
	fn stated_class(self) -> Option<&'static str> {
		match self {
			Mutation::FieldDesc => Some("descriptor-conflict:field"),
			Mutation::MethodDesc => Some("descriptor-conflict:method"),
			Mutation::ParamIndex => Some("parameter-index-conflict"),
			_ => None,
		}
	}
}

#[derive(Clone, Copy, PartialEq, Eq, Debug)]
enum Mode {
	/// well-formed pair, shared first namespace
	Plain,
	/// additionally every combination of top-level (mappings) comments
	TopDocs,
	/// B's namespaces replaced so that the first namespaces differ: must be refused
	FirstNs,
	/// B's second namespace has the same name as A's second one (statement silent: Ok or Err)
	SecondNsEqual,
	/// one stored descriptor / parameter index / first name of one side is made to disagree with
	/// the other side's entry under the same key (the only way such a conflict can exist, since
	/// keys contain the descriptor / index)
	Mutate,
}

/// namespaces of B whose first one differs from A's ("s", "a")
const FIRST_NS_VARIANTS: &[(&str, &str)] = &[("t", "b"), ("b", "s"), ("a", "b")];

struct Sweep {
	label: String,
	shape: &'static [ShapeClass],
	a: Vec<MSet>,
	b: Vec<MSet>,
	mode: Mode,
	orders: Vec<(Order, Order)>,
	bounds: Value,
}

impl Sweep {
	fn nx(&self) -> u64 {
		match self.mode {
			Mode::Plain | Mode::SecondNsEqual => 1,
			Mode::TopDocs => (DOCS3.len() * DOCS3.len()) as u64,
			Mode::FirstNs => FIRST_NS_VARIANTS.len() as u64,
			Mode::Mutate => (MUTATIONS.len() * 2) as u64,
		}
	}
	fn cases(&self) -> u64 {
		self.a.len() as u64 * self.b.len() as u64 * self.nx()
	}
	fn decode(&self, idx: u64) -> (usize, usize, u64) {
		let nx = self.nx();
		let nb = self.b.len() as u64;
		((idx / (nx * nb)) as usize, ((idx / nx) % nb) as usize, idx % nx)
	}
}

fn sweep(label: &str, shape_name: &str, oa: SideOpts, ob: SideOpts, mode: Mode, orders: &[(Order, Order)]) -> Sweep {
	let shape = shape_by_name(shape_name);
	let sa = Space::new(&universe(shape, Side::A, &oa));
	let sb = Space::new(&universe(shape, Side::B, &ob));
	Sweep {
		label: label.to_owned(),
		shape,
		bounds: json!({
			"shape": shape_name, "mode": format!("{mode:?}"),
			"A": {"target_name_present": oa.targets, "comments": oa.docs, "parameter_first_names": oa.param_src, "sets": sa.len()},
			"B": {"target_name_present": ob.targets, "comments": ob.docs, "parameter_first_names": ob.param_src, "sets": sb.len()},
			"insertion_orders": orders.iter().map(|o| format!("{o:?}")).collect::<Vec<_>>(),
		}),
		a: sa.all(),
		b: sb.all(),
		mode,
		orders: orders.to_vec(),
	}
}

fn sweeps(tier: vcore::Tier) -> Vec<Sweep> {
	use Order::*;
	const BOTH: &[bool] = &[false, true];
	const NAMED: &[bool] = &[true];
	const SRC2: &[Option<&str>] = &[None, Some("p")];
	const SRC3: &[Option<&str>] = &[None, Some("p"), Some("r")];
	const SRC1: &[Option<&str>] = &[Some("p")];
	let one: &[(Order, Order)] = &[(Sorted, Sorted)];
	let four: &[(Order, Order)] = &[(Sorted, Sorted), (Reversed, Reversed), (Sorted, Reversed), (Reversed, Sorted)];
	let six: &[(Order, Order)] = &[(Sorted, Sorted), (Reversed, Reversed), (Sorted, Reversed), (Reversed, Sorted), (Rotated(1), Sorted), (Sorted, Rotated(1))];
	let simple = || SideOpts { targets: NAMED, docs: DOCS0, param_src: SRC1 };
	let mut v = Vec::new();
	match tier {
		vcore::Tier::Quick => {
			v.push(sweep("q-deep", "deep", SideOpts { targets: BOTH, docs: DOCS2, param_src: SRC2 }, SideOpts { targets: BOTH, docs: DOCS3, param_src: SRC3 }, Mode::Plain, one));
			v.push(sweep("q-wide-orders", "wide", simple(), simple(), Mode::Plain, four));
		},
		vcore::Tier::Thorough => {
			v.push(sweep("t-deep", "deep", SideOpts { targets: BOTH, docs: DOCS3, param_src: SRC3 }, SideOpts { targets: BOTH, docs: DOCS3, param_src: SRC3 }, Mode::Plain, one));
			v.push(sweep("t-wide-orders", "wide", simple(), simple(), Mode::Plain, four));
			v.push(sweep("t-wide1-names-orders", "wide1", SideOpts { targets: BOTH, docs: DOCS0, param_src: SRC1 }, SideOpts { targets: BOTH, docs: DOCS0, param_src: SRC1 }, Mode::Plain, four));
			v.push(sweep("t-wide1-comments-orders", "wide1", SideOpts { targets: NAMED, docs: DOCS2, param_src: SRC1 }, SideOpts { targets: NAMED, docs: DOCS2, param_src: SRC1 }, Mode::Plain, &four[..2]));
		},
	}
	// the same in both tiers (small)
	v.push(sweep("wide3-rotated-orders", "wide3", simple(), simple(), Mode::Plain, six));
	v.push(sweep("wide-top-comments", "wide", simple(), simple(), Mode::TopDocs, one));
	v.push(sweep("wide-first-namespace-differs", "wide", simple(), simple(), Mode::FirstNs, one));
	v.push(sweep("wide-second-namespaces-equal", "wide", simple(), simple(), Mode::SecondNsEqual, one));
	v.push(sweep("wide-stored-value-conflicts", "wide", simple(), simple(), Mode::Mutate, one));
	v
}

// ---------------------------------------------------------------------------------------------
// reference: what the statement says the merge of two well-formed sets is

struct Expect {
	/// the result, if the merge succeeds
	set: MSet,
	/// conflicts for which the merge must be refused (error classes)
	must_err: BTreeSet<&'static str>,
	/// situations the statement is silent about: refusing is acceptable
	may_err: BTreeSet<&'static str>,
}

fn join_doc(a: Option<&Option<String>>, b: Option<&Option<String>>, class: &'static str, must: &mut BTreeSet<&'static str>) -> Option<String> {
	match (a.and_then(|d| d.as_ref()), b.and_then(|d| d.as_ref())) {
		(None, None) => None,
		(Some(x), None) | (None, Some(x)) => Some(x.clone()),
		(Some(x), Some(y)) if x == y => Some(x.clone()),
		(Some(x), Some(_)) => {
			must.insert(class);
			Some(x.clone())
		},
	}
}

fn target(r: Option<&Row>) -> Option<String> {
	r.and_then(|r| r[1].clone())
}

fn union_keys<'a, K: Ord, V>(a: Option<&'a BTreeMap<K, V>>, b: Option<&'a BTreeMap<K, V>>) -> BTreeSet<&'a K> {
	a.into_iter().flat_map(|m| m.keys()).chain(b.into_iter().flat_map(|m| m.keys())).collect()
}

fn reference_merge(a: &MSet, b: &MSet) -> Expect {
	let mut must = BTreeSet::new();
	let mut may = BTreeSet::new();
	if a.ns[0] != b.ns[0] {
		must.insert("first-namespace");
	}
	let mut set = MSet { ns: vec![a.ns[0].clone(), a.ns[1].clone(), b.ns[1].clone()], doc: join_doc(Some(&a.doc), Some(&b.doc), "comment-conflict:mappings", &mut must), classes: BTreeMap::new() };
	for k in union_keys(Some(&a.classes), Some(&b.classes)) {
		let (ca, cb) = (a.classes.get(k), b.classes.get(k));
		let mut c = MClass {
			names: vec![Some(k.clone()), target(ca.map(|c| &c.names)), target(cb.map(|c| &c.names))],
			doc: join_doc(ca.map(|c| &c.doc), cb.map(|c| &c.doc), "comment-conflict:class", &mut must),
			..Default::default()
		};
		for fk in union_keys(ca.map(|c| &c.fields), cb.map(|c| &c.fields)) {
			let (fa, fb) = (ca.and_then(|c| c.fields.get(fk)), cb.and_then(|c| c.fields.get(fk)));
			c.fields.insert(fk.clone(), MField {
				names: vec![Some(fk.0.clone()), target(fa.map(|f| &f.names)), target(fb.map(|f| &f.names))],
				doc: join_doc(fa.map(|f| &f.doc), fb.map(|f| &f.doc), "comment-conflict:field", &mut must),
			});
		}
		for mk in union_keys(ca.map(|c| &c.methods), cb.map(|c| &c.methods)) {
			let (ma, mb) = (ca.and_then(|c| c.methods.get(mk)), cb.and_then(|c| c.methods.get(mk)));
			let mut m = MMethod {
				names: vec![Some(mk.0.clone()), target(ma.map(|m| &m.names)), target(mb.map(|m| &m.names))],
				doc: join_doc(ma.map(|m| &m.doc), mb.map(|m| &m.doc), "comment-conflict:method", &mut must),
				params: BTreeMap::new(),
			};
			for pk in union_keys(ma.map(|m| &m.params), mb.map(|m| &m.params)) {
				let (pa, pb) = (ma.and_then(|m| m.params.get(pk)), mb.and_then(|m| m.params.get(pk)));
				// The first-namespace name of a parameter is not part of its key. The entry has one
				// cell for it: two different names cannot both be kept (no result can project back
				// onto both sides), a name on one side only must at least not be dropped.
				let first = match (pa, pb) {
					(Some(x), None) | (None, Some(x)) => x.names[0].clone(),
					(Some(x), Some(y)) => match (&x.names[0], &y.names[0]) {
						(p, q) if p == q => p.clone(),
						(Some(p), Some(_)) => {
							must.insert("parameter-first-name-conflict");
							Some(p.clone())
						},
						(Some(p), None) | (None, Some(p)) => {
							may.insert("parameter-first-name-on-one-side");
							Some(p.clone())
						},
						(None, None) => None,
					},
					(None, None) => None,
				};
				m.params.insert(*pk, MParam {
					names: vec![first, target(pa.map(|p| &p.names)), target(pb.map(|p| &p.names))],
					doc: join_doc(pa.map(|p| &p.doc), pb.map(|p| &p.doc), "comment-conflict:parameter", &mut must),
				});
			}
			c.methods.insert(mk.clone(), m);
		}
		set.classes.insert(k.clone(), c);
	}
	Expect { set, must_err: must, may_err: may }
}

// ---------------------------------------------------------------------------------------------
// comparing (all distinct differences of a case, one per key)

#[derive(Default)]
struct Diffs(BTreeMap<String, String>);

impl Diffs {
	fn add(&mut self, key: String, what: impl FnOnce() -> String) {
		self.0.entry(key).or_insert_with(what);
	}
}

fn share(in_a: bool, in_b: bool) -> &'static str {
	match (in_a, in_b) {
		(true, true) => "both",
		(true, false) => "A-only",
		(false, true) => "B-only",
		(false, false) => "neither",
	}
}

/// where an entry is: formatted only when a difference is reported
#[derive(Clone, Copy, Default)]
struct At<'a> {
	class: Option<&'a String>,
	member: Option<&'a (String, String)>,
	param: Option<usize>,
}

impl std::fmt::Display for At<'_> {
	fn fmt(&self, f: &mut std::fmt::Formatter<'_>) -> std::fmt::Result {
		if let Some(p) = self.param {
			write!(f, "{p} of ")?;
		}
		if let Some(m) = self.member {
			write!(f, "{m:?} of ")?;
		}
		match self.class {
			Some(c) => write!(f, "class {c:?}"),
			None => write!(f, "the mappings"),
		}
	}
}

fn cmp_keys<K: Ord + std::fmt::Debug, V>(level: &str, at: At, e: &BTreeMap<K, V>, r: &BTreeMap<K, V>, sh: impl Fn(&K) -> &'static str, out: &mut Diffs) {
	for k in e.keys() {
		if !r.contains_key(k) {
			out.add(format!("result:{level}:missing[{}]", sh(k)), || format!("{level} {k:?} (in {at}) is in the union of the keys but not in the result"));
		}
	}
	for k in r.keys() {
		if !e.contains_key(k) {
			out.add(format!("result:{level}:extra"), || format!("{level} {k:?} (in {at}) is in the result but in neither input"));
		}
	}
}

fn cmp_entry(level: &str, at: At, sh: &str, en: &Row, ed: &Option<String>, rn: &Row, rd: &Option<String>, out: &mut Diffs) {
	if en != rn {
		out.add(format!("result:{level}.names[{sh}]"), || format!("{level} {at}: expected names {en:?}, got {rn:?}"));
	}
	if ed != rd {
		out.add(format!("result:{level}.comment[{sh}]"), || format!("{level} {at}: expected comment {ed:?}, got {rd:?}"));
	}
}

/// expected (from the statement) against the actual result
fn compare(e: &MSet, r: &MSet, a: &MSet, b: &MSet, out: &mut Diffs) {
	if e.ns != r.ns {
		out.add("result:namespaces".into(), || format!("expected namespaces {:?}, got {:?}", e.ns, r.ns));
	}
	if e.doc != r.doc {
		out.add("result:mappings.comment".into(), || format!("expected mappings comment {:?}, got {:?}", e.doc, r.doc));
	}
	cmp_keys("class", At::default(), &e.classes, &r.classes, |k| share(a.classes.contains_key(k), b.classes.contains_key(k)), out);
	for (k, ec) in &e.classes {
		let Some(rc) = r.classes.get(k) else { continue };
		let (ca, cb) = (a.classes.get(k), b.classes.get(k));
		let at = At { class: Some(k), ..At::default() };
		cmp_entry("class", at, share(ca.is_some(), cb.is_some()), &ec.names, &ec.doc, &rc.names, &rc.doc, out);
		cmp_keys("field", at, &ec.fields, &rc.fields, |fk| share(ca.is_some_and(|c| c.fields.contains_key(fk)), cb.is_some_and(|c| c.fields.contains_key(fk))), out);
		cmp_keys("method", at, &ec.methods, &rc.methods, |mk| share(ca.is_some_and(|c| c.methods.contains_key(mk)), cb.is_some_and(|c| c.methods.contains_key(mk))), out);
		for (fk, ef) in &ec.fields {
			let Some(rf) = rc.fields.get(fk) else { continue };
			let sh = share(ca.is_some_and(|c| c.fields.contains_key(fk)), cb.is_some_and(|c| c.fields.contains_key(fk)));
			cmp_entry("field", At { member: Some(fk), ..at }, sh, &ef.names, &ef.doc, &rf.names, &rf.doc, out);
		}
		for (mk, em) in &ec.methods {
			let Some(rm) = rc.methods.get(mk) else { continue };
			let (ma, mb) = (ca.and_then(|c| c.methods.get(mk)), cb.and_then(|c| c.methods.get(mk)));
			let at = At { member: Some(mk), ..at };
			cmp_entry("method", at, share(ma.is_some(), mb.is_some()), &em.names, &em.doc, &rm.names, &rm.doc, out);
			cmp_keys("parameter", at, &em.params, &rm.params, |pk| share(ma.is_some_and(|m| m.params.contains_key(pk)), mb.is_some_and(|m| m.params.contains_key(pk))), out);
			for (pk, ep) in &em.params {
				let Some(rp) = rm.params.get(pk) else { continue };
				let sh = share(ma.is_some_and(|m| m.params.contains_key(pk)), mb.is_some_and(|m| m.params.contains_key(pk)));
				cmp_entry("parameter", At { param: Some(*pk), ..at }, sh, &ep.names, &ep.doc, &rp.names, &rp.doc, out);
			}
		}
	}
}

/// keeps the first namespace and namespace `col`
fn project(m: &MSet, col: usize) -> MSet {
	let row = |r: &Row| -> Row { vec![r[0].clone(), r[col].clone()] };
	MSet {
		ns: vec![m.ns[0].clone(), m.ns[col].clone()],
		doc: m.doc.clone(),
		classes: m.classes.iter().map(|(k, c)| (k.clone(), MClass {
			names: row(&c.names),
			doc: c.doc.clone(),
			fields: c.fields.iter().map(|(fk, f)| (fk.clone(), MField { names: row(&f.names), doc: f.doc.clone() })).collect(),
			methods: c.methods.iter().map(|(mk, me)| (mk.clone(), MMethod {
				names: row(&me.names),
				doc: me.doc.clone(),
				params: me.params.iter().map(|(pk, p)| (*pk, MParam { names: row(&p.names), doc: p.doc.clone() })).collect(),
			})).collect(),
		})).collect(),
	}
}

struct Law<'a> {
	side: &'static str,
	out: &'a mut Diffs,
}

impl Law<'_> {
	/// an entry of the side must reappear unchanged (its comment, when the side has none, may be the other side's)
	fn same(&mut self, level: &str, at: At, names_ok: bool, own: (&Row, &Option<String>), other_doc: Option<&Option<String>>, got: (&Row, &Option<String>)) {
		let side = self.side;
		if !names_ok {
			self.out.add(format!("projection:{side}:{level}.names"), || format!("{level} {at} of {side}: names {:?} came back as {:?}", own.0, got.0));
		}
		let doc_ok = match own.1 {
			Some(_) => got.1 == own.1,
			None => got.1.is_none() || other_doc.is_some_and(|d| d == got.1),
		};
		if !doc_ok {
			self.out.add(format!("projection:{side}:{level}.comment"), || format!("{level} {at} of {side}: comment {:?} came back as {:?}", own.1, got.1));
		}
	}
	fn lost(&mut self, level: &str, at: At) {
		let side = self.side;
		self.out.add(format!("projection:{side}:{level}:lost"), || format!("{level} {at} of {side} is not in the projection of the result"));
	}
	/// an entry of the projection that the side does not have: its key must be in the other side, and it has no name of this side
	fn extra(&mut self, level: &str, at: At, in_other: bool, names: &Row) {
		let side = self.side;
		if !in_other {
			self.out.add(format!("projection:{side}:{level}:invented"), || format!("{level} {at} of the projection is in neither input"));
		}
		if names[1].is_some() {
			self.out.add(format!("projection:{side}:{level}:extra-entry-has-name"), || format!("{level} {at} does not exist in {side} but carries the name {:?} in its column", names[1]));
		}
	}
}

/// The projection law: every entry of `own` reappears in `proj` (the result restricted to the first
/// namespace and `own`'s column) with identical names, descriptor (part of the key) and comment, and
/// every extra entry of `proj` has its key in `other` and no name in `own`'s column.
fn projection_law(side: &'static str, own: &MSet, other: &MSet, proj: &MSet, out: &mut Diffs) {
	let mut law = Law { side, out };
	if proj.ns != own.ns {
		law.out.add(format!("projection:{side}:namespaces"), || format!("namespaces {:?} came back as {:?}", own.ns, proj.ns));
	}
	law.same("mappings", At::default(), true, (&vec![], &own.doc), Some(&other.doc), (&vec![], &proj.doc));
	for (k, c) in &own.classes {
		let at = At { class: Some(k), ..At::default() };
		let Some(pc) = proj.classes.get(k) else {
			law.lost("class", at);
			continue;
		};
		let oc = other.classes.get(k);
		law.same("class", at, pc.names == c.names, (&c.names, &c.doc), oc.map(|c| &c.doc), (&pc.names, &pc.doc));
		for (fk, f) in &c.fields {
			let at = At { member: Some(fk), ..at };
			match pc.fields.get(fk) {
				None => law.lost("field", at),
				Some(pf) => law.same("field", at, pf.names == f.names, (&f.names, &f.doc), oc.and_then(|c| c.fields.get(fk)).map(|f| &f.doc), (&pf.names, &pf.doc)),
			}
		}
		for (mk, m) in &c.methods {
			let at = At { member: Some(mk), ..at };
			let Some(pm) = pc.methods.get(mk) else {
				law.lost("method", at);
				continue;
			};
			let om = oc.and_then(|c| c.methods.get(mk));
			law.same("method", at, pm.names == m.names, (&m.names, &m.doc), om.map(|m| &m.doc), (&pm.names, &pm.doc));
			for (pk, p) in &m.params {
				let at = At { param: Some(*pk), ..at };
				let Some(pp) = pm.params.get(pk) else {
					law.lost("parameter", at);
					continue;
				};
				let op = om.and_then(|m| m.params.get(pk));
				// a first name that only the other side has may (must, see `compare`) be kept
				let first_ok = pp.names[0] == p.names[0] || (p.names[0].is_none() && op.is_some_and(|o| o.names[0] == pp.names[0]));
				law.same("parameter", at, first_ok && pp.names[1] == p.names[1], (&p.names, &p.doc), op.map(|p| &p.doc), (&pp.names, &pp.doc));
			}
		}
	}
	// extras
	for (k, pc) in &proj.classes {
		let (c, oc) = (own.classes.get(k), other.classes.get(k));
		let at = At { class: Some(k), ..At::default() };
		if c.is_none() {
			law.extra("class", at, oc.is_some(), &pc.names);
		}
		for (fk, pf) in &pc.fields {
			if !c.is_some_and(|c| c.fields.contains_key(fk)) {
				law.extra("field", At { member: Some(fk), ..at }, oc.is_some_and(|c| c.fields.contains_key(fk)), &pf.names);
			}
		}
		for (mk, pm) in &pc.methods {
			let (m, om) = (c.and_then(|c| c.methods.get(mk)), oc.and_then(|c| c.methods.get(mk)));
			if m.is_none() {
				law.extra("method", At { member: Some(mk), ..at }, om.is_some(), &pm.names);
			}
			for (pk, pp) in &pm.params {
				if !m.is_some_and(|m| m.params.contains_key(pk)) {
					law.extra("parameter", At { member: Some(mk), param: Some(*pk), ..at }, om.is_some_and(|m| m.params.contains_key(pk)), &pp.names);
				}
			}
		}
	}
}

// ---------------------------------------------------------------------------------------------
// running the real code

/// the entry of the shape whose stored values are made to conflict in `Mode::Mutate`
struct Target {
	class: &'static str,
	field: (&'static str, &'static str),
	method: (&'static str, &'static str),
	param: usize,
}

fn target_of(shape: &'static [ShapeClass]) -> Target {
	let c = &shape[0];
	let m = c.methods.iter().find(|m| !m.params.is_empty()).unwrap_or_else(|| vcore::machinery_fail("shape without parameters"));
	Target { class: c.key, field: c.fields[0], method: (m.name, m.desc), param: m.params[0] }
}

fn has_target(s: &MSet, t: &Target, m: Mutation) -> bool {
	let Some(c) = s.classes.get(t.class) else { return false };
	let me = c.methods.get(&(t.method.0.to_owned(), t.method.1.to_owned()));
	match m {
		Mutation::ClassFirstName => true,
		Mutation::FieldDesc | Mutation::FieldFirstName => c.fields.contains_key(&(t.field.0.to_owned(), t.field.1.to_owned())),
		Mutation::MethodDesc | Mutation::MethodFirstName => me.is_some(),
		Mutation::ParamIndex => me.is_some_and(|m| m.params.contains_key(&t.param)),
	}
}

fn gen_bug<T>(r: anyhow::Result<T>) -> T {
	r.unwrap_or_else(|e| vcore::machinery_fail(&format!("generator produced an invalid value: {e:#}")))
}

/// Overwrites one stored value of the real object (public fields only), leaving the key alone.
fn mutate<Ns>(q: &mut Mappings<2, Ns>, t: &Target, m: Mutation) {
	let missing = || -> ! { vcore::machinery_fail("mutation target missing") };
	let c = q.classes.get_mut(&gen_bug(mapmodel::cls(t.class))).unwrap_or_else(|| missing());
	let fkey = FieldNameAndDesc { name: gen_bug(mapmodel::fname(t.field.0)), desc: gen_bug(mapmodel::fdesc(t.field.1)) };
	let mkey = MethodNameAndDesc { name: gen_bug(mapmodel::mname(t.method.0)), desc: gen_bug(mapmodel::mdesc(t.method.1)) };
	match m {
		Mutation::ClassFirstName => {
			let [_, n1] = <&[Option<ObjClassName>; 2]>::from(&c.info.names).clone();
			c.info.names = gen_bug(Names::try_from([Some(gen_bug(mapmodel::cls("Other"))), n1]));
		},
		Mutation::FieldDesc => c.fields.get_mut(&fkey).unwrap_or_else(|| missing()).info.desc = gen_bug(mapmodel::fdesc("Z")),
		Mutation::FieldFirstName => {
			let f = c.fields.get_mut(&fkey).unwrap_or_else(|| missing());
			let [_, n1] = <&[Option<FieldName>; 2]>::from(&f.info.names).clone();
			f.info.names = gen_bug(Names::try_from([Some(gen_bug(mapmodel::fname("other"))), n1]));
		},
		Mutation::MethodDesc => c.methods.get_mut(&mkey).unwrap_or_else(|| missing()).info.desc = gen_bug(mapmodel::mdesc("(Z)V")),
		Mutation::MethodFirstName => {
			let me = c.methods.get_mut(&mkey).unwrap_or_else(|| missing());
			let [_, n1] = <&[Option<MethodName>; 2]>::from(&me.info.names).clone();
			me.info.names = gen_bug(Names::try_from([Some(gen_bug(mapmodel::mname("other"))), n1]));
		},
		Mutation::ParamIndex => {
			let me = c.methods.get_mut(&mkey).unwrap_or_else(|| missing());
			me.parameters.get_mut(&ParameterKey { index: t.param }).unwrap_or_else(|| missing()).info.index = 7;
		},
	}
}

/// `Ok(Ok(set))` merged, `Ok(Err(msg))` refused, `Err` = the result breaks quill's own key invariant
type Real = Result<Result<MSet, String>, mapmodel::KeyMismatch>;

/// Builds fresh real objects and calls the real merge.
fn real_merge(a: &MSet, b: &MSet, oa: Order, ob: Order, mutation: Option<(Mutation, Side, &Target)>, project_result: bool) -> Result<Real, vcore::Panic> {
	let mut qa: Mappings<2, (NsS, NsA)> = gen_bug(mapmodel::to_quill_ordered(a, oa));
	let mut qb: Mappings<2, (NsS, NsB)> = gen_bug(mapmodel::to_quill_ordered(b, ob));
	if let Some((m, side, t)) = mutation {
		match side {
			Side::A => mutate(&mut qa, t, m),
			Side::B => mutate(&mut qb, t, m),
		}
	}
	vcore::guard(|| match Mappings::<2, (NsS, NsA, NsB)>::merge(&qa, &qb) {
		Ok(q) if project_result => mapmodel::from_quill::<3, _>(&q).map(Ok),
		Ok(_) => Ok(Ok(MSet::default())),
		Err(e) => Ok(Err(format!("{e:#}"))),
	})
}

// ---------------------------------------------------------------------------------------------
// one case

const LEVELS: [&str; 4] = ["class", "field", "method", "parameter"];
const COMBOS: [&str; 4] = ["neither", "A-only", "B-only", "both"];

#[derive(Default)]
struct Tally {
	/// [level][combo] over the universe entries of pairs whose plain merge succeeded
	sharing: [[u64; 4]; 4],
	counters: BTreeMap<&'static str, u64>,
}

impl Tally {
	fn count(&mut self, name: &'static str) {
		*self.counters.entry(name).or_insert(0) += 1;
	}
	fn flush(self, st: &mut Stats) {
		for (l, row) in self.sharing.iter().enumerate() {
			for (c, n) in row.iter().enumerate() {
				if *n > 0 {
					st.outcome_n(&format!("sharing:{}:{}", LEVELS[l], COMBOS[c]), *n);
				}
			}
		}
		for (k, n) in self.counters {
			st.outcome_n(k, n);
		}
	}
}

fn combo(in_a: bool, in_b: bool) -> usize {
	(in_a as usize) | ((in_b as usize) << 1)
}

fn tally_sharing(shape: &[ShapeClass], a: &MSet, b: &MSet, t: &mut Tally) {
	for sc in shape {
		let (ca, cb) = (a.classes.get(sc.key), b.classes.get(sc.key));
		t.sharing[0][combo(ca.is_some(), cb.is_some())] += 1;
		for (n, d) in sc.fields {
			let k = (n.to_string(), d.to_string());
			t.sharing[1][combo(ca.is_some_and(|c| c.fields.contains_key(&k)), cb.is_some_and(|c| c.fields.contains_key(&k)))] += 1;
		}
		for sm in sc.methods {
			let k = (sm.name.to_owned(), sm.desc.to_owned());
			let (ma, mb) = (ca.and_then(|c| c.methods.get(&k)), cb.and_then(|c| c.methods.get(&k)));
			t.sharing[2][combo(ma.is_some(), mb.is_some())] += 1;
			for p in sm.params {
				t.sharing[3][combo(ma.is_some_and(|m| m.params.contains_key(p)), mb.is_some_and(|m| m.params.contains_key(p)))] += 1;
			}
		}
	}
}

/// which comment situations and name placements a successful merge went through
fn tally_content(a: &MSet, b: &MSet, t: &mut Tally) {
	let mut doc = |x: Option<&Option<String>>, y: Option<&Option<String>>| match (x.and_then(|d| d.as_ref()), y.and_then(|d| d.as_ref())) {
		(Some(_), None) => t.count("merged-comment:from-A"),
		(None, Some(_)) => t.count("merged-comment:from-B"),
		(Some(_), Some(_)) => t.count("merged-comment:equal-on-both-sides"),
		(None, None) => {},
	};
	doc(Some(&a.doc), Some(&b.doc));
	for k in union_keys(Some(&a.classes), Some(&b.classes)) {
		let (ca, cb) = (a.classes.get(k), b.classes.get(k));
		doc(ca.map(|c| &c.doc), cb.map(|c| &c.doc));
		for fk in union_keys(ca.map(|c| &c.fields), cb.map(|c| &c.fields)) {
			doc(ca.and_then(|c| c.fields.get(fk)).map(|f| &f.doc), cb.and_then(|c| c.fields.get(fk)).map(|f| &f.doc));
		}
		for mk in union_keys(ca.map(|c| &c.methods), cb.map(|c| &c.methods)) {
			let (ma, mb) = (ca.and_then(|c| c.methods.get(mk)), cb.and_then(|c| c.methods.get(mk)));
			doc(ma.map(|m| &m.doc), mb.map(|m| &m.doc));
			for pk in union_keys(ma.map(|m| &m.params), mb.map(|m| &m.params)) {
				doc(ma.and_then(|m| m.params.get(pk)).map(|p| &p.doc), mb.and_then(|m| m.params.get(pk)).map(|p| &p.doc));
			}
		}
	}
}

fn order_matters(s: &MSet) -> bool {
	s.classes.len() > 1 || s.classes.values().any(|c| c.fields.len() > 1 || c.methods.len() > 1 || c.methods.values().any(|m| m.params.len() > 1))
}

fn render(s: &MSet) -> String {
	format!("mappings comment: {:?}\n{}", s.doc, mapmodel::tiny::print(s))
}

fn case_text(sw: &Sweep, ia: usize, ib: usize, x: u64, a: &MSet, b: &MSet, extra: &str) -> String {
	format!("case sweep={} ia={ia} ib={ib} x={x}\nmode={:?}\n--- A ---\n{}--- B ---\n{}{extra}", sw.label, sw.mode, render(a), render(b))
}

fn show_real(r: &Result<Real, vcore::Panic>) -> String {
	match r {
		Err(p) => format!("panic at {}: {}", p.site, p.msg),
		Ok(Err(k)) => format!("result breaks the key invariant: {}", k.0),
		Ok(Ok(Err(e))) => format!("Err: {e}"),
		Ok(Ok(Ok(s))) => format!("Ok:\n{}", render(s)),
	}
}

fn digest_of(r: &Result<Real, vcore::Panic>) -> u64 {
	match r {
		Err(p) => vcore::hash64(&(0, &p.site, &p.msg)),
		Ok(Err(k)) => vcore::hash64(&(1, &k.0)),
		Ok(Ok(Err(e))) => vcore::hash64(&(2, e)),
		Ok(Ok(Ok(s))) => vcore::hash64(&(3, s)),
	}
}

/// the two inputs of a case (well-formed model sets; `Mode::Mutate` changes the real objects later)
fn inputs(sw: &Sweep, ia: usize, ib: usize, x: u64) -> (MSet, MSet) {
	let mut a = sw.a[ia].clone();
	let mut b = sw.b[ib].clone();
	match sw.mode {
		Mode::Plain | Mode::Mutate => {},
		Mode::TopDocs => {
			a.doc = DOCS3[x as usize / DOCS3.len()].map(|s| s.to_owned());
			b.doc = DOCS3[x as usize % DOCS3.len()].map(|s| s.to_owned());
		},
		Mode::FirstNs => {
			let (n0, n1) = FIRST_NS_VARIANTS[x as usize];
			b.ns = vec![n0.to_owned(), n1.to_owned()];
		},
		Mode::SecondNsEqual => b.ns = vec!["s".to_owned(), "a".to_owned()],
	}
	(a, b)
}

/// Runs one case through the real code and the oracle; returns a digest of what was observed.
fn run_case(ctx: &Ctx, sw: &Sweep, ia: usize, ib: usize, x: u64, st: &mut Stats, t: &mut Tally) -> u64 {
	let (a, b) = inputs(sw, ia, ib, x);
	let (a, b) = (&a, &b);
	let text = |extra: &str| case_text(sw, ia, ib, x, a, b, extra);

	if sw.mode == Mode::Mutate {
		let m = MUTATIONS[x as usize / 2];
		let side = if x % 2 == 0 { Side::B } else { Side::A };
		let tg = target_of(sw.shape);
		let (mine, other) = match side {
			Side::A => (a, b),
			Side::B => (b, a),
		};
		if !has_target(mine, &tg, m) {
			t.count("stored-value-conflict:side-lacks-the-entry(skipped)");
			return 0;
		}
		st.eval();
		let real = real_merge(a, b, Order::Sorted, Order::Sorted, Some((m, side, &tg)), false);
		let what = format!("\nstored value overwritten: {m:?} of side {side:?} (class {:?}, field {:?}, method {:?}, parameter {})\nreal: {}", tg.class, tg.field, tg.method, tg.param, show_real(&real));
		let conflict = has_target(other, &tg, m);
		match (&real, m.stated_class().filter(|_| conflict)) {
			(Err(p), _) => ctx.diff(&format!("panic@{}", p.file()), &format!("merge panicked at {}: {}", p.site, p.msg), || text(&what)),
			(Ok(Ok(Err(_))), Some(class)) => {
				t.count(match class {
					"descriptor-conflict:field" => "err:descriptor-conflict:field",
					"descriptor-conflict:method" => "err:descriptor-conflict:method",
					_ => "err:parameter-index-conflict",
				});
				st.sample(class, || json!({"kind": "stated-conflict", "class": class, "case": text(&what)}));
			},
			(Ok(_), Some(class)) => ctx.diff(&format!("accepted:{class}"), &format!("both sides have the entry under the same key but disagree ({class}); the merge was not refused"), || text(&what)),
			(Ok(Ok(Err(_))), None) => t.count("inconsistent-input(unjudged):refused"),
			(Ok(_), None) => t.count("inconsistent-input(unjudged):merged"),
		}
		return digest_of(&real);
	}

	let expect = reference_merge(a, b);
	let mut digest = 0u64;
	let mut base: Option<Result<MSet, ()>> = None;
	for (oi, (oa, ob)) in sw.orders.iter().enumerate() {
		st.eval();
		let real = real_merge(a, b, *oa, *ob, None, true);
		digest = digest.wrapping_mul(31).wrapping_add(digest_of(&real));
		let what = || format!("\ninsertion orders: A {oa:?}, B {ob:?}\nreal: {}", show_real(&real));
		let verdict: Result<MSet, ()> = match &real {
			Err(p) => {
				ctx.diff(&format!("panic@{}", p.file()), &format!("merge panicked at {}: {}", p.site, p.msg), || text(&what()));
				continue;
			},
			Ok(Err(k)) => {
				ctx.diff("result:key-invariant-broken", &k.0, || text(&what()));
				continue;
			},
			Ok(Ok(Err(_))) => Err(()),
			Ok(Ok(Ok(s))) => Ok(s.clone()),
		};
		if oi > 0 {
			// order independence: same verdict, same result as a set
			t.count("order:variants-compared");
			match (&base, &verdict) {
				(Some(Ok(x)), Ok(y)) if x == y => {},
				(Some(Err(())), Err(())) => {},
				(Some(Ok(x)), Ok(y)) => {
					let (k, w) = mapmodel::first_difference(x, y).unwrap_or(("other".into(), "differ".into()));
					ctx.diff(&format!("order:result-depends-on-insertion-order:{k}"), &format!("inserting the same entries in another order changed the merged set: {w}"), || text(&format!("{}\nresult with the sorted order:\n{}", what(), render(x))));
				},
				(Some(_), _) => ctx.diff("order:verdict-depends-on-insertion-order", "inserting the same entries in another order turned Ok into Err or Err into Ok", || text(&what())),
				(None, _) => {},
			}
			continue;
		}
		base = Some(verdict.clone());
		match verdict {
			Err(()) => {
				if !expect.must_err.is_empty() {
					if expect.must_err.len() == 1 {
						let class = *expect.must_err.iter().next().unwrap();
						t.count(match class {
							"first-namespace" => "err:first-namespace",
							"comment-conflict:mappings" => "err:comment-conflict:mappings",
							"comment-conflict:class" => "err:comment-conflict:class",
							"comment-conflict:field" => "err:comment-conflict:field",
							"comment-conflict:method" => "err:comment-conflict:method",
							"comment-conflict:parameter" => "err:comment-conflict:parameter",
							_ => "err:parameter-first-name-conflict",
						});
						st.sample(class, || json!({"kind": "stated-conflict", "class": class, "case": text(&what())}));
					} else {
						t.count("err:several-conflicts-at-once");
					}
				} else if !expect.may_err.is_empty() {
					t.count("err(accepted, statement silent):parameter-first-name-on-one-side");
				} else {
					ctx.diff("refused:valid-pair", "two sets without any conflict were not merged", || text(&what()));
				}
			},
			Ok(r) => {
				if !expect.must_err.is_empty() {
					for class in &expect.must_err {
						ctx.diff(&format!("accepted:{class}"), &format!("the inputs conflict ({class}) but the merge was not refused"), || text(&what()));
					}
					continue;
				}
				let mut d = Diffs::default();
				compare(&expect.set, &r, a, b, &mut d);
				projection_law("A", a, b, &project(&r, 1), &mut d);
				projection_law("B", b, a, &project(&r, 2), &mut d);
				for (k, w) in &d.0 {
					ctx.diff(k, w, || text(&format!("{}\nexpected:\n{}", what(), render(&expect.set))));
				}
				t.count("ok");
				if !expect.may_err.is_empty() {
					t.count("ok:parameter-first-name-on-one-side-kept");
				}
				if sw.mode == Mode::Plain {
					tally_sharing(sw.shape, a, b, t);
				}
				tally_content(a, b, t);
				if !a.classes.is_empty() && !b.classes.is_empty() {
					t.count("ok:both-sides-contributed");
					st.distinct.add(&r);
					let mut probe = Tally::default();
					tally_sharing(sw.shape, a, b, &mut probe);
					if (1..4).all(|c| probe.sharing.iter().any(|l| l[c] > 0)) {
						t.count("ok:entries-of-all-three-kinds");
					}
					st.sample(match sw.mode { Mode::Plain => "ok:plain", Mode::TopDocs => "ok:top-comments", _ => "ok:other" }, || json!({"kind": "merged-pair", "case": text(&what())}));
				}
				if sw.orders.len() > 1 && (order_matters(a) || order_matters(b)) {
					t.count("order:pairs-with-more-than-one-entry-at-a-level");
				}
			},
		}
	}
	digest
}

const CHUNK: u64 = 512;

fn run_sweep(ctx: &'static Ctx, sw: &Sweep) -> Stats {
	let total = sw.cases();
	let chunks = total.div_ceil(CHUNK);
	(0..chunks).into_par_iter().fold(Stats::new, |mut st, ch| {
		let lo = ch * CHUNK;
		let hi = (lo + CHUNK).min(total);
		let mut t = Tally::default();
		vcore::watched(|| format!("sweep={} cases {lo}..{hi} (case index = (ia*|B| + ib)*nx + x)", sw.label), || {
			for idx in lo..hi {
				let (ia, ib, x) = sw.decode(idx);
				run_case(ctx, sw, ia, ib, x, &mut st, &mut t);
			}
		});
		t.flush(&mut st);
		st
	}).reduce(Stats::new, Stats::merge)
}

fn main() {
	let ctx: &'static Ctx = Box::leak(Box::new(Ctx::new("C09", "exploration")));
	if let Some(path) = ctx.replay.clone() {
		replay(ctx, &path);
	}
	let mut total = Stats::new();
	let mut bounds = Vec::new();
	let mut pairs = 0u64;
	for sw in sweeps(ctx.tier) {
		let st = run_sweep(ctx, &sw);
		let mut bnd = sw.bounds.clone();
		bnd["label"] = json!(sw.label);
		bnd["cases"] = json!(sw.cases());
		bnd["real_merges"] = json!(st.evaluations);
		bounds.push(bnd);
		pairs += sw.cases();
		total = total.merge(st);
	}

	for (l, level) in LEVELS.iter().enumerate() {
		for combo in COMBOS {
			let _ = l;
			ctx.floor(&format!("merged pairs with a {level} that is in: {combo}"), 1, total.get(&format!("sharing:{level}:{combo}")));
		}
	}
	for class in [
		"first-namespace", "comment-conflict:mappings", "comment-conflict:class", "comment-conflict:field", "comment-conflict:method", "comment-conflict:parameter",
		"descriptor-conflict:field", "descriptor-conflict:method", "parameter-index-conflict", "parameter-first-name-conflict",
	] {
		ctx.floor(&format!("refusals whose only conflict is {class}"), 1, total.get(&format!("err:{class}")));
	}
	ctx.floor("successful merges to which both sides contributed", 1000, total.get("ok:both-sides-contributed"));
	ctx.floor("successful merges with A-only, B-only and shared entries at once", 100, total.get("ok:entries-of-all-three-kinds"));
	ctx.floor("merged entries whose comment came from A only", 100, total.get("merged-comment:from-A"));
	ctx.floor("merged entries whose comment came from B only", 100, total.get("merged-comment:from-B"));
	ctx.floor("merged entries with the same comment on both sides", 100, total.get("merged-comment:equal-on-both-sides"));
	ctx.floor("merged pairs where the insertion order is observable (more than one entry at a level)", 1000, total.get("order:pairs-with-more-than-one-entry-at-a-level"));
	ctx.floor("order variants compared with the sorted order", 1000, total.get("order:variants-compared"));

	let coverage = json!({
		"evaluations": total.evaluations,
		"distinct_nontrivial": total.distinct.len(),
		"rule": "one evaluation = one call of the real Mappings::merge on two freshly built real Mappings<2,_> objects (one per pair and insertion-order variant), result projected with from_quill::<3> and judged by the reference join + projection law. distinct_nontrivial = distinct merged sets (as sets) among successful merges in which both A and B have at least one class",
		"exhaustive": true,
		"samples": total.samples,
		"bounds": {"sweeps": bounds, "cases": pairs, "namespaces": {"A": ["s", "a"], "B": ["s", "b"], "B_first_namespace_differs": FIRST_NS_VARIANTS}},
		"outcomes": total.outcomes,
	});
	ctx.finish(coverage, &[
		"a comment is not tied to a namespace: in the projection law an entry of A that has no comment may come back with B's comment of the same entry (the statement's 'comments from whichever side has one')",
		"the first-namespace name of a parameter is not part of its key: two different names must be refused (no result projects back onto both sides); a name on one side only may be refused or kept, never dropped (statement silent)",
		"conflicting descriptors / parameter indices can only exist as stored values that disagree under the same key; they are produced by overwriting the public info.desc / info.index of one real object. A stored *first name* that disagrees with its key is outside the statement and explored for panics only",
		"equal names of the second namespaces of A and B are not in the statement: Ok (judged like any merge) or Err are accepted",
		"the order of the entries in the result is not part of the property; results are compared as sets",
		"mapmodel::{to_quill_ordered, from_quill} convert faithfully (public API only)",
	]);
}

fn replay(ctx: &'static Ctx, path: &std::path::Path) -> ! {
	let body = vcore::replay_body(path);
	let line = body.lines().find(|l| l.starts_with("case sweep=")).unwrap_or_else(|| vcore::machinery_fail("no case line in the replay file"));
	let field = |name: &str| -> &str {
		line.split_whitespace().find_map(|w| w.strip_prefix(name)).unwrap_or_else(|| vcore::machinery_fail("incomplete case line"))
	};
	let num = |name: &str| -> u64 { field(name).parse().unwrap_or_else(|_| vcore::machinery_fail("bad number in case line")) };
	let label = field("sweep=");
	let sw = [vcore::Tier::Quick, vcore::Tier::Thorough].into_iter().flat_map(sweeps).find(|s| s.label == label).unwrap_or_else(|| vcore::machinery_fail("unknown sweep"));
	let (ia, ib, x) = (num("ia=") as usize, num("ib=") as usize, num("x="));
	if ia >= sw.a.len() || ib >= sw.b.len() || x >= sw.nx() {
		vcore::machinery_fail("case indices out of range");
	}
	let mut st = Stats::new();
	let d1 = run_case(ctx, &sw, ia, ib, x, &mut st, &mut Tally::default());
	let d2 = run_case(ctx, &sw, ia, ib, x, &mut Stats::new(), &mut Tally::default());
	if d1 != d2 {
		vcore::machinery_fail("replay is not deterministic");
	}
	let (a, b) = inputs(&sw, ia, ib, x);
	println!("{}", case_text(&sw, ia, ib, x, &a, &b, ""));
	if sw.mode == Mode::Mutate {
		let (m, side) = (MUTATIONS[x as usize / 2], if x % 2 == 0 { Side::B } else { Side::A });
		println!("stored value overwritten: {m:?} of side {side:?}");
		if has_target(if side == Side::A { &a } else { &b }, &target_of(sw.shape), m) {
			println!("real: {}", show_real(&real_merge(&a, &b, Order::Sorted, Order::Sorted, Some((m, side, &target_of(sw.shape))), true)));
		}
	} else {
		let e = reference_merge(&a, &b);
		println!("real: {}
reference: must be refused for {:?}, may be refused for {:?}, otherwise:\n{}", show_real(&real_merge(&a, &b, Order::Sorted, Order::Sorted, None, true)), e.must_err, e.may_err, render(&e.set));
	}
	ctx.finish(json!({"evaluations": st.evaluations, "distinct_nontrivial": 1, "rule": "replay of one case", "samples": ["replay"], "exhaustive": false}), &[]);
}
