//! C09 — merging two mapping sets is a faithful join on the shared namespace.
//!
//! Engine: exhaustive enumeration (rayon) of every pair (A, B) of two-namespace mapping sets drawn
//! independently from two generators over the same small universe of entries: at every level (class,
//! field, method, parameter) every entry is absent or present on each side (only A / only B / both /
//! neither), with the target name present or absent per side, and a comment from a per-side alphabet
//! (none / A only / B only / equal / different). Every pair is converted into *real*
//! `quill::tree::mappings::Mappings<2, _>` objects, the real `Mappings::merge` is called, and the
//! three-namespace result is projected back into the model.
//!
//! Oracle (from the statement): the result is over (s, a, b); its entries are the union of the keys
//! at every level; column a holds A's name, column b holds B's name (absent where that side lacks the
//! entry); the comment is the one a side has (equal comments: that comment; different comments: the
//! merge must be refused); the projection law, phrased on the (s,a) and (s,b) projections of the
//! *actual* result; the stated conflicts (descriptors, parameter indices, comments, first namespaces)
//! must be `Err`. Inserting the entries of A / B in another order must not change the result as a set.
//!
//! Clause table (statement of C09 → where it is decided; "q-…"/"t-…" are sweeps of `sweeps()`):
//!
//! | clause | decided in | space |
//! |---|---|---|
//! | domain: pairs sharing the first namespace, overlapping partially at every level, comments on either side | generator `universe` × `Space` for A and B independently; floors `sharing:<level>:<combo>` (4 levels × neither/A-only/B-only/both) | every sweep |
//! | "yields a set over (s,a,b)" | `compare`: `result:namespaces` | every successful merge |
//! | "entries are exactly the union of the keys … at every level" | `cmp_keys` (`result:<level>:missing[..]`, `:extra`), `result:key-invariant-broken` (entry stored under a key that is not its first name / descriptor / index) | deep (1 key per map), wide / wide3 / pairs (2–3 keys per map, same name with two descriptors, insertion orders) |
//! | "A's name in column a, B's name in column b (absent where the side lacks the entry)" | `cmp_entry` names against `reference_merge`; target names are unique per entry and side, so a cross-entry mix-up is visible | q-deep (absent / present), **deep-names**: absent / own / equal to the first name / the same name on both sides (a result must not depend on what the names *are*), pairs (multi-entry maps × absent names), **twins** (the same field / method / parameter key in two classes, ×4 orders), **odd** (member keys whose name + descriptor concatenate to the same text, `<init>`, parameter indices equal modulo 2^8 and 2^16, `p/K` next to `p/K$`) |
//! | "comments from whichever side has one" | `join_doc` + `cmp_entry` comment, four levels + `wide-top-comments` for the mappings comment | q-deep, **deep-near-comments**, pairs (multi-entry maps × comments), `Mode::DocAt` **…-comment-at-every-entry**: a comment at every single entry of `wide` / `twins` / `odd1` (thorough: `wide3`) — first and later entries of every map — on A only / B only / equal / differing × every pair of the shape; `Mode::DocPairs` **deep-comment-pairs**: an *empty* comment is a comment (kept, and it conflicts with a non-empty one) |
//! | "projecting the result back onto (s,a) and (s,b) gives back A and B" | `projection_law` on `project(result, 1|2)` (lost / changed / invented entries, names in the wrong column) | every successful merge |
//! | error: conflicting descriptors | `Mode::Mutate` FieldDesc / MethodDesc: `accepted:descriptor-conflict:*` | **every** field / method of both classes of `wide`, either side overwritten |
//! | error: conflicting parameter indices | `Mode::Mutate` ParamIndex: `accepted:parameter-index-conflict` | **every** parameter of `wide`, either side |
//! | error: differing comments | `join_doc` → `must_err` `comment-conflict:<level>`: `accepted:comment-conflict:*` | q-deep (d1/d2), **deep-near-comments** and top comments: comments that differ only by a blank (`"d1"`/`"d1 "`/`" d1"`) still differ; **deep-comment-pairs**: at each of the 5 levels every ordered pair of the 20 comments of `DOC_ALPHABET` (none, empty, blank, `d1` ± blank / tab / line end / CRLF before or after, `D1`, repeated, inner blanks, a literal `\n`, NFC / NFD of one letter) × 49 pairs, floors per level × kind of difference; **…-comment-at-every-entry**: a conflict in a later entry of a map, the first entries agreeing |
//! | texts of any length and content (consequence of ∀ inputs): joined or refused, never a panic — also while the error is being worded | `long_text`: one character of 1/2/3/4 UTF-8 bytes after n = 0..=140 ASCII characters (last / + 100 more behind it) and before n ASCII characters (first / 100 before it): every byte offset from the start *and* from the end. `Mode::LongDocs` **deep-long-comments**: at each of the 5 levels, on A only / B only / equal / differing (5 × 564 × 4 × 4 × 49 pairs). `Mode::LongNames` **deep-long-names**: the same texts in each of the 29 `Slot`s: the shared key of class / field / method, a class name inside the field / method descriptor, the name in column a / b at each of the four levels, the first name of the parameter (equal: merged; differing: refused), the first namespace (equal: merged; differing: refused), the second namespace of A / B, and as the stored descriptor / first name of either side that disagrees with the other side (descriptor: refused; first name: silent, no panic) | floors: every text in every slot |
//! | error: differing first namespaces | `Mode::FirstNs`: `accepted:first-namespace` | the headers of (A, B) ∈ `FIRST_NS_VARIANTS` (second namespaces equal, A's header swapped, first namespace differing only in case / by a repeated letter *in either direction* (prefix) / by a trailing or leading blank on either side / by Unicode normalisation) × every pair of `wide`; long first namespaces: deep-long-names |
//! | parameters: two different first names under one index cannot both be kept (see the assumptions) | `parameter-first-name-conflict` | q-deep (`p0`/`r0`), **deep-near-parameter-first-names**: `p0` / `P0` / `p 0` / `pp0` / none on either side |
//! | (consequence of ∀ inputs) the insertion order of the IndexMaps is part of the input | `order:*` | wide ×4 orders, wide3 ×6, pairs ×2 (quick) / ×4 (thorough) |
//!
//! Silent in the statement (every behaviour but a panic / silently wrong answer accepted): a parameter whose
//! first-namespace name exists on one side only (`may_err`); a namespace name that occurs twice in the two
//! headers (`Mode::SecondNs`: B's second = A's second, a side's second = the shared first: merged and judged, or
//! refused); stored first names that disagree with their key.

use std::collections::{BTreeMap, BTreeSet};
use duke::tree::class::ObjClassName;
use duke::tree::field::{FieldName, FieldNameAndDesc};
use duke::tree::method::{MethodName, MethodNameAndDesc};
use mapmodel::gen::{ClassU, FieldU, MethodU, ParamU, Space, Universe};
use mapmodel::{MClass, MField, MMethod, MParam, MSet, Order, Row};
use quill::tree::mappings::{Mappings, ParameterKey};
use quill::tree::names::Names;
use rayon::prelude::*;
use vcore::{json, Ctx, Stats, Value};

// namespace markers of the real objects
struct NsS;
struct NsA;
struct NsB;

// ---------------------------------------------------------------------------------------------
// universes

struct ShapeMethod {
	name: &'static str,
	desc: &'static str,
	params: &'static [usize],
}

struct ShapeClass {
	key: &'static str,
	fields: &'static [(&'static str, &'static str)],
	methods: &'static [ShapeMethod],
}

/// one class, one field, one method, one parameter: every per-entry option of both sides
const DEEP: &[ShapeClass] = &[ShapeClass { key: "p/K", fields: &[("f", "I")], methods: &[ShapeMethod { name: "m", desc: "(I)V", params: &[0] }] }];

/// several entries per level (same name with different descriptors, two parameters, two classes):
/// key union over more than one key and insertion orders
const WIDE: &[ShapeClass] = &[
	ShapeClass {
		key: "K",
		fields: &[("f", "I"), ("f", "J")],
		methods: &[ShapeMethod { name: "m", desc: "()V", params: &[] }, ShapeMethod { name: "m", desc: "(II)V", params: &[0, 1] }],
	},
	ShapeClass { key: "L", fields: &[("g", "LK;")], methods: &[] },
];

/// WIDE without the second class (room for absent target names in the thorough tier)
const WIDE1: &[ShapeClass] = &[ShapeClass {
	key: "K",
	fields: &[("f", "I"), ("f", "J")],
	methods: &[ShapeMethod { name: "m", desc: "()V", params: &[] }, ShapeMethod { name: "m", desc: "(II)V", params: &[0, 1] }],
}];

/// three entries in one map (three classes, three fields, three parameters): rotations of the insertion order
const WIDE3: &[ShapeClass] = &[
	ShapeClass { key: "K", fields: &[("f", "I"), ("f", "J"), ("g", "I")], methods: &[ShapeMethod { name: "m", desc: "(III)V", params: &[0, 1, 2] }] },
	ShapeClass { key: "L", fields: &[], methods: &[] },
	ShapeClass { key: "M", fields: &[], methods: &[] },
];

/// two entries per map at the two levels that carry comments and optional names below a class
/// (two fields, two parameters): multi-entry maps × comments × absent names × insertion orders
const PAIRS: &[ShapeClass] = &[ShapeClass { key: "K", fields: &[("f", "I"), ("f", "J")], methods: &[ShapeMethod { name: "m", desc: "(II)V", params: &[0, 1] }] }];

/// the same member keys in two classes (field `f:I`, method `m(I)V`, parameter 0 in both `K` and `L`): an entry of
/// one class must never be confused with the entry of the same key in the other class
const TWINS: &[ShapeClass] = &[
	ShapeClass { key: "K", fields: &[("f", "I")], methods: &[ShapeMethod { name: "m", desc: "(I)V", params: &[0] }] },
	ShapeClass { key: "L", fields: &[("f", "I")], methods: &[ShapeMethod { name: "m", desc: "(I)V", params: &[0] }] },
];

/// odd but legal names: member keys whose name + descriptor concatenate to the same text (`f`+`LbLa;` = `fLb`+`La;`,
/// `m`+`()La()La;` = `m()La`+`()La;`), `<init>`, parameter indices that are equal modulo 256 and 65536, a class name
/// with a trailing `$` next to the class it extends by that `$`
const ODD: &[ShapeClass] = &[
	ShapeClass {
		key: "p/K",
		fields: &[("f", "LbLa;"), ("fLb", "La;")],
		methods: &[
			ShapeMethod { name: "m", desc: "()La()La;", params: &[] },
			ShapeMethod { name: "m()La", desc: "()La;", params: &[] },
			ShapeMethod { name: "<init>", desc: "(IJ)V", params: &[0, 65536] },
		],
	},
	ShapeClass { key: "p/K$", fields: &[], methods: &[] },
];

fn shape_by_name(n: &str) -> &'static [ShapeClass] {
	match n {
		"deep" => DEEP,
		"twins" => TWINS,
		"odd" => ODD,
		"odd1" => &ODD[..1],
		"wide" => WIDE,
		"wide1" => WIDE1,
		"wide3" => WIDE3,
		"pairs" => PAIRS,
		_ => vcore::machinery_fail("unknown shape"),
	}
}

#[derive(Clone, Copy, PartialEq, Eq, Debug)]
enum Side {
	A,
	B,
}

impl Side {
	fn letter(self) -> &'static str {
		match self {
			Side::A => "a",
			Side::B => "b",
		}
	}
}

/// the name an entry has in the second namespace of its side
#[derive(Clone, Copy, PartialEq, Eq, Debug)]
enum Tgt {
	Absent,
	/// a name no other entry and not the other side has
	Own,
	/// the same string as the entry's name in the first namespace
	First,
	/// a name that the other side (with `Common`) uses for the same entry too
	Common,
}

/// what one side may say about the entries of one level
#[derive(Clone, Copy, Debug)]
struct Level {
	targets: &'static [Tgt],
	docs: &'static [Option<&'static str>],
}

/// what one side may say about an entry
#[derive(Clone, Debug)]
struct SideOpts {
	class: Level,
	field: Level,
	method: Level,
	param: Level,
	/// first-namespace name of a parameter: absent or this prefix + index
	param_src: &'static [Option<&'static str>],
}

impl SideOpts {
	fn uniform(targets: &'static [Tgt], docs: &'static [Option<&'static str>], param_src: &'static [Option<&'static str>]) -> SideOpts {
		let l = Level { targets, docs };
		SideOpts { class: l, field: l, method: l, param: l, param_src }
	}
	fn bounds(&self, sets: u64) -> Value {
		let level = |l: &Level| json!({"target_name": l.targets.iter().map(|t| format!("{t:?}")).collect::<Vec<_>>(), "comments": l.docs});
		json!({"class": level(&self.class), "field": level(&self.field), "method": level(&self.method), "parameter": level(&self.param), "parameter_first_names": self.param_src, "sets": sets})
	}
}

const DOCS3: &[Option<&str>] = &[None, Some("d1"), Some("d2")];
const DOCS2: &[Option<&str>] = &[None, Some("d1")];
const DOCS0: &[Option<&str>] = &[None];
/// comments that differ only by a trailing / leading blank are different comments
const DOCS4: &[Option<&str>] = &[None, Some("d1"), Some("d2"), Some("d1 ")];
const DOCS5: &[Option<&str>] = &[None, Some("d1"), Some("d2"), Some("d1 "), Some(" d1")];

/// The target name of an entry: `base` is unique per entry of the shape (two fields called `f` with
/// different descriptors get different target names), `first` is its first-namespace name (if any).
/// `None` = this combination does not exist (`First` for an entry without a first name).
fn target_name(t: Tgt, base: &str, first: Option<&str>, l: &str) -> Option<Option<String>> {
	match t {
		Tgt::Absent => Some(None),
		Tgt::Own => Some(Some(format!("{base}_{l}"))),
		Tgt::First => first.map(|f| Some(f.to_owned())),
		Tgt::Common => Some(Some(format!("{base}_c"))),
	}
}

fn universe(shape: &[ShapeClass], side: Side, o: &SideOpts) -> Universe {
	let l = side.letter();
	let tails = |lv: &Level, base: &str, first: &str| -> Vec<Row> { lv.targets.iter().filter_map(|t| target_name(*t, base, Some(first), l)).map(|n| vec![n]).collect() };
	let docs = |lv: &Level| -> Vec<Option<String>> { lv.docs.iter().map(|d| d.map(|s| s.to_owned())).collect() };
	Universe {
		ns: vec!["s".into(), l.into()],
		classes: shape.iter().enumerate().map(|(ci, c)| ClassU {
			key: c.key.into(),
			rows: tails(&o.class, c.key, c.key),
			docs: docs(&o.class),
			fields: c.fields.iter().enumerate().map(|(fi, (n, d))| FieldU { name: n.to_string(), desc: d.to_string(), rows: tails(&o.field, &format!("{n}{ci}{fi}"), n), docs: docs(&o.field) }).collect(),
			methods: c.methods.iter().enumerate().map(|(mi, m)| MethodU {
				name: m.name.into(),
				desc: m.desc.into(),
				rows: tails(&o.method, &format!("{}{ci}{mi}", m.name.replace(['<', '>', '(', ')'], "")), m.name),
				docs: docs(&o.method),
				params: m.params.iter().map(|i| ParamU {
					index: *i,
					rows: o.param_src.iter().flat_map(|src| {
						let first = src.map(|s| format!("{s}{i}"));
						o.param.targets.iter().filter_map(move |t| {
							let n = target_name(*t, &format!("q{ci}{mi}{i}"), first.as_deref(), l)?;
							Some(vec![first.clone(), n])
						}).collect::<Vec<_>>()
					}).collect(),
					docs: docs(&o.param),
				}).collect(),
			}).collect(),
			optional: true,
		}).collect(),
	}
}

// ---------------------------------------------------------------------------------------------
// sweeps

#[derive(Clone, Copy, PartialEq, Eq, Debug)]
enum Mutation {
	FieldDesc,
	MethodDesc,
	ParamIndex,
	ClassFirstName,
	FieldFirstName,
	MethodFirstName,
}

/// one stored value of one entry of one side that is overwritten in `Mode::Mutate`
#[derive(Clone, Debug)]
struct MutCase {
	m: Mutation,
	side: Side,
	class: &'static str,
	field: Option<(&'static str, &'static str)>,
	method: Option<(&'static str, &'static str)>,
	param: Option<usize>,
	/// not the first class / first field / first method / first parameter of the shape
	later_entry: bool,
}

/// every stored descriptor, parameter index and first name of every entry of the shape, on either side
fn mut_cases(shape: &'static [ShapeClass]) -> Vec<MutCase> {
	let mut v = Vec::new();
	for side in [Side::B, Side::A] {
		for (ci, c) in shape.iter().enumerate() {
			let base = MutCase { m: Mutation::ClassFirstName, side, class: c.key, field: None, method: None, param: None, later_entry: ci > 0 };
			v.push(base.clone());
			for (fi, f) in c.fields.iter().enumerate() {
				for m in [Mutation::FieldDesc, Mutation::FieldFirstName] {
					v.push(MutCase { m, field: Some(*f), later_entry: ci > 0 || fi > 0, ..base.clone() });
				}
			}
			for (mi, me) in c.methods.iter().enumerate() {
				for m in [Mutation::MethodDesc, Mutation::MethodFirstName] {
					v.push(MutCase { m, method: Some((me.name, me.desc)), later_entry: ci > 0 || mi > 0, ..base.clone() });
				}
				for (pi, p) in me.params.iter().enumerate() {
					v.push(MutCase { m: Mutation::ParamIndex, method: Some((me.name, me.desc)), param: Some(*p), later_entry: ci > 0 || mi > 0 || pi > 0, ..base.clone() });
				}
			}
		}
	}
	v
}

impl Mutation {
	/// the error class of the statement this conflict belongs to (None: the statement is silent)
	fn stated_class(self) -> Option<&'static str> {
		match self {
			Mutation::FieldDesc => Some("descriptor-conflict:field"),
			Mutation::MethodDesc => Some("descriptor-conflict:method"),
			Mutation::ParamIndex => Some("parameter-index-conflict"),
			_ => None,
		}
	}
}

#[derive(Clone, Copy, PartialEq, Eq, Debug)]
enum Mode {
	/// well-formed pair, shared first namespace
	Plain,
	/// additionally every combination of top-level (mappings) comments
	TopDocs,
	/// the headers replaced so that the first namespaces differ: must be refused
	FirstNs,
	/// a namespace name occurs twice (B's second is A's second; a side's second is the shared first): the statement is
	/// silent (Ok, judged like any merge, or Err)
	SecondNs,
	/// one stored descriptor / parameter index / first name of one side is made to disagree with
	/// the other side's entry under the same key (the only way such a conflict can exist, since
	/// keys contain the descriptor / index)
	Mutate,
	/// long comments: at one level (mappings, class, field, method, parameter) a comment from `long_text` (one
	/// character of 1, 2, 3 or 4 UTF-8 bytes at every byte offset up to LONG_MAX from the start and from the end
	/// of the text), on A only / B only / equal on both / differing on both (B's has one more character):
	/// whatever is done with a comment (compared, copied, quoted or abbreviated in an error message) must not
	/// depend on where in it a multi-byte character lies
	LongDocs,
	/// the same texts in every other text slot of the inputs (`Slot`): names in every column at every level,
	/// the shared keys, class names inside descriptors, the names of the namespaces, parameter first names that
	/// are equal / differ, first namespaces that are equal / differ, and stored descriptors / first names that
	/// disagree with the other side (conflicts whose error message quotes the text)
	LongNames,
	/// at one level of `deep` every ordered pair of comments from `DOC_ALPHABET` (none, empty, blank, and comments
	/// that differ from `d1` only by blanks, a line end, case, Unicode normalisation, repetition)
	DocPairs,
	/// at every single entry of the shape (every class, field, method, parameter: first and later entries of
	/// their maps) a comment on A only / B only / equal on both / differing
	DocAt,
}

const LONG_MAX: usize = 140;
const LONG_PAD: usize = 100;
const LONG_TAILS: &[&str] = &["z", "\u{e9}", "\u{20ac}", "\u{1f600}"];
const LONG_PLACEMENTS: usize = 4;
const LONG_DOC_LEVELS: usize = 5;
const LONG_DOC_RELATIONS: usize = 4;

/// The text with one special character `tail`:
/// placement 0: n ASCII characters, then the character (it is the last one; n = 0, 1: the first, the second);
/// placement 1: the same followed by LONG_PAD more ASCII characters (a cut at a fixed offset from the start hits it
/// also when only texts longer than some limit are cut);
/// placement 2: the character, then n ASCII characters (a cut at a fixed offset from the *end* hits it);
/// placement 3: LONG_PAD ASCII characters before that.
fn long_text(placement: usize, n: usize, tail: &str) -> String {
	match placement {
		0 => format!("{}{tail}", "x".repeat(n)),
		1 => format!("{}{tail}{}", "x".repeat(n), "y".repeat(LONG_PAD)),
		2 => format!("{tail}{}", "y".repeat(n)),
		_ => format!("{}{tail}{}", "x".repeat(LONG_PAD), "y".repeat(n)),
	}
}

/// number of texts of `long_text` per special character
const LONG_TEXTS: usize = LONG_PLACEMENTS * (LONG_MAX + 1);

/// (level, placement, n, tail, relation) of case `x` of `Mode::LongDocs`
fn long_doc_case(x: u64) -> (usize, usize, usize, usize, usize) {
	let v = vcore::enumerate::product_nth(&[LONG_DOC_LEVELS, LONG_PLACEMENTS, LONG_MAX + 1, LONG_TAILS.len(), LONG_DOC_RELATIONS], x);
	(v[0], v[1], v[2], v[3], v[4])
}

fn set_doc_at(s: &mut MSet, level: usize, doc: Option<String>) {
	if level == 0 {
		s.doc = doc;
		return;
	}
	let Some(c) = s.classes.values_mut().next() else { return };
	match level {
		1 => c.doc = doc,
		2 => {
			if let Some(f) = c.fields.values_mut().next() {
				f.doc = doc;
			}
		},
		_ => {
			if let Some(m) = c.methods.values_mut().next() {
				if level == 3 {
					m.doc = doc;
				} else if let Some(p) = m.params.values_mut().next() {
					p.doc = doc;
				}
			}
		},
	}
}

/// The comments of `Mode::DocPairs`. Two different strings are two differing comments, whatever the difference.
const DOC_ALPHABET: &[Option<&str>] = &[
	None, Some(""), Some(" "), Some("d1"), Some("d1 "), Some(" d1"), Some("d1\n"), Some("\nd1"), Some("d1\r\n"), Some("d1\t"), Some("D1"), Some("d2"),
	Some("d1d1"), Some("d"), Some("d1 d1"), Some("d1  d1"), Some("d1\nd1"), Some("d1\\n"), Some("\u{e9}"), Some("e\u{301}"),
];

/// how two differing comments differ (for the vacuity floors only; the verdict never depends on it)
fn doc_difference(x: &str, y: &str) -> usize {
	let squeeze = |s: &str| s.chars().filter(|c| !c.is_whitespace()).collect::<String>();
	if x.is_empty() || y.is_empty() {
		0
	} else if squeeze(x) == squeeze(y) {
		1
	} else if x.eq_ignore_ascii_case(y) {
		2
	} else if (x == "\u{e9}" && y == "e\u{301}") || (y == "\u{e9}" && x == "e\u{301}") {
		3
	} else {
		4
	}
}

macro_rules! per_level {
	($p:literal) => {
		[concat!($p, ":mappings"), concat!($p, ":class"), concat!($p, ":field"), concat!($p, ":method"), concat!($p, ":parameter")]
	};
}

const DOC_DIFFERENCES: [&str; 5] = ["one of them is empty", "white space only", "case only", "Unicode normalisation only", "something else"];
const DOC_PAIR_REFUSED: [[&str; 5]; 5] = [
	per_level!("err:comment-pair:one-empty"),
	per_level!("err:comment-pair:white-space-only"),
	per_level!("err:comment-pair:case-only"),
	per_level!("err:comment-pair:normalisation-only"),
	per_level!("err:comment-pair:other"),
];
const EMPTY_DOC_KEPT: [&str; 5] = per_level!("ok:empty-comment-kept");
const LEVEL5: [&str; 5] = ["mappings", "class", "field", "method", "parameter"];

/// one entry of a shape
#[derive(Clone, Debug)]
struct EntryPath {
	class: &'static str,
	field: Option<(&'static str, &'static str)>,
	method: Option<(&'static str, &'static str)>,
	param: Option<usize>,
	/// not the first class / first field / first method / first parameter of the shape
	later: bool,
}

fn entry_paths(shape: &'static [ShapeClass]) -> Vec<EntryPath> {
	let mut v = Vec::new();
	for (ci, c) in shape.iter().enumerate() {
		let base = EntryPath { class: c.key, field: None, method: None, param: None, later: ci > 0 };
		v.push(base.clone());
		for (fi, f) in c.fields.iter().enumerate() {
			v.push(EntryPath { field: Some(*f), later: fi > 0, ..base.clone() });
		}
		for (mi, me) in c.methods.iter().enumerate() {
			v.push(EntryPath { method: Some((me.name, me.desc)), later: mi > 0, ..base.clone() });
			for (pi, p) in me.params.iter().enumerate() {
				v.push(EntryPath { method: Some((me.name, me.desc)), param: Some(*p), later: pi > 0, ..base.clone() });
			}
		}
	}
	v
}

/// the comment of the first entry of a level (0 = the mappings)
fn doc_at(s: &MSet, level: usize) -> Option<&String> {
	if level == 0 {
		return s.doc.as_ref();
	}
	let c = s.classes.values().next()?;
	match level {
		1 => c.doc.as_ref(),
		2 => c.fields.values().next()?.doc.as_ref(),
		3 => c.methods.values().next()?.doc.as_ref(),
		_ => c.methods.values().next()?.params.values().next()?.doc.as_ref(),
	}
}

/// the comment of an entry
fn doc_of<'a>(s: &'a MSet, e: &EntryPath) -> Option<&'a String> {
	let c = s.classes.get(e.class)?;
	if let Some(f) = e.field {
		return c.fields.get(&member_key(f))?.doc.as_ref();
	}
	let Some(m) = e.method else { return c.doc.as_ref() };
	let m = c.methods.get(&member_key(m))?;
	match e.param {
		None => m.doc.as_ref(),
		Some(p) => m.params.get(&p)?.doc.as_ref(),
	}
}

/// the comment cell of an entry, if the set has the entry
fn doc_cell<'a>(s: &'a mut MSet, e: &EntryPath) -> Option<&'a mut Option<String>> {
	let c = s.classes.get_mut(e.class)?;
	if let Some(f) = e.field {
		return c.fields.get_mut(&member_key(f)).map(|f| &mut f.doc);
	}
	let Some(m) = e.method else { return Some(&mut c.doc) };
	let m = c.methods.get_mut(&member_key(m))?;
	match e.param {
		None => Some(&mut m.doc),
		Some(p) => m.params.get_mut(&p).map(|p| &mut p.doc),
	}
}

/// A text slot of a pair of sets (`Mode::LongNames`). `…Key`, `…Desc`: the shared key of the entry, on both sides.
#[derive(Clone, Copy, PartialEq, Eq, Debug)]
enum Slot {
	ClassKey, ClassA, ClassB,
	FieldKey, FieldDesc, FieldA, FieldB,
	MethodKey, MethodDesc, MethodA, MethodB,
	/// the first-namespace name of the parameter: the same text on both sides / B's has one more character
	ParamFirstEqual, ParamFirstDiffer, ParamA, ParamB,
	NsFirstEqual, NsFirstDiffer, NsA, NsB,
	/// the stored descriptor of one side is overwritten with one holding the text: a stated conflict whose
	/// message quotes the text
	StoredFieldDesc(Side), StoredMethodDesc(Side),
	/// the stored first name of one side is overwritten (outside the statement: no panic)
	StoredClassFirst(Side), StoredFieldFirst(Side), StoredMethodFirst(Side),
}

const SLOTS: &[Slot] = &[
	Slot::ClassKey, Slot::ClassA, Slot::ClassB, Slot::FieldKey, Slot::FieldDesc, Slot::FieldA, Slot::FieldB,
	Slot::MethodKey, Slot::MethodDesc, Slot::MethodA, Slot::MethodB,
	Slot::ParamFirstEqual, Slot::ParamFirstDiffer, Slot::ParamA, Slot::ParamB,
	Slot::NsFirstEqual, Slot::NsFirstDiffer, Slot::NsA, Slot::NsB,
	Slot::StoredFieldDesc(Side::A), Slot::StoredFieldDesc(Side::B), Slot::StoredMethodDesc(Side::A), Slot::StoredMethodDesc(Side::B),
	Slot::StoredClassFirst(Side::A), Slot::StoredClassFirst(Side::B), Slot::StoredFieldFirst(Side::A), Slot::StoredFieldFirst(Side::B),
	Slot::StoredMethodFirst(Side::A), Slot::StoredMethodFirst(Side::B),
];

/// per slot: (counter of merges, counter of refusals)
const SLOT_COUNTERS: &[(&str, &str)] = &[
	("long-text:class-key:ok", "long-text:class-key:err"), ("long-text:class-name-a:ok", "long-text:class-name-a:err"), ("long-text:class-name-b:ok", "long-text:class-name-b:err"),
	("long-text:field-key:ok", "long-text:field-key:err"), ("long-text:field-descriptor:ok", "long-text:field-descriptor:err"), ("long-text:field-name-a:ok", "long-text:field-name-a:err"), ("long-text:field-name-b:ok", "long-text:field-name-b:err"),
	("long-text:method-key:ok", "long-text:method-key:err"), ("long-text:method-descriptor:ok", "long-text:method-descriptor:err"), ("long-text:method-name-a:ok", "long-text:method-name-a:err"), ("long-text:method-name-b:ok", "long-text:method-name-b:err"),
	("long-text:parameter-first-name-equal:ok", "long-text:parameter-first-name-equal:err"), ("long-text:parameter-first-names-differ:ok", "long-text:parameter-first-names-differ:err"),
	("long-text:parameter-name-a:ok", "long-text:parameter-name-a:err"), ("long-text:parameter-name-b:ok", "long-text:parameter-name-b:err"),
	("long-text:first-namespace-equal:ok", "long-text:first-namespace-equal:err"), ("long-text:first-namespaces-differ:ok", "long-text:first-namespaces-differ:err"),
	("long-text:namespace-a:ok", "long-text:namespace-a:err"), ("long-text:namespace-b:ok", "long-text:namespace-b:err"),
	("long-text:stored-field-descriptor-of-A:ok", "long-text:stored-field-descriptor-of-A:err"), ("long-text:stored-field-descriptor-of-B:ok", "long-text:stored-field-descriptor-of-B:err"),
	("long-text:stored-method-descriptor-of-A:ok", "long-text:stored-method-descriptor-of-A:err"), ("long-text:stored-method-descriptor-of-B:ok", "long-text:stored-method-descriptor-of-B:err"),
	("long-text:stored-class-first-name-of-A:ok", "long-text:stored-class-first-name-of-A:err"), ("long-text:stored-class-first-name-of-B:ok", "long-text:stored-class-first-name-of-B:err"),
	("long-text:stored-field-first-name-of-A:ok", "long-text:stored-field-first-name-of-A:err"), ("long-text:stored-field-first-name-of-B:ok", "long-text:stored-field-first-name-of-B:err"),
	("long-text:stored-method-first-name-of-A:ok", "long-text:stored-method-first-name-of-A:err"), ("long-text:stored-method-first-name-of-B:ok", "long-text:stored-method-first-name-of-B:err"),
];

/// what the statement demands of a pair in which both sides have every entry and the slot holds a text
#[derive(Clone, Copy, PartialEq, Eq)]
enum SlotDemand {
	Merge,
	Refuse,
	Silent,
}

impl Slot {
	fn demand(self) -> SlotDemand {
		match self {
			Slot::ParamFirstDiffer | Slot::NsFirstDiffer | Slot::StoredFieldDesc(_) | Slot::StoredMethodDesc(_) => SlotDemand::Refuse,
			Slot::StoredClassFirst(_) | Slot::StoredFieldFirst(_) | Slot::StoredMethodFirst(_) => SlotDemand::Silent,
			_ => SlotDemand::Merge,
		}
	}
	/// the stored value of a real object this slot overwrites
	fn mutation(self) -> Option<MutCase> {
		let (m, side) = match self {
			Slot::StoredFieldDesc(s) => (Mutation::FieldDesc, s),
			Slot::StoredMethodDesc(s) => (Mutation::MethodDesc, s),
			Slot::StoredClassFirst(s) => (Mutation::ClassFirstName, s),
			Slot::StoredFieldFirst(s) => (Mutation::FieldFirstName, s),
			Slot::StoredMethodFirst(s) => (Mutation::MethodFirstName, s),
			_ => return None,
		};
		let d = &DEEP[0];
		let field = matches!(m, Mutation::FieldDesc | Mutation::FieldFirstName).then(|| d.fields[0]);
		let method = matches!(m, Mutation::MethodDesc | Mutation::MethodFirstName).then(|| (d.methods[0].name, d.methods[0].desc));
		Some(MutCase { m, side, class: d.key, field, method, param: None, later_entry: false })
	}
}

/// (slot, placement, n, tail) of case `x` of `Mode::LongNames`
fn long_name_case(x: u64) -> (usize, usize, usize, usize) {
	let v = vcore::enumerate::product_nth(&[SLOTS.len(), LONG_PLACEMENTS, LONG_MAX + 1, LONG_TAILS.len()], x);
	(v[0], v[1], v[2], v[3])
}

fn rekey<V>(m: &mut BTreeMap<(String, String), V>, from: (&str, &str), to: (String, String)) -> Option<()> {
	let v = m.remove(&member_key(from))?;
	m.insert(to, v);
	Some(())
}

/// writes the text into the slot of the model pair (where the entry exists)
fn fill_slot(a: &mut MSet, b: &mut MSet, slot: Slot, text: &str, tail: &str) {
	let d = &DEEP[0];
	let (fk, mk) = (d.fields[0], (d.methods[0].name, d.methods[0].desc));
	let longer = format!("{text}{tail}");
	let each = |s: &mut MSet, f: &dyn Fn(&mut MClass)| {
		if let Some(c) = s.classes.get_mut(d.key) {
			f(c);
		}
	};
	let col = |row: &mut Row, i: usize, t: &str| row[i] = Some(t.to_owned());
	match slot {
		Slot::ClassKey => {
			for s in [a, b] {
				if let Some(mut c) = s.classes.remove(d.key) {
					col(&mut c.names, 0, text);
					s.classes.insert(text.to_owned(), c);
				}
			}
		},
		Slot::ClassA => each(a, &|c| col(&mut c.names, 1, text)),
		Slot::ClassB => each(b, &|c| col(&mut c.names, 1, text)),
		Slot::FieldKey => {
			for s in [a, b] {
				each(s, &|c| {
					if rekey(&mut c.fields, fk, (text.to_owned(), fk.1.to_owned())).is_some() {
						c.fields.values_mut().for_each(|f| col(&mut f.names, 0, text));
					}
				});
			}
		},
		Slot::FieldDesc => {
			for s in [a, b] {
				each(s, &|c| {
					rekey(&mut c.fields, fk, (fk.0.to_owned(), format!("L{text};")));
				});
			}
		},
		Slot::FieldA => each(a, &|c| c.fields.values_mut().for_each(|f| col(&mut f.names, 1, text))),
		Slot::FieldB => each(b, &|c| c.fields.values_mut().for_each(|f| col(&mut f.names, 1, text))),
		Slot::MethodKey => {
			for s in [a, b] {
				each(s, &|c| {
					if rekey(&mut c.methods, mk, (text.to_owned(), mk.1.to_owned())).is_some() {
						c.methods.values_mut().for_each(|m| col(&mut m.names, 0, text));
					}
				});
			}
		},
		Slot::MethodDesc => {
			for s in [a, b] {
				each(s, &|c| {
					rekey(&mut c.methods, mk, (mk.0.to_owned(), format!("(L{text};)V")));
				});
			}
		},
		Slot::MethodA => each(a, &|c| c.methods.values_mut().for_each(|m| col(&mut m.names, 1, text))),
		Slot::MethodB => each(b, &|c| c.methods.values_mut().for_each(|m| col(&mut m.names, 1, text))),
		Slot::ParamFirstEqual | Slot::ParamFirstDiffer => {
			let tb = if slot == Slot::ParamFirstDiffer { longer.as_str() } else { text };
			each(a, &|c| c.methods.values_mut().flat_map(|m| m.params.values_mut()).for_each(|p| col(&mut p.names, 0, text)));
			each(b, &|c| c.methods.values_mut().flat_map(|m| m.params.values_mut()).for_each(|p| col(&mut p.names, 0, tb)));
		},
		Slot::ParamA => each(a, &|c| c.methods.values_mut().flat_map(|m| m.params.values_mut()).for_each(|p| col(&mut p.names, 1, text))),
		Slot::ParamB => each(b, &|c| c.methods.values_mut().flat_map(|m| m.params.values_mut()).for_each(|p| col(&mut p.names, 1, text))),
		Slot::NsFirstEqual => {
			a.ns[0] = text.to_owned();
			b.ns[0] = text.to_owned();
		},
		Slot::NsFirstDiffer => {
			a.ns[0] = text.to_owned();
			b.ns[0] = longer;
		},
		Slot::NsA => a.ns[1] = text.to_owned(),
		Slot::NsB => b.ns[1] = text.to_owned(),
		Slot::StoredFieldDesc(_) | Slot::StoredMethodDesc(_) | Slot::StoredClassFirst(_) | Slot::StoredFieldFirst(_) | Slot::StoredMethodFirst(_) => {},
	}
}

/// Headers of (A, B) whose first namespaces differ: unrelated; A's first is B's second; B's first is A's second;
/// only the first differs (second namespaces equal); A's header swapped; the first namespace differs only in
/// case; only by a repeated letter (A's is a prefix of B's, B's is a prefix of A's); only by a trailing /
/// leading blank (a namespace name is any non-empty cell of the header line); only by Unicode normalisation
const FIRST_NS_VARIANTS: &[((&str, &str), (&str, &str))] = &[
	(("s", "a"), ("t", "b")), (("s", "a"), ("b", "s")), (("s", "a"), ("a", "b")), (("s", "a"), ("t", "a")), (("s", "a"), ("a", "s")),
	(("s", "a"), ("S", "b")), (("s", "a"), ("ss", "b")), (("ss", "a"), ("s", "b")), (("s", "a"), ("s ", "b")), (("s", "a"), (" s", "b")),
	(("s ", "a"), ("s", "b")), (("\u{e9}", "a"), ("e\u{301}", "b")),
];
const FIRST_NS_COUNTERS: &[&str] = &[
	"err:first-namespace[s,a|t,b]", "err:first-namespace[s,a|b,s]", "err:first-namespace[s,a|a,b]", "err:first-namespace[s,a|t,a]", "err:first-namespace[s,a|a,s]",
	"err:first-namespace[s,a|S,b]", "err:first-namespace[s,a|ss,b]", "err:first-namespace[ss,a|s,b]", "err:first-namespace[s,a|s_,b]", "err:first-namespace[s,a|_s,b]",
	"err:first-namespace[s_,a|s,b]", "err:first-namespace[NFC,a|NFD,b]",
];

/// `Mode::SecondNs`: headers of (A, B) that share the first namespace and repeat a name
const SECOND_NS_VARIANTS: &[((&str, &str), (&str, &str))] = &[(("s", "a"), ("s", "a")), (("s", "a"), ("s", "s")), (("s", "s"), ("s", "b"))];

struct Sweep {
	label: String,
	shape: &'static [ShapeClass],
	a: Vec<MSet>,
	b: Vec<MSet>,
	mode: Mode,
	orders: Vec<(Order, Order)>,
	/// `Mode::Mutate`: the overwritten values (index = x)
	muts: Vec<MutCase>,
	/// `Mode::DocAt`: the entries of the shape
	entries: Vec<EntryPath>,
	/// `Mode::TopDocs`: the alphabet of the mappings comment of either side
	top_docs: &'static [Option<&'static str>],
	bounds: Value,
}

impl Sweep {
	fn nx(&self) -> u64 {
		match self.mode {
			Mode::Plain => 1,
			Mode::SecondNs => SECOND_NS_VARIANTS.len() as u64,
			Mode::TopDocs => (self.top_docs.len() * self.top_docs.len()) as u64,
			Mode::FirstNs => FIRST_NS_VARIANTS.len() as u64,
			Mode::Mutate => self.muts.len() as u64,
			Mode::LongDocs => (LONG_DOC_LEVELS * LONG_TEXTS * LONG_TAILS.len() * LONG_DOC_RELATIONS) as u64,
			Mode::LongNames => (SLOTS.len() * LONG_TEXTS * LONG_TAILS.len()) as u64,
			Mode::DocPairs => (LONG_DOC_LEVELS * DOC_ALPHABET.len() * DOC_ALPHABET.len()) as u64,
			Mode::DocAt => (self.entries.len() * LONG_DOC_RELATIONS) as u64,
		}
	}
	fn cases(&self) -> u64 {
		self.a.len() as u64 * self.b.len() as u64 * self.nx()
	}
	fn decode(&self, idx: u64) -> (usize, usize, u64) {
		let nx = self.nx();
		let nb = self.b.len() as u64;
		((idx / (nx * nb)) as usize, ((idx / nx) % nb) as usize, idx % nx)
	}
}

fn sweep(label: &str, shape_name: &str, oa: SideOpts, ob: SideOpts, mode: Mode, orders: &[(Order, Order)]) -> Sweep {
	let shape = shape_by_name(shape_name);
	let sa = Space::new(&universe(shape, Side::A, &oa));
	let sb = Space::new(&universe(shape, Side::B, &ob));
	Sweep {
		label: label.to_owned(),
		shape,
		bounds: json!({
			"shape": shape_name, "mode": format!("{mode:?}"),
			"A": oa.bounds(sa.len()),
			"B": ob.bounds(sb.len()),
			"insertion_orders": orders.iter().map(|o| format!("{o:?}")).collect::<Vec<_>>(),
		}),
		a: sa.all(),
		b: sb.all(),
		mode,
		orders: orders.to_vec(),
		muts: if mode == Mode::Mutate { mut_cases(shape) } else { Vec::new() },
		entries: if mode == Mode::DocAt { entry_paths(shape) } else { Vec::new() },
		top_docs: DOCS4,
	}
}

/// only the empty set and the set with every entry of the shape, on either side
fn extremes(mut sw: Sweep) -> Sweep {
	let full = sw.shape.iter().map(|c| 1 + c.fields.len() + c.methods.iter().map(|m| 1 + m.params.len()).sum::<usize>()).sum::<usize>();
	sw.a.retain(|s| s.entries() == 0 || s.entries() == full);
	sw.b.retain(|s| s.entries() == 0 || s.entries() == full);
	sw.bounds["A"]["sets"] = json!(sw.a.len());
	sw.bounds["B"]["sets"] = json!(sw.b.len());
	sw.bounds["sets_kept"] = json!("the empty set and the set with every entry");
	sw
}

fn sweeps(tier: vcore::Tier) -> Vec<Sweep> {
	use Order::*;
	use Tgt::*;
	const BOTH: &[Tgt] = &[Absent, Own];
	const NAMED: &[Tgt] = &[Own];
	const NAMES4: &[Tgt] = &[Absent, Own, First, Common];
	const SRC2: &[Option<&str>] = &[None, Some("p")];
	const SRC3: &[Option<&str>] = &[None, Some("p"), Some("r")];
	const SRC1: &[Option<&str>] = &[Some("p")];
	const SRC_NEAR: &[Option<&str>] = &[None, Some("p"), Some("P"), Some("p "), Some("pp")];
	let one: &[(Order, Order)] = &[(Sorted, Sorted)];
	let two: &[(Order, Order)] = &[(Sorted, Sorted), (Sorted, Reversed)];
	let four: &[(Order, Order)] = &[(Sorted, Sorted), (Reversed, Reversed), (Sorted, Reversed), (Reversed, Sorted)];
	let six: &[(Order, Order)] = &[(Sorted, Sorted), (Reversed, Reversed), (Sorted, Reversed), (Reversed, Sorted), (Rotated(1), Sorted), (Sorted, Rotated(1))];
	let simple = || SideOpts::uniform(NAMED, DOCS0, SRC1);
	// classes and methods named and without comment; fields and parameters with every option
	let pairs = || {
		let plain = Level { targets: NAMED, docs: DOCS0 };
		let full = Level { targets: BOTH, docs: DOCS2 };
		SideOpts { class: plain, field: full, method: plain, param: full, param_src: SRC1 }
	};
	let mut v = Vec::new();
	match tier {
		vcore::Tier::Quick => {
			v.push(sweep("q-deep", "deep", SideOpts::uniform(BOTH, DOCS2, SRC2), SideOpts::uniform(BOTH, DOCS3, SRC3), Mode::Plain, one));
			v.push(sweep("q-deep-names", "deep", SideOpts::uniform(NAMES4, DOCS0, SRC2), SideOpts::uniform(NAMES4, DOCS0, SRC2), Mode::Plain, one));
			v.push(sweep("q-deep-near-comments", "deep", SideOpts::uniform(NAMED, DOCS4, SRC1), SideOpts::uniform(NAMED, DOCS4, SRC1), Mode::Plain, one));
			v.push(sweep("q-wide-orders", "wide", simple(), simple(), Mode::Plain, four));
			v.push(sweep("q-pairs-orders", "pairs", pairs(), pairs(), Mode::Plain, two));
		},
		vcore::Tier::Thorough => {
			v.push(sweep("t-deep", "deep", SideOpts::uniform(BOTH, DOCS3, SRC3), SideOpts::uniform(BOTH, DOCS3, SRC3), Mode::Plain, one));
			v.push(sweep("t-deep-names", "deep", SideOpts::uniform(NAMES4, DOCS0, SRC3), SideOpts::uniform(NAMES4, DOCS0, SRC3), Mode::Plain, one));
			v.push(sweep("t-deep-near-comments", "deep", SideOpts::uniform(NAMED, DOCS5, SRC1), SideOpts::uniform(NAMED, DOCS5, SRC1), Mode::Plain, one));
			v.push(sweep("t-wide-orders", "wide", simple(), simple(), Mode::Plain, four));
			v.push(sweep("t-wide1-names-orders", "wide1", SideOpts::uniform(BOTH, DOCS0, SRC1), SideOpts::uniform(BOTH, DOCS0, SRC1), Mode::Plain, four));
			v.push(sweep("t-wide1-comments-orders", "wide1", SideOpts::uniform(NAMED, DOCS2, SRC1), SideOpts::uniform(NAMED, DOCS2, SRC1), Mode::Plain, &four[..2]));
			v.push(sweep("t-pairs-orders", "pairs", pairs(), pairs(), Mode::Plain, four));
			v.push(sweep("t-wide1-pairs-orders", "wide1", pairs(), pairs(), Mode::Plain, four));
			// every kind of name × comments: the comments on one side at a time (both at once: t-deep, names absent / own)
			v.push(sweep("t-deep-names-comments-of-B", "deep", SideOpts::uniform(NAMES4, DOCS0, SRC2), SideOpts::uniform(NAMES4, DOCS2, SRC2), Mode::Plain, one));
			v.push(sweep("t-deep-names-comments-of-A", "deep", SideOpts::uniform(NAMES4, DOCS2, SRC2), SideOpts::uniform(NAMES4, DOCS0, SRC2), Mode::Plain, one));
			v.push(sweep("t-wide3-comment-at-every-entry", "wide3", simple(), simple(), Mode::DocAt, one));
			v.push(sweep("t-twins-comments-orders", "twins", SideOpts::uniform(NAMED, DOCS2, SRC1), SideOpts::uniform(NAMED, DOCS2, SRC1), Mode::Plain, &four[..1]));
		},
	}
	// the same in both tiers; the small ones run first (a difference shows early), the wide tier sweeps last
	let mut c = Vec::new();
	// the first-namespace names of a parameter that differ only by case, a blank, a repeated letter
	let near_src = || SideOpts { param_src: SRC_NEAR, ..simple() };
	c.push(sweep("deep-near-parameter-first-names", "deep", near_src(), near_src(), Mode::Plain, one));
	c.push(sweep("twins-orders", "twins", simple(), simple(), Mode::Plain, four));
	c.push(sweep("wide-second-namespace-repeats-a-name", "wide", simple(), simple(), Mode::SecondNs, one));
	c.push(sweep("odd-names-orders", "odd", simple(), simple(), Mode::Plain, two));
	c.push(sweep("twins-comment-at-every-entry", "twins", simple(), simple(), Mode::DocAt, one));
	c.push(sweep("deep-comment-pairs", "deep", simple(), simple(), Mode::DocPairs, one));
	c.push(sweep("wide-first-namespace-differs", "wide", simple(), simple(), Mode::FirstNs, one));
	c.push(sweep("odd1-comment-at-every-entry", "odd1", simple(), simple(), Mode::DocAt, one));
	c.push(extremes(sweep("deep-long-names", "deep", simple(), simple(), Mode::LongNames, one)));
	c.push(sweep("wide-stored-value-conflicts", "wide", simple(), simple(), Mode::Mutate, one));
	c.push(sweep("wide-top-comments", "wide", simple(), simple(), Mode::TopDocs, one));
	c.push(sweep("wide3-rotated-orders", "wide3", simple(), simple(), Mode::Plain, six));
	c.push(sweep("wide-comment-at-every-entry", "wide", simple(), simple(), Mode::DocAt, one));
	c.push(sweep("deep-long-comments", "deep", simple(), simple(), Mode::LongDocs, one));
	c.extend(v);
	c
}

// ---------------------------------------------------------------------------------------------
// reference: what the statement says the merge of two well-formed sets is

struct Expect {
	/// the result, if the merge succeeds
	set: MSet,
	/// conflicts for which the merge must be refused (error classes)
	must_err: BTreeSet<&'static str>,
	/// situations the statement is silent about: refusing is acceptable
	may_err: BTreeSet<&'static str>,
	/// the comment conflicts (subset of `must_err`) whose two comments differ only by blanks
	near: BTreeSet<&'static str>,
}

/// conflicts collected while joining
#[derive(Default)]
struct Conflicts {
	must: BTreeSet<&'static str>,
	near: BTreeSet<&'static str>,
}

fn join_doc(a: Option<&Option<String>>, b: Option<&Option<String>>, class: &'static str, cf: &mut Conflicts) -> Option<String> {
	match (a.and_then(|d| d.as_ref()), b.and_then(|d| d.as_ref())) {
		(None, None) => None,
		(Some(x), None) | (None, Some(x)) => Some(x.clone()),
		(Some(x), Some(y)) if x == y => Some(x.clone()),
		(Some(x), Some(y)) => {
			cf.must.insert(class);
			if x.trim() == y.trim() {
				cf.near.insert(class);
			}
			Some(x.clone())
		},
	}
}

fn target(r: Option<&Row>) -> Option<String> {
	r.and_then(|r| r[1].clone())
}

fn union_keys<'a, K: Ord, V>(a: Option<&'a BTreeMap<K, V>>, b: Option<&'a BTreeMap<K, V>>) -> BTreeSet<&'a K> {
	a.into_iter().flat_map(|m| m.keys()).chain(b.into_iter().flat_map(|m| m.keys())).collect()
}

fn reference_merge(a: &MSet, b: &MSet) -> Expect {
	let mut cf = Conflicts::default();
	let mut may = BTreeSet::new();
	if a.ns[0] != b.ns[0] {
		cf.must.insert("first-namespace");
	}
	// the statement speaks of namespaces s, a, b: a name that occurs twice is outside it
	if a.ns[1] == b.ns[1] || a.ns[0] == a.ns[1] || b.ns[0] == b.ns[1] {
		may.insert("namespace-name-repeated");
	}
	let mut set = MSet { ns: vec![a.ns[0].clone(), a.ns[1].clone(), b.ns[1].clone()], doc: join_doc(Some(&a.doc), Some(&b.doc), "comment-conflict:mappings", &mut cf), classes: BTreeMap::new() };
	for k in union_keys(Some(&a.classes), Some(&b.classes)) {
		let (ca, cb) = (a.classes.get(k), b.classes.get(k));
		let mut c = MClass {
			names: vec![Some(k.clone()), target(ca.map(|c| &c.names)), target(cb.map(|c| &c.names))],
			doc: join_doc(ca.map(|c| &c.doc), cb.map(|c| &c.doc), "comment-conflict:class", &mut cf),
			..Default::default()
		};
		for fk in union_keys(ca.map(|c| &c.fields), cb.map(|c| &c.fields)) {
			let (fa, fb) = (ca.and_then(|c| c.fields.get(fk)), cb.and_then(|c| c.fields.get(fk)));
			c.fields.insert(fk.clone(), MField {
				names: vec![Some(fk.0.clone()), target(fa.map(|f| &f.names)), target(fb.map(|f| &f.names))],
				doc: join_doc(fa.map(|f| &f.doc), fb.map(|f| &f.doc), "comment-conflict:field", &mut cf),
			});
		}
		for mk in union_keys(ca.map(|c| &c.methods), cb.map(|c| &c.methods)) {
			let (ma, mb) = (ca.and_then(|c| c.methods.get(mk)), cb.and_then(|c| c.methods.get(mk)));
			let mut m = MMethod {
				names: vec![Some(mk.0.clone()), target(ma.map(|m| &m.names)), target(mb.map(|m| &m.names))],
				doc: join_doc(ma.map(|m| &m.doc), mb.map(|m| &m.doc), "comment-conflict:method", &mut cf),
				params: BTreeMap::new(),
			};
			for pk in union_keys(ma.map(|m| &m.params), mb.map(|m| &m.params)) {
				let (pa, pb) = (ma.and_then(|m| m.params.get(pk)), mb.and_then(|m| m.params.get(pk)));
				// The first-namespace name of a parameter is not part of its key. The entry has one
				// cell for it: two different names cannot both be kept (no result can project back
				// onto both sides), a name on one side only must at least not be dropped.
				let first = match (pa, pb) {
					(Some(x), None) | (None, Some(x)) => x.names[0].clone(),
					(Some(x), Some(y)) => match (&x.names[0], &y.names[0]) {
						(p, q) if p == q => p.clone(),
						(Some(p), Some(_)) => {
							cf.must.insert("parameter-first-name-conflict");
							Some(p.clone())
						},
						(Some(p), None) | (None, Some(p)) => {
							may.insert("parameter-first-name-on-one-side");
							Some(p.clone())
						},
						(None, None) => None,
					},
					(None, None) => None,
				};
				m.params.insert(*pk, MParam {
					names: vec![first, target(pa.map(|p| &p.names)), target(pb.map(|p| &p.names))],
					doc: join_doc(pa.map(|p| &p.doc), pb.map(|p| &p.doc), "comment-conflict:parameter", &mut cf),
				});
			}
			c.methods.insert(mk.clone(), m);
		}
		set.classes.insert(k.clone(), c);
	}
	Expect { set, must_err: cf.must, may_err: may, near: cf.near }
}

// ---------------------------------------------------------------------------------------------
// comparing (all distinct differences of a case, one per key)

#[derive(Default)]
struct Diffs(BTreeMap<String, String>);

impl Diffs {
	fn add(&mut self, key: String, what: impl FnOnce() -> String) {
		self.0.entry(key).or_insert_with(what);
	}
}

fn share(in_a: bool, in_b: bool) -> &'static str {
	match (in_a, in_b) {
		(true, true) => "both",
		(true, false) => "A-only",
		(false, true) => "B-only",
		(false, false) => "neither",
	}
}

/// where an entry is: formatted only when a difference is reported
#[derive(Clone, Copy, Default)]
struct At<'a> {
	class: Option<&'a String>,
	member: Option<&'a (String, String)>,
	param: Option<usize>,
}

impl std::fmt::Display for At<'_> {
	fn fmt(&self, f: &mut std::fmt::Formatter<'_>) -> std::fmt::Result {
		if let Some(p) = self.param {
			write!(f, "{p} of ")?;
		}
		if let Some(m) = self.member {
			write!(f, "{m:?} of ")?;
		}
		match self.class {
			Some(c) => write!(f, "class {c:?}"),
			None => write!(f, "the mappings"),
		}
	}
}

fn cmp_keys<K: Ord + std::fmt::Debug, V>(level: &str, at: At, e: &BTreeMap<K, V>, r: &BTreeMap<K, V>, sh: impl Fn(&K) -> &'static str, out: &mut Diffs) {
	for k in e.keys() {
		if !r.contains_key(k) {
			out.add(format!("result:{level}:missing[{}]", sh(k)), || format!("{level} {k:?} (in {at}) is in the union of the keys but not in the result"));
		}
	}
	for k in r.keys() {
		if !e.contains_key(k) {
			out.add(format!("result:{level}:extra"), || format!("{level} {k:?} (in {at}) is in the result but in neither input"));
		}
	}
}

fn cmp_entry(level: &str, at: At, sh: &str, en: &Row, ed: &Option<String>, rn: &Row, rd: &Option<String>, out: &mut Diffs) {
	if en != rn {
		out.add(format!("result:{level}.names[{sh}]"), || format!("{level} {at}: expected names {en:?}, got {rn:?}"));
	}
	if ed != rd {
		out.add(format!("result:{level}.comment[{sh}]"), || format!("{level} {at}: expected comment {ed:?}, got {rd:?}"));
	}
}

/// expected (from the statement) against the actual result
fn compare(e: &MSet, r: &MSet, a: &MSet, b: &MSet, out: &mut Diffs) {
	if e.ns != r.ns {
		out.add("result:namespaces".into(), || format!("expected namespaces {:?}, got {:?}", e.ns, r.ns));
	}
	if e.doc != r.doc {
		out.add("result:mappings.comment".into(), || format!("expected mappings comment {:?}, got {:?}", e.doc, r.doc));
	}
	cmp_keys("class", At::default(), &e.classes, &r.classes, |k| share(a.classes.contains_key(k), b.classes.contains_key(k)), out);
	for (k, ec) in &e.classes {
		let Some(rc) = r.classes.get(k) else { continue };
		let (ca, cb) = (a.classes.get(k), b.classes.get(k));
		let at = At { class: Some(k), ..At::default() };
		cmp_entry("class", at, share(ca.is_some(), cb.is_some()), &ec.names, &ec.doc, &rc.names, &rc.doc, out);
		cmp_keys("field", at, &ec.fields, &rc.fields, |fk| share(ca.is_some_and(|c| c.fields.contains_key(fk)), cb.is_some_and(|c| c.fields.contains_key(fk))), out);
		cmp_keys("method", at, &ec.methods, &rc.methods, |mk| share(ca.is_some_and(|c| c.methods.contains_key(mk)), cb.is_some_and(|c| c.methods.contains_key(mk))), out);
		for (fk, ef) in &ec.fields {
			let Some(rf) = rc.fields.get(fk) else { continue };
			let sh = share(ca.is_some_and(|c| c.fields.contains_key(fk)), cb.is_some_and(|c| c.fields.contains_key(fk)));
			cmp_entry("field", At { member: Some(fk), ..at }, sh, &ef.names, &ef.doc, &rf.names, &rf.doc, out);
		}
		for (mk, em) in &ec.methods {
			let Some(rm) = rc.methods.get(mk) else { continue };
			let (ma, mb) = (ca.and_then(|c| c.methods.get(mk)), cb.and_then(|c| c.methods.get(mk)));
			let at = At { member: Some(mk), ..at };
			cmp_entry("method", at, share(ma.is_some(), mb.is_some()), &em.names, &em.doc, &rm.names, &rm.doc, out);
			cmp_keys("parameter", at, &em.params, &rm.params, |pk| share(ma.is_some_and(|m| m.params.contains_key(pk)), mb.is_some_and(|m| m.params.contains_key(pk))), out);
			for (pk, ep) in &em.params {
				let Some(rp) = rm.params.get(pk) else { continue };
				let sh = share(ma.is_some_and(|m| m.params.contains_key(pk)), mb.is_some_and(|m| m.params.contains_key(pk)));
				cmp_entry("parameter", At { param: Some(*pk), ..at }, sh, &ep.names, &ep.doc, &rp.names, &rp.doc, out);
			}
		}
	}
}

/// keeps the first namespace and namespace `col`
fn project(m: &MSet, col: usize) -> MSet {
	let row = |r: &Row| -> Row { vec![r[0].clone(), r[col].clone()] };
	MSet {
		ns: vec![m.ns[0].clone(), m.ns[col].clone()],
		doc: m.doc.clone(),
		classes: m.classes.iter().map(|(k, c)| (k.clone(), MClass {
			names: row(&c.names),
			doc: c.doc.clone(),
			fields: c.fields.iter().map(|(fk, f)| (fk.clone(), MField { names: row(&f.names), doc: f.doc.clone() })).collect(),
			methods: c.methods.iter().map(|(mk, me)| (mk.clone(), MMethod {
				names: row(&me.names),
				doc: me.doc.clone(),
				params: me.params.iter().map(|(pk, p)| (*pk, MParam { names: row(&p.names), doc: p.doc.clone() })).collect(),
			})).collect(),
		})).collect(),
	}
}

struct Law<'a> {
	side: &'static str,
	out: &'a mut Diffs,
}

impl Law<'_> {
	/// an entry of the side must reappear unchanged (its comment, when the side has none, may be the other side's)
	fn same(&mut self, level: &str, at: At, names_ok: bool, own: (&Row, &Option<String>), other_doc: Option<&Option<String>>, got: (&Row, &Option<String>)) {
		let side = self.side;
		if !names_ok {
			self.out.add(format!("projection:{side}:{level}.names"), || format!("{level} {at} of {side}: names {:?} came back as {:?}", own.0, got.0));
		}
		let doc_ok = match own.1 {
			Some(_) => got.1 == own.1,
			None => got.1.is_none() || other_doc.is_some_and(|d| d == got.1),
		};
		if !doc_ok {
			self.out.add(format!("projection:{side}:{level}.comment"), || format!("{level} {at} of {side}: comment {:?} came back as {:?}", own.1, got.1));
		}
	}
	fn lost(&mut self, level: &str, at: At) {
		let side = self.side;
		self.out.add(format!("projection:{side}:{level}:lost"), || format!("{level} {at} of {side} is not in the projection of the result"));
	}
	/// an entry of the projection that the side does not have: its key must be in the other side, and it has no name of this side
	fn extra(&mut self, level: &str, at: At, in_other: bool, names: &Row) {
		let side = self.side;
		if !in_other {
			self.out.add(format!("projection:{side}:{level}:invented"), || format!("{level} {at} of the projection is in neither input"));
		}
		if names[1].is_some() {
			self.out.add(format!("projection:{side}:{level}:extra-entry-has-name"), || format!("{level} {at} does not exist in {side} but carries the name {:?} in its column", names[1]));
		}
	}
}

/// The projection law: every entry of `own` reappears in `proj` (the result restricted to the first
/// namespace and `own`'s column) with identical names, descriptor (part of the key) and comment, and
/// every extra entry of `proj` has its key in `other` and no name in `own`'s column.
fn projection_law(side: &'static str, own: &MSet, other: &MSet, proj: &MSet, out: &mut Diffs) {
	let mut law = Law { side, out };
	if proj.ns != own.ns {
		law.out.add(format!("projection:{side}:namespaces"), || format!("namespaces {:?} came back as {:?}", own.ns, proj.ns));
	}
	law.same("mappings", At::default(), true, (&vec![], &own.doc), Some(&other.doc), (&vec![], &proj.doc));
	for (k, c) in &own.classes {
		let at = At { class: Some(k), ..At::default() };
		let Some(pc) = proj.classes.get(k) else {
			law.lost("class", at);
			continue;
		};
		let oc = other.classes.get(k);
		law.same("class", at, pc.names == c.names, (&c.names, &c.doc), oc.map(|c| &c.doc), (&pc.names, &pc.doc));
		for (fk, f) in &c.fields {
			let at = At { member: Some(fk), ..at };
			match pc.fields.get(fk) {
				None => law.lost("field", at),
				Some(pf) => law.same("field", at, pf.names == f.names, (&f.names, &f.doc), oc.and_then(|c| c.fields.get(fk)).map(|f| &f.doc), (&pf.names, &pf.doc)),
			}
		}
		for (mk, m) in &c.methods {
			let at = At { member: Some(mk), ..at };
			let Some(pm) = pc.methods.get(mk) else {
				law.lost("method", at);
				continue;
			};
			let om = oc.and_then(|c| c.methods.get(mk));
			law.same("method", at, pm.names == m.names, (&m.names, &m.doc), om.map(|m| &m.doc), (&pm.names, &pm.doc));
			for (pk, p) in &m.params {
				let at = At { param: Some(*pk), ..at };
				let Some(pp) = pm.params.get(pk) else {
					law.lost("parameter", at);
					continue;
				};
				let op = om.and_then(|m| m.params.get(pk));
				// a first name that only the other side has may (must, see `compare`) be kept
				let first_ok = pp.names[0] == p.names[0] || (p.names[0].is_none() && op.is_some_and(|o| o.names[0] == pp.names[0]));
				law.same("parameter", at, first_ok && pp.names[1] == p.names[1], (&p.names, &p.doc), op.map(|p| &p.doc), (&pp.names, &pp.doc));
			}
		}
	}
	// extras
	for (k, pc) in &proj.classes {
		let (c, oc) = (own.classes.get(k), other.classes.get(k));
		let at = At { class: Some(k), ..At::default() };
		if c.is_none() {
			law.extra("class", at, oc.is_some(), &pc.names);
		}
		for (fk, pf) in &pc.fields {
			if !c.is_some_and(|c| c.fields.contains_key(fk)) {
				law.extra("field", At { member: Some(fk), ..at }, oc.is_some_and(|c| c.fields.contains_key(fk)), &pf.names);
			}
		}
		for (mk, pm) in &pc.methods {
			let (m, om) = (c.and_then(|c| c.methods.get(mk)), oc.and_then(|c| c.methods.get(mk)));
			if m.is_none() {
				law.extra("method", At { member: Some(mk), ..at }, om.is_some(), &pm.names);
			}
			for (pk, pp) in &pm.params {
				if !m.is_some_and(|m| m.params.contains_key(pk)) {
					law.extra("parameter", At { member: Some(mk), param: Some(*pk), ..at }, om.is_some_and(|m| m.params.contains_key(pk)), &pp.names);
				}
			}
		}
	}
}

// ---------------------------------------------------------------------------------------------
// running the real code

fn member_key(k: (&str, &str)) -> (String, String) {
	(k.0.to_owned(), k.1.to_owned())
}

/// does the set have the entry whose stored value the case overwrites?
fn has_target(s: &MSet, t: &MutCase) -> bool {
	let Some(c) = s.classes.get(t.class) else { return false };
	let me = t.method.and_then(|m| c.methods.get(&member_key(m)));
	match t.m {
		Mutation::ClassFirstName => true,
		Mutation::FieldDesc | Mutation::FieldFirstName => t.field.is_some_and(|f| c.fields.contains_key(&member_key(f))),
		Mutation::MethodDesc | Mutation::MethodFirstName => me.is_some(),
		Mutation::ParamIndex => me.is_some_and(|m| t.param.is_some_and(|p| m.params.contains_key(&p))),
	}
}

fn gen_bug<T>(r: anyhow::Result<T>) -> T {
	r.unwrap_or_else(|e| vcore::machinery_fail(&format!("generator produced an invalid value: {e:#}")))
}

/// Overwrites one stored value of the real object (public fields only), leaving the key alone. `text`: the class /
/// member name to write (or to put into the descriptor) instead of the short default.
fn mutate<Ns>(q: &mut Mappings<2, Ns>, t: &MutCase, text: Option<&str>) {
	let missing = || -> ! { vcore::machinery_fail("mutation target missing") };
	let c = q.classes.get_mut(&gen_bug(mapmodel::cls(t.class))).unwrap_or_else(|| missing());
	let fkey = || { let f = t.field.unwrap_or_else(|| missing()); FieldNameAndDesc { name: gen_bug(mapmodel::fname(f.0)), desc: gen_bug(mapmodel::fdesc(f.1)) } };
	let mkey = || { let m = t.method.unwrap_or_else(|| missing()); MethodNameAndDesc { name: gen_bug(mapmodel::mname(m.0)), desc: gen_bug(mapmodel::mdesc(m.1)) } };
	match t.m {
		Mutation::ClassFirstName => {
			let [_, n1] = <&[Option<ObjClassName>; 2]>::from(&c.info.names).clone();
			c.info.names = gen_bug(Names::try_from([Some(gen_bug(mapmodel::cls(text.unwrap_or("Other")))), n1]));
		},
		Mutation::FieldDesc => c.fields.get_mut(&fkey()).unwrap_or_else(|| missing()).info.desc = gen_bug(mapmodel::fdesc(&text.map_or("Z".to_owned(), |t| format!("L{t};")))),
		Mutation::FieldFirstName => {
			let f = c.fields.get_mut(&fkey()).unwrap_or_else(|| missing());
			let [_, n1] = <&[Option<FieldName>; 2]>::from(&f.info.names).clone();
			f.info.names = gen_bug(Names::try_from([Some(gen_bug(mapmodel::fname(text.unwrap_or("other")))), n1]));
		},
		Mutation::MethodDesc => c.methods.get_mut(&mkey()).unwrap_or_else(|| missing()).info.desc = gen_bug(mapmodel::mdesc(&text.map_or("(Z)V".to_owned(), |t| format!("(L{t};)V")))),
		Mutation::MethodFirstName => {
			let me = c.methods.get_mut(&mkey()).unwrap_or_else(|| missing());
			let [_, n1] = <&[Option<MethodName>; 2]>::from(&me.info.names).clone();
			me.info.names = gen_bug(Names::try_from([Some(gen_bug(mapmodel::mname(text.unwrap_or("other")))), n1]));
		},
		Mutation::ParamIndex => {
			let me = c.methods.get_mut(&mkey()).unwrap_or_else(|| missing());
			let p = t.param.unwrap_or_else(|| missing());
			me.parameters.get_mut(&ParameterKey { index: p }).unwrap_or_else(|| missing()).info.index = 7;
		},
	}
}

/// `Ok(Ok(set))` merged, `Ok(Err(msg))` refused, `Err` = the result breaks quill's own key invariant
type Real = Result<Result<MSet, String>, mapmodel::KeyMismatch>;

/// Builds fresh real objects and calls the real merge.
fn real_merge(a: &MSet, b: &MSet, oa: Order, ob: Order, mutation: Option<(&MutCase, Option<&str>)>, project_result: bool) -> Result<Real, vcore::Panic> {
	let mut qa: Mappings<2, (NsS, NsA)> = gen_bug(mapmodel::to_quill_ordered(a, oa));
	let mut qb: Mappings<2, (NsS, NsB)> = gen_bug(mapmodel::to_quill_ordered(b, ob));
	if let Some((t, text)) = mutation {
		match t.side {
			Side::A => mutate(&mut qa, t, text),
			Side::B => mutate(&mut qb, t, text),
		}
	}
	vcore::guard(|| match Mappings::<2, (NsS, NsA, NsB)>::merge(&qa, &qb) {
		Ok(q) if project_result => mapmodel::from_quill::<3, _>(&q).map(Ok),
		Ok(_) => Ok(Ok(MSet::default())),
		Err(e) => Ok(Err(format!("{e:#}"))),
	})
}

// ---------------------------------------------------------------------------------------------
// one case

const LEVELS: [&str; 4] = ["class", "field", "method", "parameter"];
const COMBOS: [&str; 4] = ["neither", "A-only", "B-only", "both"];

#[derive(Default)]
struct Tally {
	/// [level][combo] over the universe entries of pairs whose plain merge succeeded
	sharing: [[u64; 4]; 4],
	counters: BTreeMap<&'static str, u64>,
}

impl Tally {
	fn count(&mut self, name: &'static str) {
		*self.counters.entry(name).or_insert(0) += 1;
	}
	fn flush(self, st: &mut Stats) {
		for (l, row) in self.sharing.iter().enumerate() {
			for (c, n) in row.iter().enumerate() {
				if *n > 0 {
					st.outcome_n(&format!("sharing:{}:{}", LEVELS[l], COMBOS[c]), *n);
				}
			}
		}
		for (k, n) in self.counters {
			st.outcome_n(k, n);
		}
	}
}

fn combo(in_a: bool, in_b: bool) -> usize {
	(in_a as usize) | ((in_b as usize) << 1)
}

fn tally_sharing(shape: &[ShapeClass], a: &MSet, b: &MSet, t: &mut Tally) {
	for sc in shape {
		let (ca, cb) = (a.classes.get(sc.key), b.classes.get(sc.key));
		t.sharing[0][combo(ca.is_some(), cb.is_some())] += 1;
		for (n, d) in sc.fields {
			let k = (n.to_string(), d.to_string());
			t.sharing[1][combo(ca.is_some_and(|c| c.fields.contains_key(&k)), cb.is_some_and(|c| c.fields.contains_key(&k)))] += 1;
		}
		for sm in sc.methods {
			let k = (sm.name.to_owned(), sm.desc.to_owned());
			let (ma, mb) = (ca.and_then(|c| c.methods.get(&k)), cb.and_then(|c| c.methods.get(&k)));
			t.sharing[2][combo(ma.is_some(), mb.is_some())] += 1;
			for p in sm.params {
				t.sharing[3][combo(ma.is_some_and(|m| m.params.contains_key(p)), mb.is_some_and(|m| m.params.contains_key(p)))] += 1;
			}
		}
	}
}

/// which comment situations and name placements a successful merge went through
fn tally_content(a: &MSet, b: &MSet, t: &mut Tally) {
	let mut doc = |x: Option<&Option<String>>, y: Option<&Option<String>>| match (x.and_then(|d| d.as_ref()), y.and_then(|d| d.as_ref())) {
		(Some(_), None) => t.count("merged-comment:from-A"),
		(None, Some(_)) => t.count("merged-comment:from-B"),
		(Some(_), Some(_)) => t.count("merged-comment:equal-on-both-sides"),
		(None, None) => {},
	};
	doc(Some(&a.doc), Some(&b.doc));
	for k in union_keys(Some(&a.classes), Some(&b.classes)) {
		let (ca, cb) = (a.classes.get(k), b.classes.get(k));
		doc(ca.map(|c| &c.doc), cb.map(|c| &c.doc));
		for fk in union_keys(ca.map(|c| &c.fields), cb.map(|c| &c.fields)) {
			doc(ca.and_then(|c| c.fields.get(fk)).map(|f| &f.doc), cb.and_then(|c| c.fields.get(fk)).map(|f| &f.doc));
		}
		for mk in union_keys(ca.map(|c| &c.methods), cb.map(|c| &c.methods)) {
			let (ma, mb) = (ca.and_then(|c| c.methods.get(mk)), cb.and_then(|c| c.methods.get(mk)));
			doc(ma.map(|m| &m.doc), mb.map(|m| &m.doc));
			for pk in union_keys(ma.map(|m| &m.params), mb.map(|m| &m.params)) {
				doc(ma.and_then(|m| m.params.get(pk)).map(|p| &p.doc), mb.and_then(|m| m.params.get(pk)).map(|p| &p.doc));
			}
		}
	}
}

/// what the names of the merged entries look like (the placement must not depend on it)
fn tally_names(r: &MSet, t: &mut Tally) {
	let mut row = |n: &Row| {
		if n.len() != 3 {
			return;
		}
		if n[1].is_some() && n[1] == n[2] {
			t.count("merged-names:columns-a-and-b-equal");
		}
		if n[0].is_some() && n[1] == n[0] {
			t.count("merged-names:column-a-equals-first-name");
		}
		if n[0].is_some() && n[2] == n[0] {
			t.count("merged-names:column-b-equals-first-name");
		}
		if n[1].is_none() && n[2].is_none() {
			t.count("merged-names:neither-column");
		}
	};
	for c in r.classes.values() {
		row(&c.names);
		c.fields.values().for_each(|f| row(&f.names));
		for m in c.methods.values() {
			row(&m.names);
			m.params.values().for_each(|p| row(&p.names));
		}
	}
}

/// a map with at least two entries of which one has a comment or lacks its target name
fn rich_multi(s: &MSet) -> bool {
	s.classes.values().any(|c| {
		(c.fields.len() > 1 && c.fields.values().any(|f| f.doc.is_some() || f.names[1].is_none()))
			|| c.methods.values().any(|m| m.params.len() > 1 && m.params.values().any(|p| p.doc.is_some() || p.names[1].is_none()))
	})
}

fn order_matters(s: &MSet) -> bool {
	s.classes.len() > 1 || s.classes.values().any(|c| c.fields.len() > 1 || c.methods.len() > 1 || c.methods.values().any(|m| m.params.len() > 1))
}

fn render(s: &MSet) -> String {
	format!("mappings comment: {:?}\n{}", s.doc, mapmodel::tiny::print(s))
}

fn case_text(sw: &Sweep, ia: usize, ib: usize, x: u64, a: &MSet, b: &MSet, extra: &str) -> String {
	format!("case sweep={} ia={ia} ib={ib} x={x}\nmode={:?}\n--- A ---\n{}--- B ---\n{}{extra}", sw.label, sw.mode, render(a), render(b))
}

fn show_real(r: &Result<Real, vcore::Panic>) -> String {
	match r {
		Err(p) => format!("panic at {}: {}", p.site, p.msg),
		Ok(Err(k)) => format!("result breaks the key invariant: {}", k.0),
		Ok(Ok(Err(e))) => format!("Err: {e}"),
		Ok(Ok(Ok(s))) => format!("Ok:\n{}", render(s)),
	}
}

fn digest_of(r: &Result<Real, vcore::Panic>) -> u64 {
	match r {
		Err(p) => vcore::hash64(&(0, &p.site, &p.msg)),
		Ok(Err(k)) => vcore::hash64(&(1, &k.0)),
		Ok(Ok(Err(e))) => vcore::hash64(&(2, e)),
		Ok(Ok(Ok(s))) => vcore::hash64(&(3, s)),
	}
}

/// (level, index of A's comment, index of B's comment) of case `x` of `Mode::DocPairs`
fn doc_pair_case(x: u64) -> (usize, usize, usize) {
	let v = vcore::enumerate::product_nth(&[LONG_DOC_LEVELS, DOC_ALPHABET.len(), DOC_ALPHABET.len()], x);
	(v[0], v[1], v[2])
}

/// the comments of (A, B): 0 = A only, 1 = B only, 2 = the same on both, 3 = `doc` on A and `other` on B
fn relation_docs(relation: usize, doc: String, other: String) -> (Option<String>, Option<String>) {
	match relation {
		0 => (Some(doc), None),
		1 => (None, Some(doc)),
		2 => (Some(doc.clone()), Some(doc)),
		_ => (Some(doc), Some(other)),
	}
}

/// the two inputs of a case (well-formed model sets; `Mode::Mutate` changes the real objects later)
fn inputs(sw: &Sweep, ia: usize, ib: usize, x: u64) -> (MSet, MSet) {
	let mut a = sw.a[ia].clone();
	let mut b = sw.b[ib].clone();
	match sw.mode {
		Mode::Plain | Mode::Mutate => {},
		Mode::TopDocs => {
			a.doc = sw.top_docs[x as usize / sw.top_docs.len()].map(|s| s.to_owned());
			b.doc = sw.top_docs[x as usize % sw.top_docs.len()].map(|s| s.to_owned());
		},
		Mode::FirstNs | Mode::SecondNs => {
			let ((a0, a1), (b0, b1)) = if sw.mode == Mode::FirstNs { FIRST_NS_VARIANTS[x as usize] } else { SECOND_NS_VARIANTS[x as usize] };
			a.ns = vec![a0.to_owned(), a1.to_owned()];
			b.ns = vec![b0.to_owned(), b1.to_owned()];
		},
		Mode::LongDocs => {
			let (level, placement, n, tail, relation) = long_doc_case(x);
			let doc = long_text(placement, n, LONG_TAILS[tail]);
			let (da, db) = relation_docs(relation, doc.clone(), format!("{doc}{}", LONG_TAILS[tail]));
			set_doc_at(&mut a, level, da);
			set_doc_at(&mut b, level, db);
		},
		Mode::LongNames => {
			let (slot, placement, n, tail) = long_name_case(x);
			fill_slot(&mut a, &mut b, SLOTS[slot], &long_text(placement, n, LONG_TAILS[tail]), LONG_TAILS[tail]);
		},
		Mode::DocPairs => {
			let (level, da, db) = doc_pair_case(x);
			set_doc_at(&mut a, level, DOC_ALPHABET[da].map(|s| s.to_owned()));
			set_doc_at(&mut b, level, DOC_ALPHABET[db].map(|s| s.to_owned()));
		},
		Mode::DocAt => {
			let e = &sw.entries[x as usize / LONG_DOC_RELATIONS];
			let (da, db) = relation_docs(x as usize % LONG_DOC_RELATIONS, "d1".to_owned(), "d2".to_owned());
			if let Some(c) = doc_cell(&mut a, e) {
				*c = da;
			}
			if let Some(c) = doc_cell(&mut b, e) {
				*c = db;
			}
		},
	}
	(a, b)
}

/// the stored value of one real object that the case overwrites, and the text written (None: a short default)
fn stored_mutation(sw: &Sweep, x: u64) -> Option<(MutCase, Option<String>)> {
	match sw.mode {
		Mode::Mutate => Some((sw.muts[x as usize].clone(), None)),
		Mode::LongNames => {
			let (slot, placement, n, tail) = long_name_case(x);
			SLOTS[slot].mutation().map(|m| (m, Some(long_text(placement, n, LONG_TAILS[tail]))))
		},
		_ => None,
	}
}

/// Runs one case through the real code and the oracle; returns a digest of what was observed.
fn run_case(ctx: &Ctx, sw: &Sweep, ia: usize, ib: usize, x: u64, st: &mut Stats, t: &mut Tally) -> u64 {
	let (a, b) = inputs(sw, ia, ib, x);
	let (a, b) = (&a, &b);
	let text = |extra: &str| case_text(sw, ia, ib, x, a, b, extra);

	let long_slot = (sw.mode == Mode::LongNames).then(|| long_name_case(x));
	if let Some((tg, repl)) = &stored_mutation(sw, x) {
		let (m, side) = (tg.m, tg.side);
		let (mine, other) = match side {
			Side::A => (a, b),
			Side::B => (b, a),
		};
		if !has_target(mine, tg) {
			t.count("stored-value-conflict:side-lacks-the-entry(skipped)");
			return 0;
		}
		st.eval();
		let real = real_merge(a, b, Order::Sorted, Order::Sorted, Some((tg, repl.as_deref())), false);
		let what = format!("\nstored value overwritten: {m:?} of side {side:?} (class {:?}, field {:?}, method {:?}, parameter {:?}{})\nreal: {}", tg.class, tg.field, tg.method, tg.param, repl.as_ref().map_or(String::new(), |r| format!(", with the text {r:?}")), show_real(&real));
		let conflict = has_target(other, tg);
		match (&real, m.stated_class().filter(|_| conflict)) {
			(Err(p), _) => ctx.diff(&format!("panic@{}", p.file()), &format!("merge panicked at {}: {}", p.site, p.msg), || text(&what)),
			(Ok(Ok(Err(_))), Some(class)) => {
				t.count(match class {
					"descriptor-conflict:field" => "err:descriptor-conflict:field",
					"descriptor-conflict:method" => "err:descriptor-conflict:method",
					_ => "err:parameter-index-conflict",
				});
				if tg.later_entry {
					t.count("err:stored-value-conflict-in-a-later-entry");
				}
				if let Some((slot, ..)) = long_slot {
					t.count(SLOT_COUNTERS[slot].1);
				}
				st.sample(class, || json!({"kind": "stated-conflict", "class": class, "case": text(&what)}));
			},
			(Ok(_), Some(class)) => ctx.diff(&format!("accepted:{class}"), &format!("both sides have the entry under the same key but disagree ({class}); the merge was not refused"), || text(&what)),
			(Ok(Ok(Err(_))), None) => {
				t.count("inconsistent-input(unjudged):refused");
				if let Some((slot, ..)) = long_slot.filter(|_| conflict) {
					t.count(SLOT_COUNTERS[slot].1);
				}
			},
			(Ok(_), None) => {
				t.count("inconsistent-input(unjudged):merged");
				if let Some((slot, ..)) = long_slot.filter(|_| conflict) {
					t.count(SLOT_COUNTERS[slot].0);
				}
			},
		}
		return digest_of(&real);
	}

	let expect = reference_merge(a, b);
	let mut digest = 0u64;
	let mut base: Option<Result<MSet, ()>> = None;
	for (oi, (oa, ob)) in sw.orders.iter().enumerate() {
		st.eval();
		let real = real_merge(a, b, *oa, *ob, None, true);
		digest = digest.wrapping_mul(31).wrapping_add(digest_of(&real));
		let what = || format!("\ninsertion orders: A {oa:?}, B {ob:?}\nreal: {}", show_real(&real));
		let verdict: Result<MSet, ()> = match &real {
			Err(p) => {
				ctx.diff(&format!("panic@{}", p.file()), &format!("merge panicked at {}: {}", p.site, p.msg), || text(&what()));
				continue;
			},
			Ok(Err(k)) => {
				ctx.diff("result:key-invariant-broken", &k.0, || text(&what()));
				continue;
			},
			Ok(Ok(Err(_))) => Err(()),
			Ok(Ok(Ok(s))) => Ok(s.clone()),
		};
		if oi > 0 {
			// order independence: same verdict, same result as a set
			t.count("order:variants-compared");
			match (&base, &verdict) {
				(Some(Ok(x)), Ok(y)) if x == y => {},
				(Some(Err(())), Err(())) => {},
				(Some(Ok(x)), Ok(y)) => {
					let (k, w) = mapmodel::first_difference(x, y).unwrap_or(("other".into(), "differ".into()));
					ctx.diff(&format!("order:result-depends-on-insertion-order:{k}"), &format!("inserting the same entries in another order changed the merged set: {w}"), || text(&format!("{}\nresult with the sorted order:\n{}", what(), render(x))));
				},
				(Some(_), _) => ctx.diff("order:verdict-depends-on-insertion-order", "inserting the same entries in another order turned Ok into Err or Err into Ok", || text(&what())),
				(None, _) => {},
			}
			continue;
		}
		base = Some(verdict.clone());
		match verdict {
			Err(()) => {
				if !expect.must_err.is_empty() {
					if expect.must_err.len() == 1 {
						let class = *expect.must_err.iter().next().unwrap();
						t.count(match class {
							"first-namespace" => "err:first-namespace",
							"comment-conflict:mappings" => "err:comment-conflict:mappings",
							"comment-conflict:class" => "err:comment-conflict:class",
							"comment-conflict:field" => "err:comment-conflict:field",
							"comment-conflict:method" => "err:comment-conflict:method",
							"comment-conflict:parameter" => "err:comment-conflict:parameter",
							_ => "err:parameter-first-name-conflict",
						});
						if expect.near.contains(class) {
							t.count(match class {
								"comment-conflict:mappings" => "err:comments-differ-only-by-a-blank:mappings",
								"comment-conflict:class" => "err:comments-differ-only-by-a-blank:class",
								"comment-conflict:field" => "err:comments-differ-only-by-a-blank:field",
								"comment-conflict:method" => "err:comments-differ-only-by-a-blank:method",
								_ => "err:comments-differ-only-by-a-blank:parameter",
							});
						}
						if sw.mode == Mode::FirstNs {
							t.count(FIRST_NS_COUNTERS[x as usize]);
						}
						match sw.mode {
							Mode::LongDocs => t.count("err:long-comments-differ"),
							Mode::LongNames => t.count(SLOT_COUNTERS[long_name_case(x).0].1),
							Mode::DocPairs => {
								let (level, da, db) = doc_pair_case(x);
								if let (Some(da), Some(db)) = (DOC_ALPHABET[da], DOC_ALPHABET[db]) {
									t.count(DOC_PAIR_REFUSED[doc_difference(da, db)][level]);
								}
							},
							Mode::DocAt if sw.entries[x as usize / LONG_DOC_RELATIONS].later => t.count("err:comment-conflict-in-a-later-entry"),
							_ => {},
						}
						st.sample(class, || json!({"kind": "stated-conflict", "class": class, "case": text(&what())}));
					} else {
						t.count("err:several-conflicts-at-once");
					}
				} else if expect.may_err.contains("namespace-name-repeated") {
					t.count("err(accepted, statement silent):namespace-name-repeated");
				} else if !expect.may_err.is_empty() {
					t.count("err(accepted, statement silent):parameter-first-name-on-one-side");
				} else {
					ctx.diff("refused:valid-pair", "two sets without any conflict were not merged", || text(&what()));
				}
			},
			Ok(r) => {
				if !expect.must_err.is_empty() {
					for class in &expect.must_err {
						ctx.diff(&format!("accepted:{class}"), &format!("the inputs conflict ({class}) but the merge was not refused"), || text(&what()));
					}
					continue;
				}
				let mut d = Diffs::default();
				compare(&expect.set, &r, a, b, &mut d);
				projection_law("A", a, b, &project(&r, 1), &mut d);
				projection_law("B", b, a, &project(&r, 2), &mut d);
				for (k, w) in &d.0 {
					ctx.diff(k, w, || text(&format!("{}\nexpected:\n{}", what(), render(&expect.set))));
				}
				t.count("ok");
				match sw.mode {
					Mode::LongDocs => t.count("ok:long-comment-joined"),
					Mode::LongNames => t.count(SLOT_COUNTERS[long_name_case(x).0].0),
					Mode::DocPairs => {
						let level = doc_pair_case(x).0;
						if doc_at(&expect.set, level).is_some_and(|d| d.is_empty()) {
							t.count(EMPTY_DOC_KEPT[level]);
						}
					},
					Mode::DocAt => {
						let e = &sw.entries[x as usize / LONG_DOC_RELATIONS];
						if e.later && doc_of(&expect.set, e).is_some() {
							t.count("ok:comment-at-a-later-entry");
						}
					},
					Mode::SecondNs => t.count("ok:namespace-name-repeated"),
					_ => {},
				}
				if expect.may_err.contains("parameter-first-name-on-one-side") {
					t.count("ok:parameter-first-name-on-one-side-kept");
				}
				if sw.mode == Mode::Plain {
					tally_sharing(sw.shape, a, b, t);
				}
				tally_content(a, b, t);
				tally_names(&r, t);
				if sw.orders.len() > 1 && (rich_multi(a) || rich_multi(b)) {
					t.count("ok:map-with-several-entries-some-commented-or-unnamed");
				}
				if !a.classes.is_empty() && !b.classes.is_empty() {
					t.count("ok:both-sides-contributed");
					st.distinct.add(&r);
					let mut probe = Tally::default();
					tally_sharing(sw.shape, a, b, &mut probe);
					if (1..4).all(|c| probe.sharing.iter().any(|l| l[c] > 0)) {
						t.count("ok:entries-of-all-three-kinds");
					}
					st.sample(match sw.mode { Mode::Plain => "ok:plain", Mode::TopDocs => "ok:top-comments", _ => "ok:other" }, || json!({"kind": "merged-pair", "case": text(&what())}));
				}
				if sw.orders.len() > 1 && (order_matters(a) || order_matters(b)) {
					t.count("order:pairs-with-more-than-one-entry-at-a-level");
				}
			},
		}
	}
	digest
}

const CHUNK: u64 = 512;

fn run_sweep(ctx: &'static Ctx, sw: &Sweep) -> Stats {
	let total = sw.cases();
	let chunks = total.div_ceil(CHUNK);
	(0..chunks).into_par_iter().fold(Stats::new, |mut st, ch| {
		let lo = ch * CHUNK;
		let hi = (lo + CHUNK).min(total);
		let mut t = Tally::default();
		vcore::watched(|| format!("sweep={} cases {lo}..{hi} (case index = (ia*|B| + ib)*nx + x)", sw.label), || {
			for idx in lo..hi {
				let (ia, ib, x) = sw.decode(idx);
				run_case(ctx, sw, ia, ib, x, &mut st, &mut t);
			}
		});
		t.flush(&mut st);
		st
	}).reduce(Stats::new, Stats::merge)
}

fn main() {
	let ctx: &'static Ctx = Box::leak(Box::new(Ctx::new("C09", "exploration")));
	if let Some(path) = ctx.replay.clone() {
		replay(ctx, &path);
	}
	let mut total = Stats::new();
	let mut bounds = Vec::new();
	let mut pairs = 0u64;
	for sw in sweeps(ctx.tier) {
		let st = run_sweep(ctx, &sw);
		let mut bnd = sw.bounds.clone();
		bnd["label"] = json!(sw.label);
		bnd["cases"] = json!(sw.cases());
		bnd["real_merges"] = json!(st.evaluations);
		bounds.push(bnd);
		pairs += sw.cases();
		total = total.merge(st);
	}

	for (l, level) in LEVELS.iter().enumerate() {
		for combo in COMBOS {
			let _ = l;
			ctx.floor(&format!("merged pairs with a {level} that is in: {combo}"), 1, total.get(&format!("sharing:{level}:{combo}")));
		}
	}
	for class in [
		"first-namespace", "comment-conflict:mappings", "comment-conflict:class", "comment-conflict:field", "comment-conflict:method", "comment-conflict:parameter",
		"descriptor-conflict:field", "descriptor-conflict:method", "parameter-index-conflict", "parameter-first-name-conflict",
	] {
		ctx.floor(&format!("refusals whose only conflict is {class}"), 1, total.get(&format!("err:{class}")));
	}
	if FIRST_NS_COUNTERS.len() != FIRST_NS_VARIANTS.len() || SLOT_COUNTERS.len() != SLOTS.len() {
		vcore::machinery_fail("counter tables out of step");
	}
	for (i, name) in FIRST_NS_COUNTERS.iter().enumerate() {
		ctx.floor(&format!("refusals for the headers (A, B) = {:?}", FIRST_NS_VARIANTS[i]), 1, total.get(name));
	}
	for level in ["mappings", "class", "field", "method", "parameter"] {
		ctx.floor(&format!("refusals whose only conflict is a {level} comment differing by a blank"), 1, total.get(&format!("err:comments-differ-only-by-a-blank:{level}")));
	}
	ctx.floor("refused stored-value conflicts in an entry that is not the first of its map", 1, total.get("err:stored-value-conflict-in-a-later-entry"));
	ctx.floor("merged entries with the same name in columns a and b", 100, total.get("merged-names:columns-a-and-b-equal"));
	ctx.floor("merged entries whose column a repeats the first name", 100, total.get("merged-names:column-a-equals-first-name"));
	ctx.floor("merged entries whose column b repeats the first name", 100, total.get("merged-names:column-b-equals-first-name"));
	ctx.floor("merged entries with a name in neither column", 100, total.get("merged-names:neither-column"));
	ctx.floor("merged pairs with a several-entry map holding a comment or an unnamed entry, under insertion orders", 1000, total.get("ok:map-with-several-entries-some-commented-or-unnamed"));
	ctx.floor("successful merges to which both sides contributed", 1000, total.get("ok:both-sides-contributed"));
	ctx.floor("successful merges with A-only, B-only and shared entries at once", 100, total.get("ok:entries-of-all-three-kinds"));
	ctx.floor("merged entries whose comment came from A only", 100, total.get("merged-comment:from-A"));
	ctx.floor("merged entries whose comment came from B only", 100, total.get("merged-comment:from-B"));
	ctx.floor("merged entries with the same comment on both sides", 100, total.get("merged-comment:equal-on-both-sides"));
	ctx.floor("merged pairs where the insertion order is observable (more than one entry at a level)", 1000, total.get("order:pairs-with-more-than-one-entry-at-a-level"));
	ctx.floor("order variants compared with the sorted order", 1000, total.get("order:variants-compared"));
	let long_each = (LONG_DOC_LEVELS * LONG_TEXTS * LONG_TAILS.len()) as u64;
	ctx.floor("refusals of long comments that differ (every level x placement x length x width of the special character)", long_each, total.get("err:long-comments-differ"));
	ctx.floor("merges of long comments (one side only, equal on both)", 3 * long_each, total.get("ok:long-comment-joined"));
	// every text of `long_text` in every slot, at least in the pair in which both sides have every entry
	let texts = (LONG_TEXTS * LONG_TAILS.len()) as u64;
	for (slot, (ok, err)) in SLOTS.iter().zip(SLOT_COUNTERS) {
		match slot.demand() {
			SlotDemand::Merge => ctx.floor(&format!("merges with a long text in the slot {slot:?}"), texts, total.get(ok)),
			SlotDemand::Refuse => ctx.floor(&format!("refusals with a long text in the slot {slot:?}"), texts, total.get(err)),
			SlotDemand::Silent => ctx.floor(&format!("merges or refusals (statement silent) with a long text in the slot {slot:?}"), texts, total.get(ok) + total.get(err)),
		}
	}
	// every ordered pair of different comments of the alphabet, at every level
	let docs: Vec<&str> = DOC_ALPHABET.iter().flatten().copied().collect();
	for (k, kind) in DOC_DIFFERENCES.iter().enumerate() {
		let pairs = docs.iter().flat_map(|x| docs.iter().map(move |y| (*x, *y))).filter(|(x, y)| x != y && doc_difference(x, y) == k).count() as u64;
		for (l, level) in LEVEL5.iter().enumerate() {
			ctx.floor(&format!("refusals of two {level} comments that differ by: {kind}"), pairs.max(1), total.get(DOC_PAIR_REFUSED[k][l]));
		}
	}
	for (l, level) in LEVEL5.iter().enumerate() {
		ctx.floor(&format!("merges that keep an empty {level} comment"), 3, total.get(EMPTY_DOC_KEPT[l]));
	}
	ctx.floor("refusals whose only conflict is a comment of an entry that is not the first of its map", 100, total.get("err:comment-conflict-in-a-later-entry"));
	ctx.floor("merges with a comment at an entry that is not the first of its map", 1000, total.get("ok:comment-at-a-later-entry"));
	ctx.floor("merges of two sets whose header repeats a namespace name (statement silent: judged when merged)", 1, total.get("ok:namespace-name-repeated") + total.get("err(accepted, statement silent):namespace-name-repeated"));

	let coverage = json!({
		"evaluations": total.evaluations,
		"distinct_nontrivial": total.distinct.len(),
		"rule": "one evaluation = one call of the real Mappings::merge on two freshly built real Mappings<2,_> objects (one per pair and insertion-order variant), result projected with from_quill::<3> and judged by the reference join + projection law. distinct_nontrivial = distinct merged sets (as sets) among successful merges in which both A and B have at least one class",
		"exhaustive": true,
		"samples": total.samples,
		"bounds": {"sweeps": bounds, "cases": pairs, "namespaces": {"A": ["s", "a"], "B": ["s", "b"], "first_namespaces_differ(A,B)": FIRST_NS_VARIANTS, "a_name_repeated(A,B)": SECOND_NS_VARIANTS},
				"long_texts": {"special_characters": LONG_TAILS, "placements": ["n ASCII + c", "n ASCII + c + 100 ASCII", "c + n ASCII", "100 ASCII + c + n ASCII"], "n": [0, LONG_MAX], "slots": SLOTS.iter().map(|s| format!("{s:?}")).collect::<Vec<_>>(), "comment_levels": LEVEL5},
				"comment_alphabet": DOC_ALPHABET},
		"outcomes": total.outcomes,
	});
	ctx.finish(coverage, &[
		"a comment is not tied to a namespace: in the projection law an entry of A that has no comment may come back with B's comment of the same entry (the statement's 'comments from whichever side has one')",
		"the first-namespace name of a parameter is not part of its key: two different names must be refused (no result projects back onto both sides); a name on one side only may be refused or kept, never dropped (statement silent)",
		"comments are compared as strings: two comments that differ only by a leading / trailing blank are differing comments (must be refused)",
		"the placement of names does not depend on what the names are: a name equal to the entry's first name, or equal on both sides, is a name like any other",
		"conflicting descriptors / parameter indices can only exist as stored values that disagree under the same key; they are produced by overwriting the public info.desc / info.index of one real object. A stored *first name* that disagrees with its key is outside the statement and explored for panics only",
		"a namespace name that occurs twice (the second namespaces of A and B equal, or a second namespace named like the shared first one) is not in the statement: Ok (judged like any merge) or Err are accepted",
		"a comment that is the empty string is a comment the side has: it is kept when the other side has none and it differs from a non-empty comment",
		"two comments / first namespaces / parameter first names are equal only if they are the same string: differing by case, white space, a line end or Unicode normalisation is differing",
		"the order of the entries in the result is not part of the property; results are compared as sets",
		"mapmodel::{to_quill_ordered, from_quill} convert faithfully (public API only)",
	]);
}

fn replay(ctx: &'static Ctx, path: &std::path::Path) -> ! {
	let body = vcore::replay_body(path);
	let line = body.lines().find(|l| l.starts_with("case sweep=")).unwrap_or_else(|| vcore::machinery_fail("no case line in the replay file"));
	let field = |name: &str| -> &str {
		line.split_whitespace().find_map(|w| w.strip_prefix(name)).unwrap_or_else(|| vcore::machinery_fail("incomplete case line"))
	};
	let num = |name: &str| -> u64 { field(name).parse().unwrap_or_else(|_| vcore::machinery_fail("bad number in case line")) };
	let label = field("sweep=");
	let sw = [vcore::Tier::Quick, vcore::Tier::Thorough].into_iter().flat_map(sweeps).find(|s| s.label == label).unwrap_or_else(|| vcore::machinery_fail("unknown sweep"));
	let (ia, ib, x) = (num("ia=") as usize, num("ib=") as usize, num("x="));
	if ia >= sw.a.len() || ib >= sw.b.len() || x >= sw.nx() {
		vcore::machinery_fail("case indices out of range");
	}
	let mut st = Stats::new();
	let d1 = run_case(ctx, &sw, ia, ib, x, &mut st, &mut Tally::default());
	let d2 = run_case(ctx, &sw, ia, ib, x, &mut Stats::new(), &mut Tally::default());
	if d1 != d2 {
		vcore::machinery_fail("replay is not deterministic");
	}
	let (a, b) = inputs(&sw, ia, ib, x);
	println!("{}", case_text(&sw, ia, ib, x, &a, &b, ""));
	if let Some((tg, repl)) = &stored_mutation(&sw, x) {
		println!("stored value overwritten: {tg:?} (text: {repl:?})");
		if has_target(if tg.side == Side::A { &a } else { &b }, tg) {
			println!("real: {}", show_real(&real_merge(&a, &b, Order::Sorted, Order::Sorted, Some((tg, repl.as_deref())), true)));
		}
	} else {
		let e = reference_merge(&a, &b);
		println!("real: {}
reference: must be refused for {:?}, may be refused for {:?}, otherwise:\n{}", show_real(&real_merge(&a, &b, Order::Sorted, Order::Sorted, None, true)), e.must_err, e.may_err, render(&e.set));
	}
	ctx.finish(json!({"evaluations": st.evaluations, "distinct_nontrivial": 1, "rule": "replay of one case", "samples": ["replay"], "exhaustive": false}), &[]);
}
