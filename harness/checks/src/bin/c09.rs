//! C09 — merging two mapping sets is a faithful join on the shared namespace.
//!
//! Engine: exhaustive enumeration (rayon) of every pair (A, B) of two-namespace mapping sets drawn
//! independently from two generators over the same small universe of entries: at every level (class,
//! field, method, parameter) every entry is absent or present on each side (only A / only B / both /
//! neither), with the target name present or absent per side, and a comment from a per-side alphabet
//! (none / A only / B only / equal / different). Every pair is converted into *real*
//! `quill::tree::mappings::Mappings<2, _>` objects, the real `Mappings::merge` is called, and the
//! three-namespace result is projected back into the model.
//!
//! Oracle (from the statement): the result is over (s, a, b); its entries are the union of the keys
//! at every level; column a holds A's name, column b holds B's name (absent where that side lacks the
//! entry); the comment is the one a side has (equal comments: that comment; different comments: the
//! merge must be refused); the projection law, phrased on the (s,a) and (s,b) projections of the
//! *actual* result; the stated conflicts (descriptors, parameter indices, comments, first namespaces)
//! must be `Err`. Inserting the entries of A / B in another order must not change the result as a set.
//!
//! Clause table (statement of C09 → where it is decided; "q-…"/"t-…" are sweeps of `sweeps()`):
//!
//! | clause | decided in | space |
//! |---|---|---|
//! | domain: pairs sharing the first namespace, overlapping partially at every level, comments on either side | generator `universe` × `Space` for A and B independently; floors `sharing:<level>:<combo>` (4 levels × neither/A-only/B-only/both) | every sweep |
//! | "yields a set over (s,a,b)" | `compare`: `result:namespaces` | every successful merge |
//! | "entries are exactly the union of the keys … at every level" | `cmp_keys` (`result:<level>:missing[..]`, `:extra`), `result:key-invariant-broken` (entry stored under a key that is not its first name / descriptor / index) | deep (1 key per map), wide / wide3 / pairs (2–3 keys per map, same name with two descriptors, insertion orders) |
//! | "A's name in column a, B's name in column b (absent where the side lacks the entry)" | `cmp_entry` names against `reference_merge`; target names are unique per entry and side, so a cross-entry mix-up is visible | q-deep (absent / present), **deep-names**: absent / own / equal to the first name / the same name on both sides (a result must not depend on what the names *are*), pairs (multi-entry maps × absent names) |
//! | "comments from whichever side has one" | `join_doc` + `cmp_entry` comment, four levels + `wide-top-comments` for the mappings comment | q-deep, **deep-near-comments**, pairs (multi-entry maps × comments) |
//! | "projecting the result back onto (s,a) and (s,b) gives back A and B" | `projection_law` on `project(result, 1|2)` (lost / changed / invented entries, names in the wrong column) | every successful merge |
//! | error: conflicting descriptors | `Mode::Mutate` FieldDesc / MethodDesc: `accepted:descriptor-conflict:*` | **every** field / method of both classes of `wide`, either side overwritten |
//! | error: conflicting parameter indices | `Mode::Mutate` ParamIndex: `accepted:parameter-index-conflict` | **every** parameter of `wide`, either side |
//! | error: differing comments | `join_doc` → `must_err` `comment-conflict:<level>`: `accepted:comment-conflict:*` | q-deep (d1/d2), **deep-near-comments** and top comments: comments that differ only by a blank (`"d1"`/`"d1 "`/`" d1"`) still differ |
//! | comments of any length and content (consequence of ∀ inputs): joined or refused, never a panic | `Mode::LongDocs` sweep `deep-long-comments`: at each of the 5 levels a comment of k = 0..=140 ASCII characters + a last character of 1/2/3/4 UTF-8 bytes, on A only / B only / equal / differing | 5 x 141 x 4 x 4 pairs |
//! | error: differing first namespaces | `Mode::FirstNs`: `accepted:first-namespace` | B's header ∈ `FIRST_NS_VARIANTS` (**now also**: second namespaces equal, A's header swapped, first namespace differing only in case / by a repeated letter) × every pair of `wide` |
//! | (consequence of ∀ inputs) the insertion order of the IndexMaps is part of the input | `order:*` | wide ×4 orders, wide3 ×6, pairs ×2 (quick) / ×4 (thorough) |
//!
//! Silent in the statement (every behaviour but a panic / silently wrong answer accepted): a parameter whose
//! first-namespace name exists on one side only (`may_err`); equal *second* namespaces; stored first names
//! that disagree with their key.

use std::collections::{BTreeMap, BTreeSet};
use duke::tree::class::ObjClassName;
use duke::tree::field::{FieldName, FieldNameAndDesc};
use duke::tree::method::{MethodName, MethodNameAndDesc};
use mapmodel::gen::{ClassU, FieldU, MethodU, ParamU, Space, Universe};
use mapmodel::{MClass, MField, MMethod, MParam, MSet, Order, Row};
use quill::tree::mappings::{Mappings, ParameterKey};
use quill::tree::names::Names;
use rayon::prelude::*;
use vcore::{json, Ctx, Stats, Value};

// namespace markers of the real objects
struct NsS;
struct NsA;
struct NsB;

// ---------------------------------------------------------------------------------------------
// universes

struct ShapeMethod {
	name: &'static str,
	desc: &'static str,
	params: &'static [usize],
}

struct ShapeClass {
	key: &'static str,
	fields: &'static [(&'static str, &'static str)],
	methods: &'static [ShapeMethod],
}

/// one class, one field, one method, one parameter: every per-entry option of both sides
const DEEP: &[ShapeClass] = &[ShapeClass { key: "p/K", fields: &[("f", "I")], methods: &[ShapeMethod { name: "m", desc: "(I)V", params: &[0] }] }];

/// several entries per level (same name with different descriptors, two parameters, two classes):
/// key union over more than one key and insertion orders
const WIDE: &[ShapeClass] = &[
	ShapeClass {
		key: "K",
		fields: &[("f", "I"), ("f", "J")],
		methods: &[ShapeMethod { name: "m", desc: "()V", params: &[] }, ShapeMethod { name: "m", desc: "(II)V", params: &[0, 1] }],
	},
	ShapeClass { key: "L", fields: &[("g", "LK;")], methods: &[] },
];

/// WIDE without the second class (room for absent target names in the thorough tier)
const WIDE1: &[ShapeClass] = &[ShapeClass {
	key: "K",
	fields: &[("f", "I"), ("f", "J")],
	methods: &[ShapeMethod { name: "m", desc: "()V", params: &[] }, ShapeMethod { name: "m", desc: "(II)V", params: &[0, 1] }],
}];

/// three entries in one map (three classes, three fields, three parameters): rotations of the insertion order
const WIDE3: &[ShapeClass] = &[
	ShapeClass { key: "K", fields: &[("f", "I"), ("f", "J"), ("g", "I")], methods: &[ShapeMethod { name: "m", desc: "(III)V", params: &[0, 1, 2] }] },
	ShapeClass { key: "L", fields: &[], methods: &[] },
	ShapeClass { key: "M", fields: &[], methods: &[] },
];

/// two entries per map at the two levels that carry comments and optional names below a class
/// (two fields, two parameters): multi-entry maps × comments × absent names × insertion orders
const PAIRS: &[ShapeClass] = &[ShapeClass { key: "K", fields: &[("f", "I"), ("f", "J")], methods: &[ShapeMethod { name: "m", desc: "(II)V", params: &[0, 1] }] }];

fn shape_by_name(n: &str) -> &'static [ShapeClass] {
	match n {
		"deep" => DEEP,
		"wide" => WIDE,
		"wide1" => WIDE1,
		"wide3" => WIDE3,
		"pairs" => PAIRS,
		_ => vcore::machinery_fail("unknown shape"),
	}
}

#[derive(Clone, Copy, PartialEq, Eq, Debug)]
enum Side {
	A,
	B,
}

impl Side {
	fn letter(self) -> &'static str {
		match self {
			Side::A => "a",
			Side::B => "b",
		}
	}
}

/// the name an entry has in the second namespace of its side
#[derive(Clone, Copy, PartialEq, Eq, Debug)]
enum Tgt {
	Absent,
	/// a name no other entry and not the other side has
	Own,
	/// the same string as the entry's name in the first namespace
	First,
	/// a name that the other side (with `Common`) uses for the same entry too
	Common,
}

/// what one side may say about the entries of one level
#[derive(Clone, Copy, Debug)]
struct Level {
	targets: &'static [Tgt],
	docs: &'static [Option<&'static str>],
}

/// what one side may say about an entry
#[derive(Clone, Debug)]
struct SideOpts {
	class: Level,
	field: Level,
	method: Level,
	param: Level,
	/// first-namespace name of a parameter: absent or this prefix + index
	param_src: &'static [Option<&'static str>],
}

impl SideOpts {
	fn uniform(targets: &'static [Tgt], docs: &'static [Option<&'static str>], param_src: &'static [Option<&'static str>]) -> SideOpts {
		let l = Level { targets, docs };
		SideOpts { class: l, field: l, method: l, param: l, param_src }
	}
	fn bounds(&self, sets: u64) -> Value {
		let level = |l: &Level| json!({"target_name": l.targets.iter().map(|t| format!("{t:?}")).collect::<Vec<_>>(), "comments": l.docs});
		json!({"class": level(&self.class), "field": level(&self.field), "method": level(&self.method), "parameter": level(&self.param), "parameter_first_names": self.param_src, "sets": sets})
	}
}

const DOCS3: &[Option<&str>] = &[None, Some("d1"), Some("d2")];
const DOCS2: &[Option<&str>] = &[None, Some("d1")];
const DOCS0: &[Option<&str>] = &[None];
/// comments that differ only by a trailing / leading blank are different comments
const DOCS4: &[Option<&str>] = &[None, Some("d1"), Some("d2"), Some("d1 ")];
const DOCS5: &[Option<&str>] = &[None, Some("d1"), Some("d2"), Some("d1 "), Some(" d1")];

/// The target name of an entry: `base` is unique per entry of the shape (two fields called `f` with
/// different descriptors get different target names), `first` is its first-namespace name (if any).
/// `None` = this combination does not exist (`First` for an entry without a first name).
fn target_name(t: Tgt, base: &str, first: Option<&str>, l: &str) -> Option<Option<String>> {
	match t {
		Tgt::Absent => Some(None),
		Tgt::Own => Some(Some(format!("{base}_{l}"))),
		Tgt::First => first.map(|f| Some(f.to_owned())),
		Tgt::Common => Some(Some(format!("{base}_c"))),
	}
}

fn universe(shape: &[ShapeClass], side: Side, o: &SideOpts) -> Universe {
	let l = side.letter();
	let tails = |lv: &Level, base: &str, first: &str| -> Vec<Row> { lv.targets.iter().filter_map(|t| target_name(*t, base, Some(first), l)).map(|n| vec![n]).collect() };
	let docs = |lv: &Level| -> Vec<Option<String>> { lv.docs.iter().map(|d| d.map(|s| s.to_owned())).collect() };
	Universe {
		ns: vec!["s".into(), l.into()],
		classes: shape.iter().enumerate().map(|(ci, c)| ClassU {
			key: c.key.into(),
			rows: tails(&o.class, c.key, c.key),
			docs: docs(&o.class),
			fields: c.fields.iter().enumerate().map(|(fi, (n, d))| FieldU { name: n.to_string(), desc: d.to_string(), rows: tails(&o.field, &format!("{n}{ci}{fi}"), n), docs: docs(&o.field) }).collect(),
			methods: c.methods.iter().enumerate().map(|(mi, m)| MethodU {
				name: m.name.into(),
				desc: m.desc.into(),
				rows: tails(&o.method, &format!("{}{ci}{mi}", m.name), m.name),
				docs: docs(&o.method),
				params: m.params.iter().map(|i| ParamU {
					index: *i,
					rows: o.param_src.iter().flat_map(|src| {
						let first = src.map(|s| format!("{s}{i}"));
						o.param.targets.iter().filter_map(move |t| {
							let n = target_name(*t, &format!("q{ci}{mi}{i}"), first.as_deref(), l)?;
							Some(vec![first.clone(), n])
						}).collect::<Vec<_>>()
					}).collect(),
					docs: docs(&o.param),
				}).collect(),
			}).collect(),
			optional: true,
		}).collect(),
	}
}

// ---------------------------------------------------------------------------------------------
// sweeps

#[derive(Clone, Copy, PartialEq, Eq, Debug)]
enum Mutation {
	FieldDesc,
	MethodDesc,
	ParamIndex,
	ClassFirstName,
	FieldFirstName,
	MethodFirstName,
}

/// one stored value of one entry of one side that is overwritten in `Mode::Mutate`
#[derive(Clone, Debug)]
struct MutCase {
	m: Mutation,
	side: Side,
	class: &'static str,
	field: Option<(&'static str, &'static str)>,
	method: Option<(&'static str, &'static str)>,
	param: Option<usize>,
	/// not the first class / first field / first method / first parameter of the shape
	later_entry: bool,
}

/// every stored descriptor, parameter index and first name of every entry of the shape, on either side
fn mut_cases(shape: &'static [ShapeClass]) -> Vec<MutCase> {
	let mut v = Vec::new();
	for side in [Side::B, Side::A] {
		for (ci, c) in shape.iter().enumerate() {
			let base = MutCase { m: Mutation::ClassFirstName, side, class: c.key, field: None, method: None, param: None, later_entry: ci > 0 };
			v.push(base.clone());
			for (fi, f) in c.fields.iter().enumerate() {
				for m in [Mutation::FieldDesc, Mutation::FieldFirstName] {
					v.push(MutCase { m, field: Some(*f), later_entry: ci > 0 || fi > 0, ..base.clone() });
				}
			}
			for (mi, me) in c.methods.iter().enumerate() {
				for m in [Mutation::MethodDesc, Mutation::MethodFirstName] {
					v.push(MutCase { m, method: Some((me.name, me.desc)), later_entry: ci > 0 || mi > 0, ..base.clone() });
				}
				for (pi, p) in me.params.iter().enumerate() {
					v.push(MutCase { m: Mutation::ParamIndex, method: Some((me.name, me.desc)), param: Some(*p), later_entry: ci > 0 || mi > 0 || pi > 0, ..base.clone() });
				}
			}
		}
	}
	v
}

impl Mutation {
	/// the error class of the statement this conflict belongs to (None: the statement is silent)
	fn stated_class(self) -> Option<&'static str> {
		match self {
			Mutation::FieldDesc => Some("descriptor-conflict:field"),
			Mutation::MethodDesc => Some("descriptor-conflict:method"),
			Mutation::ParamIndex => Some("parameter-index-conflict"),
			_ => None,
		}
	}
}

#[derive(Clone, Copy, PartialEq, Eq, Debug)]
enum Mode {
	/// well-formed pair, shared first namespace
	Plain,
	/// additionally every combination of top-level (mappings) comments
	TopDocs,
	/// B's namespaces replaced so that the first namespaces differ: must be refused
	FirstNs,
	/// B's second namespace has the same name as A's second one (statement silent: Ok or Err)
	SecondNsEqual,
	/// one stored descriptor / parameter index / first name of one side is made to disagree with
	/// the other side's entry under the same key (the only way such a conflict can exist, since
	/// keys contain the descriptor / index)
	Mutate,
	/// long comments: at one level (mappings, class, field, method, parameter) a comment of `k` ASCII characters
	/// followed by a character of 1, 2, 3 or 4 UTF-8 bytes, k = 0..=LONG_DOC_MAX, on A only / B only / equal on
	/// both / differing on both (B's has one more character): whatever is done with a comment (compared, copied,
	/// quoted in an error message) must not depend on where in it a multi-byte character lies
	LongDocs,
}

const LONG_DOC_MAX: usize = 140;
const LONG_DOC_TAILS: &[&str] = &["z", "\u{e9}", "\u{20ac}", "\u{1f600}"];
const LONG_DOC_LEVELS: usize = 5;
const LONG_DOC_RELATIONS: usize = 4;

/// (level, k, tail, relation) of case `x` of `Mode::LongDocs`
fn long_doc_case(x: u64) -> (usize, usize, usize, usize) {
	let v = vcore::enumerate::product_nth(&[LONG_DOC_LEVELS, LONG_DOC_MAX + 1, LONG_DOC_TAILS.len(), LONG_DOC_RELATIONS], x);
	(v[0], v[1], v[2], v[3])
}

fn set_doc_at(s: &mut MSet, level: usize, doc: Option<String>) {
	if level == 0 {
		s.doc = doc;
		return;
	}
	let Some(c) = s.classes.values_mut().next() else { return };
	match level {
		1 => c.doc = doc,
		2 => {
			if let Some(f) = c.fields.values_mut().next() {
				f.doc = doc;
			}
		},
		_ => {
			if let Some(m) = c.methods.values_mut().next() {
				if level == 3 {
					m.doc = doc;
				} else if let Some(p) = m.params.values_mut().next() {
					p.doc = doc;
				}
			}
		},
	}
}

/// namespaces of B whose first one differs from A's ("s", "a"): unrelated; A's first is B's second; B's
/// first is A's second; only the first differs (second namespaces equal); A's header swapped; the first
/// namespace differs only in case; only by a repeated letter (one is a prefix of the other)
const FIRST_NS_VARIANTS: &[(&str, &str)] = &[("t", "b"), ("b", "s"), ("a", "b"), ("t", "a"), ("a", "s"), ("S", "b"), ("ss", "b")];
const FIRST_NS_COUNTERS: &[&str] = &[
	"err:first-namespace[t,b]", "err:first-namespace[b,s]", "err:first-namespace[a,b]", "err:first-namespace[t,a]",
	"err:first-namespace[a,s]", "err:first-namespace[S,b]", "err:first-namespace[ss,b]",
];

struct Sweep {
	label: String,
	shape: &'static [ShapeClass],
	a: Vec<MSet>,
	b: Vec<MSet>,
	mode: Mode,
	orders: Vec<(Order, Order)>,
	/// `Mode::Mutate`: the overwritten values (index = x)
	muts: Vec<MutCase>,
	/// `Mode::TopDocs`: the alphabet of the mappings comment of either side
	top_docs: &'static [Option<&'static str>],
	bounds: Value,
}

impl Sweep {
	fn nx(&self) -> u64 {
		match self.mode {
			Mode::Plain | Mode::SecondNsEqual => 1,
			Mode::TopDocs => (self.top_docs.len() * self.top_docs.len()) as u64,
			Mode::FirstNs => FIRST_NS_VARIANTS.len() as u64,
			Mode::Mutate => self.muts.len() as u64,
			Mode::LongDocs => (LONG_DOC_LEVELS * (LONG_DOC_MAX + 1) * LONG_DOC_TAILS.len() * LONG_DOC_RELATIONS) as u64,
		}
	}
	fn cases(&self) -> u64 {
		self.a.len() as u64 * self.b.len() as u64 * self.nx()
	}
	fn decode(&self, idx: u64) -> (usize, usize, u64) {
		let nx = self.nx();
		let nb = self.b.len() as u64;
		((idx / (nx * nb)) as usize, ((idx / nx) % nb) as usize, idx % nx)
	}
}

fn sweep(label: &str, shape_name: &str, oa: SideOpts, ob: SideOpts, mode: Mode, orders: &[(Order, Order)]) -> Sweep {
	let shape = shape_by_name(shape_name);
	let sa = Space::new(&universe(shape, Side::A, &oa));
	let sb = Space::new(&universe(shape, Side::B, &ob));
	Sweep {
		label: label.to_owned(),
		shape,
		bounds: json!({
			"shape": shape_name, "mode": format!("{mode:?}"),
			"A": oa.bounds(sa.len()),
			"B": ob.bounds(sb.len()),
			"insertion_orders": orders.iter().map(|o| format!("{o:?}")).collect::<Vec<_>>(),
		}),
		a: sa.all(),
		b: sb.all(),
		mode,
		orders: orders.to_vec(),
		muts: if mode == Mode::Mutate { mut_cases(shape) } else { Vec::new() },
		top_docs: DOCS4,
	}
}

fn sweeps(tier: vcore::Tier) -> Vec<Sweep> {
	use Order::*;
	use Tgt::*;
	const BOTH: &[Tgt] = &[Absent, Own];
	const NAMED: &[Tgt] = &[Own];
	const NAMES4: &[Tgt] = &[Absent, Own, First, Common];
	const SRC2: &[Option<&str>] = &[None, Some("p")];
	const SRC3: &[Option<&str>] = &[None, Some("p"), Some("r")];
	const SRC1: &[Option<&str>] = &[Some("p")];
	let one: &[(Order, Order)] = &[(Sorted, Sorted)];
	let two: &[(Order, Order)] = &[(Sorted, Sorted), (Sorted, Reversed)];
	let four: &[(Order, Order)] = &[(Sorted, Sorted), (Reversed, Reversed), (Sorted, Reversed), (Reversed, Sorted)];
	let six: &[(Order, Order)] = &[(Sorted, Sorted), (Reversed, Reversed), (Sorted, Reversed), (Reversed, Sorted), (Rotated(1), Sorted), (Sorted, Rotated(1))];
	let simple = || SideOpts::uniform(NAMED, DOCS0, SRC1);
	// classes and methods named and without comment; fields and parameters with every option
	let pairs = || {
		let plain = Level { targets: NAMED, docs: DOCS0 };
		let full = Level { targets: BOTH, docs: DOCS2 };
		SideOpts { class: plain, field: full, method: plain, param: full, param_src: SRC1 }
	};
	let mut v = Vec::new();
	match tier {
		vcore::Tier::Quick => {
			v.push(sweep("q-deep", "deep", SideOpts::uniform(BOTH, DOCS2, SRC2), SideOpts::uniform(BOTH, DOCS3, SRC3), Mode::Plain, one));
			v.push(sweep("q-deep-names", "deep", SideOpts::uniform(NAMES4, DOCS0, SRC2), SideOpts::uniform(NAMES4, DOCS0, SRC2), Mode::Plain, one));
			v.push(sweep("q-deep-near-comments", "deep", SideOpts::uniform(NAMED, DOCS4, SRC1), SideOpts::uniform(NAMED, DOCS4, SRC1), Mode::Plain, one));
			v.push(sweep("q-wide-orders", "wide", simple(), simple(), Mode::Plain, four));
			v.push(sweep("q-pairs-orders", "pairs", pairs(), pairs(), Mode::Plain, two));
		},
		vcore::Tier::Thorough => {
			v.push(sweep("t-deep", "deep", SideOpts::uniform(BOTH, DOCS3, SRC3), SideOpts::uniform(BOTH, DOCS3, SRC3), Mode::Plain, one));
			v.push(sweep("t-deep-names", "deep", SideOpts::uniform(NAMES4, DOCS0, SRC3), SideOpts::uniform(NAMES4, DOCS0, SRC3), Mode::Plain, one));
			v.push(sweep("t-deep-near-comments", "deep", SideOpts::uniform(NAMED, DOCS5, SRC1), SideOpts::uniform(NAMED, DOCS5, SRC1), Mode::Plain, one));
			v.push(sweep("t-wide-orders", "wide", simple(), simple(), Mode::Plain, four));
			v.push(sweep("t-wide1-names-orders", "wide1", SideOpts::uniform(BOTH, DOCS0, SRC1), SideOpts::uniform(BOTH, DOCS0, SRC1), Mode::Plain, four));
			v.push(sweep("t-wide1-comments-orders", "wide1", SideOpts::uniform(NAMED, DOCS2, SRC1), SideOpts::uniform(NAMED, DOCS2, SRC1), Mode::Plain, &four[..2]));
			v.push(sweep("t-pairs-orders", "pairs", pairs(), pairs(), Mode::Plain, four));
			v.push(sweep("t-wide1-pairs-orders", "wide1", pairs(), pairs(), Mode::Plain, four));
			// every kind of name × comments: the comments on one side at a time (both at once: t-deep, names absent / own)
			v.push(sweep("t-deep-names-comments-of-B", "deep", SideOpts::uniform(NAMES4, DOCS0, SRC2), SideOpts::uniform(NAMES4, DOCS2, SRC2), Mode::Plain, one));
			v.push(sweep("t-deep-names-comments-of-A", "deep", SideOpts::uniform(NAMES4, DOCS2, SRC2), SideOpts::uniform(NAMES4, DOCS0, SRC2), Mode::Plain, one));
		},
	}
	// the same in both tiers (small)
	v.push(sweep("wide3-rotated-orders", "wide3", simple(), simple(), Mode::Plain, six));
	v.push(sweep("wide-top-comments", "wide", simple(), simple(), Mode::TopDocs, one));
	v.push(sweep("deep-long-comments", "deep", simple(), simple(), Mode::LongDocs, one));
	v.push(sweep("wide-first-namespace-differs", "wide", simple(), simple(), Mode::FirstNs, one));
	v.push(sweep("wide-second-namespaces-equal", "wide", simple(), simple(), Mode::SecondNsEqual, one));
	v.push(sweep("wide-stored-value-conflicts", "wide", simple(), simple(), Mode::Mutate, one));
	v
}

// ---------------------------------------------------------------------------------------------
// reference: what the statement says the merge of two well-formed sets is

struct Expect {
	/// the result, if the merge succeeds
	set: MSet,
	/// conflicts for which the merge must be refused (error classes)
	must_err: BTreeSet<&'static str>,
	/// situations the statement is silent about: refusing is acceptable
	may_err: BTreeSet<&'static str>,
	/// the comment conflicts (subset of `must_err`) whose two comments differ only by blanks
	near: BTreeSet<&'static str>,
}

/// conflicts collected while joining
#[derive(Default)]
struct Conflicts {
	must: BTreeSet<&'static str>,
	near: BTreeSet<&'static str>,
}

fn join_doc(a: Option<&Option<String>>, b: Option<&Option<String>>, class: &'static str, cf: &mut Conflicts) -> Option<String> {
	match (a.and_then(|d| d.as_ref()), b.and_then(|d| d.as_ref())) {
		(None, None) => None,
		(Some(x), None) | (None, Some(x)) => Some(x.clone()),
		(Some(x), Some(y)) if x == y => Some(x.clone()),
		(Some(x), Some(y)) => {
			cf.must.insert(class);
			if x.trim() == y.trim() {
				cf.near.insert(class);
			}
			Some(x.clone())
		},
	}
}

fn target(r: Option<&Row>) -> Option<String> {
	r.and_then(|r| r[1].clone())
}

fn union_keys<'a, K: Ord, V>(a: Option<&'a BTreeMap<K, V>>, b: Option<&'a BTreeMap<K, V>>) -> BTreeSet<&'a K> {
	a.into_iter().flat_map(|m| m.keys()).chain(b.into_iter().flat_map(|m| m.keys())).collect()
}

fn reference_merge(a: &MSet, b: &MSet) -> Expect {
	let mut cf = Conflicts::default();
	let mut may = BTreeSet::new();
	if a.ns[0] != b.ns[0] {
		cf.must.insert("first-namespace");
	}
	let mut set = MSet { ns: vec![a.ns[0].clone(), a.ns[1].clone(), b.ns[1].clone()], doc: join_doc(Some(&a.doc), Some(&b.doc), "comment-conflict:mappings", &mut cf), classes: BTreeMap::new() };
	for k in union_keys(Some(&a.classes), Some(&b.classes)) {
		let (ca, cb) = (a.classes.get(k), b.classes.get(k));
		let mut c = MClass {
			names: vec![Some(k.clone()), target(ca.map(|c| &c.names)), target(cb.map(|c| &c.names))],
			doc: join_doc(ca.map(|c| &c.doc), cb.map(|c| &c.doc), "comment-conflict:class", &mut cf),
			..Default::default()
		};
		for fk in union_keys(ca.map(|c| &c.fields), cb.map(|c| &c.fields)) {
			let (fa, fb) = (ca.and_then(|c| c.fields.get(fk)), cb.and_then(|c| c.fields.get(fk)));
			c.fields.insert(fk.clone(), MField {
				names: vec![Some(fk.0.clone()), target(fa.map(|f| &f.names)), target(fb.map(|f| &f.names))],
				doc: join_doc(fa.map(|f| &f.doc), fb.map(|f| &f.doc), "comment-conflict:field", &mut cf),
			});
		}
		for mk in union_keys(ca.map(|c| &c.methods), cb.map(|c| &c.methods)) {
			let (ma, mb) = (ca.and_then(|c| c.methods.get(mk)), cb.and_then(|c| c.methods.get(mk)));
			let mut m = MMethod {
				names: vec![Some(mk.0.clone()), target(ma.map(|m| &m.names)), target(mb.map(|m| &m.names))],
				doc: join_doc(ma.map(|m| &m.doc), mb.map(|m| &m.doc), "comment-conflict:method", &mut cf),
				params: BTreeMap::new(),
			};
			for pk in union_keys(ma.map(|m| &m.params), mb.map(|m| &m.params)) {
				let (pa, pb) = (ma.and_then(|m| m.params.get(pk)), mb.and_then(|m| m.params.get(pk)));
				// The first-namespace name of a parameter is not part of its key. The entry has one
				// cell for it: two different names cannot both be kept (no result can project back
				// onto both sides), a name on one side only must at least not be dropped.
				let first = match (pa, pb) {
					(Some(x), None) | (None, Some(x)) => x.names[0].clone(),
					(Some(x), Some(y)) => match (&x.names[0], &y.names[0]) {
						(p, q) if p == q => p.clone(),
						(Some(p), Some(_)) => {
							cf.must.insert("parameter-first-name-conflict");
							Some(p.clone())
						},
						(Some(p), None) | (None, Some(p)) => {
							may.insert("parameter-first-name-on-one-side");
							Some(p.clone())
						},
						(None, None) => None,
					},
					(None, None) => None,
				};
				m.params.insert(*pk, MParam {
					names: vec![first, target(pa.map(|p| &p.names)), target(pb.map(|p| &p.names))],
					doc: join_doc(pa.map(|p| &p.doc), pb.map(|p| &p.doc), "comment-conflict:parameter", &mut cf),
				});
			}
			c.methods.insert(mk.clone(), m);
		}
		set.classes.insert(k.clone(), c);
	}
	Expect { set, must_err: cf.must, may_err: may, near: cf.near }
}

// ---------------------------------------------------------------------------------------------
// comparing (all distinct differences of a case, one per key)

#[derive(Default)]
struct Diffs(BTreeMap<String, String>);

impl Diffs {
	fn add(&mut self, key: String, what: impl FnOnce() -> String) {
		self.0.entry(key).or_insert_with(what);
	}
}

fn share(in_a: bool, in_b: bool) -> &'static str {
	match (in_a, in_b) {
		(true, true) => "both",
		(true, false) => "A-only",
		(false, true) => "B-only",
		(false, false) => "neither",
	}
}

/// where an entry is: formatted only when a difference is reported
#[derive(Clone, Copy, Default)]
struct At<'a> {
	class: Option<&'a String>,
	member: Option<&'a (String, String)>,
	param: Option<usize>,
}

impl std::fmt::Display for At<'_> {
	fn fmt(&self, f: &mut std::fmt::Formatter<'_>) -> std::fmt::Result {
		if let Some(p) = self.param {
			write!(f, "{p} of ")?;
		}
		if let Some(m) = self.member {
			write!(f, "{m:?} of ")?;
		}
		match self.class {
			Some(c) => write!(f, "class {c:?}"),
			None => write!(f, "the mappings"),
		}
	}
}

fn cmp_keys<K: Ord + std::fmt::Debug, V>(level: &str, at: At, e: &BTreeMap<K, V>, r: &BTreeMap<K, V>, sh: impl Fn(&K) -> &'static str, out: &mut Diffs) {
	for k in e.keys() {
		if !r.contains_key(k) {
			out.add(format!("result:{level}:missing[{}]", sh(k)), || format!("{level} {k:?} (in {at}) is in the union of the keys but not in the result"));
		}
	}
	for k in r.keys() {
		if !e.contains_key(k) {
			out.add(format!("result:{level}:extra"), || format!("{level} {k:?} (in {at}) is in the result but in neither input"));
		}
	}
}

fn cmp_entry(level: &str, at: At, sh: &str, en: &Row, ed: &Option<String>, rn: &Row, rd: &Option<String>, out: &mut Diffs) {
	if en != rn {
		out.add(format!("result:{level}.names[{sh}]"), || format!("{level} {at}: expected names {en:?}, got {rn:?}"));
	}
	if ed != rd {
		out.add(format!("result:{level}.comment[{sh}]"), || format!("{level} {at}: expected comment {ed:?}, got {rd:?}"));
	}
}

/// expected (from the statement) against the actual result
fn compare(e: &MSet, r: &MSet, a: &MSet, b: &MSet, out: &mut Diffs) {
	if e.ns != r.ns {
		out.add("result:namespaces".into(), || format!("expected namespaces {:?}, got {:?}", e.ns, r.ns));
	}
	if e.doc != r.doc {
		out.add("result:mappings.comment".into(), || format!("expected mappings comment {:?}, got {:?}", e.doc, r.doc));
	}
	cmp_keys("class", At::default(), &e.classes, &r.classes, |k| share(a.classes.contains_key(k), b.classes.contains_key(k)), out);
	for (k, ec) in &e.classes {
		let Some(rc) = r.classes.get(k) else { continue };
		let (ca, cb) = (a.classes.get(k), b.classes.get(k));
		let at = At { class: Some(k), ..At::default() };
		cmp_entry("class", at, share(ca.is_some(), cb.is_some()), &ec.names, &ec.doc, &rc.names, &rc.doc, out);
		cmp_keys("field", at, &ec.fields, &rc.fields, |fk| share(ca.is_some_and(|c| c.fields.contains_key(fk)), cb.is_some_and(|c| c.fields.contains_key(fk))), out);
		cmp_keys("method", at, &ec.methods, &rc.methods, |mk| share(ca.is_some_and(|c| c.methods.contains_key(mk)), cb.is_some_and(|c| c.methods.contains_key(mk))), out);
		for (fk, ef) in &ec.fields {
			let Some(rf) = rc.fields.get(fk) else { continue };
			let sh = share(ca.is_some_and(|c| c.fields.contains_key(fk)), cb.is_some_and(|c| c.fields.contains_key(fk)));
			cmp_entry("field", At { member: Some(fk), ..at }, sh, &ef.names, &ef.doc, &rf.names, &rf.doc, out);
		}
		for (mk, em) in &ec.methods {
			let Some(rm) = rc.methods.get(mk) else { continue };
			let (ma, mb) = (ca.and_then(|c| c.methods.get(mk)), cb.and_then(|c| c.methods.get(mk)));
			let at = At { member: Some(mk), ..at };
			cmp_entry("method", at, share(ma.is_some(), mb.is_some()), &em.names, &em.doc, &rm.names, &rm.doc, out);
			cmp_keys("parameter", at, &em.params, &rm.params, |pk| share(ma.is_some_and(|m| m.params.contains_key(pk)), mb.is_some_and(|m| m.params.contains_key(pk))), out);
			for (pk, ep) in &em.params {
				let Some(rp) = rm.params.get(pk) else { continue };
				let sh = share(ma.is_some_and(|m| m.params.contains_key(pk)), mb.is_some_and(|m| m.params.contains_key(pk)));
				cmp_entry("parameter", At { param: Some(*pk), ..at }, sh, &ep.names, &ep.doc, &rp.names, &rp.doc, out);
			}
		}
	}
}

/// keeps the first namespace and namespace `col`
fn project(m: &MSet, col: usize) -> MSet {
	let row = |r: &Row| -> Row { vec![r[0].clone(), r[col].clone()] };
	MSet {
		ns: vec![m.ns[0].clone(), m.ns[col].clone()],
		doc: m.doc.clone(),
		classes: m.classes.iter().map(|(k, c)| (k.clone(), MClass {
			names: row(&c.names),
			doc: c.doc.clone(),
			fields: c.fields.iter().map(|(fk, f)| (fk.clone(), MField { names: row(&f.names), doc: f.doc.clone() })).collect(),
			methods: c.methods.iter().map(|(mk, me)| (mk.clone(), MMethod {
				names: row(&me.names),
				doc: me.doc.clone(),
				params: me.params.iter().map(|(pk, p)| (*pk, MParam { names: row(&p.names), doc: p.doc.clone() })).collect(),
			})).collect(),
		})).collect(),
	}
}

struct Law<'a> {
	side: &'static str,
	out: &'a mut Diffs,
}

impl Law<'_> {
	/// an entry of the side must reappear unchanged (its comment, when the side has none, may be the other side's)
	fn same(&mut self, level: &str, at: At, names_ok: bool, own: (&Row, &Option<String>), other_doc: Option<&Option<String>>, got: (&Row, &Option<String>)) {
		let side = self.side;
		if !names_ok {
			self.out.add(format!("projection:{side}:{level}.names"), || format!("{level} {at} of {side}: names {:?} came back as {:?}", own.0, got.0));
		}
		let doc_ok = match own.1 {
			Some(_) => got.1 == own.1,
			None => got.1.is_none() || other_doc.is_some_and(|d| d == got.1),
		};
		if !doc_ok {
			self.out.add(format!("projection:{side}:{level}.comment"), || format!("{level} {at} of {side}: comment {:?} came back as {:?}", own.1, got.1));
		}
	}
	fn lost(&mut self, level: &str, at: At) {
		let side = self.side;
		self.out.add(format!("projection:{side}:{level}:lost"), || format!("{level} {at} of {side} is not in the projection of the result"));
	}
	/// an entry of the projection that the side does not have: its key must be in the other side, and it has no name of this side
	fn extra(&mut self, level: &str, at: At, in_other: bool, names: &Row) {
		let side = self.side;
		if !in_other {
			self.out.add(format!("projection:{side}:{level}:invented"), || format!("{level} {at} of the projection is in neither input"));
		}
		if names[1].is_some() {
			self.out.add(format!("projection:{side}:{level}:extra-entry-has-name"), || format!("{level} {at} does not exist in {side} but carries the name {:?} in its column", names[1]));
		}
	}
}

/// The projection law: every entry of `own` reappears in `proj` (the result restricted to the first
/// namespace and `own`'s column) with identical names, descriptor (part of the key) and comment, and
/// every extra entry of `proj` has its key in `other` and no name in `own`'s column.
fn projection_law(side: &'static str, own: &MSet, other: &MSet, proj: &MSet, out: &mut Diffs) {
	let mut law = Law { side, out };
	if proj.ns != own.ns {
		law.out.add(format!("projection:{side}:namespaces"), || format!("namespaces {:?} came back as {:?}", own.ns, proj.ns));
	}
	law.same("mappings", At::default(), true, (&vec![], &own.doc), Some(&other.doc), (&vec![], &proj.doc));
	for (k, c) in &own.classes {
		let at = At { class: Some(k), ..At::default() };
		let Some(pc) = proj.classes.get(k) else {
			law.lost("class", at);
			continue;
		};
		let oc = other.classes.get(k);
		law.same("class", at, pc.names == c.names, (&c.names, &c.doc), oc.map(|c| &c.doc), (&pc.names, &pc.doc));
		for (fk, f) in &c.fields {
			let at = At { member: Some(fk), ..at };
			match pc.fields.get(fk) {
				None => law.lost("field", at),
				Some(pf) => law.same("field", at, pf.names == f.names, (&f.names, &f.doc), oc.and_then(|c| c.fields.get(fk)).map(|f| &f.doc), (&pf.names, &pf.doc)),
			}
		}
		for (mk, m) in &c.methods {
			let at = At { member: Some(mk), ..at };
			let Some(pm) = pc.methods.get(mk) else {
				law.lost("method", at);
				continue;
			};
			let om = oc.and_then(|c| c.methods.get(mk));
			law.same("method", at, pm.names == m.names, (&m.names, &m.doc), om.map(|m| &m.doc), (&pm.names, &pm.doc));
			for (pk, p) in &m.params {
				let at = At { param: Some(*pk), ..at };
				let Some(pp) = pm.params.get(pk) else {
					law.lost("parameter", at);
					continue;
				};
				let op = om.and_then(|m| m.params.get(pk));
				// a first name that only the other side has may (must, see `compare`) be kept
				let first_ok = pp.names[0] == p.names[0] || (p.names[0].is_none() && op.is_some_and(|o| o.names[0] == pp.names[0]));
				law.same("parameter", at, first_ok && pp.names[1] == p.names[1], (&p.names, &p.doc), op.map(|p| &p.doc), (&pp.names, &pp.doc));
			}
		}
	}
	// extras
	for (k, pc) in &proj.classes {
		let (c, oc) = (own.classes.get(k), other.classes.get(k));
		let at = At { class: Some(k), ..At::default() };
		if c.is_none() {
			law.extra("class", at, oc.is_some(), &pc.names);
		}
		for (fk, pf) in &pc.fields {
			if !c.is_some_and(|c| c.fields.contains_key(fk)) {
				law.extra("field", At { member: Some(fk), ..at }, oc.is_some_and(|c| c.fields.contains_key(fk)), &pf.names);
			}
		}
		for (mk, pm) in &pc.methods {
			let (m, om) = (c.and_then(|c| c.methods.get(mk)), oc.and_then(|c| c.methods.get(mk)));
			if m.is_none() {
				law.extra("method", At { member: Some(mk), ..at }, om.is_some(), &pm.names);
			}
			for (pk, pp) in &pm.params {
				if !m.is_some_and(|m| m.params.contains_key(pk)) {
					law.extra("parameter", At { member: Some(mk), param: Some(*pk), ..at }, om.is_some_and(|m| m.params.contains_key(pk)), &pp.names);
				}
			}
		}
	}
}

// ---------------------------------------------------------------------------------------------
// running the real code

fn member_key(k: (&str, &str)) -> (String, String) {
	(k.0.to_owned(), k.1.to_owned())
}

/// does the set have the entry whose stored value the case overwrites?
fn has_target(s: &MSet, t: &MutCase) -> bool {
	let Some(c) = s.classes.get(t.class) else { return false };
	let me = t.method.and_then(|m| c.methods.get(&member_key(m)));
	match t.m {
		Mutation::ClassFirstName => true,
		Mutation::FieldDesc | Mutation::FieldFirstName => t.field.is_some_and(|f| c.fields.contains_key(&member_key(f))),
		Mutation::MethodDesc | Mutation::MethodFirstName => me.is_some(),
		Mutation::ParamIndex => me.is_some_and(|m| t.param.is_some_and(|p| m.params.contains_key(&p))),
	}
}

fn gen_bug<T>(r: anyhow::Result<T>) -> T {
	r.unwrap_or_else(|e| vcore::machinery_fail(&format!("generator produced an invalid value: {e:#}")))
}

/// Overwrites one stored value of the real object (public fields only), leaving the key alone.
fn mutate<Ns>(q: &mut Mappings<2, Ns>, t: &MutCase) {
	let missing = || -> ! { vcore::machinery_fail("mutation target missing") };
	let c = q.classes.get_mut(&gen_bug(mapmodel::cls(t.class))).unwrap_or_else(|| missing());
	let fkey = || { let f = t.field.unwrap_or_else(|| missing()); FieldNameAndDesc { name: gen_bug(mapmodel::fname(f.0)), desc: gen_bug(mapmodel::fdesc(f.1)) } };
	let mkey = || { let m = t.method.unwrap_or_else(|| missing()); MethodNameAndDesc { name: gen_bug(mapmodel::mname(m.0)), desc: gen_bug(mapmodel::mdesc(m.1)) } };
	match t.m {
		Mutation::ClassFirstName => {
			let [_, n1] = <&[Option<ObjClassName>; 2]>::from(&c.info.names).clone();
			c.info.names = gen_bug(Names::try_from([Some(gen_bug(mapmodel::cls("Other"))), n1]));
		},
		Mutation::FieldDesc => c.fields.get_mut(&fkey()).unwrap_or_else(|| missing()).info.desc = gen_bug(mapmodel::fdesc("Z")),
		Mutation::FieldFirstName => {
			let f = c.fields.get_mut(&fkey()).unwrap_or_else(|| missing());
			let [_, n1] = <&[Option<FieldName>; 2]>::from(&f.info.names).clone();
			f.info.names = gen_bug(Names::try_from([Some(gen_bug(mapmodel::fname("other"))), n1]));
		},
		Mutation::MethodDesc => c.methods.get_mut(&mkey()).unwrap_or_else(|| missing()).info.desc = gen_bug(mapmodel::mdesc("(Z)V")),
		Mutation::MethodFirstName => {
			let me = c.methods.get_mut(&mkey()).unwrap_or_else(|| missing());
			let [_, n1] = <&[Option<MethodName>; 2]>::from(&me.info.names).clone();
			me.info.names = gen_bug(Names::try_from([Some(gen_bug(mapmodel::mname("other"))), n1]));
		},
		Mutation::ParamIndex => {
			let me = c.methods.get_mut(&mkey()).unwrap_or_else(|| missing());
			let p = t.param.unwrap_or_else(|| missing());
			me.parameters.get_mut(&ParameterKey { index: p }).unwrap_or_else(|| missing()).info.index = 7;
		},
	}
}

/// `Ok(Ok(set))` merged, `Ok(Err(msg))` refused, `Err` = the result breaks quill's own key invariant
type Real = Result<Result<MSet, String>, mapmodel::KeyMismatch>;

/// Builds fresh real objects and calls the real merge.
fn real_merge(a: &MSet, b: &MSet, oa: Order, ob: Order, mutation: Option<&MutCase>, project_result: bool) -> Result<Real, vcore::Panic> {
	let mut qa: Mappings<2, (NsS, NsA)> = gen_bug(mapmodel::to_quill_ordered(a, oa));
	let mut qb: Mappings<2, (NsS, NsB)> = gen_bug(mapmodel::to_quill_ordered(b, ob));
	if let Some(t) = mutation {
		match t.side {
			Side::A => mutate(&mut qa, t),
			Side::B => mutate(&mut qb, t),
		}
	}
	vcore::guard(|| match Mappings::<2, (NsS, NsA, NsB)>::merge(&qa, &qb) {
		Ok(q) if project_result => mapmodel::from_quill::<3, _>(&q).map(Ok),
		Ok(_) => Ok(Ok(MSet::default())),
		Err(e) => Ok(Err(format!("{e:#}"))),
	})
}

// ---------------------------------------------------------------------------------------------
// one case

const LEVELS: [&str; 4] = ["class", "field", "method", "parameter"];
const COMBOS: [&str; 4] = ["neither", "A-only", "B-only", "both"];

#[derive(Default)]
struct Tally {
	/// [level][combo] over the universe entries of pairs whose plain merge succeeded
	sharing: [[u64; 4]; 4],
	counters: BTreeMap<&'static str, u64>,
}

impl Tally {
	fn count(&mut self, name: &'static str) {
		*self.counters.entry(name).or_insert(0) += 1;
	}
	fn flush(self, st: &mut Stats) {
		for (l, row) in self.sharing.iter().enumerate() {
			for (c, n) in row.iter().enumerate() {
				if *n > 0 {
					st.outcome_n(&format!("sharing:{}:{}", LEVELS[l], COMBOS[c]), *n);
				}
			}
		}
		for (k, n) in self.counters {
			st.outcome_n(k, n);
		}
	}
}

fn combo(in_a: bool, in_b: bool) -> usize {
	(in_a as usize) | ((in_b as usize) << 1)
}

fn tally_sharing(shape: &[ShapeClass], a: &MSet, b: &MSet, t: &mut Tally) {
	for sc in shape {
		let (ca, cb) = (a.classes.get(sc.key), b.classes.get(sc.key));
		t.sharing[0][combo(ca.is_some(), cb.is_some())] += 1;
		for (n, d) in sc.fields {
			let k = (n.to_string(), d.to_string());
			t.sharing[1][combo(ca.is_some_and(|c| c.fields.contains_key(&k)), cb.is_some_and(|c| c.fields.contains_key(&k)))] += 1;
		}
		for sm in sc.methods {
			let k = (sm.name.to_owned(), sm.desc.to_owned());
			let (ma, mb) = (ca.and_then(|c| c.methods.get(&k)), cb.and_then(|c| c.methods.get(&k)));
			t.sharing[2][combo(ma.is_some(), mb.is_some())] += 1;
			for p in sm.params {
				t.sharing[3][combo(ma.is_some_and(|m| m.params.contains_key(p)), mb.is_some_and(|m| m.params.contains_key(p)))] += 1;
			}
		}
	}
}

/// which comment situations and name placements a successful merge went through
fn tally_content(a: &MSet, b: &MSet, t: &mut Tally) {
	let mut doc = |x: Option<&Option<String>>, y: Option<&Option<String>>| match (x.and_then(|d| d.as_ref()), y.and_then(|d| d.as_ref())) {
		(Some(_), None) => t.count("merged-comment:from-A"),
		(None, Some(_)) => t.count("merged-comment:from-B"),
		(Some(_), Some(_)) => t.count("merged-comment:equal-on-both-sides"),
		(None, None) => {},
	};
	doc(Some(&a.doc), Some(&b.doc));
	for k in union_keys(Some(&a.classes), Some(&b.classes)) {
		let (ca, cb) = (a.classes.get(k), b.classes.get(k));
		doc(ca.map(|c| &c.doc), cb.map(|c| &c.doc));
		for fk in union_keys(ca.map(|c| &c.fields), cb.map(|c| &c.fields)) {
			doc(ca.and_then(|c| c.fields.get(fk)).map(|f| &f.doc), cb.and_then(|c| c.fields.get(fk)).map(|f| &f.doc));
		}
		for mk in union_keys(ca.map(|c| &c.methods), cb.map(|c| &c.methods)) {
			let (ma, mb) = (ca.and_then(|c| c.methods.get(mk)), cb.and_then(|c| c.methods.get(mk)));
			doc(ma.map(|m| &m.doc), mb.map(|m| &m.doc));
			for pk in union_keys(ma.map(|m| &m.params), mb.map(|m| &m.params)) {
				doc(ma.and_then(|m| m.params.get(pk)).map(|p| &p.doc), mb.and_then(|m| m.params.get(pk)).map(|p| &p.doc));
			}
		}
	}
}

/// what the names of the merged entries look like (the placement must not depend on it)
fn tally_names(r: &MSet, t: &mut Tally) {
	let mut row = |n: &Row| {
		if n.len() != 3 {
			return;
		}
		if n[1].is_some() && n[1] == n[2] {
			t.count("merged-names:columns-a-and-b-equal");
		}
		if n[0].is_some() && n[1] == n[0] {
			t.count("merged-names:column-a-equals-first-name");
		}
		if n[0].is_some() && n[2] == n[0] {
			t.count("merged-names:column-b-equals-first-name");
		}
		if n[1].is_none() && n[2].is_none() {
			t.count("merged-names:neither-column");
		}
	};
	for c in r.classes.values() {
		row(&c.names);
		c.fields.values().for_each(|f| row(&f.names));
		for m in c.methods.values() {
			row(&m.names);
			m.params.values().for_each(|p| row(&p.names));
		}
	}
}

/// a map with at least two entries of which one has a comment or lacks its target name
fn rich_multi(s: &MSet) -> bool {
	s.classes.values().any(|c| {
		(c.fields.len() > 1 && c.fields.values().any(|f| f.doc.is_some() || f.names[1].is_none()))
			|| c.methods.values().any(|m| m.params.len() > 1 && m.params.values().any(|p| p.doc.is_some() || p.names[1].is_none()))
	})
}

fn order_matters(s: &MSet) -> bool {
	s.classes.len() > 1 || s.classes.values().any(|c| c.fields.len() > 1 || c.methods.len() > 1 || c.methods.values().any(|m| m.params.len() > 1))
}

fn render(s: &MSet) -> String {
	format!("mappings comment: {:?}\n{}", s.doc, mapmodel::tiny::print(s))
}

fn case_text(sw: &Sweep, ia: usize, ib: usize, x: u64, a: &MSet, b: &MSet, extra: &str) -> String {
	format!("case sweep={} ia={ia} ib={ib} x={x}\nmode={:?}\n--- A ---\n{}--- B ---\n{}{extra}", sw.label, sw.mode, render(a), render(b))
}

fn show_real(r: &Result<Real, vcore::Panic>) -> String {
	match r {
		Err(p) => format!("panic at {}: {}", p.site, p.msg),
		Ok(Err(k)) => format!("result breaks the key invariant: {}", k.0),
		Ok(Ok(Err(e))) => format!("Err: {e}"),
		Ok(Ok(Ok(s))) => format!("Ok:\n{}", render(s)),
	}
}

fn digest_of(r: &Result<Real, vcore::Panic>) -> u64 {
	match r {
		Err(p) => vcore::hash64(&(0, &p.site, &p.msg)),
		Ok(Err(k)) => vcore::hash64(&(1, &k.0)),
		Ok(Ok(Err(e))) => vcore::hash64(&(2, e)),
		Ok(Ok(Ok(s))) => vcore::hash64(&(3, s)),
	}
}

/// the two inputs of a case (well-formed model sets; `Mode::Mutate` changes the real objects later)
fn inputs(sw: &Sweep, ia: usize, ib: usize, x: u64) -> (MSet, MSet) {
	let mut a = sw.a[ia].clone();
	let mut b = sw.b[ib].clone();
	match sw.mode {
		Mode::Plain | Mode::Mutate => {},
		Mode::TopDocs => {
			a.doc = sw.top_docs[x as usize / sw.top_docs.len()].map(|s| s.to_owned());
			b.doc = sw.top_docs[x as usize % sw.top_docs.len()].map(|s| s.to_owned());
		},
		Mode::FirstNs => {
			let (n0, n1) = FIRST_NS_VARIANTS[x as usize];
			b.ns = vec![n0.to_owned(), n1.to_owned()];
		},
		Mode::SecondNsEqual => b.ns = vec!["s".to_owned(), "a".to_owned()],
		Mode::LongDocs => {
			let (level, k, tail, relation) = long_doc_case(x);
			let doc = format!("{}{}", "x".repeat(k), LONG_DOC_TAILS[tail]);
			let (da, db) = match relation {
				0 => (Some(doc), None),
				1 => (None, Some(doc)),
				2 => (Some(doc.clone()), Some(doc)),
				_ => (Some(doc.clone()), Some(format!("{doc}{}", LONG_DOC_TAILS[tail]))),
			};
			set_doc_at(&mut a, level, da);
			set_doc_at(&mut b, level, db);
		},
	}
	(a, b)
}

/// Runs one case through the real code and the oracle; returns a digest of what was observed.
fn run_case(ctx: &Ctx, sw: &Sweep, ia: usize, ib: usize, x: u64, st: &mut Stats, t: &mut Tally) -> u64 {
	let (a, b) = inputs(sw, ia, ib, x);
	let (a, b) = (&a, &b);
	let text = |extra: &str| case_text(sw, ia, ib, x, a, b, extra);

	if sw.mode == Mode::Mutate {
		let tg = &sw.muts[x as usize];
		let (m, side) = (tg.m, tg.side);
		let (mine, other) = match side {
			Side::A => (a, b),
			Side::B => (b, a),
		};
		if !has_target(mine, tg) {
			t.count("stored-value-conflict:side-lacks-the-entry(skipped)");
			return 0;
		}
		st.eval();
		let real = real_merge(a, b, Order::Sorted, Order::Sorted, Some(tg), false);
		let what = format!("\nstored value overwritten: {m:?} of side {side:?} (class {:?}, field {:?}, method {:?}, parameter {:?})\nreal: {}", tg.class, tg.field, tg.method, tg.param, show_real(&real));
		let conflict = has_target(other, tg);
		match (&real, m.stated_class().filter(|_| conflict)) {
			(Err(p), _) => ctx.diff(&format!("panic@{}", p.file()), &format!("merge panicked at {}: {}", p.site, p.msg), || text(&what)),
			(Ok(Ok(Err(_))), Some(class)) => {
				t.count(match class {
					"descriptor-conflict:field" => "err:descriptor-conflict:field",
					"descriptor-conflict:method" => "err:descriptor-conflict:method",
					_ => "err:parameter-index-conflict",
				});
				if tg.later_entry {
					t.count("err:stored-value-conflict-in-a-later-entry");
				}
				st.sample(class, || json!({"kind": "stated-conflict", "class": class, "case": text(&what)}));
			},
			(Ok(_), Some(class)) => ctx.diff(&format!("accepted:{class}"), &format!("both sides have the entry under the same key but disagree ({class}); the merge was not refused"), || text(&what)),
			(Ok(Ok(Err(_))), None) => t.count("inconsistent-input(unjudged):refused"),
			(Ok(_), None) => t.count("inconsistent-input(unjudged):merged"),
		}
		return digest_of(&real);
	}

	let expect = reference_merge(a, b);
	let mut digest = 0u64;
	let mut base: Option<Result<MSet, ()>> = None;
	for (oi, (oa, ob)) in sw.orders.iter().enumerate() {
		st.eval();
		let real = real_merge(a, b, *oa, *ob, None, true);
		digest = digest.wrapping_mul(31).wrapping_add(digest_of(&real));
		let what = || format!("\ninsertion orders: A {oa:?}, B {ob:?}\nreal: {}", show_real(&real));
		let verdict: Result<MSet, ()> = match &real {
			Err(p) => {
				ctx.diff(&format!("panic@{}", p.file()), &format!("merge panicked at {}: {}", p.site, p.msg), || text(&what()));
				continue;
			},
			Ok(Err(k)) => {
				ctx.diff("result:key-invariant-broken", &k.0, || text(&what()));
				continue;
			},
			Ok(Ok(Err(_))) => Err(()),
			Ok(Ok(Ok(s))) => Ok(s.clone()),
		};
		if oi > 0 {
			// order independence: same verdict, same result as a set
			t.count("order:variants-compared");
			match (&base, &verdict) {
				(Some(Ok(x)), Ok(y)) if x == y => {},
				(Some(Err(())), Err(())) => {},
				(Some(Ok(x)), Ok(y)) => {
					let (k, w) = mapmodel::first_difference(x, y).unwrap_or(("other".into(), "differ".into()));
					ctx.diff(&format!("order:result-depends-on-insertion-order:{k}"), &format!("inserting the same entries in another order changed the merged set: {w}"), || text(&format!("{}\nresult with the sorted order:\n{}", what(), render(x))));
				},
				(Some(_), _) => ctx.diff("order:verdict-depends-on-insertion-order", "inserting the same entries in another order turned Ok into Err or Err into Ok", || text(&what())),
				(None, _) => {},
			}
			continue;
		}
		base = Some(verdict.clone());
		match verdict {
			Err(()) => {
				if !expect.must_err.is_empty() {
					if expect.must_err.len() == 1 {
						let class = *expect.must_err.iter().next().unwrap();
						t.count(match class {
							"first-namespace" => "err:first-namespace",
							"comment-conflict:mappings" => "err:comment-conflict:mappings",
							"comment-conflict:class" => "err:comment-conflict:class",
							"comment-conflict:field" => "err:comment-conflict:field",
							"comment-conflict:method" => "err:comment-conflict:method",
							"comment-conflict:parameter" => "err:comment-conflict:parameter",
							_ => "err:parameter-first-name-conflict",
						});
						if expect.near.contains(class) {
							t.count(match class {
								"comment-conflict:mappings" => "err:comments-differ-only-by-a-blank:mappings",
								"comment-conflict:class" => "err:comments-differ-only-by-a-blank:class",
								"comment-conflict:field" => "err:comments-differ-only-by-a-blank:field",
								"comment-conflict:method" => "err:comments-differ-only-by-a-blank:method",
								_ => "err:comments-differ-only-by-a-blank:parameter",
							});
						}
						if sw.mode == Mode::FirstNs {
							t.count(FIRST_NS_COUNTERS[x as usize]);
						}
						if sw.mode == Mode::LongDocs {
							t.count("err:long-comments-differ");
						}
						st.sample(class, || json!({"kind": "stated-conflict", "class": class, "case": text(&what())}));
					} else {
						t.count("err:several-conflicts-at-once");
					}
				} else if !expect.may_err.is_empty() {
					t.count("err(accepted, statement silent):parameter-first-name-on-one-side");
				} else {
					ctx.diff("refused:valid-pair", "two sets without any conflict were not merged", || text(&what()));
				}
			},
			Ok(r) => {
				if !expect.must_err.is_empty() {
					for class in &expect.must_err {
						ctx.diff(&format!("accepted:{class}"), &format!("the inputs conflict ({class}) but the merge was not refused"), || text(&what()));
					}
					continue;
				}
				let mut d = Diffs::default();
				compare(&expect.set, &r, a, b, &mut d);
				projection_law("A", a, b, &project(&r, 1), &mut d);
				projection_law("B", b, a, &project(&r, 2), &mut d);
				for (k, w) in &d.0 {
					ctx.diff(k, w, || text(&format!("{}\nexpected:\n{}", what(), render(&expect.set))));
				}
				t.count("ok");
				if sw.mode == Mode::LongDocs {
					t.count("ok:long-comment-joined");
				}
				if !expect.may_err.is_empty() {
					t.count("ok:parameter-first-name-on-one-side-kept");
				}
				if sw.mode == Mode::Plain {
					tally_sharing(sw.shape, a, b, t);
				}
				tally_content(a, b, t);
				tally_names(&r, t);
				if sw.orders.len() > 1 && (rich_multi(a) || rich_multi(b)) {
					t.count("ok:map-with-several-entries-some-commented-or-unnamed");
				}
				if !a.classes.is_empty() && !b.classes.is_empty() {
					t.count("ok:both-sides-contributed");
					st.distinct.add(&r);
					let mut probe = Tally::default();
					tally_sharing(sw.shape, a, b, &mut probe);
					if (1..4).all(|c| probe.sharing.iter().any(|l| l[c] > 0)) {
						t.count("ok:entries-of-all-three-kinds");
					}
					st.sample(match sw.mode { Mode::Plain => "ok:plain", Mode::TopDocs => "ok:top-comments", _ => "ok:other" }, || json!({"kind": "merged-pair", "case": text(&what())}));
				}
				if sw.orders.len() > 1 && (order_matters(a) || order_matters(b)) {
					t.count("order:pairs-with-more-than-one-entry-at-a-level");
				}
			},
		}
	}
	digest
}

const CHUNK: u64 = 512;

fn run_sweep(ctx: &'static Ctx, sw: &Sweep) -> Stats {
	let total = sw.cases();
	let chunks = total.div_ceil(CHUNK);
	(0..chunks).into_par_iter().fold(Stats::new, |mut st, ch| {
		let lo = ch * CHUNK;
		let hi = (lo + CHUNK).min(total);
		let mut t = Tally::default();
		vcore::watched(|| format!("sweep={} cases {lo}..{hi} (case index = (ia*|B| + ib)*nx + x)", sw.label), || {
			for idx in lo..hi {
				let (ia, ib, x) = sw.decode(idx);
				run_case(ctx, sw, ia, ib, x, &mut st, &mut t);
			}
		});
		t.flush(&mut st);
		st
	}).reduce(Stats::new, Stats::merge)
}

fn main() {
	let ctx: &'static Ctx = Box::leak(Box::new(Ctx::new("C09", "exploration")));
	if let Some(path) = ctx.replay.clone() {
		replay(ctx, &path);
	}
	let mut total = Stats::new();
	let mut bounds = Vec::new();
	let mut pairs = 0u64;
	for sw in sweeps(ctx.tier) {
		let st = run_sweep(ctx, &sw);
		let mut bnd = sw.bounds.clone();
		bnd["label"] = json!(sw.label);
		bnd["cases"] = json!(sw.cases());
		bnd["real_merges"] = json!(st.evaluations);
		bounds.push(bnd);
		pairs += sw.cases();
		total = total.merge(st);
	}

	for (l, level) in LEVELS.iter().enumerate() {
		for combo in COMBOS {
			let _ = l;
			ctx.floor(&format!("merged pairs with a {level} that is in: {combo}"), 1, total.get(&format!("sharing:{level}:{combo}")));
		}
	}
	for class in [
		"first-namespace", "comment-conflict:mappings", "comment-conflict:class", "comment-conflict:field", "comment-conflict:method", "comment-conflict:parameter",
		"descriptor-conflict:field", "descriptor-conflict:method", "parameter-index-conflict", "parameter-first-name-conflict",
	] {
		ctx.floor(&format!("refusals whose only conflict is {class}"), 1, total.get(&format!("err:{class}")));
	}
	for (i, name) in FIRST_NS_COUNTERS.iter().enumerate() {
		ctx.floor(&format!("refusals for B's namespaces {:?}", FIRST_NS_VARIANTS[i]), 1, total.get(name));
	}
	for level in ["mappings", "class", "field", "method", "parameter"] {
		ctx.floor(&format!("refusals whose only conflict is a {level} comment differing by a blank"), 1, total.get(&format!("err:comments-differ-only-by-a-blank:{level}")));
	}
	ctx.floor("refused stored-value conflicts in an entry that is not the first of its map", 1, total.get("err:stored-value-conflict-in-a-later-entry"));
	ctx.floor("merged entries with the same name in columns a and b", 100, total.get("merged-names:columns-a-and-b-equal"));
	ctx.floor("merged entries whose column a repeats the first name", 100, total.get("merged-names:column-a-equals-first-name"));
	ctx.floor("merged entries whose column b repeats the first name", 100, total.get("merged-names:column-b-equals-first-name"));
	ctx.floor("merged entries with a name in neither column", 100, total.get("merged-names:neither-column"));
	ctx.floor("merged pairs with a several-entry map holding a comment or an unnamed entry, under insertion orders", 1000, total.get("ok:map-with-several-entries-some-commented-or-unnamed"));
	ctx.floor("successful merges to which both sides contributed", 1000, total.get("ok:both-sides-contributed"));
	ctx.floor("successful merges with A-only, B-only and shared entries at once", 100, total.get("ok:entries-of-all-three-kinds"));
	ctx.floor("merged entries whose comment came from A only", 100, total.get("merged-comment:from-A"));
	ctx.floor("merged entries whose comment came from B only", 100, total.get("merged-comment:from-B"));
	ctx.floor("merged entries with the same comment on both sides", 100, total.get("merged-comment:equal-on-both-sides"));
	ctx.floor("merged pairs where the insertion order is observable (more than one entry at a level)", 1000, total.get("order:pairs-with-more-than-one-entry-at-a-level"));
	ctx.floor("order variants compared with the sorted order", 1000, total.get("order:variants-compared"));
	let long_each = (LONG_DOC_LEVELS * (LONG_DOC_MAX + 1) * LONG_DOC_TAILS.len()) as u64;
	ctx.floor("refusals of long comments that differ (every level x length x width of the last character)", long_each, total.get("err:long-comments-differ"));
	ctx.floor("merges of long comments (one side only, equal on both)", 3 * long_each, total.get("ok:long-comment-joined"));

	let coverage = json!({
		"evaluations": total.evaluations,
		"distinct_nontrivial": total.distinct.len(),
		"rule": "one evaluation = one call of the real Mappings::merge on two freshly built real Mappings<2,_> objects (one per pair and insertion-order variant), result projected with from_quill::<3> and judged by the reference join + projection law. distinct_nontrivial = distinct merged sets (as sets) among successful merges in which both A and B have at least one class",
		"exhaustive": true,
		"samples": total.samples,
		"bounds": {"sweeps": bounds, "cases": pairs, "namespaces": {"A": ["s", "a"], "B": ["s", "b"], "B_first_namespace_differs": FIRST_NS_VARIANTS}},
		"outcomes": total.outcomes,
	});
	ctx.finish(coverage, &[
		"a comment is not tied to a namespace: in the projection law an entry of A that has no comment may come back with B's comment of the same entry (the statement's 'comments from whichever side has one')",
		"the first-namespace name of a parameter is not part of its key: two different names must be refused (no result projects back onto both sides); a name on one side only may be refused or kept, never dropped (statement silent)",
		"comments are compared as strings: two comments that differ only by a leading / trailing blank are differing comments (must be refused)",
		"the placement of names does not depend on what the names are: a name equal to the entry's first name, or equal on both sides, is a name like any other",
		"conflicting descriptors / parameter indices can only exist as stored values that disagree under the same key; they are produced by overwriting the public info.desc / info.index of one real object. A stored *first name* that disagrees with its key is outside the statement and explored for panics only",
		"equal names of the second namespaces of A and B are not in the statement: Ok (judged like any merge) or Err are accepted",
		"the order of the entries in the result is not part of the property; results are compared as sets",
		"mapmodel::{to_quill_ordered, from_quill} convert faithfully (public API only)",
	]);
}

fn replay(ctx: &'static Ctx, path: &std::path::Path) -> ! {
	let body = vcore::replay_body(path);
	let line = body.lines().find(|l| l.starts_with("case sweep=")).unwrap_or_else(|| vcore::machinery_fail("no case line in the replay file"));
	let field = |name: &str| -> &str {
		line.split_whitespace().find_map(|w| w.strip_prefix(name)).unwrap_or_else(|| vcore::machinery_fail("incomplete case line"))
	};
	let num = |name: &str| -> u64 { field(name).parse().unwrap_or_else(|_| vcore::machinery_fail("bad number in case line")) };
	let label = field("sweep=");
	let sw = [vcore::Tier::Quick, vcore::Tier::Thorough].into_iter().flat_map(sweeps).find(|s| s.label == label).unwrap_or_else(|| vcore::machinery_fail("unknown sweep"));
	let (ia, ib, x) = (num("ia=") as usize, num("ib=") as usize, num("x="));
	if ia >= sw.a.len() || ib >= sw.b.len() || x >= sw.nx() {
		vcore::machinery_fail("case indices out of range");
	}
	let mut st = Stats::new();
	let d1 = run_case(ctx, &sw, ia, ib, x, &mut st, &mut Tally::default());
	let d2 = run_case(ctx, &sw, ia, ib, x, &mut Stats::new(), &mut Tally::default());
	if d1 != d2 {
		vcore::machinery_fail("replay is not deterministic");
	}
	let (a, b) = inputs(&sw, ia, ib, x);
	println!("{}", case_text(&sw, ia, ib, x, &a, &b, ""));
	if sw.mode == Mode::Mutate {
		let tg = &sw.muts[x as usize];
		println!("stored value overwritten: {tg:?}");
		if has_target(if tg.side == Side::A { &a } else { &b }, tg) {
			println!("real: {}", show_real(&real_merge(&a, &b, Order::Sorted, Order::Sorted, Some(tg), true)));
		}
	} else {
		let e = reference_merge(&a, &b);
		println!("real: {}
reference: must be refused for {:?}, may be refused for {:?}, otherwise:\n{}", show_real(&real_merge(&a, &b, Order::Sorted, Order::Sorted, None, true)), e.must_err, e.may_err, render(&e.set));
	}
	ctx.finish(json!({"evaluations": st.evaluations, "distinct_nontrivial": 1, "rule": "replay of one case", "samples": ["replay"], "exhaustive": false}), &[]);
}
